#![no_main]
//! Coverage-guided search over byte sessions (a search aid for the correspondence check,
//! never a verdict by itself: whatever it keeps is replayed through the harness and the Lean model).
//!
//! input: b0 b1 = geometry (< 128: an entry of the tables below, else 1 + (b - 128) % 40: big screens only through the table); then a byte stream in which 0xFF introduces the operations that have
//! no byte spelling: FF 00 display, FF 01 a b resize, FF 02 cut the feed here, FF 03 k
//! select_other_charset, FF FF a literal FF.  `tools/fz2sess.py` decodes the same format.
use libfuzzer_sys::fuzz_target;
use memterm::byte_parser::ByteParser;
use memterm::parser_listener::ParserListener;
use memterm::screen::Screen;
use std::sync::{Arc, Mutex};

const COLS: [u32; 16] = [1, 2, 3, 4, 5, 6, 7, 8, 9, 10, 12, 17, 20, 40, 80, 132];
const LINES: [u32; 8] = [1, 2, 3, 4, 5, 6, 10, 24];

fuzz_target!(|data: &[u8]| {
    if data.len() < 2 || data.len() > 4096 {
        return;
    }
    let cols = if data[0] < 128 { COLS[(data[0] & 15) as usize] } else { 1 + ((data[0] - 128) as u32) % 40 };
    let lines = if data[1] < 128 { LINES[(data[1] & 7) as usize] } else { 1 + ((data[1] - 128) as u32) % 40 };
    let screen = Arc::new(Mutex::new(Screen::new(cols, lines)));
    let mut p = ByteParser::new(screen.clone());
    let d = &data[2..];
    let mut buf: Vec<u8> = Vec::new();
    let mut i = 0;
    macro_rules! flush {
        () => {
            if !buf.is_empty() {
                p.feed(&buf);
                buf.clear();
            }
        };
    }
    while i < d.len() {
        let b = d[i];
        if b != 0xFF {
            buf.push(b);
            i += 1;
            continue;
        }
        match d.get(i + 1) {
            Some(0x00) => {
                flush!();
                let _ = screen.lock().unwrap().display();
                i += 2;
            }
            Some(0x01) if i + 3 < d.len() => {
                flush!();
                let l = 1 + (d[i + 2] as u32) % 40;
                let c = if d[i + 3] < 200 { 1 + (d[i + 3] as u32) % 24 } else { COLS[((d[i + 3] - 200) & 15) as usize] };
                screen.lock().unwrap().resize(Some(l), Some(c));
                i += 4;
            }
            Some(0x02) => {
                flush!();
                i += 2;
            }
            Some(0x03) if i + 2 < d.len() => {
                flush!();
                let code = ["@", "G", "8", "x"][(d[i + 2] & 3) as usize];
                p.select_other_charset(code);
                i += 3;
            }
            Some(0xFF) => {
                buf.push(0xFF);
                i += 2;
            }
            _ => {
                buf.push(0xFF);
                i += 1;
            }
        }
    }
    flush!();
    let _ = screen.lock().unwrap().display();
});
