#![no_main]
//! Second coverage-guided target: DIRECT calls on `Screen` - the shapes the parser can never deliver
//! (an absent first argument, several characters in one `draw`, `resize(None, Some(c))`, ...).  The
//! format is decoded by harness/src/apifz.rs, which is compiled into this target and into
//! `mtharness apisess`, so what the search ran and what the harness judges are the same calls.  No oracle
//! here: what libFuzzer keeps is judged by the harness and the Lean driver like any other session.
use libfuzzer_sys::fuzz_target;
use memterm::screen::Screen;

#[allow(dead_code)]
#[path = "../../harness/src/call.rs"]
mod call;
#[allow(dead_code)]
#[path = "../../harness/src/apifz.rs"]
mod apifz;

fuzz_target!(|data: &[u8]| {
    if let Some(d) = apifz::decode(data) {
        let mut sc = Screen::new(d.columns, d.lines);
        for c in &d.calls {
            let _ = c.apply(&mut sc);
        }
    }
});
