import Memterm.Check
import Memterm.Props.Exec
import Memterm.Cover
import Memterm.Sparse
import Std.Data.HashMap

/-
  mtdriver: reads the transition log written by the Rust harness (states
  dumped from the real crate) and checks, per transition and separately
  counted:
    INV     C09 well-formedness of every dumped state
    HIDDEN  keys stored outside the grid
    PANIC   the implementation panicked in a call / in feed()
    CORR    one-step correspondence  step(obs pre, call) = obs post   (dirty excluded)
    CORRD   the same for the dirty set (C17's tie)
    PROP    an executable property predicate (the definitions the theorems are about) is false
    PARSE   listener events of the shipping parser differ from the model parser's
    DISP    display() output differs from the model's rendering, or display changed the state
    TIE     something the model cannot represent
-/
open Memterm

structure Counters where
  transitions : Nat := 0
  nontrivial : Nat := 0
  states : Nat := 0
  feeds : Nat := 0
  events : Nat := 0
  sessions : Nat := 0
  findings : Nat := 0
  perCall : List (String × Nat × Nat) := []   -- name, count, nontrivial
  geoms : List (Nat × Nat) := []
  samples : List String := []
  tags : Std.HashMap String Nat := {}
  rawSame : Nat := 0
  rawDiff : Nat := 0
  rawSamples : List String := []

def Counters.bump (c : Counters) (name : String) (nontriv : Bool) : Counters :=
  let rec go : List (String × Nat × Nat) → List (String × Nat × Nat)
    | [] => [(name, 1, if nontriv then 1 else 0)]
    | (n, a, b) :: rest =>
      if n == name then (n, a + 1, if nontriv then b + 1 else b) :: rest else (n, a, b) :: go rest
  { c with transitions := c.transitions + 1,
           nontrivial := if nontriv then c.nontrivial + 1 else c.nontrivial,
           perCall := go c.perCall }

structure St where
  wtab : Array (Nat × Nat × Bool) := #[]
  nftab : Array (List Nat × List Nat) := #[]
  session : String := "-"
  opIndex : Nat := 0
  bp : ByteParser := ByteParser.init
  last : Option Dump := none
  lastLine : String := ""
  pending : Option (Dump × Call) := none
  disp : Option (List (List Nat)) := none
  expected : Option (List Call) := none
  feedIdx : Nat := 0
  feedBytes : Bool := false
  cnt : Counters := {}
  dead : Bool := false

def St.env (st : St) : Env :=
  { W := fun c => match st.wtab.find? (fun (k, _, _) => k == c) with
      | some (_, w, _) => w
      | none => if 32 ≤ c && c < 127 then 1 else 0
    CM := fun c => match st.wtab.find? (fun (k, _, _) => k == c) with
      | some (_, _, m) => m
      | none => false
    NFC := fun s => match st.nftab.find? (fun (k, _) => k == s) with
      | some (_, v) => v
      | none => s }

def emit (st : St) (kind : String) (call : String) (detail : String) : IO St := do
  IO.println s!"FIND kind={kind} session={st.session} op={st.opIndex} call={call} detail={detail}"
  return { st with cnt := { st.cnt with findings := st.cnt.findings + 1 } }

def checkState (st : St) (d : Dump) (call : String) : IO St := do
  let mut st := st
  st := { st with cnt := { st.cnt with states := st.cnt.states + 1 } }
  let ill := d.illFormed
  if !ill.isEmpty then
    st ← emit st "INV" call (String.intercalate "," ill)
  let hid := d.hidden
  if !hid.isEmpty then
    st ← emit st "HIDDEN" call (toString (hid.take 4))
  let un := d.unrepresentable
  if !un.isEmpty then
    st ← emit st "TIE" call (String.intercalate "," un)
  return st

def strOfCps (l : List Nat) : String := String.ofList (l.map Char.ofNat)

/-- the raw buffer of a dumped state as a sparse-model buffer -/
def Memterm.Dump.toSparse (d : Dump) : Sparse.SScreen :=
  { s := d.toScreen,
    buf := d.rowKeys.map fun y => (y, (d.cells.toList.filter (fun (y', _, _) => y' == y)).map fun (_, x, c) => (x, c)) }

/-- canonical form of a buffer: rows and cells sorted by key -/
def canonBuf (b : Sparse.Buf) : List (Nat × List (Nat × Cell)) :=
  let sortK {α : Type} (l : List (Nat × α)) : List (Nat × α) := (l.toArray.qsort (fun a b => a.1 < b.1)).toList
  (sortK b).map fun (y, row) => (y, sortK row)

/-- where the sparse model's buffer after `c` differs from the implementation's (keys only, then cells) -/
def rawDiffs (env : Env) (pre : Dump) (c : Call) (post : Dump) : List String :=
  let m := canonBuf (Sparse.step env pre.toSparse c).buf
  let i := canonBuf post.toSparse.buf
  if m == i then []
  else
    let mk := m.map (·.1)
    let ik := i.map (·.1)
    if mk != ik then [s!"row keys: model {mk} impl {ik}"]
    else
      (m.zip i).filterMap fun ((y, a), (_, b)) =>
        if a == b then none
        else if a.map (·.1) != b.map (·.1) then some s!"row {y} cell keys: model {a.map (·.1)} impl {b.map (·.1)}"
        else some s!"row {y}: same keys, different cells"

def checkTransition (st : St) (pre : Dump) (c : Call) (post : Dump) : IO St := do
  let mut st := st
  let env := st.env
  let s0 := pre.toScreen
  let s1 := step env s0 c
  let diffs := compareState s1 post (modeCands pre post c)
  let ddirty := compareDirty s1 post
  let nontriv := !(sameObs pre post).isEmpty
  st := { st with cnt := st.cnt.bump c.name nontriv }
  if st.cnt.samples.length < 6 && nontriv && st.cnt.transitions % 97 == 1 then
    st := { st with cnt := { st.cnt with samples := s!"{st.session}#{st.opIndex}:{reprStr c}" :: st.cnt.samples } }
  -- measurement (never a finding): model branches compared, raw-buffer agreement of the sparse layer
  let mut tg := st.cnt.tags
  for t in Cover.tags env s0 c do
    tg := tg.insert t (tg.getD t 0 + 1)
  let rd := rawDiffs env pre c post
  let rs := if !rd.isEmpty && st.cnt.rawSamples.length < 5 then
      s!"{st.session}#{st.opIndex}:{c.name}:{rd.head!}" :: st.cnt.rawSamples else st.cnt.rawSamples
  let nSame := if rd.isEmpty then st.cnt.rawSame + 1 else st.cnt.rawSame
  let nDiff := if rd.isEmpty then st.cnt.rawDiff else st.cnt.rawDiff + 1
  st := { st with cnt := { st.cnt with tags := tg, rawSame := nSame, rawDiff := nDiff, rawSamples := rs } }
  if !diffs.isEmpty then
    st ← emit st "CORR" c.name (String.intercalate "," diffs)
  if !ddirty.isEmpty then
    st ← emit st "CORRD" c.name "dirty"
  -- executable property predicates on the implementation's own transition
  let post' := post.toScreen
  for (prop, what) in propFailures env (modeCands pre post c) s0 c post' do
    st ← emit st s!"PROP-{prop}" c.name what
  -- display
  if c == Call.display then
    match st.disp with
    | some lines =>
      let want := display env s0
      if lines != want then
        st ← emit st "DISP" c.name s!"rendering differs: impl={lines.map strOfCps} model={want.map strOfCps}"
    | none => st ← emit st "DISP" c.name "no display output logged"
    if nontriv then
      st ← emit st "DISP" c.name s!"display() changed the observable state: {sameObs pre post}"
  st ← checkState st post c.name
  return st

def splitToks (line : String) : Array String :=
  (line.splitOn " ").toArray

def handleLine (st : St) (line : String) : IO St := do
  if line.isEmpty then return st
  let toks := splitToks line
  let head := toks[0]!
  let mut st := st
  match head with
  | "N" =>
    let g := ((toks.getD 1 "0").toNat!, (toks.getD 2 "0").toNat!)
    let geoms := if st.cnt.geoms.contains g then st.cnt.geoms else g :: st.cnt.geoms
    let cnt := { st.cnt with sessions := st.cnt.sessions + 1, geoms := geoms }
    st := { st with session := toks.getD 4 "-", opIndex := 0, bp := ByteParser.init, last := none,
                    lastLine := "", pending := none, disp := none, expected := none, dead := false,
                    wtab := #[], nftab := #[], cnt := cnt }
    return st
  | "W" =>
    match runRd (do let a ← rdNat; let b ← rdNat; let c ← rdNat; pure (a, b, c != 0)) toks 1 with
    | .ok e => return { st with wtab := st.wtab.push e }
    | .error e => emit st "TIE" "-" s!"bad W line: {e}"
  | "NF" =>
    match runRd (do let a ← rdList; let b ← rdList; pure (a, b)) toks 1 with
    | .ok e => return { st with nftab := st.nftab.push e }
    | .error e => emit st "TIE" "-" s!"bad NF line: {e}"
  | "S" | "=" =>
    let d? : Except String Dump :=
      if head == "=" then
        match st.last with
        | some d => .ok d
        | none => .error "= without previous state"
      else runRd rdDump toks 1
    match d? with
    | .error e => emit st "TIE" "-" s!"bad state line: {e}"
    | .ok d =>
      match st.pending with
      | some (pre, c) =>
        st := { st with pending := none, opIndex := st.opIndex + 1 }
        st ← checkTransition st pre c d
        return { st with last := some d, disp := none }
      | none =>
        if st.last.isNone then
          st ← checkState st d "new"
        return { st with last := some d }
  | "C" =>
    match runRd rdCall toks 1 with
    | .error e => emit st "TIE" "-" s!"bad call line: {e}"
    | .ok c =>
      st := { st with cnt := { st.cnt with events := st.cnt.events + 1 } }
      -- parser lockstep
      match st.expected with
      | some (e :: rest) =>
        if e == c then st := { st with expected := some rest }
        else
          st ← emit st "PARSE" c.name s!"feed#{st.feedIdx}{if st.feedBytes then "[bytes]" else ""}: implementation called {reprStr c}, model expected {reprStr e}"
          st := { st with expected := none }
      | some [] =>
        st ← emit st "PARSE" c.name s!"feed#{st.feedIdx}{if st.feedBytes then "[bytes]" else ""}: implementation called {reprStr c}, model expected no further call"
        st := { st with expected := none }
      | none => pure ()
      match st.last with
      | some pre => return { st with pending := some (pre, c) }
      | none => emit st "TIE" "-" "call without pre-state"
  | "E" =>
    match runRd rdCall toks 1 with
    | .error e => emit st "TIE" "-" s!"bad event line: {e}"
    | .ok c =>
      st := { st with cnt := { st.cnt with events := st.cnt.events + 1 } }
      match st.expected with
      | some (e :: rest) =>
        if e == c then return { st with expected := some rest }
        else
          st ← emit st "PARSE" c.name s!"feed#{st.feedIdx}{if st.feedBytes then "[bytes]" else ""}: implementation called {reprStr c}, model expected {reprStr e}"
          return { st with expected := none }
      | some [] =>
        st ← emit st "PARSE" c.name s!"feed#{st.feedIdx}{if st.feedBytes then "[bytes]" else ""}: implementation called {reprStr c}, model expected no further call"
        return { st with expected := none }
      | none => return st
  | "DISP" =>
    match runRd (do
        let n ← rdNat
        let mut out : List (List Nat) := []
        for _ in [0:n] do out := (← rdList) :: out
        pure out.reverse) toks 1 with
    | .ok l => return { st with disp := some l }
    | .error e => emit st "TIE" "-" s!"bad DISP line: {e}"
  | "P" =>
    match st.pending with
    | some (_, c) =>
      st := { st with pending := none, opIndex := st.opIndex + 1, dead := true }
      emit st "PANIC" c.name (String.intercalate " " (toks.toList.drop 1))
    | none => emit st "PANIC" "-" (String.intercalate " " (toks.toList.drop 1))
  | "F" | "FB" =>
    match runRd rdList toks 1 with
    | .error e => emit st "TIE" "-" s!"bad feed line: {e}"
    | .ok data =>
      let r := if head == "F" then
          let r := feed st.bp.parser data
          ({ st.bp with parser := r.1 }, r.2)
        else feedBytes st.bp data
      return { st with bp := r.1, expected := some r.2, feedIdx := st.feedIdx + 1, feedBytes := head == "FB",
                       cnt := { st.cnt with feeds := st.cnt.feeds + 1 } }
  | "FQ" | "FBQ" =>
    -- a feed made while the log was quiet: the model recogniser consumes it too, nothing is compared
    match runRd rdList toks 1 with
    | .error e => emit st "TIE" "-" s!"bad quiet feed line: {e}"
    | .ok data =>
      let r := if head == "FQ" then
          let r := feed st.bp.parser data
          ({ st.bp with parser := r.1 }, r.2)
        else feedBytes st.bp data
      return { st with bp := r.1, expected := none }
  | "EF" =>
    match st.expected with
    | some (e :: _) =>
      st ← emit st "PARSE" e.name s!"feed#{st.feedIdx}{if st.feedBytes then "[bytes]" else ""}: model expected {reprStr e}, implementation made no further call"
      return { st with expected := none }
    | _ => return { st with expected := none }
  | "PF" =>
    st := { st with dead := true, expected := none }
    emit st "PANIC" "feed" (String.intercalate " " (toks.toList.drop 1))
  | "PX" =>
    emit st "PANIC" "session" (String.intercalate " " (toks.toList.drop 1))
  | "U" =>
    match runRd rdList toks 1 with
    | .ok code => return { st with bp := selectOtherCharset st.bp code }
    | .error e => emit st "TIE" "-" s!"bad U line: {e}"
  | "U8" =>
    return { st with bp := { st.bp with parser := { st.bp.parser with useUtf8 := toks.getD 1 "1" == "1" } } }
  | "XM" =>
    emit st "PARSE" "mode_switch" s!"{toks.getD 2 "mode switch"} made {toks.getD 1 "?"} listener call(s): a mode switch is not input (shiftIn / shiftOut / defineCharset must come from the stream only)"
  | "DEC" =>
    -- model-free: ByteParser's events differ from those of the crate's own character recogniser fed with the
    -- reference decoding of the same bytes
    let rest := (line.splitOn " | ")
    emit st "DECODE" "feed" s!"[{toks.getD 2 "?"} mode] the bytes of this feed were not decoded as the reference decodes them (UTF-8: a conforming streaming decoder; 8-bit: one byte, one code point): call #{toks.getD 1 "?"} is `{rest.getD 1 "?"}`, the crate's own recogniser makes `{rest.getD 2 "?"}` of the reference decoding"
  | "Z" | "X" => return st
  | other => emit st "TIE" "-" s!"unknown log line kind {other}"

partial def loop (h : IO.FS.Stream) (st : St) : IO St := do
  let line ← h.getLine
  if line.isEmpty then return st
  let st ← handleLine st line.trimAscii.toString
  loop h st

def main (args : List String) : IO UInt32 := do
  match args with
  | [path] =>
    let h ← IO.FS.Handle.mk path IO.FS.Mode.read
    let st ← loop (IO.FS.Stream.ofHandle h) {}
    let c := st.cnt
    let per := String.intercalate ";" (c.perCall.map fun (n, a, b) => s!"{n}:{a}:{b}")
    let geoms := String.intercalate ";" (c.geoms.map fun (a, b) => s!"{a}x{b}")
    IO.println s!"SUMMARY sessions={c.sessions} states={c.states} transitions={c.transitions} nontrivial={c.nontrivial} feeds={c.feeds} events={c.events} findings={c.findings}"
    IO.println s!"PERCALL {per}"
    IO.println s!"GEOMS {geoms}"
    let tagl := String.intercalate ";" (c.tags.toList.map fun (k, v) => s!"{k}={v}")
    IO.println s!"TAGS {tagl}"
    IO.println s!"RAW same={c.rawSame} diff={c.rawDiff}"
    for s in c.rawSamples do
      IO.println s!"RAWSAMPLE {s}"
    for s in c.samples do
      IO.println s!"SAMPLE {s}"
    return 0
  | _ =>
    IO.eprintln "usage: mtdriver <log>"
    return 2
