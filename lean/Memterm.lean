-- This module serves as the root of the `Memterm` library.
-- Import modules here that should be built as part of the library.
import Memterm.Basic
