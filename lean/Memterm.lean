import Memterm.Types
import Memterm.Generated.Tables
import Memterm.Screen
