import Memterm.Spec.C16
import Memterm.Spec.C15
import Memterm.Spec.C04
import Memterm.Props.Frame
import Memterm.Parser

/- Definitions (executable predicates and documented forms) of C17; the theorems are in Memterm/Props/C17.lean. -/
namespace Memterm
namespace C17

open Gen

/-- every row of the current screen is marked -/
def AllDirty (s : Screen) : Prop := ∀ y, y < s.lines → s.dirty y = true

/-- rows whose cells differ are marked, marks are only added, the height is the same -/
structure Good (s s' : Screen) : Prop where
  covers : ∀ y x, y < s'.lines → s'.cell y x ≠ s.cell y x → s'.dirty y = true
  mono : ∀ d, s.dirty d = true → s'.dirty d = true
  lines : s'.lines = s.lines

/-- one step: either `Good`, or every row of the new screen is marked -/
def Step (s s' : Screen) : Prop := Good s s' ∨ AllDirty s'

/-- the loop invariant of `draw`: every changed row is marked, except possibly the row the cursor is on -/
structure GoodExcept (s s' : Screen) : Prop where
  covers : ∀ y x, y < s'.lines → s'.cell y x ≠ s.cell y x → s'.dirty y = true ∨ y = s'.cursor.y
  mono : ∀ d, s.dirty d = true → s'.dirty d = true
  lines : s'.lines = s.lines

def StepExcept (s s' : Screen) : Prop := GoodExcept s s' ∨ AllDirty s'

/-- a screen-wide change marks every row -/
def screenWide (s : Screen) : Call → Prop
  | .reset => True
  | .alignmentDisplay => True
  | .resize l c => ¬ (l.getD s.lines = s.lines ∧ c.getD s.columns = s.columns)
  | .setMode ms p => (shiftModes ms p).contains DECSCNM = true ∨ (shiftModes ms p).contains DECCOLM = true
  | .resetMode ms p => (shiftModes ms p).contains DECSCNM = true ∨ (shiftModes ms p).contains DECCOLM = true
  | .index => s.cursor.y = bottomMargin s
  | .linefeed => s.cursor.y = bottomMargin s
  | .reverseIndex => s.cursor.y = topMargin s
  | _ => False

def screenWideB (s : Screen) : Call → Bool
  | .reset => true
  | .alignmentDisplay => true
  | .resize l c => !(l.getD s.lines == s.lines && c.getD s.columns == s.columns)
  | .setMode ms p => (shiftModes ms p).contains DECSCNM || (shiftModes ms p).contains DECCOLM
  | .resetMode ms p => (shiftModes ms p).contains DECSCNM || (shiftModes ms p).contains DECCOLM
  | .index => s.cursor.y == bottomMargin s
  | .linefeed => s.cursor.y == bottomMargin s
  | .reverseIndex => s.cursor.y == topMargin s
  | _ => false

def allDirtyB (s : Screen) : Bool := (List.range s.lines).all (fun y => s.dirty y)

def goodB (pre post : Screen) : Bool :=
  allCellsB post.lines (max pre.columns post.columns) (fun y x => decide (post.cell y x = pre.cell y x) || post.dirty y) &&
  (List.range (pre.lines + 3)).all (fun d => !pre.dirty d || post.dirty d) &&
  post.lines == pre.lines

def propC17 (pre : Screen) (c : Call) (post : Screen) : Bool :=
  match c with
  | .clearDirty => (List.range (pre.lines + 3)).all (fun d => !post.dirty d) && sameCellsB pre post
  | _ =>
    (goodB pre post || allDirtyB post) && (!screenWideB pre c || allDirtyB post) &&
    (List.range (post.lines + 8)).all (fun d => !post.dirty d || decide (d < post.lines))

end C17
end Memterm

