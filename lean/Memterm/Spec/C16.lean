import Memterm.Spec.C14
import Memterm.Props.Frame
import Memterm.Parser

/- Definitions (executable predicates and documented forms) of C16; the theorems are in Memterm/Props/C16.lean. -/
namespace Memterm
namespace C16

open Gen

/-- the documented grid after `resize(l, c)`: rows dropped from the top when shrinking,
    columns from the right, new area blank -/
def expectedCell (s : Screen) (l c : Nat) : Nat → Nat → Cell := fun y x =>
  let d := s.lines - l
  if x < s.columns ∧ x < c ∧ y + d < s.lines ∧ y < l then s.cell (y + d) x else defaultCell s

structure Kept (s s' : Screen) : Prop where
  mode : s'.mode = s.mode
  tabstops : s'.tabstops = s.tabstops
  title : s'.title = s.title
  icon : s'.icon = s.icon
  g0 : s'.g0 = s.g0
  g1 : s'.g1 = s.g1
  g1Active : s'.g1Active = s.g1Active
  savepoints : s'.savepoints = s.savepoints
  attr : s'.cursor.attr = s.cursor.attr
  hidden : s'.cursor.hidden = s.cursor.hidden
  savedColumns : s'.savedColumns = s.savedColumns

def propC16 (cands : List Nat) (pre : Screen) (c : Call) (post : Screen) : Bool :=
  match c with
  | .resize lines columns =>
    let l := lines.getD pre.lines
    let cc := columns.getD pre.columns
    if l == pre.lines && cc == pre.columns then
      -- a complete no-op
      decide (post.cursor = pre.cursor) && sameSettingsB cands pre post && sameCellsB pre post && sameDirtyB pre post
    else
      post.lines == l && post.columns == cc && post.margins == none &&
      (List.range (max l pre.lines + 3)).all (fun d => post.dirty d == decide (d < l)) &&
      allCellsB l cc (fun y x => decide (post.cell y x = expectedCell pre l cc y x)) &&
      decide (post.cursor.y < l) && decide (post.cursor.x ≤ cc - 1) &&
      decide (post.cursor.attr = pre.cursor.attr) && post.cursor.hidden == pre.cursor.hidden &&
      cands.all (fun m => post.mode m == pre.mode m) &&
      (List.range (max cc pre.columns + 3)).all (fun k => post.tabstops k == pre.tabstops k) &&
      post.title == pre.title && post.icon == pre.icon && decide (post.g0 = pre.g0) && decide (post.g1 = pre.g1) &&
      post.g1Active == pre.g1Active && decide (post.savepoints = pre.savepoints) &&
      post.savedColumns == pre.savedColumns
  | _ => true

end C16
end Memterm

