import Memterm.Props.Frame
import Memterm.Parser

/- Definitions (executable predicates and documented forms) of C20; the theorems are in Memterm/Props/C20.lean. -/
namespace Memterm
namespace C20

open Gen

def override (l : List (Nat × Nat)) (base : Nat → Nat) (c : Nat) : Nat :=
  match l.find? (fun p => p.1 == c) with
  | some p => p.2
  | none => base c

def lat1Spec : List Nat := List.range 256

/-- DEC Special Graphics (VT100 line drawing), Linux GRAF_MAP -/
def vt100Overrides : List (Nat × Nat) :=
  [(0x2b, 0x2192), (0x2c, 0x2190), (0x2d, 0x2191), (0x2e, 0x2193), (0x30, 0x2588), (0x5f, 0x00a0),
   (0x60, 0x25c6), (0x61, 0x2592), (0x62, 0x2409), (0x63, 0x240c), (0x64, 0x240d), (0x65, 0x240a),
   (0x66, 0x00b0), (0x67, 0x00b1), (0x68, 0x2591), (0x69, 0x240b), (0x6a, 0x2518), (0x6b, 0x2510),
   (0x6c, 0x250c), (0x6d, 0x2514), (0x6e, 0x253c), (0x6f, 0x23ba), (0x70, 0x23bb), (0x71, 0x2500),
   (0x72, 0x23bc), (0x73, 0x23bd), (0x74, 0x251c), (0x75, 0x2524), (0x76, 0x2534), (0x77, 0x252c),
   (0x78, 0x2502), (0x79, 0x2264), (0x7a, 0x2265), (0x7b, 0x03c0), (0x7c, 0x2260), (0x7d, 0x00a3),
   (0x7e, 0x00b7)]

def vt100Spec : List Nat := (List.range 256).map (override vt100Overrides id)

/-- code page 437 with the classic glyphs for the control range -/
def cp437 : List Nat :=
  [   0, 9786, 9787, 9829, 9830, 9827, 9824, 8226, 9688, 9675, 9689, 9794, 9792, 9834, 9835, 9788,
   9658, 9668, 8597, 8252, 182, 167, 9644, 8616, 8593, 8595, 8594, 8592, 8735, 8596, 9650, 9660,
   32, 33, 34, 35, 36, 37, 38, 39, 40, 41, 42, 43, 44, 45, 46, 47,
   48, 49, 50, 51, 52, 53, 54, 55, 56, 57, 58, 59, 60, 61, 62, 63,
   64, 65, 66, 67, 68, 69, 70, 71, 72, 73, 74, 75, 76, 77, 78, 79,
   80, 81, 82, 83, 84, 85, 86, 87, 88, 89, 90, 91, 92, 93, 94, 95,
   96, 97, 98, 99, 100, 101, 102, 103, 104, 105, 106, 107, 108, 109, 110, 111,
   112, 113, 114, 115, 116, 117, 118, 119, 120, 121, 122, 123, 124, 125, 126, 8962,
   199, 252, 233, 226, 228, 224, 229, 231, 234, 235, 232, 239, 238, 236, 196, 197,
   201, 230, 198, 244, 246, 242, 251, 249, 255, 214, 220, 162, 163, 165, 8359, 402,
   225, 237, 243, 250, 241, 209, 170, 186, 191, 8976, 172, 189, 188, 161, 171, 187,
   9617, 9618, 9619, 9474, 9508, 9569, 9570, 9558, 9557, 9571, 9553, 9559, 9565, 9564, 9563, 9488,
   9492, 9524, 9516, 9500, 9472, 9532, 9566, 9567, 9562, 9556, 9577, 9574, 9568, 9552, 9580, 9575,
   9576, 9572, 9573, 9561, 9560, 9554, 9555, 9579, 9578, 9496, 9484, 9608, 9604, 9612, 9616, 9600,
   945, 223, 915, 960, 931, 963, 181, 964, 934, 920, 937, 948, 8734, 966, 949, 8745,
   8801, 177, 8805, 8804, 8992, 8993, 247, 8776, 176, 8729, 183, 8730, 8319, 178, 9632, 160]

/-- the IBM PC table as published in Linux / pyte: CP437 with U+25B6 / U+25C0 at 0x10 / 0x11 -/
def ibmpcSpec : List Nat := (List.range 256).map (override [(0x10, 0x25b6), (0x11, 0x25c0)] (fun c => cp437.getD c c))

/-- pyte's VAX42 table: the IBM PC table with eight overrides -/
def vax42Spec : List Nat :=
  (List.range 256).map (override
    [(0x21, 0x043b), (0x3f, 0x0435), (0x61, 0x0441), (0x68, 0x0435), (0x6f, 0x043a), (0x72, 0x0442),
     (0x74, 0x043b), (0x75, 0x0435)] (fun c => ibmpcSpec.getD c c))

def specTable : CsId → List Nat
  | .lat1 => lat1Spec
  | .vt100 => vt100Spec
  | .ibmpc => ibmpcSpec
  | .vax42 => vax42Spec

/-- the documented translation of a drawn code point -/
def translateSpec (s : Screen) (c : Nat) : Nat :=
  if c > 255 then c else (specTable (if s.g1Active then s.g1 else s.g0)).getD c c

def codeSet (code : List Nat) : Option CsId :=
  if code = [66] then some .lat1 else if code = [48] then some .vt100
  else if code = [85] then some .ibmpc else if code = [86] then some .vax42 else none

/-- `draw` with the documented translation instead of the regenerated tables -/
def drawSpec (env : Env) (s : Screen) (data : List Nat) : Screen :=
  let s1 := (data.map (translateSpec s)).foldl (drawChar env) s
  markDirty s1 s1.cursor.y

def propC20 (env : Env) (cands : List Nat) (pre : Screen) (c : Call) (post : Screen) : Bool :=
  match c with
  | .draw t =>
    let e := drawSpec env pre t
    allCellsB pre.lines pre.columns (fun y x => decide (post.cell y x = e.cell y x)) &&
    decide (post.g0 = pre.g0) && decide (post.g1 = pre.g1) && post.g1Active == pre.g1Active
  | .shiftOut =>
    post.g1Active && decide (post.cursor = pre.cursor) &&
    sameSettingsB cands { pre with g1Active := true } post && sameCellsB pre post && sameDirtyB pre post
  | .shiftIn =>
    !post.g1Active && decide (post.cursor = pre.cursor) &&
    sameSettingsB cands { pre with g1Active := false } post && sameCellsB pre post && sameDirtyB pre post
  | .defineCharset code mode =>
    let e : Screen :=
      match codeSet code with
      | some id => if mode = [40] then { pre with g0 := id } else if mode = [41] then { pre with g1 := id } else pre
      | none => pre
    decide (post.cursor = pre.cursor) && sameSettingsB cands e post && sameCellsB pre post && sameDirtyB pre post
  | _ => true

end C20
end Memterm

