import Memterm.Props.C03
import Memterm.Props.Frame
import Memterm.Parser

/- Definitions (executable predicates and documented forms) of C19; the theorems are in Memterm/Props/C19.lean. -/
namespace Memterm
namespace C19

open Gen C03

/-- a payload character: anything but BEL, U+009C and ESC -/
def okChar (c : Nat) : Prop := c ≠ 7 ∧ c ≠ 0x9c ∧ c ≠ 27

instance (c : Nat) : Decidable (okChar c) := inferInstanceAs (Decidable (_ ∧ _))

/-- an element of an OSC payload: a plain character, or an `ESC x` pair with x ≠ `\` -/
inductive Atom
  | plain (c : Nat) (h : okChar c)
  | pair (x : Nat) (h : x ≠ 92)

def Atom.chars : Atom → List Nat
  | .plain c _ => [c]
  | .pair x _ => [27, x]

def payloadOf (atoms : List Atom) : List Nat := (atoms.map Atom.chars).flatten

/-- the calls an OSC with code `0`, `1` or `2` makes -/
def titleCalls (code : Nat) (payload : List Nat) : List Call :=
  (if code = 48 ∨ code = 49 then [Call.setIconName payload] else []) ++
  (if code = 48 ∨ code = 50 then [Call.setTitle payload] else [])

/-- executable predicate on the implementation's set_title / set_icon_name transitions -/
def propC19 (cands : List Nat) (pre : Screen) (c : Call) (post : Screen) : Bool :=
  match c with
  | .setTitle t =>
    post.title == t && decide (post.cursor = pre.cursor) &&
    sameSettingsB cands { pre with title := t } post && sameCellsB pre post && sameDirtyB pre post
  | .setIconName t =>
    post.icon == t && decide (post.cursor = pre.cursor) &&
    sameSettingsB cands { pre with icon := t } post && sameCellsB pre post && sameDirtyB pre post
  | _ => true

end C19
end Memterm

