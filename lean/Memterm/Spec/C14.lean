import Memterm.Spec.C12
import Memterm.Props.Frame
import Memterm.Parser

/- Definitions (executable predicates and documented forms) of C14; the theorems are in Memterm/Props/C14.lean. -/
namespace Memterm
namespace C14

open Gen

/-- what DECSC records -/
def snapshot (s : Screen) : Savepoint :=
  { cursor := s.cursor, g0 := s.g0, g1 := s.g1, g1Active := s.g1Active,
    origin := s.mode DECOM, wrap := s.mode DECAWM }

/-- the clamped row: into the scrolling region if one is set, else into the screen -/
def clampRow (s : Screen) (y : Nat) : Nat :=
  match s.margins with
  | some (t, b) => min (max t y) b
  | none => min y (s.lines - 1)

/-- `pre` with the fields DECRC is allowed to change taken from `post` -/
def adjusted (pre post : Screen) : Screen :=
  { pre with
    savepoints := post.savepoints
    g0 := post.g0
    g1 := post.g1
    g1Active := post.g1Active
    mode := post.mode
    cursor := post.cursor }

def propC14 (cands : List Nat) (pre : Screen) (c : Call) (post : Screen) : Bool :=
  match c with
  | .saveCursor =>
    decide (post.savepoints = snapshot pre :: pre.savepoints) && decide (post.cursor = pre.cursor) &&
    sameSettingsB cands { pre with savepoints := post.savepoints } post && sameCellsB pre post && sameDirtyB pre post
  | .restoreCursor =>
    (match pre.savepoints with
     | sp :: rest =>
       decide (post.savepoints = rest) && decide (post.g0 = sp.g0) && decide (post.g1 = sp.g1) &&
       post.g1Active == sp.g1Active &&
       decide (post.cursor = { sp.cursor with x := min sp.cursor.x (pre.columns - 1), y := clampRow pre sp.cursor.y }) &&
       cands.all (fun m => post.mode m == ((sp.wrap && m == DECAWM) || ((sp.origin && m == DECOM) || pre.mode m)))
     | [] =>
       decide (post.savepoints = []) && decide (post.g0 = pre.g0) && decide (post.g1 = pre.g1) &&
       post.g1Active == pre.g1Active &&
       decide (post.cursor = { pre.cursor with x := 0, y := 0 }) &&
       cands.all (fun m => post.mode m == (!(m == DECOM) && pre.mode m))) &&
    sameSettingsB cands (adjusted pre post) post && sameCellsB pre post && sameDirtyB pre post
  | _ => decide (post.savepoints = pre.savepoints)

end C14
end Memterm

