import Memterm.Generated.Probes
import Memterm.Parser

/-
  The dispatch tables of `src/parser_listener.rs`, tied by TRANSLATION rather than by sampling:
  `mtharness tables` calls the crate's `csi_dispatch` / `escape_dispatch` / `basic_dispatch` for
  every final character, seven shapes of parameter list and both values of the private flag with
  a recording listener, `tools/gen_tables.py` writes what was called into
  `Generated/Probes.lean`, and the theorems built on the predicates below (one slice per
  property, the whole table in C03) are re-decided by the kernel on every run.
-/
namespace Memterm
namespace Probes

open Gen

/-- the model's dispatch agrees with every probe of the given list -/
def csiOk (ps : List (Nat × List Nat × Bool × List Call)) : Bool :=
  ps.all fun p => decide (csiDispatch p.1 p.2.1 p.2.2.1 = p.2.2.2)

def escOk (ps : List (Nat × List Nat × Bool × List Call)) : Bool :=
  ps.all fun p => decide (escapeDispatch p.1 = p.2.2.2)

def basicOk (ps : List (Nat × List Nat × Bool × List Call)) : Bool :=
  ps.all fun p => decide (basicDispatch p.1 = p.2.2.2)

/-- the probes whose final character is one of the given one-character constants -/
def slice (ps : List (Nat × List Nat × Bool × List Call)) (finals : List (List Nat)) :
    List (Nat × List Nat × Bool × List Call) :=
  ps.filter fun p => finals.contains [p.1]

end Probes
end Memterm
