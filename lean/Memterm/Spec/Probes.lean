import Memterm.Generated.Probes
import Memterm.Parser

/-
  The dispatch tables of `src/parser_listener.rs`, tied by TRANSLATION rather than by sampling:
  `mtharness tables` calls the crate's `csi_dispatch` / `escape_dispatch` / `basic_dispatch` for
  every final character, seven shapes of parameter list and both values of the private flag with
  a recording listener, `tools/gen_tables.py` writes what was called into
  `Generated/Probes.lean`, and the theorems built on the predicates below (one slice per
  property, the whole table in C03) are re-decided by the kernel on every run.
-/
namespace Memterm
namespace Probes

open Gen

/-- the model's dispatch agrees with every probe of the given list (the calls made) -/
def csiOk (ps : List (Nat × List Nat × Bool × List Call × Nat)) : Bool :=
  ps.all fun p => decide (csiDispatch p.1 p.2.1 p.2.2.1 = p.2.2.2.1)

/-- the `private` argument that ED / EL / DA received in every probe is the documented one
    (`csiPrivateArg`: 0 = no such call, 1 = `None`, 3 = `Some(true)`) -/
def csiPrivOk (ps : List (Nat × List Nat × Bool × List Call × Nat)) : Bool :=
  ps.all fun p => decide (csiPrivateArg p.1 p.2.2.1 = p.2.2.2.2)

def escOk (ps : List (Nat × List Nat × Bool × List Call × Nat)) : Bool :=
  ps.all fun p => decide (escapeDispatch p.1 = p.2.2.2.1)

def basicOk (ps : List (Nat × List Nat × Bool × List Call × Nat)) : Bool :=
  ps.all fun p => decide (basicDispatch p.1 = p.2.2.2.1)

/-- the probes whose final character is one of the given one-character constants -/
def slice (ps : List (Nat × List Nat × Bool × List Call × Nat)) (finals : List (List Nat)) :
    List (Nat × List Nat × Bool × List Call × Nat) :=
  ps.filter fun p => finals.contains [p.1]

end Probes
end Memterm
