import Memterm.Props.Frame
import Memterm.Parser

/- Definitions (executable predicates and documented forms) of C05; the theorems are in Memterm/Props/C05.lean. -/
namespace Memterm
namespace C05

open Gen

/-- the documented new cursor position `(x, y)` for the fourteen operations -/
def expected (s : Screen) : Call → Option (Nat × Nat)
  | .cursorUp n => some (s.cursor.x, max (s.cursor.y - nz n) (topMargin s))
  | .cursorDown n => some (s.cursor.x, min (s.cursor.y + nz n) (bottomMargin s))
  | .cursorForward n => some (min (s.cursor.x + nz n) (s.columns - 1), s.cursor.y)
  | .cursorBack n => some (min s.cursor.x (s.columns - 1) - nz n, s.cursor.y)
  | .cursorDown1 n => some (0, min (s.cursor.y + nz n) (bottomMargin s))
  | .cursorUp1 n => some (0, max (s.cursor.y - nz n) (topMargin s))
  | .cursorToColumn n => some (min (nz n - 1) (s.columns - 1), s.cursor.y)
  | .cursorToLine n =>
    match s.margins, s.mode DECOM with
    | some (t, b), true => some (s.cursor.x, min (nz n - 1 + t) b)
    | _, _ => some (s.cursor.x, min (nz n - 1) (s.lines - 1))
  | .cursorPosition l c =>
    match s.margins, s.mode DECOM with
    | some (t, b), true =>
      if nz l - 1 + t ≤ b then some (min (nz c - 1) (s.columns - 1), nz l - 1 + t)
      else some (s.cursor.x, s.cursor.y)
    | _, _ => some (min (nz c - 1) (s.columns - 1), min (nz l - 1) (s.lines - 1))
  | .backspace => some (min s.cursor.x (s.columns - 1) - 1, s.cursor.y)
  | .cariageReturn => some (0, s.cursor.y)
  | _ => none

/-- executable predicate: documented position reached and nothing else changed -/
def propC05 (cands : List Nat) (pre : Screen) (c : Call) (post : Screen) : Bool :=
  match expected pre c with
  | none => true
  | some (x, y) =>
    post.cursor.x == x && post.cursor.y == y &&
    sameSettingsB cands pre post && sameCellsB pre post && sameDirtyB pre post

def exampleState : Screen :=
  let s := init 5 4
  let s := setMargins s (some 2) (some 3)
  let s := setMode s [6] true
  let s := cursorForward s (some 9)
  draw { W := fun _ => 1, CM := fun _ => false, NFC := id } s [120]

end C05
end Memterm

