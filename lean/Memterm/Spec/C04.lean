import Memterm.Spec.C20
import Memterm.Spec.C06
import Memterm.Props.Frame
import Memterm.Parser

/- Definitions (executable predicates and documented forms) of C04; the theorems are in Memterm/Props/C04.lean. -/
namespace Memterm
namespace C04

open Gen

def propC04 (env : Env) (cands : List Nat) (pre : Screen) (c : Call) (post : Screen) : Bool :=
  match c with
  | .draw t =>
    let e := draw env pre t
    allCellsB pre.lines pre.columns (fun y x => decide (post.cell y x = e.cell y x)) &&
    post.cursor.x == e.cursor.x && post.cursor.y == e.cursor.y &&
    sameSettingsB cands pre post
  | _ => true

end C04
end Memterm

