import Memterm.Props.Frame
import Memterm.Parser

/- Definitions (executable predicates and documented forms) of C06; the theorems are in Memterm/Props/C06.lean. -/
namespace Memterm
namespace C06

open Gen

/-- what the property documents: the grid, cursor position and margins afterwards -/
structure Expect where
  cell : Nat → Nat → Cell
  x : Nat
  y : Nat
  margins : Option (Nat × Nat)

/-- rows `[lo, hi]` moved up by `k` (row y <- row y+k), vacated rows blank -/
def rowsUp (s : Screen) (lo hi k : Nat) : Nat → Nat → Cell := fun y x =>
  if lo ≤ y ∧ y ≤ hi then (if y + k ≤ hi then s.cell (y + k) x else defaultCell s) else s.cell y x

/-- rows `[lo, hi]` moved down by `k` (row y <- row y-k), vacated rows blank -/
def rowsDown (s : Screen) (lo hi k : Nat) : Nat → Nat → Cell := fun y x =>
  if lo ≤ y ∧ y ≤ hi then (if y < lo + k then defaultCell s else s.cell (y - k) x) else s.cell y x

def atBottom (s : Screen) : Prop := s.cursor.y = bottomMargin s
def atTop (s : Screen) : Prop := s.cursor.y = topMargin s
def inRegion (s : Screen) : Prop := topMargin s ≤ s.cursor.y ∧ s.cursor.y ≤ bottomMargin s

instance (s : Screen) : Decidable (atBottom s) := inferInstanceAs (Decidable (_ = _))
instance (s : Screen) : Decidable (atTop s) := inferInstanceAs (Decidable (_ = _))
instance (s : Screen) : Decidable (inRegion s) := inferInstanceAs (Decidable (_ ∧ _))

def expectIndex (s : Screen) : Expect :=
  { cell := if atBottom s then rowsUp s (topMargin s) (bottomMargin s) 1 else s.cell
    x := s.cursor.x
    y := if atBottom s then s.cursor.y else min (s.cursor.y + 1) (bottomMargin s)
    margins := s.margins }

/-- number of lines actually inserted / deleted -/
def lineShift (s : Screen) (n : Option Nat) : Nat := min (nz n) (bottomMargin s - s.cursor.y + 1)

/-- the clamped (top, bottom) DECSTBM would install -/
def stbmRegion (s : Screen) (top bottom : Option Nat) : Nat × Nat :=
  let cur : Nat × Nat := s.margins.getD (0, s.lines - 1)
  (match top with | none => cur.1 | some v => min (v - 1) (s.lines - 1),
   match bottom with | none => cur.2 | some v => min (v - 1) (s.lines - 1))

def stbmClears (top bottom : Option Nat) : Prop := (top = none ∨ top = some 0) ∧ bottom = none
instance (top bottom : Option Nat) : Decidable (stbmClears top bottom) := inferInstanceAs (Decidable (_ ∧ _))

def stbmAccepts (s : Screen) (top bottom : Option Nat) : Prop :=
  ¬ stbmClears top bottom ∧ (stbmRegion s top bottom).1 + 1 ≤ (stbmRegion s top bottom).2
instance (s : Screen) (top bottom : Option Nat) : Decidable (stbmAccepts s top bottom) :=
  inferInstanceAs (Decidable (_ ∧ _))

def expect (s : Screen) : Call → Option Expect
  | .index => some (expectIndex s)
  | .linefeed =>
    some { cell := (expectIndex s).cell, x := if s.mode LNM then 0 else s.cursor.x,
           y := (expectIndex s).y, margins := s.margins }
  | .reverseIndex =>
    some { cell := if atTop s then rowsDown s (topMargin s) (bottomMargin s) 1 else s.cell
           x := s.cursor.x
           y := if atTop s then s.cursor.y else max (s.cursor.y - 1) (topMargin s)
           margins := s.margins }
  | .insertLines n =>
    some { cell := if inRegion s then rowsDown s s.cursor.y (bottomMargin s) (lineShift s n) else s.cell
           x := if inRegion s then 0 else s.cursor.x
           y := s.cursor.y
           margins := s.margins }
  | .deleteLines n =>
    some { cell := if inRegion s then rowsUp s s.cursor.y (bottomMargin s) (lineShift s n) else s.cell
           x := if inRegion s then 0 else s.cursor.x
           y := s.cursor.y
           margins := s.margins }
  | .setMargins top bottom =>
    some { cell := s.cell
           x := if stbmAccepts s top bottom then 0 else s.cursor.x
           y := if stbmAccepts s top bottom then (if s.mode DECOM then (stbmRegion s top bottom).1 else 0)
                else s.cursor.y
           margins := if stbmClears top bottom then none
                      else if stbmAccepts s top bottom then some (stbmRegion s top bottom) else s.margins }
  | _ => none

/-- everything but the grid, the cursor position, the margins and the dirty set is equal -/
def SameRest (s s' : Screen) : Prop := SameSettings { s with margins := s'.margins } s'

/-- the documented outcome `e` is met by `post` -/
structure Meets (s : Screen) (e : Expect) (post : Screen) : Prop where
  cell : ∀ y x, y < s.lines → x < s.columns → post.cell y x = e.cell y x
  x : post.cursor.x = e.x
  y : post.cursor.y = e.y
  marg : post.margins = e.margins
  rest : SameRest s post

/-- executable predicate -/
def propC06 (cands : List Nat) (pre : Screen) (c : Call) (post : Screen) : Bool :=
  match expect pre c with
  | none => true
  | some e =>
    allCellsB pre.lines pre.columns (fun y x => decide (post.cell y x = e.cell y x)) &&
    post.cursor.x == e.x && post.cursor.y == e.y && post.margins == e.margins &&
    sameSettingsB cands { pre with margins := post.margins } post

/-- autowrap on the bottom margin: one printable character drawn at the pending-wrap position, DECAWM set -/
def wrapsAtBottom (env : Env) (s : Screen) (t : List Nat) : Bool :=
  match t with
  | [c] =>
    (env.W (translate s c) == 1 || env.W (translate s c) == 2) && s.cursor.x == s.columns && s.mode DECAWM &&
      s.cursor.y == bottomMargin s
  | _ => false

/-- executable predicate for the autowrap clause: the region has scrolled up by exactly one line
    (every row other than the cursor row - where the character itself lands, C04 - is what `index`
    documents), the cursor row is unchanged and so are the margins -/
def propC06wrap (env : Env) (pre : Screen) (c : Call) (post : Screen) : Bool :=
  match c with
  | .draw t =>
    if wrapsAtBottom env pre t then
      allCellsB pre.lines pre.columns (fun y x =>
        y == pre.cursor.y || decide (post.cell y x = rowsUp pre (topMargin pre) (bottomMargin pre) 1 y x)) &&
      post.cursor.y == pre.cursor.y && post.margins == pre.margins
    else true
  | _ => true

end C06
end Memterm

