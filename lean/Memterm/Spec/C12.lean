import Memterm.Spec.C07
import Memterm.Spec.C08
import Memterm.Props.Frame
import Memterm.Parser

/- Definitions (executable predicates and documented forms) of C12; the theorems are in Memterm/Props/C12.lean. -/
namespace Memterm
namespace C12

open Gen

/-- fields that none of the mode side effects except the named ones touch -/
structure Quiet (s s' : Screen) : Prop where
  mode : s'.mode = s.mode
  tabstops : s'.tabstops = s.tabstops
  title : s'.title = s.title
  icon : s'.icon = s.icon
  g0 : s'.g0 = s.g0
  g1 : s'.g1 = s.g1
  g1Active : s'.g1Active = s.g1Active
  savepoints : s'.savepoints = s.savepoints
  attr : s'.cursor.attr = s.cursor.attr
  hidden : s'.cursor.hidden = s.cursor.hidden
  lines : s'.lines = s.lines

/-- none of the four modes with an immediate side effect is in the list -/
def plain (ml : List Nat) : Prop :=
  ml.contains DECSCNM = false ∧ ml.contains DECCOLM = false ∧ ml.contains DECOM = false ∧
  ml.contains DECTCEM = false

/-- the documented home position: column 0, the top margin in origin mode, else row 0 -/
def homeRow (s : Screen) : Nat :=
  match s.margins, s.mode DECOM with
  | some (t, _), true => t
  | _, _ => 0

def blankWith (a : Attr) : Cell := { data := strSpace, attr := a }

def effectful (ml : List Nat) : Bool :=
  ml.contains DECSCNM || ml.contains DECCOLM || ml.contains DECOM || ml.contains DECTCEM

def propModes (cands : List Nat) (pre post : Screen) (ml : List Nat) (isSet : Bool) : Bool :=
  cands.all (fun m => post.mode m ==
    (if isSet then ml.contains m || pre.mode m else !ml.contains m && pre.mode m)) &&
  (effectful ml ||
    (decide (post.cursor = pre.cursor) && sameSettingsB cands { pre with mode := post.mode } post &&
     sameCellsB pre post && sameDirtyB pre post)) &&
  (!ml.contains DECTCEM || post.cursor.hidden == !isSet) &&
  (!ml.contains DECOM || (post.cursor.x == 0 && post.cursor.y == homeRow post)) &&
  (!(ml.contains DECSCNM && !ml.contains DECCOLM) ||
    (allCellsB pre.lines pre.columns (fun y x =>
        decide (post.cell y x = { pre.cell y x with attr := { (pre.cell y x).attr with reverse := isSet } })) &&
     post.cursor.attr.reverse == isSet &&
     (List.range pre.lines).all (fun r => post.dirty r))) &&
  (!ml.contains DECCOLM ||
    (post.columns == (if isSet then 132
        else if pre.columns == 132 then pre.savedColumns.getD pre.columns else pre.columns) &&
     post.lines == pre.lines &&
     allCellsB post.lines post.columns (fun y x => decide (post.cell y x = blankWith post.cursor.attr)) &&
     post.cursor.x == 0 && post.cursor.y == homeRow post))

/-- The DECSCNM clause between two mode switches: reverse video stays on "the default rendition", i.e. on what
    a reset inside an SGR list resets to.  Only the `reverse` flag is looked at, and only for parameter lists
    whose documented outcome DEPENDS on the default rendition's flag (`0`, `0;1`, `1;0;4`, ... but not `0;7` or
    `38;5;0`): everything else about SGR is C08's business. -/
def propRev (pre : Screen) (attrs : List Nat) (post : Screen) : Bool :=
  let d := defaultAttr pre
  let rT := (C08.specSgr { d with reverse := true } attrs pre.cursor.attr).reverse
  let rF := (C08.specSgr { d with reverse := false } attrs pre.cursor.attr).reverse
  rT == rF || post.cursor.attr.reverse == (C08.specSgr d attrs pre.cursor.attr).reverse

def propC12 (cands : List Nat) (pre : Screen) (c : Call) (post : Screen) : Bool :=
  match c with
  | .setMode ms p => propModes cands pre post (shiftModes ms p) true
  | .resetMode ms p => propModes cands pre post (shiftModes ms p) false
  | .sgr attrs => propRev pre attrs post
  | _ => true

end C12
end Memterm

