import Memterm.Props.Frame
import Memterm.Parser

/- Definitions (executable predicates and documented forms) of C10; the theorems are in Memterm/Props/C10.lean. -/
namespace Memterm
namespace C10

/-- the documented rendering of one row, on the list of its cells' texts: left-to-right
    concatenation, skipping the cell that follows a double-width character -/
def specRender (W : Nat → Nat) : List (List Nat) → List Nat
  | [] => []
  | d :: rest =>
    d ++ (if wideText W d then specRender W (rest.drop 1) else specRender W rest)
termination_by l => l.length
decreasing_by all_goals simp_wf <;> omega

def rowTexts (s : Screen) (y : Nat) (from_ : Nat) : List (List Nat) :=
  (List.range' from_ (s.columns - from_)).map (fun x => (s.cell y x).data)

/-- a history with its display() calls removed -/
def strip : List Call → List Call
  | [] => []
  | .display :: rest => strip rest
  | c :: rest => c :: strip rest

end C10
end Memterm

