import Memterm.Props.Frame
import Memterm.Parser

/- Definitions (executable predicates and documented forms) of C08; the theorems are in Memterm/Props/C08.lean. -/
namespace Memterm
namespace C08

open Gen

def str (s : String) : List Nat := s.toList.map Char.toNat

/-- the documented table: text attributes, ANSI and aixterm colours -/
def specAct (c : Nat) : Option Act :=
  if c = 1 then some (.flag (str "bold") true)
  else if c = 3 then some (.flag (str "italics") true)
  else if c = 4 then some (.flag (str "underscore") true)
  else if c = 5 then some (.flag (str "blink") true)
  else if c = 7 then some (.flag (str "reverse") true)
  else if c = 9 then some (.flag (str "strikethrough") true)
  else if c = 22 then some (.flag (str "bold") false)
  else if c = 23 then some (.flag (str "italics") false)
  else if c = 24 then some (.flag (str "underscore") false)
  else if c = 25 then some (.flag (str "blink") false)
  else if c = 27 then some (.flag (str "reverse") false)
  else if c = 29 then some (.flag (str "strikethrough") false)
  else if c = 30 then some (.fg (str "black"))
  else if c = 31 then some (.fg (str "red"))
  else if c = 32 then some (.fg (str "green"))
  else if c = 33 then some (.fg (str "brown"))
  else if c = 34 then some (.fg (str "blue"))
  else if c = 35 then some (.fg (str "magenta"))
  else if c = 36 then some (.fg (str "cyan"))
  else if c = 37 then some (.fg (str "white"))
  else if c = 39 then some (.fg (str "default"))
  else if c = 40 then some (.bg (str "black"))
  else if c = 41 then some (.bg (str "red"))
  else if c = 42 then some (.bg (str "green"))
  else if c = 43 then some (.bg (str "brown"))
  else if c = 44 then some (.bg (str "blue"))
  else if c = 45 then some (.bg (str "magenta"))
  else if c = 46 then some (.bg (str "cyan"))
  else if c = 47 then some (.bg (str "white"))
  else if c = 49 then some (.bg (str "default"))
  else if c = 90 then some (.fg (str "brightblack"))
  else if c = 91 then some (.fg (str "brightred"))
  else if c = 92 then some (.fg (str "brightgreen"))
  else if c = 93 then some (.fg (str "brightbrown"))
  else if c = 94 then some (.fg (str "brightblue"))
  else if c = 95 then some (.fg (str "brightmagenta"))
  else if c = 96 then some (.fg (str "brightcyan"))
  else if c = 97 then some (.fg (str "brightwhite"))
  else if c = 100 then some (.bg (str "brightblack"))
  else if c = 101 then some (.bg (str "brightred"))
  else if c = 102 then some (.bg (str "brightgreen"))
  else if c = 103 then some (.bg (str "brightbrown"))
  else if c = 104 then some (.bg (str "brightblue"))
  else if c = 105 then some (.bg (str "brightmagenta"))
  else if c = 106 then some (.bg (str "brightcyan"))
  else if c = 107 then some (.bg (str "brightwhite"))
  else none

/-- xterm 256-colour palette: 16 base colours, 6x6x6 cube, 24 greys -/
def base16 : List (Nat × Nat × Nat) :=
  [(0x00, 0x00, 0x00), (0xcd, 0x00, 0x00), (0x00, 0xcd, 0x00), (0xcd, 0xcd, 0x00),
   (0x00, 0x00, 0xee), (0xcd, 0x00, 0xcd), (0x00, 0xcd, 0xcd), (0xe5, 0xe5, 0xe5),
   (0x7f, 0x7f, 0x7f), (0xff, 0x00, 0x00), (0x00, 0xff, 0x00), (0xff, 0xff, 0x00),
   (0x5c, 0x5c, 0xff), (0xff, 0x00, 0xff), (0x00, 0xff, 0xff), (0xff, 0xff, 0xff)]

def cubeLevel (i : Nat) : Nat := if i = 0 then 0 else 55 + 40 * i

def paletteRgb (n : Nat) : Nat × Nat × Nat :=
  if n < 16 then base16.getD n (0, 0, 0)
  else if n < 232 then
    let i := n - 16
    (cubeLevel ((i / 36) % 6), cubeLevel ((i / 6) % 6), cubeLevel (i % 6))
  else
    let v := 8 + (n - 232) * 10
    (v, v, v)

def palette (n : Nat) : List Nat :=
  let c := paletteRgb n
  hex2 c.1 ++ hex2 c.2.1 ++ hex2 c.2.2

/-- the documented fold, with the documented parameter consumption -/
def specLoop (dflt : Attr) : Nat → List Nat → Attr → Attr
  | 0, _, a => a
  | _, [], a => a
  | fuel + 1, c :: rest, a =>
    if c = 0 then specLoop dflt fuel rest dflt
    else match specAct c with
    | some act => specLoop dflt fuel rest (act.run a)
    | none =>
    if c = 38 ∨ c = 48 then
      match rest with
      | [] => a
      | n :: rest2 =>
        if n = 5 then
          match rest2 with
          | [] => a
          | m :: rest3 =>
            if m < 256 then specLoop dflt fuel rest3 (setColor (c == 38) (palette m) a)
            else specLoop dflt fuel rest3 a
        else if n = 2 then
          match rest2 with
          | r :: g :: b :: rest3 =>
            if r ≤ 255 ∧ g ≤ 255 ∧ b ≤ 255 then specLoop dflt fuel rest3 (setColor (c == 38) (hex2 r ++ hex2 g ++ hex2 b) a)
            else specLoop dflt fuel rest3 a
          | _ => a
        else specLoop dflt fuel rest2 a
    else specLoop dflt fuel rest a

/-- the documented rendition after `CSI attrs m` -/
def specSgr (dflt : Attr) (attrs : List Nat) (a : Attr) : Attr :=
  if attrs = [] then dflt else specLoop dflt attrs.length attrs a

/-- executable predicate: the rendition is the documented fold; cells already on screen,
    the cursor position and every other setting are unchanged -/
def propC08 (cands : List Nat) (pre : Screen) (c : Call) (post : Screen) : Bool :=
  match c with
  | .sgr attrs =>
    decide (post.cursor.attr = specSgr (defaultAttr pre) attrs pre.cursor.attr) &&
    post.cursor.x == pre.cursor.x && post.cursor.y == pre.cursor.y &&
    sameSettingsB cands { pre with cursor := { pre.cursor with attr := post.cursor.attr } } post &&
    sameCellsB pre post && sameDirtyB pre post
  | _ => true

end C08
end Memterm

