import Memterm.Spec.C18
import Memterm.Props.Frame
import Memterm.Parser

/- Definitions (executable predicates and documented forms) of C15; the theorems are in Memterm/Props/C15.lean. -/
namespace Memterm
namespace C15

open Gen

/-- the power-on state of a `columns x lines` screen, with a given saved-cursor stack -/
def powerOn (columns lines : Nat) (sps : List Savepoint) : Screen :=
  let mode : Nat → Bool := fun m => DEFAULT_MODE.contains m
  let dattr : Attr :=
    { fg := strDefault, bg := strDefault, bold := false, italics := false, underscore := false,
      strikethrough := false, reverse := mode DECSCNM, blink := false }
  { columns := columns, lines := lines
    cursor := { x := 0, y := 0, attr := dattr, hidden := false }
    margins := none
    mode := mode
    tabstops := C18.defaultStop columns
    dirty := fun d => d < lines
    title := [], icon := []
    g0 := .lat1, g1 := .vt100, g1Active := false
    savepoints := sps
    savedColumns := none
    cell := fun _ _ => { data := strSpace, attr := dattr } }

/-- executable predicate, evaluated on the implementation's `reset` transitions -/
def propC15 (cands : List Nat) (pre : Screen) (c : Call) (post : Screen) : Bool :=
  match c with
  | .reset =>
    let e := powerOn pre.columns pre.lines pre.savepoints
    decide (post.cursor = e.cursor) && sameSettingsB cands e post && sameCellsB e post &&
    (List.range (pre.lines + 3)).all (fun r => post.dirty r == decide (r < pre.lines))
  | _ => true

end C15
end Memterm

