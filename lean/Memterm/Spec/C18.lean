import Memterm.Props.Frame
import Memterm.Parser

/- Definitions (executable predicates and documented forms) of C18; the theorems are in Memterm/Props/C18.lean. -/
namespace Memterm
namespace C18

open Gen

/-- the documented default stops: every 8th column (8, 16, ... < columns) -/
def defaultStop (columns c : Nat) : Bool := 8 ≤ c && c < columns && c % 8 == 0

def propC18 (cands : List Nat) (pre : Screen) (c : Call) (post : Screen) : Bool :=
  let sameTabs (f : Nat → Bool) : Bool := (List.range (pre.columns + 3)).all fun k => post.tabstops k == f k
  let others : Bool :=
    post.columns == pre.columns && post.lines == pre.lines && decide (post.cursor = pre.cursor) &&
    post.margins == pre.margins && cands.all (fun m => post.mode m == pre.mode m) &&
    sameCellsB pre post && sameDirtyB pre post && decide (post.savepoints = pre.savepoints)
  match c with
  | .setTabStop => sameTabs (fun k => k == pre.cursor.x || pre.tabstops k) && others
  | .clearTabStop how =>
    (match how.getD 0 with
     | 0 => sameTabs (fun k => k != pre.cursor.x && pre.tabstops k)
     | 3 => sameTabs (fun _ => false)
     | _ => sameTabs pre.tabstops) && others
  | .tab =>
    let x' := post.cursor.x
    decide (x' ≤ pre.columns - 1) &&
    (List.range pre.columns).all (fun k => !(decide (pre.cursor.x < k) && decide (k < x')) || !pre.tabstops k) &&
    (!decide (x' < pre.columns - 1) || (pre.tabstops x' && decide (pre.cursor.x < x'))) &&
    post.cursor.y == pre.cursor.y && sameSettingsB cands pre post && sameCellsB pre post && sameDirtyB pre post
  | .reset =>
    (List.range (pre.columns + 3)).all fun k => post.tabstops k == defaultStop pre.columns k
  | _ => true

end C18
end Memterm

