import Memterm.Step

/- Definitions of C09's colour clause (shared by the theorems and the driver). -/
namespace Memterm

def isHexDigit (c : Nat) : Bool := (48 ≤ c && c ≤ 57) || (97 ≤ c && c ≤ 102)

/-- `rrggbb`: exactly six hexadecimal digits -/
def isHexStr (s : List Nat) : Bool := decide (s.length = 6) && s.all isHexDigit

/-- the documented colour names, written out -/
def colourNames : List (List Nat) :=
  let base := ["black", "red", "green", "brown", "blue", "magenta", "cyan", "white"]
  (("default" :: base ++ base.map ("bright" ++ ·)).map (fun s => s.toList.map Char.toNat))

def colourOk (s : List Nat) : Bool := colourNames.contains s || isHexStr s


end Memterm
