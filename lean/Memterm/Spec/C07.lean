import Memterm.Props.Frame
import Memterm.Parser

/- Definitions (executable predicates and documented forms) of C07; the theorems are in Memterm/Props/C07.lean. -/
namespace Memterm
namespace C07

open Gen

/-- the documented set of erased cells, as a predicate on (row, column); `none` for
    operations outside this property -/
def region (s : Screen) : Call → Option (Nat → Nat → Bool)
  | .eraseInDisplay how =>
    some (match how.getD 0 with
      | 0 => fun y x => decide (s.cursor.y < y) || (y == s.cursor.y && decide (s.cursor.x ≤ x))
      | 1 => fun y x => decide (y < s.cursor.y) || (y == s.cursor.y && decide (x ≤ min s.cursor.x (s.columns - 1)))
      | 2 => fun _ _ => true
      | 3 => fun _ _ => true
      | _ => fun _ _ => false)
  | .eraseInLine how =>
    some (match how.getD 0 with
      | 0 => fun y x => y == s.cursor.y && decide (s.cursor.x ≤ x)
      | 1 => fun y x => y == s.cursor.y && decide (x ≤ min s.cursor.x (s.columns - 1))
      | 2 => fun y _ => y == s.cursor.y
      | _ => fun _ _ => false)
  | .eraseCharacters n =>
    some (fun y x => y == s.cursor.y && decide (s.cursor.x ≤ x) && decide (x < s.cursor.x + nz n))
  | _ => none

/-- executable predicate: inside the region every cell is a space with the cursor's rendition,
    every other cell, the cursor, modes, margins, tab stops are unchanged -/
def propC07 (cands : List Nat) (pre : Screen) (c : Call) (post : Screen) : Bool :=
  match region pre c with
  | none => true
  | some r =>
    allCellsB pre.lines pre.columns (fun y x =>
      decide (post.cell y x = if r y x then cursorCell pre else pre.cell y x)) &&
    sameCursorSettingsB cands pre post

end C07
end Memterm

