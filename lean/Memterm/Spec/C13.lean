import Memterm.Props.Frame
import Memterm.Parser

/- Definitions (executable predicates and documented forms) of C13; the theorems are in Memterm/Props/C13.lean. -/
namespace Memterm
namespace C13

open Gen

/-- number of cells actually inserted / removed: min(n, columns - x), absent or zero n = 1 -/
def shift (s : Screen) (n : Option Nat) : Nat := min (nz n) (s.columns - s.cursor.x)

/-- the documented content of the cursor row afterwards (column -> cell) -/
def rowAfter (s : Screen) : Call → Option (Nat → Cell)
  | .insertCharacters n =>
    some fun x =>
      if x < s.cursor.x then s.cell s.cursor.y x
      else if x < s.cursor.x + shift s n then defaultCell s
      else s.cell s.cursor.y (x - shift s n)
  | .deleteCharacters n =>
    some fun x =>
      if x < s.cursor.x then s.cell s.cursor.y x
      else if x + shift s n < s.columns then s.cell s.cursor.y (x + shift s n)
      else defaultCell s
  | _ => none

/-- executable predicate: the cursor row is the documented splice, every other row, the
    cursor and all settings are unchanged -/
def propC13 (cands : List Nat) (pre : Screen) (c : Call) (post : Screen) : Bool :=
  match rowAfter pre c with
  | none => true
  | some row =>
    allCellsB pre.lines pre.columns (fun y x =>
      decide (post.cell y x = if y = pre.cursor.y then row x else pre.cell y x)) &&
    sameCursorSettingsB cands pre post

end C13
end Memterm

