import Memterm.Step

/-
  Executable model of `src/parser.rs` + the dispatch functions of
  `src/parser_listener.rs`.  The generator-rs coroutine is defunctionalised:
  one `PState` constructor per `yield_` in the closure; `send c` resumes after
  the last `yield_` with `c` and runs to the next one.  The value yielded is
  `Some(true)` exactly at the head of the outer loop (`ground`), which is what
  `feed()` stores into `taking_plain_text`.
-/
namespace Memterm

open Gen

inductive PState
  | ground
  | esc
  | escHash
  | escPercent
  | escCharset (mode : Nat)
  /-- inside the CSI parameter loop: collected params, digits of the current one, `?` seen -/
  | csi (params : List Nat) (current : List Nat) (priv : Bool)
  | csiDollar
  | oscCode
  /-- first character of the OSC string was ESC: waiting for its partner -/
  | oscFirstEsc
  /-- inside the OSC string loop -/
  | oscParam (code : Nat) (param : List Nat)
  | oscParamEsc (code : Nat) (param : List Nat)
deriving DecidableEq, Repr, Inhabited

structure Parser where
  taking : Bool
  fsm : PState
  useUtf8 : Bool
deriving DecidableEq, Repr, Inhabited

def Parser.init : Parser := { taking := true, fsm := .ground, useUtf8 := true }

/-- `s == CONST` for a one-character string `s` -/
def isStr (c : Nat) (k : List Nat) : Bool := [c] == k

def inStrList (c : Nat) (l : List (List Nat)) : Bool := l.contains [c]

/-- `escape_dispatch` -/
def escapeDispatch (c : Nat) : List Call :=
  if isStr c RIS then [.reset]
  else if isStr c IND then [.index]
  else if isStr c NEL then [.linefeed]
  else if isStr c RI then [.reverseIndex]
  else if isStr c HTS then [.setTabStop]
  else if isStr c DECSC then [.saveCursor]
  else if isStr c DECRC then [.restoreCursor]
  else []

/-- `basic_dispatch` -/
def basicDispatch (c : Nat) : List Call :=
  if isStr c BEL then [.bell]
  else if isStr c BS then [.backspace]
  else if isStr c HT then [.tab]
  else if isStr c LF || isStr c VT || isStr c FF then [.linefeed]
  else if isStr c CR then [.cariageReturn]
  else if isStr c SO then [.shiftOut]
  else if isStr c SI then [.shiftIn]
  else []

/-- `csi_dispatch` -/
def csiDispatch (c : Nat) (params : List Nat) (priv : Bool) : List Call :=
  let p0 := params[0]?
  let p1 := params[1]?
  if isStr c ICH then [.insertCharacters p0]
  else if isStr c CUD then [.cursorDown p0]
  else if isStr c CUU then [.cursorUp p0]
  else if isStr c CUF then [.cursorForward p0]
  else if isStr c CUB then [.cursorBack p0]
  else if isStr c CNL then [.cursorDown1 p0]
  else if isStr c CPL then [.cursorUp1 p0]
  else if isStr c CHA then [.cursorToColumn p0]
  else if isStr c CUP then [.cursorPosition p0 p1]
  else if isStr c ED then [.eraseInDisplay p0]
  else if isStr c EL then [.eraseInLine p0]
  else if isStr c IL then [.insertLines p0]
  else if isStr c DL then [.deleteLines p0]
  else if isStr c DCH then [.deleteCharacters p0]
  else if isStr c ECH then [.eraseCharacters p0]
  else if isStr c HPR then [.cursorForward p0]
  else if isStr c DA then [.reportDeviceAttributes p0]
  else if isStr c VPA then [.cursorToLine p0]
  else if isStr c VPR then [.cursorDown p0]
  else if isStr c HVP then [.cursorPosition p0 p1]
  else if isStr c TBC then [.clearTabStop p0]
  else if isStr c SM then [.setMode params priv]
  else if isStr c RM then [.resetMode params priv]
  else if isStr c SGR then [.sgr params]
  else if isStr c DECSTBM then [.setMargins p0 p1]
  else []

/-- The `private` argument `csi_dispatch` passes to `erase_in_display`, `erase_in_line` and
    `report_device_attributes` (the three operations that take one): `Some(true)` for a sequence marked
    with `?`, nothing otherwise - pyte's `**{"private": True}`.  Coded 0 = the final is none of the three,
    1 = `None`, 3 = `Some(true)`; the listener's event carries it, the model's `Call` does not need to
    (the three operations of `Screen` ignore it or are stubs). -/
def csiPrivateArg (c : Nat) (priv : Bool) : Nat :=
  if isStr c ED || isStr c EL || isStr c DA then (if priv then 3 else 1) else 0

def isDigit (c : Nat) : Bool := 48 ≤ c && c ≤ 57

/-- value of a digit string (most significant first) -/
def digitsValue (ds : List Nat) : Nat := ds.foldl (fun acc d => acc * 10 + (d - 48)) 0

/-- `current.parse::<u64>()` with empty = 0 and overflow = u64::MAX, then `min(_, 9999)` -/
def paramValue (ds : List Nat) : Nat :=
  if ds.isEmpty then 0
  else
    let v := digitsValue ds
    min (if v < 18446744073709551616 then v else 18446744073709551615) 9999

/-- What happens at the head of the outer loop once `char` is known and is not ESC
    (or is the CSI/OSC that ESC [ / ESC ] were rewritten to). -/
def dispatchTop (utf8 : Bool) (c : Nat) : PState × List Call :=
  if inStrList c BASIC then
    if (isStr c SI || isStr c SO) && utf8 then (.ground, [])
    else (.ground, basicDispatch c)
  else if isStr c CSI then (.csi [] [] false, [])
  else if isStr c OSC then (.oscCode, [])
  else (.ground, [])

/-- the code of an OSC string is the whole text before its first `;`: the string collected after
    the one-character code must be empty or start with the separator (`OSC 10 ; x`, `OSC 133 ; A` are
    other commands, not OSC 1 with a payload that begins inside the code) -/
def oscCodeEnds : List Nat → Bool
  | [] => true
  | c :: _ => c == 59

/-- the calls made when an OSC string is complete -/
def oscFinish (code : Nat) (param : List Nat) : List Call :=
  if oscCodeEnds param then
    let p := param.drop 1
    (if [48, 49].contains code then [Call.setIconName p] else []) ++
    (if [48, 50].contains code then [Call.setTitle p] else [])
  else []

/-- `parser_fsm.send(c)`: new coroutine state and the listener calls made on the way. -/
def send (utf8 : Bool) (st : PState) (c : Nat) : PState × List Call :=
  match st with
  | .ground =>
    if isStr c ESC then (.esc, []) else dispatchTop utf8 c
  | .esc =>
    if c == 91 then dispatchTop utf8 (CSI.headD 0)        -- "[" : char = CSI
    else if c == 93 then dispatchTop utf8 (OSC.headD 0)   -- "]" : char = OSC
    else if c == 35 then (.escHash, [])                    -- "#"
    else if c == 37 then (.escPercent, [])                 -- "%"
    else if c == 40 || c == 41 then (.escCharset c, [])    -- "(" ")"
    else (.ground, escapeDispatch c)
  | .escHash =>
    if isStr c DECALN then (.ground, [.alignmentDisplay]) else (.ground, [])
  | .escPercent => (.ground, [])
  | .escCharset mode =>
    if utf8 then (.ground, []) else (.ground, [.defineCharset [c] [mode]])
  | .csi params current priv =>
    if c == 63 then (.csi params current true, [])                              -- "?"
    else if inStrList c ALLOWED_IN_CSI then (.csi params current priv, basicDispatch c)
    else if isStr c SP || isStr c GREATER then (.csi params current priv, [])
    else if isStr c CAN || isStr c SUB then (.ground, [.draw [c]])
    else if isDigit c then (.csi params (current ++ [c]) priv, [])
    else if c == 36 then (.csiDollar, [])                                        -- "$"
    else
      let params := params ++ [paramValue current]
      if c == 59 then (.csi params [] priv, [])                                  -- ";"
      else (.ground, csiDispatch c params priv)
  | .csiDollar => (.ground, [])
  | .oscCode =>
    if c == 82 then (.ground, [])                                                -- "R" (Linux: reset palette)
    else if isStr c ESC then (.oscFirstEsc, [])
    else if OSC_TERMINATORS.contains [c] then (.ground, [])
    else (.oscParam c [], [])
  | .oscFirstEsc =>
    if OSC_TERMINATORS.contains (ESC ++ [c]) then (.ground, [])
    else (.oscParam (ESC.headD 0) [c], [])
  | .oscParam code param =>
    if isStr c ESC then (.oscParamEsc code param, [])
    else if OSC_TERMINATORS.contains [c] then (.ground, oscFinish code param)
    else (.oscParam code (param ++ [c]), [])
  | .oscParamEsc code param =>
    if OSC_TERMINATORS.contains (ESC ++ [c]) then (.ground, oscFinish code param)
    else (.oscParam code (param ++ ESC ++ [c]), [])

/-- `is_special_start` on a one-character string -/
def isSpecial (c : Nat) : Bool := SPECIAL.contains [c]

/-- one iteration of the `for c in data.chars()` loop of `Parser::feed` -/
def pstep (p : Parser) (c : Nat) : Parser × List Call :=
  let taking := if p.taking && isSpecial c then false else p.taking
  if taking then ({ p with taking := true }, [.draw [c]])
  else
    let r := send p.useUtf8 p.fsm c
    ({ p with taking := r.1 == .ground, fsm := r.1 }, r.2)

/-- `Parser::feed(data)` -/
def feed (p : Parser) : List Nat → Parser × List Call
  | [] => (p, [])
  | c :: cs =>
    let r := pstep p c
    let r2 := feed r.1 cs
    (r2.1, r.2 ++ r2.2)

end Memterm
