import Memterm.Step

/-
  Branch tags of the model: for a (pre-state, call) pair, the names of the branches of the
  model's step function that the transition takes.  The driver counts them over the
  implementation's transitions, so that the evidence of every run shows which branches of
  the model the one-step correspondence actually compared with the code - and which not.
  Not part of the verified model; used for measurement only.
-/
namespace Memterm
namespace Cover

open Gen

def optTag : Option Nat → String
  | none => "absent"
  | some 0 => "zero"
  | some 1 => "one"
  | some 9999 => "max"
  | some _ => "n"

def regionTag (s : Screen) : String :=
  match s.margins with
  | none => "noregion"
  | some (t, b) =>
    (if s.cursor.y < t then "above" else if s.cursor.y > b then "below"
     else if s.cursor.y == b then "onbottom" else if s.cursor.y == t then "ontop" else "inside") ++
    (if s.mode DECOM then "+decom" else "")

def xTag (s : Screen) : String :=
  if s.cursor.x == s.columns then "pending" else if s.cursor.x + 1 == s.columns then "lastcol"
  else if s.cursor.x == 0 then "col0" else "mid"

def drawCharTags (env : Env) (s : Screen) (c0 : Nat) : List String :=
  let c := translate s c0
  let w := env.W c
  (if c0 > 255 then ["draw:above255"] else if c != c0 then ["draw:translated"] else []) ++
  (if w == 1 || w == 2 then
    (if s.cursor.x == s.columns then
      (if s.mode DECAWM then
        (if s.cursor.y == bottomMargin s then ["draw:wrap-scroll"] else
          if s.cursor.y > bottomMargin s then ["draw:wrap-below-region"] else ["draw:wrap"])
       else ["draw:overwrite-last"])
     else []) ++
    (if s.mode IRM then ["draw:irm"] else []) ++
    (if w == 2 then
      (if (wrapStage s w).cursor.x + 1 < s.columns then ["draw:wide"] else ["draw:wide-lastcol"])
     else ["draw:narrow"]) ++
    (if s.mode DECSCNM then ["draw:under-decscnm"] else [])
   else if w == 0 && env.CM c then
    (if s.cursor.x > 0 then
      (if s.cursor.x == s.columns then ["draw:combine-pending"] else ["draw:combine"]) ++
      (if (s.cell s.cursor.y (s.cursor.x - 1)).data == [] then ["draw:combine-on-placeholder"] else [])
     else if s.cursor.y > 0 then ["draw:combine-prev-row"] else ["draw:combine-home"])
   else if w == 0 then ["draw:zero-width"] else ["draw:unprintable"])

def drawTags (env : Env) (s : Screen) (t : List Nat) : List String :=
  let r := (t.map id).foldl (fun (acc : Screen × List String) c0 =>
    (drawChar env acc.1 (translate s c0), acc.2 ++ drawCharTags env { acc.1 with g0 := s.g0, g1 := s.g1, g1Active := s.g1Active } c0)) (s, [])
  (if t.length > 1 then ["draw:multi"] else if t.isEmpty then ["draw:empty"] else []) ++ r.2.eraseDups

def modeTags (what : String) (s : Screen) (ms : List Nat) (priv : Bool) : List String :=
  let ml := shiftModes ms priv
  let nm (m : Nat) : Option String :=
    if m == DECCOLM then some "deccolm" else if m == DECSCNM then some "decscnm"
    else if m == DECOM then some "decom" else if m == DECAWM then some "decawm"
    else if m == DECTCEM then some "dectcem" else if m == IRM then some "irm"
    else if m == LNM then some "lnm" else none
  (ml.filterMap fun m => (nm m).map fun n =>
    s!"{what}:{n}" ++ (if priv then "" else if m ≥ 32 then "-ansi-spelling" else "") ++
      (if s.mode m then "-was-set" else "-was-clear")) ++
  (if ml.any (fun m => (nm m).isNone) then [s!"{what}:other"] else []) ++
  (if ml.length > 1 then [s!"{what}:list"] else []) ++
  (if ml.contains DECOM && s.margins.isSome then [s!"{what}:decom-with-region"] else []) ++
  (if ml.contains DECCOLM then
    [s!"{what}:deccolm-from-{if s.columns == 132 then "132" else "other"}-saved-{if s.savedColumns.isSome then "some" else "none"}"]
   else [])

def sgrTags : List Nat → List String
  | [] => []
  | 0 :: rest => "sgr:reset" :: sgrTags rest
  | a :: rest =>
    if a == FG_256 || a == BG_256 then
      match rest with
      | [] => ["sgr:ext-bare"]
      | 5 :: [] => ["sgr:256-truncated"]
      | 5 :: m :: rest2 => (if m < 16 then "sgr:256-ansi" else if m < 256 then "sgr:256-ok" else "sgr:256-out-of-range") :: sgrTags rest2
      | 2 :: r :: g :: b :: rest2 =>
        (if r > 255 || g > 255 || b > 255 then "sgr:rgb-component-over-255" else "sgr:rgb-ok") :: sgrTags rest2
      | 2 :: _ => ["sgr:rgb-truncated"]
      | _ :: rest2 => "sgr:ext-bad-selector" :: sgrTags rest2
    else
      (match tableAct a with
       | some (.fg _) => "sgr:fg"
       | some (.bg _) => "sgr:bg"
       | some (.flag _ true) => "sgr:flag-on"
       | some (.flag _ false) => "sgr:flag-off"
       | none => "sgr:unknown") :: sgrTags rest

/-- the branches of the model's step taken from `s` by `c` -/
def tags (env : Env) (s : Screen) (c : Call) : List String :=
  match c with
  | .draw t => drawTags env s t
  | .index => [if s.cursor.y == bottomMargin s then "index:scroll" else "index:move", s!"index:{regionTag s}"]
  | .linefeed => [if s.cursor.y == bottomMargin s then "lf:scroll" else "lf:move", s!"lf:{regionTag s}",
      if s.mode LNM then "lf:lnm" else "lf:nolnm"]
  | .reverseIndex => [if s.cursor.y == topMargin s then "ri:scroll" else "ri:move", s!"ri:{regionTag s}"]
  | .insertLines n =>
    [if topMargin s ≤ s.cursor.y && s.cursor.y ≤ bottomMargin s then
      (if nz n > bottomMargin s - s.cursor.y then "il:all" else "il:some") else "il:outside",
     s!"il:count-{optTag n}", s!"il:{regionTag s}"]
  | .deleteLines n =>
    [if topMargin s ≤ s.cursor.y && s.cursor.y ≤ bottomMargin s then
      (if nz n > bottomMargin s - s.cursor.y then "dl:all" else "dl:some") else "dl:outside",
     s!"dl:count-{optTag n}", s!"dl:{regionTag s}"]
  | .insertCharacters n =>
    [if s.cursor.x + nz n ≥ s.columns then "ich:all" else "ich:some", s!"ich:count-{optTag n}", s!"ich:x-{xTag s}"]
  | .deleteCharacters n =>
    [if s.cursor.x + nz n ≥ s.columns then "dch:all" else "dch:some", s!"dch:count-{optTag n}", s!"dch:x-{xTag s}"]
  | .eraseCharacters n =>
    [if s.cursor.x + nz n ≥ s.columns then "ech:clipped" else "ech:inside", s!"ech:count-{optTag n}", s!"ech:x-{xTag s}"]
  | .eraseInLine h => [s!"el:{match h with | none => "absent" | some k => if k ≤ 2 then toString k else "unsupported"}", s!"el:x-{xTag s}"]
  | .eraseInDisplay h => [s!"ed:{match h with | none => "absent" | some k => if k ≤ 3 then toString k else "unsupported"}", s!"ed:x-{xTag s}",
      if s.margins.isSome then "ed:with-region" else "ed:noregion"]
  | .cursorUp n => [s!"cuu:{optTag n}", s!"cuu:{regionTag s}"]
  | .cursorDown n => [s!"cud:{optTag n}", s!"cud:{regionTag s}"]
  | .cursorUp1 n => [s!"cpl:{optTag n}", s!"cpl:{regionTag s}"]
  | .cursorDown1 n => [s!"cnl:{optTag n}", s!"cnl:{regionTag s}"]
  | .cursorForward n => [s!"cuf:{optTag n}", s!"cuf:x-{xTag s}", if s.cursor.x + nz n ≥ s.columns then "cuf:clamped" else "cuf:free"]
  | .cursorBack n => [s!"cub:{optTag n}", s!"cub:x-{xTag s}", if nz n > s.cursor.x then "cub:clamped" else "cub:free"]
  | .backspace => [s!"bs:x-{xTag s}"]
  | .cariageReturn => [s!"cr:x-{xTag s}"]
  | .cursorToColumn n => [s!"cha:{optTag n}", if nz n > s.columns then "cha:clamped" else "cha:free"]
  | .cursorToLine n => [s!"vpa:{optTag n}", s!"vpa:{regionTag s}", if nz n > s.lines then "vpa:clamped" else "vpa:free"]
  | .cursorPosition l c =>
    [s!"cup:line-{optTag l}", s!"cup:col-{optTag c}", s!"cup:{regionTag s}",
     match s.margins with
     | some (t, b) => if s.mode DECOM then (if nz l - 1 + t > b then "cup:decom-ignored" else "cup:decom-moved") else "cup:absolute"
     | none => "cup:absolute",
     if nz l > s.lines || nz c > s.columns then "cup:clamped" else "cup:free"]
  | .tab =>
    [match firstStopFrom s.tabstops (s.cursor.x + 1) (s.columns - (s.cursor.x + 1)) with
     | some _ => "ht:stop" | none => "ht:nostop", s!"ht:x-{xTag s}"]
  | .setTabStop => [s!"hts:x-{xTag s}", if s.tabstops s.cursor.x then "hts:already" else "hts:new"]
  | .clearTabStop h => [s!"tbc:{match h with | none => "absent" | some 0 => "0" | some 3 => "3" | some _ => "other"}",
      if s.tabstops s.cursor.x then "tbc:on-stop" else "tbc:off-stop"]
  | .setMargins t b =>
    [if t.getD 0 == 0 && b.isNone then "stbm:clear" else
      (if clampMargin s (s.margins.getD (0, s.lines - 1)).1 t + 1 ≤ clampMargin s (s.margins.getD (0, s.lines - 1)).2 b
       then "stbm:accept" else "stbm:reject"),
     s!"stbm:top-{optTag t}", s!"stbm:bottom-{optTag b}", if s.margins.isSome then "stbm:had-region" else "stbm:no-region",
     if s.mode DECOM then "stbm:decom" else "stbm:nodecom"]
  | .setMode ms p => modeTags "sm" s ms p
  | .resetMode ms p => modeTags "rm" s ms p
  | .sgr a => (if a.isEmpty then ["sgr:empty"] else if a == [0] then ["sgr:only-reset"] else (sgrTags a).eraseDups) ++
      (if s.mode DECSCNM then ["sgr:under-decscnm"] else [])
  | .saveCursor => [s!"decsc:depth-{if s.savepoints.isEmpty then "0" else "n"}"]
  | .restoreCursor =>
    match s.savepoints with
    | [] => ["decrc:empty", if s.mode DECOM then "decrc:empty-decom-set" else "decrc:empty-decom-clear"]
    | sp :: _ =>
      ["decrc:pop", if sp.origin then "decrc:origin" else "decrc:no-origin", if sp.wrap then "decrc:wrap" else "decrc:no-wrap",
       if sp.cursor.y ≥ s.lines || sp.cursor.x ≥ s.columns then "decrc:clamp-screen" else "decrc:fits",
       (match s.margins with
        | some (t, b) => if sp.cursor.y < t || sp.cursor.y > b then "decrc:clamp-region" else "decrc:in-region"
        | none => "decrc:noregion"),
       if sp.g0 != s.g0 || sp.g1 != s.g1 || sp.g1Active != s.g1Active then "decrc:charset-differs" else "decrc:charset-same"]
  | .reset => ["ris", if s.savepoints.isEmpty then "ris:stack-empty" else "ris:stack-nonempty",
      if s.savedColumns.isSome then "ris:saved-columns" else "ris:no-saved-columns",
      if s.g0 != .lat1 || s.g1 != .vt100 || s.g1Active then "ris:charset-nondefault" else "ris:charset-default"]
  | .resize l c =>
    let nl := l.getD s.lines
    let nc := c.getD s.columns
    [if nl < s.lines then "resize:fewer-rows" else if nl > s.lines then "resize:more-rows" else "resize:same-rows",
     if nc < s.columns then "resize:fewer-cols" else if nc > s.columns then "resize:more-cols" else "resize:same-cols",
     if s.margins.isSome then "resize:with-region" else "resize:noregion",
     if s.cursor.y ≥ nl || s.cursor.x > nc then "resize:cursor-outside" else "resize:cursor-fits",
     if s.savepoints.isEmpty then "resize:stack-empty" else "resize:stack-nonempty"]
  | .defineCharset code mode =>
    [match (lookupStr code MAPS).bind csOfNat with | some _ => "scs:known" | none => "scs:unknown",
     if mode == [40] then "scs:g0" else if mode == [41] then "scs:g1" else "scs:other-mode"]
  | .shiftOut => [if s.g1Active then "so:already" else "so:switch"]
  | .shiftIn => [if s.g1Active then "si:switch" else "si:already"]
  | .alignmentDisplay => [if s.mode DECSCNM then "decaln:under-decscnm" else "decaln"]
  | .setTitle t => [if t.isEmpty then "title:empty" else if t.length > 1000 then "title:long" else "title"]
  | .setIconName t => [if t.isEmpty then "icon:empty" else if t.length > 1000 then "icon:long" else "icon"]
  | .display => ["display"]
  | .clearDirty => ["clear-dirty"]
  | .bell => ["bell"]
  | .reportDeviceAttributes _ => ["da"]

end Cover
end Memterm
