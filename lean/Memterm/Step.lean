import Memterm.Screen

/-
  The operation language (one constructor per `ParserListener` leaf method,
  plus `resize`, `display()` and clearing the dirty set) and the one-step
  function of the model.
-/
namespace Memterm

inductive Call
  | alignmentDisplay
  | defineCharset (code mode : List Nat)
  | reset
  | index
  | linefeed
  | reverseIndex
  | setTabStop
  | saveCursor
  | restoreCursor
  | shiftOut
  | shiftIn
  | bell
  | backspace
  | tab
  | cariageReturn
  | draw (text : List Nat)
  | insertCharacters (n : Option Nat)
  | cursorUp (n : Option Nat)
  | cursorDown (n : Option Nat)
  | cursorForward (n : Option Nat)
  | cursorBack (n : Option Nat)
  | cursorDown1 (n : Option Nat)
  | cursorUp1 (n : Option Nat)
  | cursorToColumn (n : Option Nat)
  | cursorPosition (line column : Option Nat)
  | eraseInDisplay (how : Option Nat)
  | eraseInLine (how : Option Nat)
  | insertLines (n : Option Nat)
  | deleteLines (n : Option Nat)
  | deleteCharacters (n : Option Nat)
  | eraseCharacters (n : Option Nat)
  | reportDeviceAttributes (mode : Option Nat)
  | cursorToLine (n : Option Nat)
  | clearTabStop (how : Option Nat)
  | setMode (modes : List Nat) (priv : Bool)
  | resetMode (modes : List Nat) (priv : Bool)
  | sgr (attrs : List Nat)
  | setTitle (t : List Nat)
  | setIconName (t : List Nat)
  | setMargins (top bottom : Option Nat)
  | resize (lines columns : Option Nat)
  | display
  | clearDirty
deriving DecidableEq, Repr, Inhabited

def Call.name : Call → String
  | .alignmentDisplay => "alignment_display"
  | .defineCharset .. => "define_charset"
  | .reset => "reset"
  | .index => "index"
  | .linefeed => "linefeed"
  | .reverseIndex => "reverse_index"
  | .setTabStop => "set_tab_stop"
  | .saveCursor => "save_cursor"
  | .restoreCursor => "restore_cursor"
  | .shiftOut => "shift_out"
  | .shiftIn => "shift_in"
  | .bell => "bell"
  | .backspace => "backspace"
  | .tab => "tab"
  | .cariageReturn => "cariage_return"
  | .draw .. => "draw"
  | .insertCharacters .. => "insert_characters"
  | .cursorUp .. => "cursor_up"
  | .cursorDown .. => "cursor_down"
  | .cursorForward .. => "cursor_forward"
  | .cursorBack .. => "cursor_back"
  | .cursorDown1 .. => "cursor_down1"
  | .cursorUp1 .. => "cursor_up1"
  | .cursorToColumn .. => "cursor_to_column"
  | .cursorPosition .. => "cursor_position"
  | .eraseInDisplay .. => "erase_in_display"
  | .eraseInLine .. => "erase_in_line"
  | .insertLines .. => "insert_lines"
  | .deleteLines .. => "delete_lines"
  | .deleteCharacters .. => "delete_characters"
  | .eraseCharacters .. => "erase_characters"
  | .reportDeviceAttributes .. => "report_device_attributes"
  | .cursorToLine .. => "cursor_to_line"
  | .clearTabStop .. => "clear_tab_stop"
  | .setMode .. => "set_mode"
  | .resetMode .. => "reset_mode"
  | .sgr .. => "select_graphic_rendition"
  | .setTitle .. => "set_title"
  | .setIconName .. => "set_icon_name"
  | .setMargins .. => "set_margins"
  | .resize .. => "resize"
  | .display => "display"
  | .clearDirty => "clear_dirty"

/-- One operation of the model. `display()` does not change the observable
    state (its value is `Memterm.display`). -/
def step (env : Env) (s : Screen) : Call → Screen
  | .alignmentDisplay => alignmentDisplay s
  | .defineCharset code mode => defineCharset s code mode
  | .reset => reset s
  | .index => index s
  | .linefeed => linefeed s
  | .reverseIndex => reverseIndex s
  | .setTabStop => setTabStop s
  | .saveCursor => saveCursor s
  | .restoreCursor => restoreCursor s
  | .shiftOut => shiftOut s
  | .shiftIn => shiftIn s
  | .bell => s
  | .backspace => backspace s
  | .tab => tab s
  | .cariageReturn => cariageReturn s
  | .draw t => draw env s t
  | .insertCharacters n => insertCharacters s n
  | .cursorUp n => cursorUp s n
  | .cursorDown n => cursorDown s n
  | .cursorForward n => cursorForward s n
  | .cursorBack n => cursorBack s n
  | .cursorDown1 n => cursorDown1 s n
  | .cursorUp1 n => cursorUp1 s n
  | .cursorToColumn n => cursorToColumn s n
  | .cursorPosition l c => cursorPosition s l c
  | .eraseInDisplay h => eraseInDisplay s h
  | .eraseInLine h => eraseInLine s h
  | .insertLines n => insertLines s n
  | .deleteLines n => deleteLines s n
  | .deleteCharacters n => deleteCharacters s n
  | .eraseCharacters n => eraseCharacters s n
  | .reportDeviceAttributes _ => s
  | .cursorToLine n => cursorToLine s n
  | .clearTabStop h => clearTabStop s h
  | .setMode ms p => setMode s ms p
  | .resetMode ms p => resetMode s ms p
  | .sgr a => selectGraphicRendition s a
  | .setTitle t => setTitle s t
  | .setIconName t => setIconName s t
  | .setMargins t b => setMargins s t b
  | .resize l c => resize s l c
  | .display => s
  | .clearDirty => { s with dirty := fun _ => false }

def run (env : Env) (s : Screen) (cs : List Call) : Screen := cs.foldl (step env) s

/-- Arguments the parser can deliver / the properties quantify over. -/
def optOk : Option Nat → Bool
  | none => true
  | some n => n ≤ 9999

def dimOk (n : Nat) : Bool := 1 ≤ n && n < 2147473648

def Call.argOk : Call → Bool
  | .insertCharacters n | .cursorUp n | .cursorDown n | .cursorForward n | .cursorBack n
  | .cursorDown1 n | .cursorUp1 n | .cursorToColumn n | .eraseInDisplay n | .eraseInLine n
  | .insertLines n | .deleteLines n | .deleteCharacters n | .eraseCharacters n
  | .reportDeviceAttributes n | .cursorToLine n | .clearTabStop n => optOk n
  | .cursorPosition a b | .setMargins a b => optOk a && optOk b
  | .setMode ms _ | .resetMode ms _ | .sgr ms => ms.all (· ≤ 9999)
  | .resize l c => (match l with | none => true | some v => dimOk v) &&
                   (match c with | none => true | some v => dimOk v)
  | _ => true

end Memterm
