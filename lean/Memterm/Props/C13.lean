import Memterm.Proofs.InvStep
import Memterm.Proofs.SparseStep
import Memterm.Proofs.SparseKeys
import Memterm.Spec.C13

/-
  C13 — ICH/DCH shift only the rest of the cursor row and lose what crosses the edge.
-/
namespace Memterm
namespace C13

open Gen

theorem ich_frame (s : Screen) (n : Option Nat) : SameCursorSettings s (insertCharacters s n) :=
  ⟨rfl, rfl, rfl, rfl, rfl, rfl, rfl, rfl, rfl, rfl, rfl, rfl, rfl, rfl, rfl⟩

theorem dch_frame (s : Screen) (n : Option Nat) : SameCursorSettings s (deleteCharacters s n) :=
  ⟨rfl, rfl, rfl, rfl, rfl, rfl, rfl, rfl, rfl, rfl, rfl, rfl, rfl, rfl, rfl⟩

theorem ich_cell (s : Screen) (n : Option Nat) (y x : Nat) (hx : x < s.columns) :
    (insertCharacters s n).cell y x =
      if y = s.cursor.y then
        (if x < s.cursor.x then s.cell s.cursor.y x
         else if x < s.cursor.x + shift s n then defaultCell s
         else s.cell s.cursor.y (x - shift s n))
      else s.cell y x := by
  unfold insertCharacters shift
  simp only [markDirty]
  by_cases hy : y = s.cursor.y
  · subst hy
    by_cases h1 : x < s.cursor.x
    · have : ¬ s.cursor.x ≤ x := by omega
      simp [h1, this]
    · have h1' : s.cursor.x ≤ x := by omega
      simp only [beq_self_eq_true, h1', decide_true, Bool.and_self, hx, if_true, h1, if_false]
      by_cases h2 : nz n ≤ s.columns - s.cursor.x
      · rw [Nat.min_eq_left h2]
      · have hk : min (nz n) (s.columns - s.cursor.x) = s.columns - s.cursor.x := by omega
        rw [hk]
        have a1 : x < s.cursor.x + nz n := by omega
        have a2 : x < s.cursor.x + (s.columns - s.cursor.x) := by omega
        simp [a1, a2]
  · simp [hy]

theorem dch_cell (s : Screen) (n : Option Nat) (y x : Nat) (hx : x < s.columns) :
    (deleteCharacters s n).cell y x =
      if y = s.cursor.y then
        (if x < s.cursor.x then s.cell s.cursor.y x
         else if x + shift s n < s.columns then s.cell s.cursor.y (x + shift s n)
         else defaultCell s)
      else s.cell y x := by
  unfold deleteCharacters shift
  simp only [markDirty]
  by_cases hy : y = s.cursor.y
  · subst hy
    by_cases h1 : x < s.cursor.x
    · have : ¬ s.cursor.x ≤ x := by omega
      simp [h1, this]
    · have h1' : s.cursor.x ≤ x := by omega
      simp only [beq_self_eq_true, h1', decide_true, Bool.and_self, hx, if_true, h1, if_false]
      by_cases h2 : nz n ≤ s.columns - s.cursor.x
      · rw [Nat.min_eq_left h2]
      · have hk : min (nz n) (s.columns - s.cursor.x) = s.columns - s.cursor.x := by omega
        rw [hk]
        have a1 : ¬ x + nz n < s.columns := by omega
        have a2 : ¬ x + (s.columns - s.cursor.x) < s.columns := by omega
        simp [a1, a2]
  · simp [hy]

/-- C13 for the model -/
theorem C13_holds (env : Env) (cands : List Nat) (s : Screen) (c : Call) (_h : Inv s) :
    propC13 cands s c (step env s c) = true := by
  unfold propC13
  cases c <;> simp only [rowAfter] <;> try rfl
  case insertCharacters n =>
    rw [Bool.and_eq_true, allCellsB_iff]
    refine ⟨?_, sameCursorSettingsB_of (ich_frame s n)⟩
    intro y x _ hx
    apply decide_eq_true
    exact ich_cell s n y x hx
  case deleteCharacters n =>
    rw [Bool.and_eq_true, allCellsB_iff]
    refine ⟨?_, sameCursorSettingsB_of (dch_frame s n)⟩
    intro y x _ hx
    apply decide_eq_true
    exact dch_cell s n y x hx

/-- Discarded characters do not come back: deleting what was just inserted leaves the
    cells that were pushed across the right edge blank (they are not restored). -/
theorem ich_then_dch (s : Screen) (n : Option Nat) (x : Nat) (hx : x < s.columns) :
    (deleteCharacters (insertCharacters s n) n).cell s.cursor.y x =
      if s.cursor.x ≤ x ∧ s.columns ≤ x + shift s n then defaultCell s else s.cell s.cursor.y x := by
  have e1 := dch_cell (insertCharacters s n) n s.cursor.y x hx
  have hs : shift (insertCharacters s n) n = shift s n := rfl
  have hc : (insertCharacters s n).cursor = s.cursor := rfl
  have hcol : (insertCharacters s n).columns = s.columns := rfl
  have hd : defaultCell (insertCharacters s n) = defaultCell s := rfl
  rw [e1, hs, hc, hcol, hd]
  simp only [if_true]
  by_cases h1 : x < s.cursor.x
  · have : ¬ s.cursor.x ≤ x := by omega
    simp only [h1, if_true, this, false_and, if_false]
    rw [ich_cell s n s.cursor.y x hx]
    simp [h1]
  · simp only [h1, if_false]
    by_cases h2 : x + shift s n < s.columns
    · have : ¬ (s.columns ≤ x + shift s n) := by omega
      simp only [h2, if_true, this, and_false, if_false]
      rw [ich_cell s n s.cursor.y (x + shift s n) h2]
      have a1 : ¬ x + shift s n < s.cursor.x := by omega
      have a2 : ¬ x + shift s n < s.cursor.x + shift s n := by omega
      simp [a1, a2]
    · have : s.cursor.x ≤ x ∧ s.columns ≤ x + shift s n := ⟨by omega, by omega⟩
      simp [h2, this]

/-- after either operation nothing is stored outside the grid: there is no place from
    which a discarded cell could return -/
theorem nothing_hidden (env : Env) (s : Screen) (n : Option Nat) (h : Inv s) :
    Inv (step env s (.insertCharacters n)) ∧ Inv (step env s (.deleteCharacters n)) :=
  ⟨inv_insertCharacters h n, inv_deleteCharacters h n⟩


/-- the property's own example: `abcde`, ICH 1 at column 0, DCH 1 gives `abcd ` -/
example :
    let env : Env := { W := fun _ => 1, CM := fun _ => false, NFC := id }
    let s := cariageReturn (draw env (init 5 1) [97, 98, 99, 100, 101])
    let t := deleteCharacters (insertCharacters s (some 1)) (some 1)
    display env t = [[97, 98, 99, 100, 32]] := by
  decide

/-! #### the sparse layer: the loops of `insert_characters` / `delete_characters` over the row's HashMap -/

/-- the reverse loop of ICH (move `x` to `x + n` while inside the row, blank `x`), run on a row map in
    which any cell may be absent, observes as the dense splice -/
theorem sparse_ich (ss : Sparse.SScreen) (n : Option Nat) (hx : ss.s.cursor.x ≤ ss.s.columns) :
    Sparse.abs (Sparse.insertCharacters ss n) = insertCharacters (Sparse.abs ss) n :=
  Sparse.abs_insertCharacters ss n hx

/-- the forward loop of DCH (move `x + n` to `x`, remove the tail) likewise -/
theorem sparse_dch (ss : Sparse.SScreen) (n : Option Nat) (hx : ss.s.cursor.x ≤ ss.s.columns) :
    Sparse.abs (Sparse.deleteCharacters ss n) = deleteCharacters (Sparse.abs ss) n :=
  Sparse.abs_deleteCharacters ss n hx

/-- NOTHING HIDDEN at the level of the HashMap: ICH / DCH leave every key of the row map inside the
    row (no cell is parked at index == columns or beyond), given that all keys were inside before -/
theorem sparse_ich_keys {ss : Sparse.SScreen} (h : Sparse.KeysIn ss) (hy : ss.s.cursor.y < ss.s.lines) (n : Option Nat) :
    Sparse.KeysIn (Sparse.insertCharacters ss n) := Sparse.keysIn_insertCharacters h hy n

theorem sparse_dch_keys {ss : Sparse.SScreen} (h : Sparse.KeysIn ss) (hy : ss.s.cursor.y < ss.s.lines) (n : Option Nat) :
    Sparse.KeysIn (Sparse.deleteCharacters ss n) := Sparse.keysIn_deleteCharacters h hy n

end C13
end Memterm

