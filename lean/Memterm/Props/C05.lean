import Memterm.Props.Frame
import Memterm.Parser
import Memterm.Spec.C05

/-
  C05 — Cursor movement and addressing follow the documented clamping rules.

  `c05Expected` is the property's table of closed forms, written from the
  statement (1-based parameters, absent or zero = 1, horizontal motion stops at
  the first and last column, vertical motion stops at the margins, absolute
  addressing clamps to the screen, origin mode is region-relative and CUP/HVP
  outside the region is ignored).  `propC05` is the executable predicate the
  driver evaluates on the implementation's transitions; `C05_holds` proves it
  of the model for every well-formed state and every parameter.
-/
namespace Memterm
namespace C05

open Gen

/-! #### parameter defaulting -/

theorem nz_none : nz none = 1 := rfl
theorem nz_zero : nz (some 0) = 1 := rfl
theorem nz_pos (n : Nat) (h : 0 < n) : nz (some n) = n := by
  cases n with
  | zero => omega
  | succ k => rfl
theorem nz_ge_one (o : Option Nat) : 1 ≤ nz o := by
  cases o with
  | none => decide
  | some n => cases n <;> simp [nz]

/-! #### the main theorem -/

theorem position_and_frame (env : Env) (s : Screen) (c : Call) (x y : Nat) (h : Inv s)
    (he : expected s c = some (x, y)) :
    (step env s c).cursor.x = x ∧ (step env s c).cursor.y = y ∧ OnlyCursorMoved s (step env s c) := by
  have hcx := h.cx
  have hcy := h.cy
  have hcols := h.cols
  have hrows := h.rows
  cases c <;> simp only [expected, reduceCtorEq] at he
  case backspace =>
    obtain ⟨rfl, rfl⟩ := Prod.mk.inj (Option.some.inj he)
    refine ⟨?_, rfl, rfl⟩
    simp only [step, backspace, cursorBack, ensureHBounds, setCursorX, nz]
    by_cases e : s.cursor.x = s.columns <;> simp [e] <;> omega
  case cariageReturn =>
    obtain ⟨rfl, rfl⟩ := Prod.mk.inj (Option.some.inj he)
    exact ⟨rfl, rfl, rfl⟩
  case cursorUp n =>
    obtain ⟨rfl, rfl⟩ := Prod.mk.inj (Option.some.inj he)
    exact ⟨rfl, rfl, rfl⟩
  case cursorDown n =>
    obtain ⟨rfl, rfl⟩ := Prod.mk.inj (Option.some.inj he)
    exact ⟨rfl, rfl, rfl⟩
  case cursorForward n =>
    obtain ⟨rfl, rfl⟩ := Prod.mk.inj (Option.some.inj he)
    exact ⟨rfl, rfl, rfl⟩
  case cursorBack n =>
    obtain ⟨rfl, rfl⟩ := Prod.mk.inj (Option.some.inj he)
    refine ⟨?_, rfl, rfl⟩
    simp only [step, cursorBack, ensureHBounds, setCursorX]
    have := nz_ge_one n
    by_cases e : s.cursor.x = s.columns <;> simp [e] <;> omega
  case cursorDown1 n =>
    obtain ⟨rfl, rfl⟩ := Prod.mk.inj (Option.some.inj he)
    exact ⟨rfl, rfl, rfl⟩
  case cursorUp1 n =>
    obtain ⟨rfl, rfl⟩ := Prod.mk.inj (Option.some.inj he)
    exact ⟨rfl, rfl, rfl⟩
  case cursorToColumn n =>
    obtain ⟨rfl, rfl⟩ := Prod.mk.inj (Option.some.inj he)
    exact ⟨rfl, rfl, rfl⟩
  case cursorToLine n =>
    simp only [step, cursorToLine, ensureVBounds, setCursorY]
    refine ⟨?_, ?_, rfl⟩
    · revert he; split <;> (intro he; obtain ⟨rfl, rfl⟩ := Prod.mk.inj (Option.some.inj he); rfl)
    · cases hm : s.margins with
      | none =>
        simp only [hm] at he
        obtain ⟨rfl, rfl⟩ := Prod.mk.inj (Option.some.inj he)
        by_cases hd : s.mode DECOM = true <;> simp [hd]
      | some tb =>
        obtain ⟨t, b⟩ := tb
        have hmarg := h.marg t b hm
        by_cases hd : s.mode DECOM = true
        · simp only [hm, hd] at he
          obtain ⟨rfl, rfl⟩ := Prod.mk.inj (Option.some.inj he)
          simp [hd]
        · have hd' : s.mode DECOM = false := by simpa using hd
          simp only [hm, hd'] at he
          obtain ⟨rfl, rfl⟩ := Prod.mk.inj (Option.some.inj he)
          simp [hd']
  case cursorPosition l c =>
    simp only [step, cursorPosition]
    cases hm : s.margins with
    | none =>
      simp only [hm] at he
      obtain ⟨rfl, rfl⟩ := Prod.mk.inj (Option.some.inj he)
      refine ⟨rfl, ?_, rfl⟩
      simp [ensureVBounds, ensureHBounds, setCursorX, setCursorY, hm]
    | some tb =>
      obtain ⟨t, b⟩ := tb
      have hmarg := h.marg t b hm
      by_cases hd : s.mode DECOM = true
      · simp only [hm, hd] at he
        by_cases hin : nz l - 1 + t ≤ b
        · simp only [hin, if_true] at he
          obtain ⟨rfl, rfl⟩ := Prod.mk.inj (Option.some.inj he)
          have h1 : ¬ (nz l - 1 + t < t) := by omega
          have h2 : ¬ (b < nz l - 1 + t) := by omega
          simp only [hd, if_true, h1, h2, decide_false, Bool.or_self, Bool.false_eq_true, if_false]
          refine ⟨rfl, ?_, rfl⟩
          simp [ensureVBounds, ensureHBounds, setCursorX, setCursorY, hm, hd]
          omega
        · simp only [hin, if_false] at he
          obtain ⟨rfl, rfl⟩ := Prod.mk.inj (Option.some.inj he)
          have h2 : b < nz l - 1 + t := by omega
          simp [hd, h2]
          rfl
      · have hd' : s.mode DECOM = false := by simpa using hd
        simp only [hm, hd'] at he
        obtain ⟨rfl, rfl⟩ := Prod.mk.inj (Option.some.inj he)
        simp only [hd', Bool.false_eq_true, if_false]
        refine ⟨rfl, ?_, rfl⟩
        simp [ensureVBounds, ensureHBounds, setCursorX, setCursorY, hm, hd']

/-- C05 for the model: the executable predicate holds after every movement
    operation, for every well-formed state and every parameter. -/
theorem C05_holds (env : Env) (cands : List Nat) (s : Screen) (c : Call) (h : Inv s) :
    propC05 cands s c (step env s c) = true := by
  unfold propC05
  cases he : expected s c with
  | none => rfl
  | some xy =>
    obtain ⟨x, y⟩ := xy
    obtain ⟨hx, hy, hf⟩ := position_and_frame env s c x y h he
    simp [hx, hy, sameSettingsB_of hf.sameSettings, sameCellsB_of hf.cell, sameDirtyB_of hf.dirty]

/-- The movement operations keep the cursor inside the screen. -/
theorem inv_preserved (env : Env) (s : Screen) (c : Call) (x y : Nat) (h : Inv s)
    (he : expected s c = some (x, y)) : Inv (step env s c) := by
  obtain ⟨hx, hy, hf⟩ := position_and_frame env s c x y h he
  have hss := hf.sameSettings
  obtain ⟨h1, h2, _, _, h5, h6, _, _, _, _, _, _, _, h14⟩ := hss
  have hcols := h.cols
  have hrows := h.rows
  have hcx := h.cx
  have hcy := h.cy
  have hbt := bottomMargin_lt h
  have htp := topMargin_lt h
  refine Inv.of_cursor_only h h1 h2 h5 hf.dirty hf.cell h6 h14 ?_ ?_
  · rw [hy]
    cases c <;> simp only [expected, reduceCtorEq] at he
    all_goals first
      | (obtain ⟨rfl, rfl⟩ := Prod.mk.inj (Option.some.inj he); omega)
      | skip
    case cursorToLine n =>
      cases hm : s.margins with
      | none => simp only [hm] at he; obtain ⟨rfl, rfl⟩ := Prod.mk.inj (Option.some.inj he); omega
      | some tb =>
        obtain ⟨t, b⟩ := tb
        have := h.marg t b hm
        cases hd : s.mode DECOM <;> simp only [hm, hd] at he <;>
          (obtain ⟨rfl, rfl⟩ := Prod.mk.inj (Option.some.inj he); omega)
    case cursorPosition l c =>
      cases hm : s.margins with
      | none => simp only [hm] at he; obtain ⟨rfl, rfl⟩ := Prod.mk.inj (Option.some.inj he); omega
      | some tb =>
        obtain ⟨t, b⟩ := tb
        have := h.marg t b hm
        cases hd : s.mode DECOM <;> simp only [hm, hd] at he
        · obtain ⟨rfl, rfl⟩ := Prod.mk.inj (Option.some.inj he); omega
        · split at he <;> (obtain ⟨rfl, rfl⟩ := Prod.mk.inj (Option.some.inj he); omega)
  · rw [hx]
    cases c <;> simp only [expected, reduceCtorEq] at he
    all_goals first
      | (obtain ⟨rfl, rfl⟩ := Prod.mk.inj (Option.some.inj he); omega)
      | skip
    case cursorToLine n =>
      cases hm : s.margins with
      | none => simp only [hm] at he; obtain ⟨rfl, rfl⟩ := Prod.mk.inj (Option.some.inj he); omega
      | some tb =>
        obtain ⟨t, b⟩ := tb
        cases hd : s.mode DECOM <;> simp only [hm, hd] at he <;>
          (obtain ⟨rfl, rfl⟩ := Prod.mk.inj (Option.some.inj he); omega)
    case cursorPosition l c =>
      cases hm : s.margins with
      | none => simp only [hm] at he; obtain ⟨rfl, rfl⟩ := Prod.mk.inj (Option.some.inj he); omega
      | some tb =>
        obtain ⟨t, b⟩ := tb
        cases hd : s.mode DECOM <;> simp only [hm, hd] at he
        · obtain ⟨rfl, rfl⟩ := Prod.mk.inj (Option.some.inj he); omega
        · split at he <;> (obtain ⟨rfl, rfl⟩ := Prod.mk.inj (Option.some.inj he); omega)

/-! #### the CSI finals reach these operations with first = row, second = column -/


/-! #### non-vacuity: a concrete well-formed state with a region, origin mode and a
    pending-wrap cursor, on which the closed forms are evaluated -/

example : exampleState.cursor.x = 5 ∧ exampleState.cursor.y = 1 ∧ exampleState.margins = some (1, 2) ∧
    exampleState.mode DECOM = true := by decide

example : expected exampleState (.cursorPosition (some 2) (some 9)) = some (4, 2) := by decide
example : expected exampleState (.cursorPosition (some 3) (some 1)) = some (5, 1) := by decide
example : expected exampleState (.cursorBack none) = some (3, 1) := by decide

end C05
end Memterm

