import Memterm.Props.Frame
import Memterm.Parser
import Memterm.Proofs.DrawFrame
import Memterm.Spec.C20

/-
  C20 — Character-set translation (G0/G1, SO/SI, DEC graphics, CP437).

  The Spec tables are constructed independently of the source: Latin-1 is the identity;
  DEC Special Graphics is the identity with the 37 documented overrides (Linux GRAF_MAP);
  the IBM PC table is code page 437 (with the classic glyphs for 0x01-0x1f and 0x7f; the
  literal below was produced from Python's `cp437` codec) with the two code points Linux
  and pyte use for 0x10 / 0x11; VAX42 is the IBM PC table with pyte's eight overrides.
  The theorems state that the arrays regenerated from charset.rs equal them, entry by entry.
-/
namespace Memterm
namespace C20

open Gen

/-! #### the 4 x 256 regenerated entries equal the published tables -/

theorem lat1_eq : LAT1_MAP = lat1Spec := by decide +kernel
theorem vt100_eq : VT100_MAP = vt100Spec := by decide +kernel
theorem ibmpc_eq : IBMPC_MAP = ibmpcSpec := by decide +kernel
theorem vax42_eq : VAX42_MAP = vax42Spec := by decide +kernel

/-- the designator codes: B = Latin-1, 0 = DEC graphics, U = CP437, V = VAX42 -/
theorem designators : MAPS = [([48], 1), ([66], 0), ([85], 2), ([86], 3)] := by decide

theorem csTable_eq (id : CsId) : csTable id = specTable id := by
  cases id
  · exact lat1_eq
  · exact vt100_eq
  · exact ibmpc_eq
  · exact vax42_eq

/-- every drawn code point below 256 goes through the active set; above 255 passes through -/
theorem translate_eq (s : Screen) (c : Nat) : translate s c = translateSpec s c := by
  unfold translate translateSpec
  rw [csTable_eq]

theorem translate_high (s : Screen) (c : Nat) (h : 255 < c) : translate s c = c := by
  simp [translate, h]

/-- Latin-1 is the identity on 0..255 -/
theorem lat1_identity (c : Nat) (h : c < 256) : lat1Spec.getD c c = c := by
  simp [lat1Spec, List.getD, h]

/-- DEC Special Graphics changes exactly the documented code points (0x5f-0x7e become
    line-drawing symbols, plus the arrows and the block) -/
theorem vt100_identity_elsewhere : ∀ c, c < 256 → (vt100Overrides.all (fun p => p.1 != c)) = true →
    vt100Spec.getD c 0 = c := by decide +kernel

/-! #### SO / SI / designation -/

theorem so_si (s : Screen) : (shiftOut s).g1Active = true ∧ (shiftIn s).g1Active = false ∧
    shiftOut s = { s with g1Active := true } ∧ shiftIn s = { s with g1Active := false } := ⟨rfl, rfl, rfl, rfl⟩

/-- initial state: G0 = Latin-1, G1 = DEC graphics, G0 active -/
theorem initial_charsets (columns lines : Nat) :
    (init columns lines).g0 = .lat1 ∧ (init columns lines).g1 = .vt100 ∧ (init columns lines).g1Active = false := by
  unfold init reset
  simp only
  have : ∀ u : Screen, (cursorPosition u none none).g0 = u.g0 ∧ (cursorPosition u none none).g1 = u.g1 ∧
      (cursorPosition u none none).g1Active = u.g1Active := by
    intro u
    unfold cursorPosition
    simp only
    split
    · split
      · split <;> exact ⟨rfl, rfl, rfl⟩
      · exact ⟨rfl, rfl, rfl⟩
    · exact ⟨rfl, rfl, rfl⟩
  obtain ⟨a, b, c⟩ := this _
  exact ⟨a, b, c⟩

/-- `ESC (` / `ESC )` + B, 0, U, V install the set in G0 / G1; other finals and other modes do nothing -/
theorem define_charset_spec (s : Screen) (code mode : List Nat) :
    defineCharset s code mode =
      match codeSet code with
      | some id => if mode = [40] then { s with g0 := id } else if mode = [41] then { s with g1 := id } else s
      | none => s := by
  unfold defineCharset codeSet
  rw [designators]
  by_cases h1 : code = [66]
  · subst h1; simp [lookupStr, csOfNat]
  · by_cases h2 : code = [48]
    · subst h2; simp [lookupStr, csOfNat]
    · by_cases h3 : code = [85]
      · subst h3; simp [lookupStr, csOfNat]
      · by_cases h4 : code = [86]
        · subst h4; simp [lookupStr, csOfNat]
        · simp [lookupStr, h1, h2, h3, h4]

/-- in UTF-8 mode the recogniser makes none of these calls -/
theorem utf8_ignores (c : Nat) :
    send true .ground 14 = (.ground, []) ∧ send true .ground 15 = (.ground, []) ∧
    send true (.escCharset 40) c = (.ground, []) ∧ send true (.escCharset 41) c = (.ground, []) :=
  ⟨rfl, rfl, rfl, rfl⟩

/-- and in 8-bit mode it makes exactly them -/
theorem eightbit_dispatches (c : Nat) :
    send false .ground 14 = (.ground, [.shiftOut]) ∧ send false .ground 15 = (.ground, [.shiftIn]) ∧
    send false (.escCharset 40) c = (.ground, [.defineCharset [c] [40]]) ∧
    send false (.escCharset 41) c = (.ground, [.defineCharset [c] [41]]) :=
  ⟨rfl, rfl, rfl, rfl⟩

/-! #### executable predicate -/

theorem draw_eq_spec (env : Env) (s : Screen) (data : List Nat) : draw env s data = drawSpec env s data := by
  unfold draw drawSpec
  have : data.map (translate s) = data.map (translateSpec s) := by
    apply List.map_congr_left
    intro c _
    exact translate_eq s c
  rw [this]

/-- a string is drawn character by character, each translated through the character set
    that is active when draw() is called (C20) -/
theorem draw_is_fold (env : Env) (s : Screen) (t : List Nat) :
    draw env s t =
      markDirty ((t.map (translateSpec s)).foldl (drawChar env) s)
        ((t.map (translateSpec s)).foldl (drawChar env) s).cursor.y := by
  rw [draw_eq_spec]; rfl

theorem draw_charsets (env : Env) (cs : List Nat) (s : Screen) :
    ((cs.foldl (drawChar env) s).g0 = s.g0 ∧ (cs.foldl (drawChar env) s).g1 = s.g1 ∧
     (cs.foldl (drawChar env) s).g1Active = s.g1Active) := by
  have h := ss_foldl_drawChar env cs s
  exact ⟨h.2.2.2.2.2.2.2.2.2.1, h.2.2.2.2.2.2.2.2.2.2.1, h.2.2.2.2.2.2.2.2.2.2.2.1⟩

theorem C20_holds (env : Env) (cands : List Nat) (s : Screen) (c : Call) :
    propC20 env cands s c (step env s c) = true := by
  cases c <;> try rfl
  case draw t =>
    simp only [propC20, step, Bool.and_eq_true, allCellsB_iff, beq_iff_eq]
    obtain ⟨a, b, d⟩ := draw_charsets env (t.map (translate s)) s
    refine ⟨⟨⟨fun y x _ _ => decide_eq_true (by rw [draw_eq_spec]), decide_eq_true ?_⟩, decide_eq_true ?_⟩, ?_⟩
    · exact a
    · exact b
    · exact d
  case shiftOut => simp [propC20, step, shiftOut, sameSettingsB, sameCellsB, sameDirtyB]
  case shiftIn => simp [propC20, step, shiftIn, sameSettingsB, sameCellsB, sameDirtyB]
  case defineCharset code mode =>
    simp only [propC20, step, define_charset_spec]
    cases codeSet code with
    | none => simp [sameSettingsB, sameCellsB, sameDirtyB]
    | some id =>
      simp only
      by_cases h1 : mode = [40]
      · simp [h1, sameSettingsB, sameCellsB, sameDirtyB]
      · by_cases h2 : mode = [41]
        · simp [h1, h2, sameSettingsB, sameCellsB, sameDirtyB]
        · simp [h1, h2, sameSettingsB, sameCellsB, sameDirtyB]

/-- non-vacuity: after `ESC ) 0`, SO, the letter `q` is drawn as U+2500 -/
example :
    let env : Env := { W := fun _ => 1, CM := fun _ => false, NFC := id }
    let s := shiftOut (defineCharset (init 4 1) [48] [41])
    (draw env s [113]).cell 0 0 = { data := [0x2500], attr := s.cursor.attr } := by
  decide

end C20
end Memterm

