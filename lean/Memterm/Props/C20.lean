import Memterm.Props.Frame
import Memterm.Parser
import Memterm.Proofs.DrawFrame

/-
  C20 — Character-set translation (G0/G1, SO/SI, DEC graphics, CP437).

  The Spec tables are constructed independently of the source: Latin-1 is the identity;
  DEC Special Graphics is the identity with the 37 documented overrides (Linux GRAF_MAP);
  the IBM PC table is code page 437 (with the classic glyphs for 0x01-0x1f and 0x7f; the
  literal below was produced from Python's `cp437` codec) with the two code points Linux
  and pyte use for 0x10 / 0x11; VAX42 is the IBM PC table with pyte's eight overrides.
  The theorems state that the arrays regenerated from charset.rs equal them, entry by entry.
-/
namespace Memterm
namespace C20

open Gen

def override (l : List (Nat × Nat)) (base : Nat → Nat) (c : Nat) : Nat :=
  match l.find? (fun p => p.1 == c) with
  | some p => p.2
  | none => base c

def lat1Spec : List Nat := List.range 256

/-- DEC Special Graphics (VT100 line drawing), Linux GRAF_MAP -/
def vt100Overrides : List (Nat × Nat) :=
  [(0x2b, 0x2192), (0x2c, 0x2190), (0x2d, 0x2191), (0x2e, 0x2193), (0x30, 0x2588), (0x5f, 0x00a0),
   (0x60, 0x25c6), (0x61, 0x2592), (0x62, 0x2409), (0x63, 0x240c), (0x64, 0x240d), (0x65, 0x240a),
   (0x66, 0x00b0), (0x67, 0x00b1), (0x68, 0x2591), (0x69, 0x240b), (0x6a, 0x2518), (0x6b, 0x2510),
   (0x6c, 0x250c), (0x6d, 0x2514), (0x6e, 0x253c), (0x6f, 0x23ba), (0x70, 0x23bb), (0x71, 0x2500),
   (0x72, 0x23bc), (0x73, 0x23bd), (0x74, 0x251c), (0x75, 0x2524), (0x76, 0x2534), (0x77, 0x252c),
   (0x78, 0x2502), (0x79, 0x2264), (0x7a, 0x2265), (0x7b, 0x03c0), (0x7c, 0x2260), (0x7d, 0x00a3),
   (0x7e, 0x00b7)]

def vt100Spec : List Nat := (List.range 256).map (override vt100Overrides id)

/-- code page 437 with the classic glyphs for the control range -/
def cp437 : List Nat :=
  [   0, 9786, 9787, 9829, 9830, 9827, 9824, 8226, 9688, 9675, 9689, 9794, 9792, 9834, 9835, 9788,
   9658, 9668, 8597, 8252, 182, 167, 9644, 8616, 8593, 8595, 8594, 8592, 8735, 8596, 9650, 9660,
   32, 33, 34, 35, 36, 37, 38, 39, 40, 41, 42, 43, 44, 45, 46, 47,
   48, 49, 50, 51, 52, 53, 54, 55, 56, 57, 58, 59, 60, 61, 62, 63,
   64, 65, 66, 67, 68, 69, 70, 71, 72, 73, 74, 75, 76, 77, 78, 79,
   80, 81, 82, 83, 84, 85, 86, 87, 88, 89, 90, 91, 92, 93, 94, 95,
   96, 97, 98, 99, 100, 101, 102, 103, 104, 105, 106, 107, 108, 109, 110, 111,
   112, 113, 114, 115, 116, 117, 118, 119, 120, 121, 122, 123, 124, 125, 126, 8962,
   199, 252, 233, 226, 228, 224, 229, 231, 234, 235, 232, 239, 238, 236, 196, 197,
   201, 230, 198, 244, 246, 242, 251, 249, 255, 214, 220, 162, 163, 165, 8359, 402,
   225, 237, 243, 250, 241, 209, 170, 186, 191, 8976, 172, 189, 188, 161, 171, 187,
   9617, 9618, 9619, 9474, 9508, 9569, 9570, 9558, 9557, 9571, 9553, 9559, 9565, 9564, 9563, 9488,
   9492, 9524, 9516, 9500, 9472, 9532, 9566, 9567, 9562, 9556, 9577, 9574, 9568, 9552, 9580, 9575,
   9576, 9572, 9573, 9561, 9560, 9554, 9555, 9579, 9578, 9496, 9484, 9608, 9604, 9612, 9616, 9600,
   945, 223, 915, 960, 931, 963, 181, 964, 934, 920, 937, 948, 8734, 966, 949, 8745,
   8801, 177, 8805, 8804, 8992, 8993, 247, 8776, 176, 8729, 183, 8730, 8319, 178, 9632, 160]

/-- the IBM PC table as published in Linux / pyte: CP437 with U+25B6 / U+25C0 at 0x10 / 0x11 -/
def ibmpcSpec : List Nat := (List.range 256).map (override [(0x10, 0x25b6), (0x11, 0x25c0)] (fun c => cp437.getD c c))

/-- pyte's VAX42 table: the IBM PC table with eight overrides -/
def vax42Spec : List Nat :=
  (List.range 256).map (override
    [(0x21, 0x043b), (0x3f, 0x0435), (0x61, 0x0441), (0x68, 0x0435), (0x6f, 0x043a), (0x72, 0x0442),
     (0x74, 0x043b), (0x75, 0x0435)] (fun c => ibmpcSpec.getD c c))

/-! #### the 4 x 256 regenerated entries equal the published tables -/

theorem lat1_eq : LAT1_MAP = lat1Spec := by decide +kernel
theorem vt100_eq : VT100_MAP = vt100Spec := by decide +kernel
theorem ibmpc_eq : IBMPC_MAP = ibmpcSpec := by decide +kernel
theorem vax42_eq : VAX42_MAP = vax42Spec := by decide +kernel

/-- the designator codes: B = Latin-1, 0 = DEC graphics, U = CP437, V = VAX42 -/
theorem designators : MAPS = [([48], 1), ([66], 0), ([85], 2), ([86], 3)] := by decide

def specTable : CsId → List Nat
  | .lat1 => lat1Spec
  | .vt100 => vt100Spec
  | .ibmpc => ibmpcSpec
  | .vax42 => vax42Spec

theorem csTable_eq (id : CsId) : csTable id = specTable id := by
  cases id
  · exact lat1_eq
  · exact vt100_eq
  · exact ibmpc_eq
  · exact vax42_eq

/-- the documented translation of a drawn code point -/
def translateSpec (s : Screen) (c : Nat) : Nat :=
  if c > 255 then c else (specTable (if s.g1Active then s.g1 else s.g0)).getD c c

/-- every drawn code point below 256 goes through the active set; above 255 passes through -/
theorem translate_eq (s : Screen) (c : Nat) : translate s c = translateSpec s c := by
  unfold translate translateSpec
  rw [csTable_eq]

theorem translate_high (s : Screen) (c : Nat) (h : 255 < c) : translate s c = c := by
  simp [translate, h]

/-- Latin-1 is the identity on 0..255 -/
theorem lat1_identity (c : Nat) (h : c < 256) : lat1Spec.getD c c = c := by
  simp [lat1Spec, List.getD, h]

/-- DEC Special Graphics changes exactly the documented code points (0x5f-0x7e become
    line-drawing symbols, plus the arrows and the block) -/
theorem vt100_identity_elsewhere : ∀ c, c < 256 → (vt100Overrides.all (fun p => p.1 != c)) = true →
    vt100Spec.getD c 0 = c := by decide +kernel

/-! #### SO / SI / designation -/

theorem so_si (s : Screen) : (shiftOut s).g1Active = true ∧ (shiftIn s).g1Active = false ∧
    shiftOut s = { s with g1Active := true } ∧ shiftIn s = { s with g1Active := false } := ⟨rfl, rfl, rfl, rfl⟩

/-- initial state: G0 = Latin-1, G1 = DEC graphics, G0 active -/
theorem initial_charsets (columns lines : Nat) :
    (init columns lines).g0 = .lat1 ∧ (init columns lines).g1 = .vt100 ∧ (init columns lines).g1Active = false := by
  unfold init reset
  simp only
  have : ∀ u : Screen, (cursorPosition u none none).g0 = u.g0 ∧ (cursorPosition u none none).g1 = u.g1 ∧
      (cursorPosition u none none).g1Active = u.g1Active := by
    intro u
    unfold cursorPosition
    simp only
    split
    · split
      · split <;> exact ⟨rfl, rfl, rfl⟩
      · exact ⟨rfl, rfl, rfl⟩
    · exact ⟨rfl, rfl, rfl⟩
  obtain ⟨a, b, c⟩ := this _
  exact ⟨a, b, c⟩

def codeSet (code : List Nat) : Option CsId :=
  if code = [66] then some .lat1 else if code = [48] then some .vt100
  else if code = [85] then some .ibmpc else if code = [86] then some .vax42 else none

/-- `ESC (` / `ESC )` + B, 0, U, V install the set in G0 / G1; other finals and other modes do nothing -/
theorem define_charset_spec (s : Screen) (code mode : List Nat) :
    defineCharset s code mode =
      match codeSet code with
      | some id => if mode = [40] then { s with g0 := id } else if mode = [41] then { s with g1 := id } else s
      | none => s := by
  unfold defineCharset codeSet
  rw [designators]
  by_cases h1 : code = [66]
  · subst h1; simp [lookupStr, csOfNat]
  · by_cases h2 : code = [48]
    · subst h2; simp [lookupStr, csOfNat]
    · by_cases h3 : code = [85]
      · subst h3; simp [lookupStr, csOfNat]
      · by_cases h4 : code = [86]
        · subst h4; simp [lookupStr, csOfNat]
        · simp [lookupStr, h1, h2, h3, h4]

/-- in UTF-8 mode the recogniser makes none of these calls -/
theorem utf8_ignores (c : Nat) :
    send true .ground 14 = (.ground, []) ∧ send true .ground 15 = (.ground, []) ∧
    send true (.escCharset 40) c = (.ground, []) ∧ send true (.escCharset 41) c = (.ground, []) :=
  ⟨rfl, rfl, rfl, rfl⟩

/-- and in 8-bit mode it makes exactly them -/
theorem eightbit_dispatches (c : Nat) :
    send false .ground 14 = (.ground, [.shiftOut]) ∧ send false .ground 15 = (.ground, [.shiftIn]) ∧
    send false (.escCharset 40) c = (.ground, [.defineCharset [c] [40]]) ∧
    send false (.escCharset 41) c = (.ground, [.defineCharset [c] [41]]) :=
  ⟨rfl, rfl, rfl, rfl⟩

/-! #### executable predicate -/

/-- `draw` with the documented translation instead of the regenerated tables -/
def drawSpec (env : Env) (s : Screen) (data : List Nat) : Screen :=
  let s1 := (data.map (translateSpec s)).foldl (drawChar env) s
  markDirty s1 s1.cursor.y

theorem draw_eq_spec (env : Env) (s : Screen) (data : List Nat) : draw env s data = drawSpec env s data := by
  unfold draw drawSpec
  have : data.map (translate s) = data.map (translateSpec s) := by
    apply List.map_congr_left
    intro c _
    exact translate_eq s c
  rw [this]

def propC20 (env : Env) (cands : List Nat) (pre : Screen) (c : Call) (post : Screen) : Bool :=
  match c with
  | .draw t =>
    let e := drawSpec env pre t
    allCellsB pre.lines pre.columns (fun y x => decide (post.cell y x = e.cell y x)) &&
    decide (post.g0 = pre.g0) && decide (post.g1 = pre.g1) && post.g1Active == pre.g1Active
  | .shiftOut =>
    post.g1Active && decide (post.cursor = pre.cursor) &&
    sameSettingsB cands { pre with g1Active := true } post && sameCellsB pre post && sameDirtyB pre post
  | .shiftIn =>
    !post.g1Active && decide (post.cursor = pre.cursor) &&
    sameSettingsB cands { pre with g1Active := false } post && sameCellsB pre post && sameDirtyB pre post
  | .defineCharset code mode =>
    let e : Screen :=
      match codeSet code with
      | some id => if mode = [40] then { pre with g0 := id } else if mode = [41] then { pre with g1 := id } else pre
      | none => pre
    decide (post.cursor = pre.cursor) && sameSettingsB cands e post && sameCellsB pre post && sameDirtyB pre post
  | _ => true

theorem draw_charsets (env : Env) (cs : List Nat) (s : Screen) :
    ((cs.foldl (drawChar env) s).g0 = s.g0 ∧ (cs.foldl (drawChar env) s).g1 = s.g1 ∧
     (cs.foldl (drawChar env) s).g1Active = s.g1Active) := by
  have h := ss_foldl_drawChar env cs s
  exact ⟨h.2.2.2.2.2.2.2.2.2.1, h.2.2.2.2.2.2.2.2.2.2.1, h.2.2.2.2.2.2.2.2.2.2.2.1⟩

theorem C20_holds (env : Env) (cands : List Nat) (s : Screen) (c : Call) :
    propC20 env cands s c (step env s c) = true := by
  cases c <;> try rfl
  case draw t =>
    simp only [propC20, step, Bool.and_eq_true, allCellsB_iff, beq_iff_eq]
    obtain ⟨a, b, d⟩ := draw_charsets env (t.map (translate s)) s
    refine ⟨⟨⟨fun y x _ _ => decide_eq_true (by rw [draw_eq_spec]), decide_eq_true ?_⟩, decide_eq_true ?_⟩, ?_⟩
    · exact a
    · exact b
    · exact d
  case shiftOut => simp [propC20, step, shiftOut, sameSettingsB, sameCellsB, sameDirtyB]
  case shiftIn => simp [propC20, step, shiftIn, sameSettingsB, sameCellsB, sameDirtyB]
  case defineCharset code mode =>
    simp only [propC20, step, define_charset_spec]
    cases codeSet code with
    | none => simp [sameSettingsB, sameCellsB, sameDirtyB]
    | some id =>
      simp only
      by_cases h1 : mode = [40]
      · simp [h1, sameSettingsB, sameCellsB, sameDirtyB]
      · by_cases h2 : mode = [41]
        · simp [h1, h2, sameSettingsB, sameCellsB, sameDirtyB]
        · simp [h1, h2, sameSettingsB, sameCellsB, sameDirtyB]

/-- non-vacuity: after `ESC ) 0`, SO, the letter `q` is drawn as U+2500 -/
example :
    let env : Env := { W := fun _ => 1, CM := fun _ => false, NFC := id }
    let s := shiftOut (defineCharset (init 4 1) [48] [41])
    (draw env s [113]).cell 0 0 = { data := [0x2500], attr := s.cursor.attr } := by
  decide

end C20
end Memterm
