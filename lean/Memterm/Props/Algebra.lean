import Memterm.Screen

/-
  Algebraic laws of the screen operations (composition, idempotence, absorption), for EVERY state and EVERY
  parameter.  None of the twenty properties states them outright; they are consequences a user of the
  emulator relies on ("CUF 2 CUF 3 is CUF 5", "erasing twice is erasing once") and that a sampled test can
  only spot-check.  They are theorems about the model's functions; the correspondence ties those to the crate.
-/
namespace Memterm
namespace Algebra

theorem nz_pos' (o : Option Nat) : 0 < nz o := by
  cases o with
  | none => simp [nz]
  | some n => cases n <;> simp [nz]

theorem nz_sum (a b : Option Nat) : nz (some (nz a + nz b)) = nz a + nz b := by
  have hk : 0 < nz a + nz b := by have := nz_pos' a; omega
  generalize nz a + nz b = k at hk ⊢
  cases k with
  | zero => omega
  | succ k => simp [nz]

/-- CUF a ; CUF b = CUF (a+b) (absent / zero counts read as 1), in every state -/
theorem cuf_compose (s : Screen) (a b : Option Nat) :
    cursorForward (cursorForward s a) b = cursorForward s (some (nz a + nz b)) := by
  simp only [cursorForward, ensureHBounds, setCursorX, nz_sum]
  congr 2
  omega

/-- CUD a ; CUD b = CUD (a+b): the bottom margin absorbs, in every state -/
theorem cud_compose (s : Screen) (a b : Option Nat) :
    cursorDown (cursorDown s a) b = cursorDown s (some (nz a + nz b)) := by
  simp only [cursorDown, setCursorY, bottomMargin, nz_sum]
  congr 2
  omega

/-- CUU a ; CUU b = CUU (a+b): the top margin absorbs, in every state -/
theorem cuu_compose (s : Screen) (a b : Option Nat) :
    cursorUp (cursorUp s a) b = cursorUp s (some (nz a + nz b)) := by
  simp only [cursorUp, setCursorY, topMargin, nz_sum]
  congr 2
  omega

/-- CUB a ; CUB b = CUB (a+b) in every state whose cursor is on the screen or pending a wrap
    (`x ≤ columns`, part of `Inv`): the pending-wrap adjustment is applied once, by the first CUB -/
theorem cub_compose (s : Screen) (a b : Option Nat) (hx : s.cursor.x ≤ s.columns) :
    cursorBack (cursorBack s a) b = cursorBack s (some (nz a + nz b)) := by
  simp only [cursorBack, ensureHBounds, setCursorX, nz_sum]
  have ha := nz_pos' a
  congr 2
  repeat' split
  all_goals (simp only [beq_iff_eq] at *; omega)

/-- absolute column addressing forgets the previous column: CHA after any horizontal move is CHA -/
theorem cha_absorbs (s : Screen) (a c : Option Nat) :
    cursorToColumn (cursorForward s a) c = cursorToColumn s c ∧
    cursorToColumn (cursorBack s a) c = cursorToColumn s c ∧
    cursorToColumn (cursorToColumn s a) c = cursorToColumn s c ∧
    cursorToColumn (cariageReturn s) c = cursorToColumn s c := by
  simp [cursorToColumn, cursorForward, cursorBack, cariageReturn, ensureHBounds, setCursorX]

/-- CR is idempotent and absorbs every horizontal move before it -/
theorem cr_absorbs (s : Screen) (a : Option Nat) :
    cariageReturn (cariageReturn s) = cariageReturn s ∧
    cariageReturn (cursorForward s a) = cariageReturn s ∧
    cariageReturn (cursorBack s a) = cariageReturn s ∧
    cariageReturn (cursorToColumn s a) = cariageReturn s := by
  simp [cursorToColumn, cursorForward, cursorBack, cariageReturn, ensureHBounds, setCursorX]

/-- ECH n ; ECH n = ECH n (erasing twice is erasing once): same cells, same dirty rows, same cursor -/
theorem ech_idempotent (s : Screen) (n : Option Nat) :
    eraseCharacters (eraseCharacters s n) n = eraseCharacters s n := by
  simp only [eraseCharacters, markDirty, cursorCell]
  congr 1
  · funext y; by_cases h : y = s.cursor.y <;> simp [h]
  · funext y x
    by_cases h1 : y = s.cursor.y <;> by_cases h2 : s.cursor.x ≤ x <;>
      by_cases h3 : x < min (s.cursor.x + nz n) s.columns <;> simp [h1, h2, h3]

/-- EL h ; EL h = EL h for every selector (supported or not) -/
theorem el_idempotent (s : Screen) (h : Option Nat) :
    eraseInLine (eraseInLine s h) h = eraseInLine s h := by
  have key : ∀ k : Nat, k = 0 ∨ k = 1 ∨ k = 2 ∨ ∃ m, k = m + 3 := by
    intro k
    rcases Nat.lt_or_ge k 3 with h | h
    · omega
    · exact Or.inr (Or.inr (Or.inr ⟨k - 3, by omega⟩))
  unfold eraseInLine
  generalize h.getD 0 = k
  rcases key k with rfl | rfl | rfl | ⟨m, rfl⟩
  all_goals
    simp only [elRange, markDirty, cursorCell]
    congr 1
  all_goals
    funext y
    try funext x
    by_cases h1 : y = s.cursor.y <;> simp [h1] <;> (try (intros; exfalso; omega))

/-- strictly inside the scrolling region IND and RI are inverse cursor moves: no scroll, no cell, no dirty
    mark, and the cursor comes back (`t ≤ y < b` for IND;RI, `t < y ≤ b` for RI;IND) -/
theorem ind_ri_inverse (s : Screen) :
    (topMargin s ≤ s.cursor.y → s.cursor.y < bottomMargin s → reverseIndex (index s) = s) ∧
    (topMargin s < s.cursor.y → s.cursor.y ≤ bottomMargin s → index (reverseIndex s) = s) := by
  constructor
  · intro h1 h2
    have e1 : (s.cursor.y == bottomMargin s) = false := by simp; omega
    have m1 : topMargin (cursorDown s none) = topMargin s := rfl
    have m2 : bottomMargin (cursorDown s none) = bottomMargin s := rfl
    have y1 : (cursorDown s none).cursor.y = s.cursor.y + 1 := by
      simp only [cursorDown, setCursorY, nz]; omega
    have e2 : ((cursorDown s none).cursor.y == topMargin s) = false := by simp [y1]; omega
    simp only [index, e1, Bool.false_eq_true, ↓reduceIte, reverseIndex, m1, e2]
    have hy : max ((cursorDown s none).cursor.y - nz none) (topMargin s) = s.cursor.y := by
      rw [y1]; simp only [nz]; omega
    simp only [cursorUp, m1, hy]
    rfl
  · intro h1 h2
    have e1 : (s.cursor.y == topMargin s) = false := by simp; omega
    have m1 : topMargin (cursorUp s none) = topMargin s := rfl
    have m2 : bottomMargin (cursorUp s none) = bottomMargin s := rfl
    have y1 : (cursorUp s none).cursor.y = s.cursor.y - 1 := by
      simp only [cursorUp, setCursorY, nz]; omega
    have e2 : ((cursorUp s none).cursor.y == bottomMargin s) = false := by simp [y1]; omega
    simp only [reverseIndex, e1, Bool.false_eq_true, ↓reduceIte, index, m2, e2]
    have hy : min ((cursorUp s none).cursor.y + nz none) (bottomMargin s) = s.cursor.y := by
      rw [y1]; simp only [nz]; omega
    simp only [cursorDown, m2, hy]
    rfl

/-- ICH a ; ICH b = ICH (a+b) at the same cursor, in every state: same row, same blanks, same losses at the
    right edge, same dirty set -/
theorem ich_compose (s : Screen) (a b : Option Nat) :
    insertCharacters (insertCharacters s a) b = insertCharacters s (some (nz a + nz b)) := by
  simp only [insertCharacters, markDirty, nz_sum]
  have hd : ∀ c, defaultCell { s with dirty := fun d => d == s.cursor.y || s.dirty d, cell := c } = defaultCell s :=
    fun _ => rfl
  congr 1
  · funext y; by_cases h : y = s.cursor.y <;> simp [h]
  · funext y x
    simp only [hd]
    by_cases h1 : y = s.cursor.y
    · subst h1
      by_cases h2 : s.cursor.x ≤ x <;> by_cases h3 : x < s.columns <;> simp only [h2, h3, beq_self_eq_true,
        decide_true, decide_false, Bool.and_true, Bool.and_false, Bool.true_and, if_true, if_false,
        Bool.false_eq_true]
      by_cases h4 : x < s.cursor.x + nz b
      · have : x < s.cursor.x + (nz a + nz b) := by omega
        simp [h4, this]
      · have h5 : s.cursor.x ≤ x - nz b := by omega
        have h6 : x - nz b < s.columns := by omega
        simp only [h4, h5, h6, if_false, decide_true, Bool.and_true, if_true]
        by_cases h7 : x - nz b < s.cursor.x + nz a
        · have : x < s.cursor.x + (nz a + nz b) := by omega
          simp [h7, this]
        · have : ¬ x < s.cursor.x + (nz a + nz b) := by omega
          have e : x - nz b - nz a = x - (nz a + nz b) := by omega
          simp [h7, this, e]
    · simp [h1]

/-- DCH a ; DCH b = DCH (a+b) at the same cursor, in every state -/
theorem dch_compose (s : Screen) (a b : Option Nat) :
    deleteCharacters (deleteCharacters s a) b = deleteCharacters s (some (nz a + nz b)) := by
  simp only [deleteCharacters, markDirty, nz_sum]
  have hd : ∀ c, defaultCell { s with dirty := fun d => d == s.cursor.y || s.dirty d, cell := c } = defaultCell s :=
    fun _ => rfl
  congr 1
  · funext y; by_cases h : y = s.cursor.y <;> simp [h]
  · funext y x
    simp only [hd]
    by_cases h1 : y = s.cursor.y
    · subst h1
      by_cases h2 : s.cursor.x ≤ x <;> by_cases h3 : x < s.columns <;> simp only [h2, h3, beq_self_eq_true,
        decide_true, decide_false, Bool.and_true, Bool.and_false, Bool.true_and, if_true, if_false,
        Bool.false_eq_true]
      by_cases h4 : x + nz b < s.columns
      · have h5 : s.cursor.x ≤ x + nz b := by omega
        simp only [h4, h5, if_true, decide_true, Bool.and_true]
        by_cases h7 : x + nz b + nz a < s.columns
        · have : x + (nz a + nz b) < s.columns := by omega
          have e : x + nz b + nz a = x + (nz a + nz b) := by omega
          simp [this, e]
        · have : ¬ x + (nz a + nz b) < s.columns := by omega
          simp [h7, this]
      · have : ¬ x + (nz a + nz b) < s.columns := by omega
        simp [h4, this]
    · simp [h1]

/-- ED 2 (and ED 3) is idempotent: cells, dirty set, cursor -/
theorem ed2_idempotent (s : Screen) :
    eraseInDisplay (eraseInDisplay s (some 2)) (some 2) = eraseInDisplay s (some 2) ∧
    eraseInDisplay (eraseInDisplay s (some 3)) (some 3) = eraseInDisplay s (some 3) := by
  constructor <;>
  · simp only [eraseInDisplay, Option.getD, edRows, edFill, markDirtyRange, cursorCell]
    simp only [show ((2:Nat) == 0 || (2:Nat) == 1) = false from rfl, show ((3:Nat) == 0 || (3:Nat) == 1) = false from rfl,
      Bool.false_eq_true, if_false]
    congr 1
    · funext d; by_cases h : d < s.lines <;> simp [h]
    · funext y x
      by_cases h : (decide (0 ≤ y) && decide (y < s.lines) && decide (x < s.columns)) = true <;> simp_all

open Gen in
/-- CUP l c ; CUP l c = CUP l c in every state: with margins or without, in origin mode or not, ignored
    (row outside the region in origin mode) or not -/
theorem cup_idempotent (s : Screen) (l c : Option Nat) :
    cursorPosition (cursorPosition s l c) l c = cursorPosition s l c := by
  cases hm : s.margins with
  | none =>
    simp [cursorPosition, hm, ensureVBounds, ensureHBounds, setCursorX, setCursorY]
  | some tb =>
    obtain ⟨t, b⟩ := tb
    by_cases hd : s.mode DECOM = true
    · by_cases hr : (nz l - 1 + t < t || nz l - 1 + t > b) = true
      · simp [cursorPosition, hm, hd, hr]
      · simp [cursorPosition, hm, hd, hr, ensureVBounds, ensureHBounds, setCursorX, setCursorY]
    · simp [cursorPosition, hm, hd, ensureVBounds, ensureHBounds, setCursorX, setCursorY]

/-- DECALN ; DECALN = DECALN: cells (text E, rendition kept), dirty set, everything else -/
theorem decaln_idempotent (s : Screen) : alignmentDisplay (alignmentDisplay s) = alignmentDisplay s := by
  simp only [alignmentDisplay, markAllDirty, markDirtyRange]
  congr 1
  · funext d; by_cases h : d < s.lines <;> simp [h]
  · funext y x
    by_cases h : (decide (y < s.lines) && decide (x < s.columns)) = true <;> simp_all

/-- SO / SI: idempotent, last one wins, nothing but the active-set flag changes -/
theorem so_si_laws (s : Screen) :
    shiftOut (shiftOut s) = shiftOut s ∧ shiftIn (shiftIn s) = shiftIn s ∧
    shiftIn (shiftOut s) = shiftIn s ∧ shiftOut (shiftIn s) = shiftOut s := by
  simp [shiftOut, shiftIn]

/-- OSC title / icon name: last write wins, and the two fields are independent -/
theorem title_icon_laws (s : Screen) (t u : List Nat) :
    setTitle (setTitle s t) u = setTitle s u ∧ setIconName (setIconName s t) u = setIconName s u ∧
    setTitle (setIconName s t) u = setIconName (setTitle s u) t := by
  simp [setTitle, setIconName]

/-- non-vacuity of `cub_compose`: the pending-wrap state of an 80-column screen meets its hypothesis and
    two CUB 1 from there land on column 77, as CUB 2 does -/
example : let s : Screen := setCursorX (init 80 24) 80
    s.cursor.x ≤ s.columns ∧ (cursorBack (cursorBack s none) none).cursor.x = 77 ∧
    (cursorBack s (some 2)).cursor.x = 77 := by decide

end Algebra
end Memterm
