import Memterm.Proofs.Grammar

/-
  C03 - the recogniser and the documented grammar, end to end and in both directions.

  `Grammar.Unit utf8 s ev` (Memterm/Proofs/Grammar.lean) says that the string `s` is one complete unit
  of the documented VT100 / ECMA-48 subset - a text character, a C0 control, an ESC-final, `ESC #`,
  `ESC %`, `ESC (` / `ESC )` sequence, a CSI sequence (either introducer; a body of digits, `;`, `?`,
  embedded BEL..CR, SP and `>`; ended by a final character, aborted by CAN / SUB, or `$` + one more
  character), an OSC string (either introducer; `R` alone, the Linux console's reset-palette; a payload of plain characters and `ESC x`
  pairs; ended by BEL, U+009C or `ESC \`) - and that `ev` are the listener events it stands for
  (parameters: `;`-separated decimal strings, empty = 0, saturating at 9999; `?` = private; embedded
  controls executed at once).  Nothing in that definition mentions recogniser states.

  * `feed_decomposes`: EVERY input string is a sequence of such units followed by an incomplete one,
    the events the recogniser produces are exactly the events of those units, in order, and the
    recogniser is in its ground state exactly when nothing is incomplete;
  * `unit_sound` / `units_sound`: conversely, ANY way of reading an input as a sequence of units
    gives the events the recogniser produces - so the reading is unique as far as events go.

  Kept in a leaf module (nothing imports it).
-/
namespace Memterm
namespace C03

open Gen C19 Grammar

/-- every input string, fed to a recogniser in its initial
    state, is a sequence of complete units of the documented grammar followed by an incomplete one,
    and the listener events are exactly the events of those units, in order. -/
theorem feed_decomposes (utf8 : Bool) (cs : List Nat) :
    Split utf8 cs (feed { Parser.init with useUtf8 := utf8 } cs).2 (feed { Parser.init with useUtf8 := utf8 } cs).1 := by
  have h0 : Split utf8 [] [] { Parser.init with useUtf8 := utf8 } :=
    ⟨[], [], [], by simp, by simp, by simp, Or.inl ⟨rfl, rfl, rfl, rfl⟩⟩
  simpa using feed_split cs (p := { Parser.init with useUtf8 := utf8 }) rfl h0


/-- a complete unit of the documented grammar, fed to a
    recogniser in its ground state, produces exactly the unit's events and leaves the recogniser in
    the ground state. -/
theorem unit_sound {utf8 : Bool} {s : List Nat} {ev : List Call} (h : Unit utf8 s ev)
    (p : Parser) (hp : Ground p) (hu : p.useUtf8 = utf8) : feed p s = (p, ev) := by
  have hpe := ground_eq p hp
  cases h with
  | text c hc =>
    have := text_ground p hp [c] (by simpa using hc)
    simpa using this
  | c0 c hc =>
    have hs : isSpecial c = true := (special_iff c).mpr (Or.inr (Or.inr (Or.inr hc)))
    rw [feed_cons_special p hp c hs, c0_ground p.useUtf8 c hc]
    simp only [feed, List.append_nil, beq_self_eq_true, hu]
    rw [← hu, ← hpe]
  | escFinal c hc =>
    rw [feed_cons_special p hp 27 (by decide)]
    simp only [esc_starts, List.nil_append]
    rw [feed_last _ rfl c _ (esc_final p.useUtf8 c hc)]
    rw [← hpe]
  | escHash c =>
    rw [feed_cons_special p hp 27 (by decide)]
    simp only [esc_starts, List.nil_append]
    rw [feed_cons_fsm _ rfl]
    simp only [(esc_hash p.useUtf8 c).1, List.nil_append]
    rw [feed_last _ rfl c _ (esc_hash p.useUtf8 c).2]
    rw [← hpe]
  | escPercent c =>
    rw [feed_cons_special p hp 27 (by decide)]
    simp only [esc_starts, List.nil_append]
    rw [feed_cons_fsm _ rfl]
    simp only [(esc_percent p.useUtf8 c).1, List.nil_append]
    rw [feed_last _ rfl c _ (esc_percent p.useUtf8 c).2]
    rw [← hpe]
  | escCharset m c hm =>
    rw [feed_cons_special p hp 27 (by decide)]
    simp only [esc_starts, List.nil_append]
    rw [feed_cons_fsm _ rfl]
    have e1 : send p.useUtf8 .esc m = (.escCharset m, []) := by
      rcases hm with e | e <;> subst e <;> rfl
    simp only [e1, List.nil_append]
    have e2 : send p.useUtf8 (.escCharset m) c = (.ground, if utf8 = true then [] else [.defineCharset [c] [m]]) := by
      subst hu; cases hx : p.useUtf8 <;> simp [send]
    rw [feed_last _ rfl c _ e2]
    rw [← hpe]
  | csi i body f hi hb hf =>
    rw [List.append_assoc, feed_csi_intro p hp i hi, C02.feed_append]
    obtain ⟨d, c, hs, hfeed⟩ := feed_csi_body body { taking := false, fsm := .csi [] [] false, useUtf8 := p.useUtf8 }
      [] [] [] rfl rfl (by simp [paramChars, splitSemi]) hb
    simp only [List.nil_append] at hs hfeed
    rw [hfeed]
    simp only
    rw [feed_last _ rfl f _ (csi_final _ _ _ _ _ hf)]
    simp only [csiParams, hs, List.map_append, List.map_cons, List.map_nil]
    rw [← hpe]
  | csiAbort i body c hi hb hc =>
    rw [List.append_assoc, feed_csi_intro p hp i hi, C02.feed_append]
    obtain ⟨d, c', hs, hfeed⟩ := feed_csi_body body { taking := false, fsm := .csi [] [] false, useUtf8 := p.useUtf8 }
      [] [] [] rfl rfl (by simp [paramChars, splitSemi]) hb
    simp only [List.nil_append] at hs hfeed
    rw [hfeed]
    simp only
    have e : send p.useUtf8 (.csi (d.map paramValue) c' (csiPrivate body)) c = (.ground, [.draw [c]]) := by
      rcases hc with e | e <;> subst e
      · exact (csi_abort _ _ _ _).1
      · exact (csi_abort _ _ _ _).2
    rw [feed_last _ rfl c _ e]
    rw [← hpe]
  | csiDollar i body c hi hb =>
    rw [List.append_assoc, feed_csi_intro p hp i hi, C02.feed_append]
    obtain ⟨d, c', hs, hfeed⟩ := feed_csi_body body { taking := false, fsm := .csi [] [] false, useUtf8 := p.useUtf8 }
      [] [] [] rfl rfl (by simp [paramChars, splitSemi]) hb
    simp only [List.nil_append] at hs hfeed
    rw [hfeed]
    simp only
    rw [feed_cons_fsm _ rfl]
    simp only [(csi_dollar p.useUtf8 _ _ _ c).1, List.nil_append]
    rw [feed_last _ rfl c _ (csi_dollar p.useUtf8 [] [] false c).2]
    simp only [List.append_nil]
    rw [← hpe]
  | oscPalette i hi =>
    rw [feed_osc_intro p hp i hi]
    have e : send p.useUtf8 .oscCode 82 = (.ground, []) := rfl
    rw [feed_last _ rfl 82 _ e, ← hpe]
  | oscEmpty i t hi ht =>
    rw [feed_osc_intro p hp i hi]
    rcases ht with e | e | e <;> subst e
    · rw [feed_last _ rfl 7 [] rfl, ← hpe]
    · rw [feed_last _ rfl 0x9c [] rfl, ← hpe]
    · rw [feed_cons_fsm _ rfl]
      have e1 : send p.useUtf8 .oscCode 27 = (.oscFirstEsc, []) := rfl
      simp only [e1, List.nil_append]
      rw [feed_last _ rfl 92 [] rfl, ← hpe]
  | osc i head code pfx atoms t hi hh ht =>
    rw [List.append_assoc, List.append_assoc, feed_osc_intro p hp i hi]
    -- the head: the recogniser is in the string loop with the code and the payload prefix
    have hhead : feed { taking := false, fsm := .oscCode, useUtf8 := p.useUtf8 } (head ++ (payloadOf atoms ++ t)) =
        feed { taking := false, fsm := .oscParam code pfx, useUtf8 := p.useUtf8 } (payloadOf atoms ++ t) := by
      rcases hh with ⟨e1, e2, hk, h82⟩ | ⟨x, e1, e2, e3, hx⟩
      · subst e1 e2
        have e82 : (code == 82) = false := by simpa using h82
        have e27 : isStr code ESC = false := by simpa [isStr, ESC] using hk.2.2
        have e7 : (code == 7) = false := by simpa using hk.1
        have e9 : (code == 0x9c) = false := by simpa using hk.2.1
        have hs : send p.useUtf8 .oscCode code = (.oscParam code [], []) := by
          simp only [send, e82, e27, oscTerm_contains_one, e7, e9, Bool.or_self, Bool.false_eq_true, if_false]
        simp only [List.cons_append, List.nil_append]
        rw [feed_cons_fsm _ rfl]
        simp only [hs, List.nil_append]
        rfl
      · subst e1 e2 e3
        have e : (x == 92) = false := by simpa using hx
        have hs : send p.useUtf8 .oscFirstEsc x = (.oscParam 27 [x], []) := by
          simp only [send, oscTerm_contains_esc, e, Bool.false_eq_true, if_false]; rfl
        simp only [List.cons_append, List.nil_append]
        rw [feed_cons_fsm _ rfl]
        have e1 : send p.useUtf8 .oscCode 27 = (.oscFirstEsc, []) := rfl
        simp only [e1, List.nil_append]
        rw [feed_cons_fsm _ rfl]
        simp only [hs, List.nil_append]
        rfl
    rw [hhead, C02.feed_append, feed_atoms _ code pfx atoms ⟨rfl, rfl⟩]
    simp only [List.nil_append]
    rcases ht with e | e | e <;> subst e
    · rw [feed_last _ rfl 7 _ (osc_terminators _ _ _).1, ← hpe]
    · rw [feed_last _ rfl 0x9c _ (osc_terminators _ _ _).2.1, ← hpe]
    · rw [feed_cons_fsm _ rfl]
      have e1 : send p.useUtf8 (.oscParam code (pfx ++ payloadOf atoms)) 27 = (.oscParamEsc code (pfx ++ payloadOf atoms), []) := rfl
      simp only [e1, List.nil_append]
      rw [feed_last _ rfl 92 _ (osc_terminators _ _ _).2.2, ← hpe]


/-- any reading of an input as a sequence of complete units gives the recogniser's events -/
theorem units_sound {utf8 : Bool} (us : List (List Nat × List Call)) (h : ∀ u ∈ us, Unit utf8 u.1 u.2)
    (p : Parser) (hp : Ground p) (hu : p.useUtf8 = utf8) :
    feed p (us.map Prod.fst).flatten = (p, (us.map Prod.snd).flatten) := by
  induction us with
  | nil => simp [feed]
  | cons u rest ih =>
    simp only [List.map_cons, List.flatten_cons]
    rw [C02.feed_append, unit_sound (h u (List.mem_cons_self ..)) p hp hu,
      ih (fun x hx => h x (List.mem_cons_of_mem _ hx))]

/-- The listener events of a complete input are a function of its reading as units: whatever the
    reading, they are the concatenation of the units' events. -/
theorem grammar_spec (utf8 : Bool) (us : List (List Nat × List Call)) (h : ∀ u ∈ us, Unit utf8 u.1 u.2) :
    (feed { Parser.init with useUtf8 := utf8 } (us.map Prod.fst).flatten).2 = (us.map Prod.snd).flatten := by
  rw [units_sound us h _ ⟨rfl, rfl⟩ rfl]

/-- non-vacuity: `ESC [ ? 1 ; BEL 2 5 SP h` is a unit (a private SM 1;25 with a bell rung on the way),
    `x` is a unit, and `ESC ] 2 ; a ESC q BEL`+`ESC \` is a unit -/
example : Unit true ([27, 91] ++ [63, 49, 59, 7, 50, 53, 32] ++ [104])
    (embedded [63, 49, 59, 7, 50, 53, 32] ++ csiDispatch 104 (csiParams [63, 49, 59, 7, 50, 53, 32]) (csiPrivate [63, 49, 59, 7, 50, 53, 32])) :=
  Unit.csi [27, 91] [63, 49, 59, 7, 50, 53, 32] 104 (Or.inl rfl) (by decide) (by decide)

example : embedded [63, 49, 59, 7, 50, 53, 32] ++ csiDispatch 104 (csiParams [63, 49, 59, 7, 50, 53, 32]) (csiPrivate [63, 49, 59, 7, 50, 53, 32])
    = [.bell, .setMode [1, 25] true] := by decide

example : (feed Parser.init ([27, 91] ++ [63, 49, 59, 7, 50, 53, 32] ++ [104])).2 = [.bell, .setMode [1, 25] true] := by decide

example : Unit true ([27, 93] ++ [50] ++ payloadOf [.plain 59 (by decide), .plain 97 (by decide), .pair 113 (by decide), .plain 98 (by decide)] ++ [27, 92])
    (oscFinish 50 ([] ++ payloadOf [.plain 59 (by decide), .plain 97 (by decide), .pair 113 (by decide), .plain 98 (by decide)])) :=
  Unit.osc [27, 93] [50] 50 [] _ [27, 92] (Or.inl rfl) (Or.inl ⟨rfl, rfl, by decide, by decide⟩) (Or.inr (Or.inr rfl))

end C03
end Memterm
