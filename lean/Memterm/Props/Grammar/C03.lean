import Memterm.Proofs.Grammar

/-
  C03 - the recogniser and the documented grammar, end to end and in both directions.

  `Grammar.Unit utf8 s ev` (Memterm/Proofs/Grammar.lean) says that the string `s` is one complete unit
  of the documented VT100 / ECMA-48 subset - a text character, a C0 control, an ESC-final, `ESC #`,
  `ESC %`, `ESC (` / `ESC )` sequence, a CSI sequence (either introducer; a body of digits, `;`, `?`,
  embedded BEL..CR, SP and `>`; ended by a final character, aborted by CAN / SUB, or `$` + one more
  character), an OSC string (either introducer; `R` alone, the Linux console's reset-palette; a payload of plain characters and `ESC x`
  pairs; ended by BEL, U+009C or `ESC \`) - and that `ev` are the listener events it stands for
  (parameters: `;`-separated decimal strings, empty = 0, saturating at 9999; `?` = private; embedded
  controls executed at once).  Nothing in that definition mentions recogniser states.

  * `feed_decomposes`: EVERY input string is a sequence of such units followed by an incomplete one,
    the events the recogniser produces are exactly the events of those units, in order, and the
    recogniser is in its ground state exactly when nothing is incomplete;
  * `unit_sound` / `units_sound`: conversely, ANY way of reading an input as a sequence of units
    gives the events the recogniser produces - so the reading is unique as far as events go.

  Kept in a leaf module (nothing imports it).
-/
namespace Memterm
namespace C03

open Gen C19 Grammar

/-- every input string, fed to a recogniser in its initial
    state, is a sequence of complete units of the documented grammar followed by an incomplete one,
    and the listener events are exactly the events of those units, in order. -/
theorem feed_decomposes (utf8 : Bool) (cs : List Nat) :
    Split utf8 cs (feed { Parser.init with useUtf8 := utf8 } cs).2 (feed { Parser.init with useUtf8 := utf8 } cs).1 := by
  have h0 : Split utf8 [] [] { Parser.init with useUtf8 := utf8 } :=
    ⟨[], [], [], by simp, by simp, by simp, Or.inl ⟨rfl, rfl, rfl, rfl⟩⟩
  simpa using feed_split cs (p := { Parser.init with useUtf8 := utf8 }) rfl h0


/-- a complete unit of the documented grammar, fed to a
    recogniser in its ground state, produces exactly the unit's events and leaves the recogniser in
    the ground state. -/
theorem unit_sound {utf8 : Bool} {s : List Nat} {ev : List Call} (h : Unit utf8 s ev)
    (p : Parser) (hp : Ground p) (hu : p.useUtf8 = utf8) : feed p s = (p, ev) := by
  have hpe := ground_eq p hp
  cases h with
  | text c hc =>
    have := text_ground p hp [c] (by simpa using hc)
    simpa using this
  | c0 c hc =>
    have hs : isSpecial c = true := (special_iff c).mpr (Or.inr (Or.inr (Or.inr hc)))
    rw [feed_cons_special p hp c hs, c0_ground p.useUtf8 c hc]
    simp only [feed, List.append_nil, beq_self_eq_true, hu]
    rw [← hu, ← hpe]
  | escFinal c hc =>
    rw [feed_cons_special p hp 27 (by decide)]
    simp only [esc_starts, List.nil_append]
    rw [feed_last _ rfl c _ (esc_final p.useUtf8 c hc)]
    rw [← hpe]
  | escHash c =>
    rw [feed_cons_special p hp 27 (by decide)]
    simp only [esc_starts, List.nil_append]
    rw [feed_cons_fsm _ rfl]
    simp only [(esc_hash p.useUtf8 c).1, List.nil_append]
    rw [feed_last _ rfl c _ (esc_hash p.useUtf8 c).2]
    rw [← hpe]
  | escPercent c =>
    rw [feed_cons_special p hp 27 (by decide)]
    simp only [esc_starts, List.nil_append]
    rw [feed_cons_fsm _ rfl]
    simp only [(esc_percent p.useUtf8 c).1, List.nil_append]
    rw [feed_last _ rfl c _ (esc_percent p.useUtf8 c).2]
    rw [← hpe]
  | escCharset m c hm =>
    rw [feed_cons_special p hp 27 (by decide)]
    simp only [esc_starts, List.nil_append]
    rw [feed_cons_fsm _ rfl]
    have e1 : send p.useUtf8 .esc m = (.escCharset m, []) := by
      rcases hm with e | e <;> subst e <;> rfl
    simp only [e1, List.nil_append]
    have e2 : send p.useUtf8 (.escCharset m) c = (.ground, if utf8 = true then [] else [.defineCharset [c] [m]]) := by
      subst hu; cases hx : p.useUtf8 <;> simp [send]
    rw [feed_last _ rfl c _ e2]
    rw [← hpe]
  | csi i body f hi hb hf =>
    rw [List.append_assoc, feed_csi_intro p hp i hi, C02.feed_append]
    obtain ⟨d, c, hs, hfeed⟩ := feed_csi_body body { taking := false, fsm := .csi [] [] false, useUtf8 := p.useUtf8 }
      [] [] [] rfl rfl (by simp [paramChars, splitSemi]) hb
    simp only [List.nil_append] at hs hfeed
    rw [hfeed]
    simp only
    rw [feed_last _ rfl f _ (csi_final _ _ _ _ _ hf)]
    simp only [csiParams, hs, List.map_append, List.map_cons, List.map_nil]
    rw [← hpe]
  | csiAbort i body c hi hb hc =>
    rw [List.append_assoc, feed_csi_intro p hp i hi, C02.feed_append]
    obtain ⟨d, c', hs, hfeed⟩ := feed_csi_body body { taking := false, fsm := .csi [] [] false, useUtf8 := p.useUtf8 }
      [] [] [] rfl rfl (by simp [paramChars, splitSemi]) hb
    simp only [List.nil_append] at hs hfeed
    rw [hfeed]
    simp only
    have e : send p.useUtf8 (.csi (d.map paramValue) c' (csiPrivate body)) c = (.ground, [.draw [c]]) := by
      rcases hc with e | e <;> subst e
      · exact (csi_abort _ _ _ _).1
      · exact (csi_abort _ _ _ _).2
    rw [feed_last _ rfl c _ e]
    rw [← hpe]
  | csiDollar i body c hi hb =>
    rw [List.append_assoc, feed_csi_intro p hp i hi, C02.feed_append]
    obtain ⟨d, c', hs, hfeed⟩ := feed_csi_body body { taking := false, fsm := .csi [] [] false, useUtf8 := p.useUtf8 }
      [] [] [] rfl rfl (by simp [paramChars, splitSemi]) hb
    simp only [List.nil_append] at hs hfeed
    rw [hfeed]
    simp only
    rw [feed_cons_fsm _ rfl]
    simp only [(csi_dollar p.useUtf8 _ _ _ c).1, List.nil_append]
    rw [feed_last _ rfl c _ (csi_dollar p.useUtf8 [] [] false c).2]
    simp only [List.append_nil]
    rw [← hpe]
  | oscPalette i hi =>
    rw [feed_osc_intro p hp i hi]
    have e : send p.useUtf8 .oscCode 82 = (.ground, []) := rfl
    rw [feed_last _ rfl 82 _ e, ← hpe]
  | oscEmpty i t hi ht =>
    rw [feed_osc_intro p hp i hi]
    rcases ht with e | e | e <;> subst e
    · rw [feed_last _ rfl 7 [] rfl, ← hpe]
    · rw [feed_last _ rfl 0x9c [] rfl, ← hpe]
    · rw [feed_cons_fsm _ rfl]
      have e1 : send p.useUtf8 .oscCode 27 = (.oscFirstEsc, []) := rfl
      simp only [e1, List.nil_append]
      rw [feed_last _ rfl 92 [] rfl, ← hpe]
  | osc i head code pfx atoms t hi hh ht =>
    rw [List.append_assoc, List.append_assoc, feed_osc_intro p hp i hi]
    -- the head: the recogniser is in the string loop with the code and the payload prefix
    have hhead : feed { taking := false, fsm := .oscCode, useUtf8 := p.useUtf8 } (head ++ (payloadOf atoms ++ t)) =
        feed { taking := false, fsm := .oscParam code pfx, useUtf8 := p.useUtf8 } (payloadOf atoms ++ t) := by
      rcases hh with ⟨e1, e2, hk, h82⟩ | ⟨x, e1, e2, e3, hx⟩
      · subst e1 e2
        have e82 : (code == 82) = false := by simpa using h82
        have e27 : isStr code ESC = false := by simpa [isStr, ESC] using hk.2.2
        have e7 : (code == 7) = false := by simpa using hk.1
        have e9 : (code == 0x9c) = false := by simpa using hk.2.1
        have hs : send p.useUtf8 .oscCode code = (.oscParam code [], []) := by
          simp only [send, e82, e27, oscTerm_contains_one, e7, e9, Bool.or_self, Bool.false_eq_true, if_false]
        simp only [List.cons_append, List.nil_append]
        rw [feed_cons_fsm _ rfl]
        simp only [hs, List.nil_append]
        rfl
      · subst e1 e2 e3
        have e : (x == 92) = false := by simpa using hx
        have hs : send p.useUtf8 .oscFirstEsc x = (.oscParam 27 [x], []) := by
          simp only [send, oscTerm_contains_esc, e, Bool.false_eq_true, if_false]; rfl
        simp only [List.cons_append, List.nil_append]
        rw [feed_cons_fsm _ rfl]
        have e1 : send p.useUtf8 .oscCode 27 = (.oscFirstEsc, []) := rfl
        simp only [e1, List.nil_append]
        rw [feed_cons_fsm _ rfl]
        simp only [hs, List.nil_append]
        rfl
    rw [hhead, C02.feed_append, feed_atoms _ code pfx atoms ⟨rfl, rfl⟩]
    simp only [List.nil_append]
    rcases ht with e | e | e <;> subst e
    · rw [feed_last _ rfl 7 _ (osc_terminators _ _ _).1, ← hpe]
    · rw [feed_last _ rfl 0x9c _ (osc_terminators _ _ _).2.1, ← hpe]
    · rw [feed_cons_fsm _ rfl]
      have e1 : send p.useUtf8 (.oscParam code (pfx ++ payloadOf atoms)) 27 = (.oscParamEsc code (pfx ++ payloadOf atoms), []) := rfl
      simp only [e1, List.nil_append]
      rw [feed_last _ rfl 92 _ (osc_terminators _ _ _).2.2, ← hpe]


/-- any reading of an input as a sequence of complete units gives the recogniser's events -/
theorem units_sound {utf8 : Bool} (us : List (List Nat × List Call)) (h : ∀ u ∈ us, Unit utf8 u.1 u.2)
    (p : Parser) (hp : Ground p) (hu : p.useUtf8 = utf8) :
    feed p (us.map Prod.fst).flatten = (p, (us.map Prod.snd).flatten) := by
  induction us with
  | nil => simp [feed]
  | cons u rest ih =>
    simp only [List.map_cons, List.flatten_cons]
    rw [C02.feed_append, unit_sound (h u (List.mem_cons_self ..)) p hp hu,
      ih (fun x hx => h x (List.mem_cons_of_mem _ hx))]

/-- The listener events of a complete input are a function of its reading as units: whatever the
    reading, they are the concatenation of the units' events. -/
theorem grammar_spec (utf8 : Bool) (us : List (List Nat × List Call)) (h : ∀ u ∈ us, Unit utf8 u.1 u.2) :
    (feed { Parser.init with useUtf8 := utf8 } (us.map Prod.fst).flatten).2 = (us.map Prod.snd).flatten := by
  rw [units_sound us h _ ⟨rfl, rfl⟩ rfl]

/-- non-vacuity: `ESC [ ? 1 ; BEL 2 5 SP h` is a unit (a private SM 1;25 with a bell rung on the way),
    `x` is a unit, and `ESC ] 2 ; a ESC q BEL`+`ESC \` is a unit -/
example : Unit true ([27, 91] ++ [63, 49, 59, 7, 50, 53, 32] ++ [104])
    (embedded [63, 49, 59, 7, 50, 53, 32] ++ csiDispatch 104 (csiParams [63, 49, 59, 7, 50, 53, 32]) (csiPrivate [63, 49, 59, 7, 50, 53, 32])) :=
  Unit.csi [27, 91] [63, 49, 59, 7, 50, 53, 32] 104 (Or.inl rfl) (by decide) (by decide)

example : embedded [63, 49, 59, 7, 50, 53, 32] ++ csiDispatch 104 (csiParams [63, 49, 59, 7, 50, 53, 32]) (csiPrivate [63, 49, 59, 7, 50, 53, 32])
    = [.bell, .setMode [1, 25] true] := by decide

example : (feed Parser.init ([27, 91] ++ [63, 49, 59, 7, 50, 53, 32] ++ [104])).2 = [.bell, .setMode [1, 25] true] := by decide

example : Unit true ([27, 93] ++ [50] ++ payloadOf [.plain 59 (by decide), .plain 97 (by decide), .pair 113 (by decide), .plain 98 (by decide)] ++ [27, 92])
    (oscFinish 50 ([] ++ payloadOf [.plain 59 (by decide), .plain 97 (by decide), .pair 113 (by decide), .plain 98 (by decide)])) :=
  Unit.osc [27, 93] [50] 50 [] _ [27, 92] (Or.inl rfl) (Or.inl ⟨rfl, rfl, by decide, by decide⟩) (Or.inr (Or.inr rfl))

/-! #### the grammar is unambiguous -/

/-- the recogniser is busy (not in its ground state) -/
def Busy (p : Parser) : Prop := p.taking = false

theorem busy_after_esc (p : Parser) (hp : Ground p) : Busy (feed p [27]).1 := by
  rw [feed_cons_special p hp 27 (by decide)]
  simp only [esc_starts, feed]
  rfl

theorem busy_after_esc2 (p : Parser) (hp : Ground p) (x : Nat) (h : x = 35 ∨ x = 37 ∨ x = 40 ∨ x = 41 ∨ x = 91 ∨ x = 93) :
    Busy (feed p [27, x]).1 := by
  rw [feed_cons_special p hp 27 (by decide)]
  simp only [esc_starts, List.nil_append]
  rw [feed_cons_fsm _ rfl]
  rcases h with e | e | e | e | e | e <;> subst e <;> cases hu : p.useUtf8 <;> simp [send, feed, dispatchTop, Busy, inStrList, isStr, BASIC, CSI, OSC] <;> rfl

theorem busy_after_csi (p : Parser) (hp : Ground p) (i : List Nat) (hi : CsiIntro i) (pre : List Nat)
    (hpre : ∀ c ∈ pre, csiInner c = true) : Busy (feed p (i ++ pre)).1 := by
  rw [feed_csi_intro p hp i hi]
  obtain ⟨d, c, _, hfeed⟩ := feed_csi_body pre { taking := false, fsm := .csi [] [] false, useUtf8 := p.useUtf8 }
    [] [] [] rfl rfl (by simp [paramChars, splitSemi]) hpre
  rw [hfeed]; rfl

theorem busy_after_csi_dollar (p : Parser) (hp : Ground p) (i : List Nat) (hi : CsiIntro i) (pre : List Nat)
    (hpre : ∀ c ∈ pre, csiInner c = true) : Busy (feed p (i ++ pre ++ [36])).1 := by
  rw [List.append_assoc, feed_csi_intro p hp i hi, C02.feed_append]
  obtain ⟨d, c, _, hfeed⟩ := feed_csi_body pre { taking := false, fsm := .csi [] [] false, useUtf8 := p.useUtf8 }
    [] [] [] rfl rfl (by simp [paramChars, splitSemi]) hpre
  rw [hfeed]
  simp only
  rw [feed_cons_fsm _ rfl]
  simp only [(csi_dollar p.useUtf8 _ _ _ 0).1, feed]
  rfl

/-- a proper prefix of a list of inner characters + one more is a list of inner characters -/
theorem take_inner (body : List Nat) (h : ∀ c ∈ body, csiInner c = true) (k : Nat) :
    ∀ c ∈ body.take k, csiInner c = true := fun c hc => h c (List.mem_of_mem_take hc)

/-- every proper non-empty prefix of `i ++ body ++ e` with `e` non-empty that is no longer than `i ++ body`
    leaves the recogniser busy -/
theorem busy_csi_prefix (p : Parser) (hp : Ground p) (i : List Nat) (hi : CsiIntro i) (body e : List Nat)
    (hb : ∀ c ∈ body, csiInner c = true) (n : Nat) (h0 : 0 < n) (hn : n ≤ i.length + body.length) :
    Busy (feed p ((i ++ body ++ e).take n)).1 := by
  by_cases hi' : n < i.length
  · -- inside the introducer: only `ESC` of `ESC [`
    rcases hi with e1 | e1 <;> subst e1
    · have : n = 1 := by simp at hi'; omega
      subst this
      simpa using busy_after_esc p hp
    · simp at hi'; omega
  · have hge : i.length ≤ n := by omega
    have : (i ++ body ++ e).take n = i ++ body.take (n - i.length) := by
      have hz : n - i.length - body.length = 0 := by omega
      rw [List.append_assoc, List.take_append, List.take_of_length_le hge, List.take_append, hz]
      simp
    rw [this]
    exact busy_after_csi p hp i hi _ (take_inner body hb _)

/-- the state after the introducer, the head and a whole number of payload atoms -/
theorem feed_osc_atoms (p : Parser) (hp : Ground p) (i head : List Nat) (code : Nat) (pfx : List Nat) (atoms : List Atom)
    (hi : OscIntro i) (hh : OscHead head code pfx) :
    feed p (i ++ head ++ payloadOf atoms) =
      ({ taking := false, fsm := .oscParam code (pfx ++ payloadOf atoms), useUtf8 := p.useUtf8 }, []) := by
  rw [List.append_assoc, feed_osc_intro p hp i hi]
  have hhead : feed { taking := false, fsm := .oscCode, useUtf8 := p.useUtf8 } (head ++ payloadOf atoms) =
      feed { taking := false, fsm := .oscParam code pfx, useUtf8 := p.useUtf8 } (payloadOf atoms) := by
    rcases hh with ⟨e1, e2, hk, h82⟩ | ⟨x, e1, e2, e3, hx⟩
    · subst e1 e2
      have e82 : (code == 82) = false := by simpa using h82
      have e27 : isStr code ESC = false := by simpa [isStr, ESC] using hk.2.2
      have e7 : (code == 7) = false := by simpa using hk.1
      have e9 : (code == 0x9c) = false := by simpa using hk.2.1
      have hs : send p.useUtf8 .oscCode code = (.oscParam code [], []) := by
        simp only [send, e82, e27, oscTerm_contains_one, e7, e9, Bool.or_self, Bool.false_eq_true, if_false]
      simp only [List.cons_append, List.nil_append]
      rw [feed_cons_fsm _ rfl]
      simp only [hs, List.nil_append]
      rfl
    · subst e1 e2 e3
      have e : (x == 92) = false := by simpa using hx
      have hs : send p.useUtf8 .oscFirstEsc x = (.oscParam 27 [x], []) := by
        simp only [send, oscTerm_contains_esc, e, Bool.false_eq_true, if_false]; rfl
      simp only [List.cons_append, List.nil_append]
      rw [feed_cons_fsm _ rfl]
      have e1 : send p.useUtf8 .oscCode 27 = (.oscFirstEsc, []) := rfl
      simp only [e1, List.nil_append]
      rw [feed_cons_fsm _ rfl]
      simp only [hs, List.nil_append]
      rfl
  rw [hhead, feed_atoms _ code pfx atoms ⟨rfl, rfl⟩]

theorem busy_after_osc_intro (p : Parser) (hp : Ground p) (i : List Nat) (hi : OscIntro i) : Busy (feed p i).1 := by
  have := feed_osc_intro p hp i hi []
  simp only [List.append_nil] at this
  rw [this]; rfl

theorem busy_after_osc_intro_esc (p : Parser) (hp : Ground p) (i : List Nat) (hi : OscIntro i) : Busy (feed p (i ++ [27])).1 := by
  rw [feed_osc_intro p hp i hi, feed_cons_fsm _ rfl]
  have e1 : send p.useUtf8 .oscCode 27 = (.oscFirstEsc, []) := rfl
  simp only [e1, feed]
  rfl

theorem busy_after_osc_atoms_esc (p : Parser) (hp : Ground p) (i head : List Nat) (code : Nat) (pfx : List Nat) (atoms : List Atom)
    (hi : OscIntro i) (hh : OscHead head code pfx) : Busy (feed p (i ++ head ++ payloadOf atoms ++ [27])).1 := by
  rw [C02.feed_append, feed_osc_atoms p hp i head code pfx atoms hi hh]
  simp only
  rw [feed_cons_fsm _ rfl]
  have e1 : send p.useUtf8 (.oscParam code (pfx ++ payloadOf atoms)) 27 = (.oscParamEsc code (pfx ++ payloadOf atoms), []) := rfl
  simp only [e1, feed]
  rfl

/-- a prefix of a payload is a payload, possibly followed by the ESC of a pair that was cut -/
theorem payload_take (atoms : List Atom) : ∀ k, ∃ atoms', (payloadOf atoms).take k = payloadOf atoms' ∨
    (payloadOf atoms).take k = payloadOf atoms' ++ [27] := by
  induction atoms with
  | nil => intro k; exact ⟨[], Or.inl (by simp [payloadOf])⟩
  | cons a rest ih =>
    intro k
    cases a with
    | plain c h =>
      cases k with
      | zero => exact ⟨[], Or.inl (by simp [payloadOf])⟩
      | succ k =>
        obtain ⟨at', h'⟩ := ih k
        refine ⟨.plain c h :: at', ?_⟩
        simp only [payloadOf, List.map_cons, List.flatten_cons, Atom.chars, List.singleton_append, List.take_succ_cons] at h' ⊢
        rcases h' with h' | h'
        · left; simp [h']
        · right; simp [h']
    | pair x h =>
      cases k with
      | zero => exact ⟨[], Or.inl (by simp [payloadOf])⟩
      | succ k =>
        cases k with
        | zero =>
          refine ⟨[], Or.inr ?_⟩
          simp [payloadOf, Atom.chars]
        | succ k =>
          obtain ⟨at', h'⟩ := ih k
          refine ⟨.pair x h :: at', ?_⟩
          simp only [payloadOf, List.map_cons, List.flatten_cons, Atom.chars, List.cons_append, List.nil_append, List.take_succ_cons] at h' ⊢
          rcases h' with h' | h'
          · left; simp [h']
          · right; simp [h']

theorem take_append_cases {α : Type} (a b : List α) (n : Nat) :
    (n ≤ a.length ∧ (a ++ b).take n = a.take n) ∨
    (a.length < n ∧ (a ++ b).take n = a ++ b.take (n - a.length)) := by
  by_cases h : n ≤ a.length
  · left; exact ⟨h, List.take_append_of_le_length h⟩
  · right
    have h' : a.length < n := by omega
    refine ⟨h', ?_⟩
    rw [List.take_append, List.take_of_length_le (by omega)]

theorem busy_osc_intro_prefix (p : Parser) (hp : Ground p) (i : List Nat) (hi : OscIntro i) (n : Nat) (h0 : 0 < n)
    (hn : n ≤ i.length) : Busy (feed p (i.take n)).1 := by
  by_cases he : n = i.length
  · rw [he, List.take_length]; exact busy_after_osc_intro p hp i hi
  · rcases hi with e | e <;> subst e
    · have : n = 1 := by simp at hn he; omega
      subst this; simpa using busy_after_esc p hp
    · simp at hn he; omega

theorem busy_after_osc_head (p : Parser) (hp : Ground p) (i head : List Nat) (code : Nat) (pfx : List Nat)
    (hi : OscIntro i) (hh : OscHead head code pfx) : Busy (feed p (i ++ head)).1 := by
  have := feed_osc_atoms p hp i head code pfx [] hi hh
  simp only [payloadOf, List.map_nil, List.flatten_nil, List.append_nil] at this
  rw [this]; rfl

/-- THE READING IS UNIQUE, in the form that matters: the recogniser is never in its ground state strictly
    inside a unit.  Together with `unit_sound` (it IS in the ground state at the end of one) this makes the set
    of units prefix-free: no unit is a proper prefix of another, so an input has at most one reading as units. -/
theorem unit_mid {utf8 : Bool} {s : List Nat} {ev : List Call} (h : Unit utf8 s ev)
    (p : Parser) (hp : Ground p) (n : Nat) (h0 : 0 < n) (hn : n < s.length) :
    Busy (feed p (s.take n)).1 := by
  cases h with
  | text c hc => simp at hn; omega
  | c0 c hc => simp at hn; omega
  | escFinal c hc =>
    have : n = 1 := by simp at hn; omega
    subst this; simpa using busy_after_esc p hp
  | escHash c =>
    have : n = 1 ∨ n = 2 := by simp at hn; omega
    rcases this with e | e <;> subst e
    · simpa using busy_after_esc p hp
    · simpa using busy_after_esc2 p hp 35 (Or.inl rfl)
  | escPercent c =>
    have : n = 1 ∨ n = 2 := by simp at hn; omega
    rcases this with e | e <;> subst e
    · simpa using busy_after_esc p hp
    · simpa using busy_after_esc2 p hp 37 (Or.inr (Or.inl rfl))
  | escCharset m c hm =>
    have : n = 1 ∨ n = 2 := by simp at hn; omega
    rcases this with e | e <;> subst e
    · simpa using busy_after_esc p hp
    · rcases hm with e | e <;> subst e
      · simpa using busy_after_esc2 p hp 40 (by simp)
      · simpa using busy_after_esc2 p hp 41 (by simp)
  | csi i body f hi hb hf =>
    exact busy_csi_prefix p hp i hi body [f] hb n h0 (by simp at hn; omega)
  | csiAbort i body c hi hb hc =>
    exact busy_csi_prefix p hp i hi body [c] hb n h0 (by simp at hn; omega)
  | csiDollar i body c hi hb =>
    by_cases hle : n ≤ i.length + body.length
    · exact busy_csi_prefix p hp i hi body [36, c] hb n h0 hle
    · have hn' : n = i.length + body.length + 1 := by simp at hn; omega
      have : (i ++ body ++ [36, c]).take n = i ++ body ++ [36] := by
        rcases take_append_cases (i ++ body) [36, c] n with ⟨h1, _⟩ | ⟨_, h2⟩
        · simp at h1; omega
        · rw [h2]
          have : n - (i ++ body).length = 1 := by simp; omega
          rw [this]; rfl
      rw [this]
      exact busy_after_csi_dollar p hp i hi body hb
  | oscPalette i hi =>
    rcases take_append_cases i [82] n with ⟨h1, h2⟩ | ⟨h1, _⟩
    · rw [h2]; exact busy_osc_intro_prefix p hp i hi n h0 h1
    · simp at hn; omega
  | oscEmpty i t hi ht =>
    rcases take_append_cases i t n with ⟨h1, h2⟩ | ⟨h1, h2⟩
    · rw [h2]; exact busy_osc_intro_prefix p hp i hi n h0 h1
    · rw [h2]
      rcases ht with e | e | e <;> subst e
      · simp at hn; omega
      · simp at hn; omega
      · have : n - i.length = 1 := by simp at hn; omega
        rw [this]
        exact busy_after_osc_intro_esc p hp i hi
  | osc i head code pfx atoms t hi hh ht =>
    have hhl : head.length = 1 ∨ head.length = 2 := by
      rcases hh with ⟨e, _⟩ | ⟨x, e, _⟩ <;> subst e <;> simp
    rcases take_append_cases (i ++ head ++ payloadOf atoms) t n with ⟨h1, h2⟩ | ⟨h1, h2⟩
    · rw [h2]
      rcases take_append_cases (i ++ head) (payloadOf atoms) n with ⟨h3, h4⟩ | ⟨h3, h4⟩
      · rw [h4]
        rcases take_append_cases i head n with ⟨h5, h6⟩ | ⟨h5, h6⟩
        · rw [h6]; exact busy_osc_intro_prefix p hp i hi n h0 h5
        · rw [h6]
          by_cases hfull : n - i.length = head.length
          · rw [hfull, List.take_length]
            exact busy_after_osc_head p hp i head code pfx hi hh
          · -- a two-character head cut after its ESC
            rcases hh with ⟨e, _⟩ | ⟨x, e, _⟩
            · subst e; simp at h3 hfull; omega
            · subst e
              have : n - i.length = 1 := by simp at h3 hfull; omega
              rw [this]
              exact busy_after_osc_intro_esc p hp i hi
      · rw [h4]
        obtain ⟨at', hat⟩ := payload_take atoms (n - (i ++ head).length)
        rcases hat with e | e <;> rw [e]
        · rw [feed_osc_atoms p hp i head code pfx at' hi hh]; rfl
        · rw [← List.append_assoc]
          exact busy_after_osc_atoms_esc p hp i head code pfx at' hi hh
    · rw [h2]
      rcases ht with e | e | e <;> subst e
      · simp at hn h1; omega
      · simp at hn h1; omega
      · have : n - (i ++ head ++ payloadOf atoms).length = 1 := by simp at hn h1 ⊢; omega
        rw [this]
        exact busy_after_osc_atoms_esc p hp i head code pfx atoms hi hh

theorem unit_nonempty {utf8 : Bool} {s : List Nat} {ev : List Call} (h : Unit utf8 s ev) : 0 < s.length := by
  cases h with
  | text c _ => simp
  | c0 c _ => simp
  | escFinal c _ => simp
  | escHash c => simp
  | escPercent c => simp
  | escCharset m c _ => simp
  | csi i body f _ _ _ => simp; omega
  | csiAbort i body c _ _ _ => simp; omega
  | csiDollar i body c _ _ => simp; omega
  | oscPalette i _ => simp
  | oscEmpty i t hi _ => rcases hi with e | e <;> subst e <;> simp
  | osc i head code pfx atoms t hi _ _ => rcases hi with e | e <;> subst e <;> simp

/-- no unit is a proper prefix of another unit: an input has at most one reading as a sequence of units -/
theorem unit_prefix_free {utf8 : Bool} {s s' : List Nat} {ev ev' : List Call} (h : Unit utf8 s ev) (h' : Unit utf8 s' ev')
    (t : List Nat) (hst : s' = s ++ t) : t = [] := by
  by_cases ht : t = []
  · exact ht
  · exfalso
    have hs0 := unit_nonempty h
    have htl : 0 < t.length := by
      cases t with
      | nil => exact absurd rfl ht
      | cons _ _ => simp
    let p : Parser := { taking := true, fsm := .ground, useUtf8 := utf8 }
    have hp : Ground p := ⟨rfl, rfl⟩
    have hb := unit_mid h' p hp s.length hs0 (by rw [hst]; simp; omega)
    have htake : s'.take s.length = s := by rw [hst]; simp
    rw [htake, unit_sound h p hp rfl] at hb
    exact absurd hb (by simp [Busy, p])

/-- Two readings of the same input as sequences of units are the same sequence of strings (and therefore,
    by `grammar_spec`, of events): the documented grammar is unambiguous. -/
theorem reading_unique {utf8 : Bool} (us : List (List Nat × List Call)) :
    ∀ (us' : List (List Nat × List Call)), (∀ u ∈ us, Unit utf8 u.1 u.2) → (∀ u ∈ us', Unit utf8 u.1 u.2) →
    (us.map Prod.fst).flatten = (us'.map Prod.fst).flatten → us.map Prod.fst = us'.map Prod.fst := by
  induction us with
  | nil =>
    intro us' _ h' e
    cases us' with
    | nil => rfl
    | cons u' r' =>
      exfalso
      have := unit_nonempty (h' u' (List.mem_cons_self ..))
      simp only [List.map_nil, List.flatten_nil, List.map_cons, List.flatten_cons] at e
      have := congrArg List.length e
      simp at this
      omega
  | cons u r ih =>
    intro us' h h' e
    have hu := h u (List.mem_cons_self ..)
    cases us' with
    | nil =>
      exfalso
      have hne := unit_nonempty hu
      simp only [List.map_nil, List.flatten_nil, List.map_cons, List.flatten_cons] at e
      have e' := (List.append_eq_nil_iff.mp e).1
      rw [e'] at hne
      simp at hne
    | cons u' r' =>
      have hu' := h' u' (List.mem_cons_self ..)
      simp only [List.map_cons, List.flatten_cons] at e ⊢
      have key : u.1 = u'.1 := by
        rcases List.append_eq_append_iff.mp e with ⟨t, e1, _⟩ | ⟨t, e1, _⟩
        · have := unit_prefix_free hu hu' t e1
          subst this; simpa using e1.symm
        · have := unit_prefix_free hu' hu t e1
          subst this; simpa using e1
      rw [key] at e
      have e2 := List.append_cancel_left e
      rw [key, ih r' (fun x hx => h x (List.mem_cons_of_mem _ hx)) (fun x hx => h' x (List.mem_cons_of_mem _ hx)) e2]


end C03
end Memterm
