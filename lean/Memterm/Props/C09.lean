import Memterm.Proofs.InvStep
import Memterm.Proofs.SparseStep
import Memterm.Proofs.SparseKeys
import Memterm.Proofs.ColInv

/-
  C09 — Screen state is always well-formed.

  `Inv` (Memterm/Inv.lean) contains the clauses of the property: cursor
  0 <= y < lines, 0 <= x <= columns; margins absent or 0 <= top < bottom <=
  lines-1; every dirty index < lines; plus the strengthening needed to make it
  inductive (dimension bounds, nothing stored outside the grid, a saved
  DECCOLM width is a legal width).  `display()` returns exactly `lines` strings.
  The executable form evaluated on every dumped implementation state is
  `Dump.illFormed` (Memterm/Check.lean).
-/
namespace Memterm
namespace C09

/-- a new screen is well-formed -/
theorem init_wellformed (columns lines : Nat) (hc : 1 ≤ columns) (hl : 1 ≤ lines)
    (hcb : columns < dimBound) (hlb : lines < dimBound) : Inv (init columns lines) :=
  inv_init columns lines hc hl hcb hlb

/-- every operation, input-driven call or resize keeps it well-formed -/
theorem step_wellformed (env : Env) (s : Screen) (c : Call) (h : Inv s) (ha : c.argOk = true) :
    Inv (step env s c) :=
  inv_step env h c ha

/-- every reachable state: any interleaving of calls (arguments absent or
    0..=9999) and resizes, on any geometry >= 1x1 -/
theorem reachable_wellformed (env : Env) (columns lines : Nat) (cs : List Call)
    (hc : 1 ≤ columns) (hl : 1 ≤ lines) (hcb : columns < dimBound) (hlb : lines < dimBound)
    (ha : ∀ c ∈ cs, c.argOk = true) : Inv (run env (init columns lines) cs) :=
  inv_run env cs (inv_init columns lines hc hl hcb hlb) ha

/-- the property's clauses, spelled out for a reachable state -/
theorem reachable_clauses (env : Env) (columns lines : Nat) (cs : List Call)
    (hc : 1 ≤ columns) (hl : 1 ≤ lines) (hcb : columns < dimBound) (hlb : lines < dimBound)
    (ha : ∀ c ∈ cs, c.argOk = true) :
    let s := run env (init columns lines) cs
    s.cursor.y < s.lines ∧ s.cursor.x ≤ s.columns ∧
    (∀ t b, s.margins = some (t, b) → t < b ∧ b ≤ s.lines - 1) ∧
    (∀ d, s.dirty d = true → d < s.lines) ∧
    (display env s).length = s.lines := by
  have h := reachable_wellformed env columns lines cs hc hl hcb hlb ha
  exact ⟨h.cy, h.cx, h.marg, h.dirty, by simp [display]⟩

/-- every reported cell, the cursor's rendition and every saved rendition have a fg / bg that is
    a documented colour name or a hexadecimal colour string - in every reachable state -/
theorem reachable_colours (env : Env) (columns lines : Nat) (cs : List Call) :
    ColInv (run env (init columns lines) cs) :=
  colinv_run env cs (col_init columns lines)

theorem step_colours (env : Env) (s : Screen) (c : Call) (h : ColInv s) : ColInv (step env s c) :=
  colinv_step env h c

theorem display_length (env : Env) (s : Screen) : (display env s).length = s.lines := by
  simp [display]

/-- the parser only delivers arguments in range: every CSI parameter is <= 9999 -/
theorem paramValue_le (ds : List Nat) : paramValue ds ≤ 9999 := by
  unfold paramValue
  split
  · omega
  · exact Nat.min_le_right _ _

/-- non-vacuity: a reachable state with a region, origin mode, a wide character cut by a
    shrink and the cursor in the pending-wrap column satisfies the hypotheses -/
example :
    let env : Env := { W := fun c => if c == 0x30b3 then 2 else 1, CM := fun _ => false, NFC := id }
    let cs : List Call := [.setMargins (some 2) (some 3), .setMode [6] true, .draw [0x30b3, 97, 98, 99],
      .resize (some 3) (some 3), .draw [120, 121, 122]]
    (∀ c ∈ cs, c.argOk = true) ∧ (run env (init 5 4) cs).cursor.x = 2 ∧ (run env (init 5 4) cs).cursor.y = 2 ∧ (run env (init 5 4) cs).columns = 3 := by
  decide

/-! #### the sparse layer: every reachable buffer state observes as a well-formed screen -/

/-- REFINEMENT, every history: the sparse run (the model of what `src/screen.rs` does to its HashMap
    buffer) observes exactly as the dense run, which is well-formed -/
theorem sparse_reachable_wellformed (env : Env) (columns lines : Nat) (hc : 1 ≤ columns) (hl : 1 ≤ lines)
    (hdc : columns < dimBound) (hdl : lines < dimBound) (cs : List Call) (ha : ∀ c ∈ cs, c.argOk = true) :
    Sparse.abs (cs.foldl (Sparse.step env) (Sparse.init columns lines)) = run env (init columns lines) cs ∧
    Inv (Sparse.abs (cs.foldl (Sparse.step env) (Sparse.init columns lines))) := by
  have hi : Inv (Sparse.abs (Sparse.init columns lines)) := by
    rw [Sparse.abs_init]; exact inv_init columns lines hc hl hdc hdl
  have h1 := Sparse.abs_run env cs _ hi ha
  rw [Sparse.abs_init] at h1
  refine ⟨h1, ?_⟩
  rw [h1]
  exact inv_run env cs (inv_init columns lines hc hl hdc hdl) ha

/-- one step, any operation -/
theorem sparse_step_refines (env : Env) (ss : Sparse.SScreen) (c : Call) (h : Inv (Sparse.abs ss)) :
    Sparse.abs (Sparse.step env ss c) = step env (Sparse.abs ss) c := Sparse.abs_step env ss c h

/-- NOTHING HIDDEN, every history: in every reachable state of the HashMap buffer model every row key is a
    row of the screen and every cell key a column of it (the representation half of "well-formed"; the
    implementation's dumped buffers are checked for the same on every transition: HIDDEN) -/
theorem sparse_reachable_keys (env : Env) (columns lines : Nat) (hc : 1 ≤ columns) (hl : 1 ≤ lines)
    (hdc : columns < dimBound) (hdl : lines < dimBound) (cs : List Call) (ha : ∀ c ∈ cs, c.argOk = true) :
    Sparse.KeysIn (cs.foldl (Sparse.step env) (Sparse.init columns lines)) := by
  have hi : Inv (Sparse.abs (Sparse.init columns lines)) := by
    rw [Sparse.abs_init]; exact inv_init columns lines hc hl hdc hdl
  exact Sparse.keysIn_run env cs (Sparse.keysIn_init columns lines) hi ha

end C09
end Memterm
