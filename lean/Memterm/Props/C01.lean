import Memterm.Props.C09
import Memterm.Props.C11
import Memterm.Props.C03

/-
  C01 — No input can crash, hang or wedge the emulator.

  What a theorem can carry here: (1) every function of the model is total and
  structurally recursive (Lean's termination checker), one character / one byte
  per step; (2) every call the recogniser can make, for any input, has its
  numeric arguments in 0..=9999, so (3) by C09 every reachable state is
  well-formed, and (4) in a well-formed state with such arguments every
  arithmetic expression of the Rust code stays inside u32 / i32 and every
  subtraction is guarded (`safe`).  What it cannot carry - the stack of the
  coroutine, allocation, stdout - is observed by the overflow-checked
  child-process runs only (DESIGN.md section 12).
-/
namespace Memterm
namespace C01

open Gen

/-! #### the recogniser only delivers arguments in range -/

/-- collected CSI parameters are already capped -/
def PInv : PState → Prop
  | .csi params _ _ => ∀ p ∈ params, p ≤ 9999
  | _ => True

theorem csiDispatch_argOk (c : Nat) (params : List Nat) (priv : Bool) (h : ∀ p ∈ params, p ≤ 9999) :
    ∀ x ∈ csiDispatch c params priv, x.argOk = true := by
  have h0 : optOk params[0]? = true := by
    cases e : params[0]? with
    | none => rfl
    | some v =>
      have := List.mem_of_getElem? e
      simp [optOk, h v this]
  have h1 : optOk params[1]? = true := by
    cases e : params[1]? with
    | none => rfl
    | some v =>
      have := List.mem_of_getElem? e
      simp [optOk, h v this]
  have hall : params.all (· ≤ 9999) = true := by
    simp only [List.all_eq_true, decide_eq_true_eq]; exact h
  have key : (csiDispatch c params priv).all (fun x => x.argOk) = true := by
    unfold csiDispatch
    simp only [C03.all_ite, List.all_cons, List.all_nil, Call.argOk, h0, h1, hall, Bool.and_self, ite_self]
  intro x hx
  exact List.all_eq_true.mp key x hx

theorem basicDispatch_argOk (c : Nat) : ∀ x ∈ basicDispatch c, x.argOk = true := by
  have key : (basicDispatch c).all (fun x => x.argOk) = true := by
    unfold basicDispatch
    simp only [C03.all_ite, List.all_cons, List.all_nil, Call.argOk, Bool.and_self, ite_self]
  intro x hx
  exact List.all_eq_true.mp key x hx

theorem escapeDispatch_argOk (c : Nat) : ∀ x ∈ escapeDispatch c, x.argOk = true := by
  have key : (escapeDispatch c).all (fun x => x.argOk) = true := by
    unfold escapeDispatch
    simp only [C03.all_ite, List.all_cons, List.all_nil, Call.argOk, Bool.and_self, ite_self]
  intro x hx
  exact List.all_eq_true.mp key x hx

theorem oscFinish_argOk (code : Nat) (param : List Nat) : ∀ x ∈ oscFinish code param, x.argOk = true := by
  unfold oscFinish
  intro x hx
  split at hx
  · simp only [List.mem_append] at hx
    rcases hx with hx | hx <;> (split at hx <;> simp_all [Call.argOk])
  · simp at hx

theorem nil_ok : ∀ x ∈ ([] : List Call), x.argOk = true := by simp

theorem draw_ok (t : List Nat) : ∀ x ∈ [Call.draw t], x.argOk = true := by simp [Call.argOk]

theorem one_ok (c : Call) (h : c.argOk = true) : ∀ x ∈ [c], x.argOk = true := by
  intro x hx; simp only [List.mem_singleton] at hx; subst hx; exact h

theorem dispatchTop_ok (utf8 : Bool) (c : Nat) :
    PInv (dispatchTop utf8 c).1 ∧ ∀ x ∈ (dispatchTop utf8 c).2, x.argOk = true := by
  unfold dispatchTop
  split
  · split
    · exact ⟨trivial, nil_ok⟩
    · exact ⟨trivial, basicDispatch_argOk c⟩
  · split
    · exact ⟨by simp [PInv], nil_ok⟩
    · split
      · exact ⟨trivial, nil_ok⟩
      · exact ⟨trivial, nil_ok⟩

/-- one character: the state invariant is kept and every call made has arguments in range -/
theorem send_ok (utf8 : Bool) (st : PState) (c : Nat) (h : PInv st) :
    PInv (send utf8 st c).1 ∧ ∀ x ∈ (send utf8 st c).2, x.argOk = true := by
  cases st with
  | ground =>
    simp only [send]
    split
    · exact ⟨trivial, nil_ok⟩
    · exact dispatchTop_ok utf8 c
  | esc =>
    simp only [send]
    repeat' split
    all_goals first
      | exact dispatchTop_ok utf8 _
      | exact ⟨trivial, escapeDispatch_argOk c⟩
      | exact ⟨trivial, nil_ok⟩
  | escHash =>
    simp only [send]
    split
    · exact ⟨trivial, one_ok _ rfl⟩
    · exact ⟨trivial, nil_ok⟩
  | escPercent => exact ⟨trivial, nil_ok⟩
  | escCharset m =>
    simp only [send]
    split
    · exact ⟨trivial, nil_ok⟩
    · exact ⟨trivial, one_ok _ rfl⟩
  | csi params cur priv =>
    have hp : ∀ p ∈ params ++ [paramValue cur], p ≤ 9999 := by
      intro p hp
      simp only [List.mem_append, List.mem_singleton] at hp
      rcases hp with hp | hp
      · exact h p hp
      · subst hp; exact C09.paramValue_le cur
    simp only [send]
    repeat' split
    all_goals first
      | exact ⟨trivial, csiDispatch_argOk c _ priv hp⟩
      | exact ⟨h, basicDispatch_argOk c⟩
      | exact ⟨trivial, one_ok _ rfl⟩
      | exact ⟨hp, nil_ok⟩
      | exact ⟨h, nil_ok⟩
      | exact ⟨trivial, nil_ok⟩
  | csiDollar => exact ⟨trivial, nil_ok⟩
  | oscCode =>
    simp only [send]
    repeat' split
    all_goals exact ⟨trivial, nil_ok⟩
  | oscFirstEsc =>
    simp only [send]
    split <;> exact ⟨trivial, nil_ok⟩
  | oscParam code param =>
    simp only [send]
    repeat' split
    all_goals first
      | exact ⟨trivial, oscFinish_argOk code param⟩
      | exact ⟨trivial, nil_ok⟩
  | oscParamEsc code param =>
    simp only [send]
    split
    · exact ⟨trivial, oscFinish_argOk code param⟩
    · exact ⟨trivial, nil_ok⟩

theorem pstep_ok (p : Parser) (c : Nat) (h : PInv p.fsm) :
    PInv (pstep p c).1.fsm ∧ ∀ x ∈ (pstep p c).2, x.argOk = true := by
  unfold pstep
  simp only
  by_cases ht : (if (p.taking && isSpecial c) = true then false else p.taking) = true
  · simp only [ht, if_true]
    exact ⟨h, draw_ok _⟩
  · simp only [ht, if_false]
    exact send_ok p.useUtf8 p.fsm c h

/-- any character string, from any recogniser state reachable so far: all calls in range -/
theorem feed_ok (p : Parser) (cs : List Nat) (h : PInv p.fsm) :
    PInv (feed p cs).1.fsm ∧ ∀ x ∈ (feed p cs).2, x.argOk = true := by
  induction cs generalizing p with
  | nil => exact ⟨h, nil_ok⟩
  | cons c cs ih =>
    simp only [feed]
    have hs := pstep_ok p c h
    obtain ⟨i1, i2⟩ := ih (pstep p c).1 hs.1
    refine ⟨i1, ?_⟩
    intro x hx
    simp only [List.mem_append] at hx
    rcases hx with hx | hx
    · exact hs.2 x hx
    · exact i2 x hx

theorem feedBytes_ok (bp : ByteParser) (bs : List Nat) (h : PInv bp.parser.fsm) :
    PInv (feedBytes bp bs).1.parser.fsm ∧ ∀ x ∈ (feedBytes bp bs).2, x.argOk = true := by
  unfold feedBytes
  split
  · exact feed_ok bp.parser _ h
  · exact feed_ok bp.parser _ h

theorem feedBytesAll_ok (bp : ByteParser) (chunks : List (List Nat)) (h : PInv bp.parser.fsm) :
    ∀ x ∈ (C02.feedBytesAll bp chunks).2, x.argOk = true := by
  rw [C02.bytes_chunking]
  exact (feedBytes_ok bp _ h).2

/-! #### every byte stream, every chunking, both modes: the screen stays well-formed -/

/-- For every screen of at least 1x1 cells, every byte stream and every way of cutting it into
    feed() calls (in UTF-8 or 8-bit mode), every state on the way is well-formed, so display() is
    defined (`lines` rows) and further input is processed the same way. -/
theorem bytes_never_wedge (env : Env) (s : Screen) (hs : Inv s) (bp : ByteParser) (hp : PInv bp.parser.fsm)
    (chunks : List (List Nat)) :
    Inv (run env s (C02.feedBytesAll bp chunks).2) ∧
    (display env (run env s (C02.feedBytesAll bp chunks).2)).length = (run env s (C02.feedBytesAll bp chunks).2).lines :=
  ⟨inv_run env _ hs (feedBytesAll_ok bp chunks hp), C09.display_length env _⟩

theorem chars_never_wedge (env : Env) (s : Screen) (hs : Inv s) (p : Parser) (hp : PInv p.fsm)
    (chunks : List (List Nat)) : Inv (run env s (C02.feedAll p chunks).2) := by
  rw [C02.chars_chunking]
  exact inv_run env _ hs (feed_ok p _ hp).2

/-- and the same for every sequence of direct API calls with arguments absent or in 0..=9999 and
    resize() to any size of at least 1x1 (below the dimension bound) -/
theorem api_never_wedge (env : Env) (columns lines : Nat) (cs : List Call)
    (hc : 1 ≤ columns) (hl : 1 ≤ lines) (hcb : columns < dimBound) (hlb : lines < dimBound)
    (ha : ∀ c ∈ cs, c.argOk = true) : Inv (run env (init columns lines) cs) :=
  C09.reachable_wellformed env columns lines cs hc hl hcb hlb ha

/-! #### the arithmetic of the Rust code stays in range -/

def u32 : Nat := 4294967296
def i32 : Nat := 2147483648

/-- the guards of the partial primitives (`-`, `+`, `+=`, `as i32`, `<< 5`) that survive in the
    non-test code of screen.rs, per operation (lean/PANIC_SITES.json lists the sites) -/
def safe (s : Screen) : Call → Prop
  | .cursorForward n => s.cursor.x + nz n < u32
  | .cursorBack _ => s.cursor.x = s.columns → 1 ≤ s.cursor.x
  | .cursorDown n | .cursorDown1 n => s.cursor.y + nz n < u32
  | .cursorToColumn n => 1 ≤ nz n
  | .cursorToLine n => 1 ≤ nz n ∧ nz n - 1 + s.lines < u32
  | .cursorPosition l c => nz l < i32 ∧ nz c < i32 ∧ nz l - 1 + s.lines < i32
  | .setMargins t b => s.lines < i32 ∧ (∀ v, t = some v → v < i32) ∧ (∀ v, b = some v → v < i32)
  | .insertCharacters n | .deleteCharacters n | .eraseCharacters n => s.columns + nz n < u32
  | .insertLines n | .deleteLines n => s.lines + nz n < u32
  | .index | .linefeed | .reverseIndex => s.lines + 1 < u32
  | .draw _ => s.columns + 2 < u32 ∧ s.lines + 1 < u32
  | .setMode ms _ | .resetMode ms _ => ∀ m ∈ ms, m * 32 < u32
  | .resize l _ => ∀ v, l = some v → v < s.lines → v ≤ s.lines
  | _ => True

theorem safe_of_inv (s : Screen) (h : Inv s) (c : Call) (ha : c.argOk = true) :
    1 ≤ s.columns ∧ 1 ≤ s.lines ∧ safe s c := by
  have hc := h.cols
  have hl := h.rows
  have hdc : s.columns < 2147473648 := h.dimc
  have hdl : s.lines < 2147473648 := h.diml
  have hcx := h.cx
  have hcy := h.cy
  have nzle : ∀ n : Option Nat, optOk n = true → nz n ≤ 9999 ∧ 1 ≤ nz n := by
    intro n hn
    cases n with
    | none => exact ⟨by decide, by decide⟩
    | some v =>
      simp only [optOk, decide_eq_true_eq] at hn
      cases v with
      | zero => exact ⟨by decide, by decide⟩
      | succ k => simp only [nz]; omega
  refine ⟨hc, hl, ?_⟩
  cases c <;> simp only [safe, u32, i32] <;> simp only [Call.argOk, Bool.and_eq_true] at ha
  case cursorForward n => have := nzle n ha; omega
  case cursorBack n => intro e; omega
  case cursorDown n => have := nzle n ha; omega
  case cursorDown1 n => have := nzle n ha; omega
  case cursorToColumn n => exact (nzle n ha).2
  case cursorToLine n => have := nzle n ha; omega
  case cursorPosition l c => have := nzle l ha.1; have := nzle c ha.2; omega
  case setMargins t b =>
    refine ⟨by omega, ?_, ?_⟩
    · intro v e; subst e; have := ha.1; simp only [optOk, decide_eq_true_eq] at this; omega
    · intro v e; subst e; have := ha.2; simp only [optOk, decide_eq_true_eq] at this; omega
  case insertCharacters n => have := nzle n ha; omega
  case deleteCharacters n => have := nzle n ha; omega
  case eraseCharacters n => have := nzle n ha; omega
  case insertLines n => have := nzle n ha; omega
  case deleteLines n => have := nzle n ha; omega
  case index => omega
  case linefeed => omega
  case reverseIndex => omega
  case draw t => omega
  case setMode ms p =>
    intro m hm
    have := List.all_eq_true.mp ha m hm
    simp only [decide_eq_true_eq] at this
    omega
  case resetMode ms p =>
    intro m hm
    have := List.all_eq_true.mp ha m hm
    simp only [decide_eq_true_eq] at this
    omega
  case resize l c => intro v _ hv; omega
  all_goals trivial

/-- non-vacuity: a hostile stream (huge parameters, truncated sequences, invalid UTF-8) on a 1x1 screen -/
example :
    let env : Env := { W := fun c => if c < 32 then 0 else 1, CM := fun _ => false, NFC := id }
    let calls := (C02.feedBytesAll ByteParser.init
      [[27, 91, 57, 57, 57, 57, 57, 57, 57], [57, 57, 59, 0xff, 64, 27, 93, 48], [7, 27, 91, 51, 75, 0xe2, 0x9e], [27, 35, 56]]).2
    (∀ c ∈ calls, c.argOk = true) ∧ (run env (init 1 1) calls).cursor.x ≤ 1 := by
  decide

end C01
end Memterm
