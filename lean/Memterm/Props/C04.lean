import Memterm.Proofs.DrawFrame
import Memterm.Proofs.SparseStep
import Memterm.Props.C06
import Memterm.Spec.C04

/-
  C04 — Printable text is rendered at the cursor with the current rendition.

  The per-character step of `draw` is `drawChar`: for a character of display width 1 or 2
  `putChar ∘ irmStage ∘ wrapStage`, for a zero-width combining mark `combine`, for every other
  character the identity.  The theorems below characterise each stage cell by cell, for every
  width / combining function (the Unicode tables are parameters).
-/
namespace Memterm
namespace C04

open Gen

/-! #### other zero-width or unprintable characters change nothing -/

theorem draw_invisible (env : Env) (s : Screen) (c : Nat)
    (hw : env.W c ≠ 1 ∧ env.W c ≠ 2) (hc : ¬ (env.W c = 0 ∧ env.CM c = true)) : drawChar env s c = s := by
  unfold drawChar
  have h1 : (env.W c == 1 || env.W c == 2) = false := by simp [hw.1, hw.2]
  simp only [h1, Bool.false_eq_true, if_false]
  split
  · rename_i h; simp only [Bool.and_eq_true, beq_iff_eq] at h; exact absurd h hc
  · rfl

/-! #### a printable character: cell under the cursor, cursor's rendition, advance by the width -/

/-- narrow character: exactly the cell under the cursor changes -/
theorem put_narrow (s : Screen) (c : Nat) :
    putChar s c 1 = setCursorX (setCell s s.cursor.y s.cursor.x { data := [c], attr := s.cursor.attr })
      (min (s.cursor.x + 1) s.columns) := by
  simp [putChar, setCell, setCursorX]

theorem put_narrow_cell (s : Screen) (c y x : Nat) :
    (putChar s c 1).cell y x =
      if y = s.cursor.y ∧ x = s.cursor.x then { data := [c], attr := s.cursor.attr } else s.cell y x := by
  rw [put_narrow]
  simp only [setCursorX, setCell]
  by_cases h : y = s.cursor.y ∧ x = s.cursor.x
  · simp [h.1, h.2]
  · simp only [h, if_false]
    by_cases h1 : y = s.cursor.y
    · have : x ≠ s.cursor.x := fun e => h ⟨h1, e⟩
      simp [h1, this]
    · simp [h1]

/-- double-width character: lead cell + empty placeholder; in the last column only the lead -/
theorem put_wide_cell (s : Screen) (c y x : Nat) :
    (putChar s c 2).cell y x =
      if y = s.cursor.y ∧ x = s.cursor.x then { data := [c], attr := s.cursor.attr }
      else if y = s.cursor.y ∧ x = s.cursor.x + 1 ∧ s.cursor.x + 1 < s.columns then { data := [], attr := s.cursor.attr }
      else s.cell y x := by
  unfold putChar
  simp only [setCursorX, setCell, beq_self_eq_true, Bool.true_and]
  by_cases hp : s.cursor.x + 1 < s.columns
  · simp only [hp, decide_true, if_true]
    by_cases h1 : y = s.cursor.y
    · subst h1
      by_cases h2 : x = s.cursor.x + 1
      · subst h2; simp
      · by_cases h3 : x = s.cursor.x
        · subst h3; simp
        · simp [h2, h3]
    · simp [h1]
  · simp only [hp, decide_false, Bool.false_eq_true, if_false, and_false]
    by_cases h1 : y = s.cursor.y
    · subst h1
      by_cases h3 : x = s.cursor.x
      · subst h3; simp
      · simp [h3]
    · simp [h1]

theorem put_cursor (s : Screen) (c w : Nat) :
    (putChar s c w).cursor.x = min (s.cursor.x + w) s.columns ∧ (putChar s c w).cursor.y = s.cursor.y := by
  unfold putChar
  simp only
  split <;> exact ⟨rfl, rfl⟩

/-! #### past the last column: wrap (autowrap on) or overwrite the last column(s) (off) -/

theorem wrap_on (s : Screen) (w : Nat) (hx : s.cursor.x = s.columns) (ha : s.mode DECAWM = true) :
    wrapStage s w = linefeed (cariageReturn (markDirty s s.cursor.y)) := by
  simp [wrapStage, hx, ha]

/-- with autowrap the next character first goes to column 0 of the next line: exactly a
    carriage return and a linefeed (which scrolls at the bottom margin - C06) -/
theorem wrap_position (s : Screen) (h : Inv s) (w : Nat) (hx : s.cursor.x = s.columns) (ha : s.mode DECAWM = true) :
    (wrapStage s w).cursor.x = 0 ∧ (wrapStage s w).cursor.y = (C06.expectIndex s).y ∧
    (wrapStage s w).cell = (C06.expectIndex s).cell := by
  rw [wrap_on s w hx ha]
  have h1 := inv_cariageReturn (inv_markDirty h s.cursor.y h.cy)
  obtain ⟨a, b, c, _⟩ := C06.linefeed_spec _ h1
  refine ⟨?_, ?_, ?_⟩
  · rw [b]; split <;> rfl
  · rw [c]; rfl
  · rw [a]; rfl

theorem wrap_off (s : Screen) (w : Nat) (hx : s.cursor.x = s.columns) (ha : s.mode DECAWM = false) :
    wrapStage s w = setCursorX s (s.columns - w) := by
  simp [wrapStage, hx, ha]

theorem no_wrap_needed (s : Screen) (w : Nat) (hx : s.cursor.x ≠ s.columns) : wrapStage s w = s := by
  have : (s.cursor.x == s.columns) = false := by simpa using hx
  simp [wrapStage, this]

/-! #### insert mode: the rest of the row shifts right, what crosses the right edge is lost -/

theorem irm_on (s : Screen) (w : Nat) (h : s.mode IRM = true) : irmStage s w = insertCharacters s (some w) := by
  simp [irmStage, h]

theorem irm_off (s : Screen) (w : Nat) (h : s.mode IRM = false) : irmStage s w = s := by
  simp [irmStage, h]

/-! #### a zero-width combining mark is appended to the previously written cell -/

theorem combine_same_row (env : Env) (s : Screen) (c y x : Nat) (hx : 0 < s.cursor.x) :
    (combine env s c).cell y x =
      if y = s.cursor.y ∧ x = s.cursor.x - 1 then
        { s.cell y x with data := env.NFC (s.cell y x).data ++ [c] }
      else s.cell y x := by
  unfold combine
  simp only [hx, gt_iff_lt, if_true, setCell]
  by_cases h : y = s.cursor.y ∧ x = s.cursor.x - 1
  · simp [h.1, h.2]
  · simp only [h, if_false]
    by_cases h1 : y = s.cursor.y
    · have : x ≠ s.cursor.x - 1 := fun e => h ⟨h1, e⟩
      simp [h1, this]
    · simp [h1]

theorem combine_previous_row (env : Env) (s : Screen) (c y x : Nat) (hx : s.cursor.x = 0) (hy : 0 < s.cursor.y) :
    (combine env s c).cell y x =
      (if y = s.cursor.y - 1 ∧ x = s.columns - 1 then
        { s.cell y x with data := env.NFC (s.cell y x).data ++ [c] }
      else s.cell y x) ∧ (combine env s c).dirty (s.cursor.y - 1) = true := by
  unfold combine
  simp only [hx, gt_iff_lt, Nat.lt_irrefl, if_false, hy, if_true, setCell, markDirty, beq_self_eq_true,
    Bool.true_or, and_true]
  by_cases h : y = s.cursor.y - 1 ∧ x = s.columns - 1
  · simp [h.1, h.2]
  · simp only [h, if_false]
    by_cases h1 : y = s.cursor.y - 1
    · have : x ≠ s.columns - 1 := fun e => h ⟨h1, e⟩
      simp [h1, this]
    · simp [h1]

theorem combine_home (env : Env) (s : Screen) (c : Nat) (hx : s.cursor.x = 0) (hy : s.cursor.y = 0) :
    combine env s c = s := by
  simp [combine, hx, hy]

theorem combine_cursor (env : Env) (s : Screen) (c : Nat) : (combine env s c).cursor = s.cursor := by
  unfold combine
  split
  · rfl
  · split <;> rfl

/-! #### nothing else changes -/

/-- apart from cells, the cursor position and the dirty rows, drawing changes nothing -/
theorem draw_frame (env : Env) (s : Screen) (t : List Nat) : SameSettings s (draw env s t) := ss_draw env s t

/-- the row the cursor ends on is marked dirty -/
theorem draw_marks_cursor_row (env : Env) (s : Screen) (t : List Nat) :
    (draw env s t).dirty (draw env s t).cursor.y = true := by
  simp [draw, markDirty]

/-! #### executable predicate: the implementation's draw transition against the documented one -/

theorem C04_holds (env : Env) (cands : List Nat) (s : Screen) (c : Call) :
    propC04 env cands s c (step env s c) = true := by
  cases c <;> try rfl
  case draw t =>
    simp only [propC04, step, Bool.and_eq_true, allCellsB_iff, beq_iff_eq]
    refine ⟨?_, sameSettingsB_of (draw_frame env s t)⟩
    simp

/-- non-vacuity: 3 columns, `ab` + wide + `c` with autowrap: the wide character does not fit in
    the last column next to its placeholder, so only its lead is stored there, then `c` wraps -/
example :
    let env : Env := { W := fun c => if c == 0x4e2d then 2 else 1, CM := fun _ => false, NFC := id }
    let s := draw env (init 3 2) [97, 98, 0x4e2d, 99]
    display env s = [[97, 98, 0x4e2d], [99, 32, 32]] ∧ (s.cursor.y, s.cursor.x) = (1, 1) := by
  decide

/-! #### the sparse layer -/

/-- `draw` on the HashMap buffer (`entry().or_insert` for the row, for the cell a combining mark
    joins, the wrap / insert stages on the sparse row maps) observes as the dense `draw` -/
theorem sparse_draw (env : Env) (ss : Sparse.SScreen) (t : List Nat) (h : Inv (Sparse.abs ss)) :
    Sparse.abs (Sparse.draw env ss t) = draw env (Sparse.abs ss) t := Sparse.abs_draw env ss t h

end C04
end Memterm

