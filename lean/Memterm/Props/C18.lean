import Memterm.Proofs.InvStep
import Memterm.Spec.C18

/-
  C18 — Tab stops: defaults, HTS/TBC editing and HT movement.
-/
namespace Memterm
namespace C18

open Gen

/-! #### defaults -/

theorem tabs_after_reset (s : Screen) : (reset s).tabstops = defaultStop s.columns := by
  unfold reset
  simp only
  have : ∀ u : Screen, (cursorPosition u none none).tabstops = u.tabstops := by
    intro u
    unfold cursorPosition
    simp only
    split
    · split
      · split <;> rfl
      · rfl
    · rfl
  rw [this]
  rfl

theorem tabs_initial (columns lines : Nat) : (init columns lines).tabstops = defaultStop columns :=
  tabs_after_reset _

/-! #### HTS / TBC -/

theorem hts (s : Screen) (c : Nat) : (setTabStop s).tabstops c = (c == s.cursor.x || s.tabstops c) := rfl

theorem hts_frame (s : Screen) : setTabStop s = { s with tabstops := (setTabStop s).tabstops } := rfl

theorem tbc_at_cursor (s : Screen) (how : Option Nat) (h : how = none ∨ how = some 0) (c : Nat) :
    (clearTabStop s how).tabstops c = (c != s.cursor.x && s.tabstops c) := by
  rcases h with h | h <;> subst h <;> rfl

theorem tbc_all (s : Screen) (c : Nat) : (clearTabStop s (some 3)).tabstops c = false := rfl

theorem tbc_other (s : Screen) (n : Nat) (h0 : n ≠ 0) (h3 : n ≠ 3) : clearTabStop s (some n) = s := by
  have : tbcStops s n = s.tabstops := by
    unfold tbcStops
    split
    · exact absurd rfl h0
    · exact absurd rfl h3
    · rfl
  simp only [clearTabStop, Option.getD_some, this]

theorem tbc_frame (s : Screen) (how : Option Nat) :
    clearTabStop s how = { s with tabstops := (clearTabStop s how).tabstops } := rfl

/-! #### HT -/

theorem firstStopFrom_some (stops : Nat → Bool) (start fuel c : Nat)
    (h : firstStopFrom stops start fuel = some c) :
    start ≤ c ∧ c < start + fuel ∧ stops c = true ∧ ∀ d, start ≤ d → d < c → stops d = false := by
  induction fuel generalizing start with
  | zero => simp [firstStopFrom] at h
  | succ f ih =>
    unfold firstStopFrom at h
    by_cases hs : stops start = true
    · simp only [hs, if_true, Option.some.injEq] at h
      subst h
      exact ⟨Nat.le_refl _, by omega, hs, fun d h1 h2 => by omega⟩
    · simp only [hs, if_false] at h
      obtain ⟨a, b, c', d'⟩ := ih (start + 1) h
      refine ⟨by omega, by omega, c', ?_⟩
      intro d h1 h2
      by_cases e : d = start
      · subst e; simpa using hs
      · exact d' d (by omega) h2

theorem firstStopFrom_none (stops : Nat → Bool) (start fuel : Nat)
    (h : firstStopFrom stops start fuel = none) :
    ∀ d, start ≤ d → d < start + fuel → stops d = false := by
  induction fuel generalizing start with
  | zero => intro d h1 h2; omega
  | succ f ih =>
    unfold firstStopFrom at h
    by_cases hs : stops start = true
    · simp [hs] at h
    · simp only [hs, if_false] at h
      intro d h1 h2
      by_cases e : d = start
      · subst e; simpa using hs
      · exact ih (start + 1) h d (by omega) (by omega)

/-- HT: the cursor goes to the nearest stop strictly to its right, or to the last column
    if there is none before it; never beyond the last column; nothing else changes. -/
theorem ht (s : Screen) (h : Inv s) :
    let x' := (tab s).cursor.x
    x' ≤ s.columns - 1 ∧
    (∀ c, s.cursor.x < c → c < x' → s.tabstops c = false) ∧
    (x' < s.columns - 1 → s.tabstops x' = true ∧ s.cursor.x < x') ∧
    OnlyCursorMoved s (tab s) := by
  have hcols := h.cols
  have hcx := h.cx
  unfold tab
  cases hf : firstStopFrom s.tabstops (s.cursor.x + 1) (s.columns - (s.cursor.x + 1)) with
  | none =>
    have hn := firstStopFrom_none _ _ _ hf
    refine ⟨Nat.le_refl _, ?_, ?_, rfl⟩
    · intro c h1 h2
      exact hn c (by omega) (by simp only [setCursorX] at h2; omega)
    · intro h1
      simp only [setCursorX] at h1
      omega
  | some c =>
    obtain ⟨a, b, hc, hd⟩ := firstStopFrom_some _ _ _ _ hf
    refine ⟨Nat.min_le_right _ _, ?_, ?_, rfl⟩
    · intro d h1 h2
      simp only [setCursorX] at h2
      exact hd d (by omega) (by omega)
    · intro h1
      simp only [setCursorX] at h1 ⊢
      have : min c (s.columns - 1) = c := by omega
      rw [this]
      exact ⟨hc, by omega⟩

/-! #### executable predicate (evaluated on the implementation's transitions) -/

theorem C18_holds (env : Env) (cands : List Nat) (s : Screen) (c : Call) (h : Inv s) :
    propC18 cands s c (step env s c) = true := by
  cases c <;> try rfl
  case setTabStop =>
    simp [propC18, step, setTabStop, sameCellsB, sameDirtyB]
  case clearTabStop how =>
    simp only [propC18, step, clearTabStop, sameCellsB, sameDirtyB, decide_true, beq_self_eq_true,
      Bool.and_self, List.all_eq_true, implies_true, Bool.and_true]
    generalize how.getD 0 = k
    match k with
    | 0 => simp [tbcStops]
    | 1 => simp [tbcStops]
    | 2 => simp [tbcStops]
    | 3 => simp [tbcStops]
    | n + 4 => simp [tbcStops]
  case tab =>
    obtain ⟨h1, h2, h3, h4⟩ := ht s h
    simp only [propC18, step]
    simp only [Bool.and_eq_true, List.all_eq_true, List.mem_range, Bool.or_eq_true,
      Bool.not_eq_true', Bool.and_eq_false_iff, beq_iff_eq]
    refine ⟨⟨⟨⟨⟨⟨decide_eq_true h1, ?_⟩, ?_⟩, ?_⟩, sameSettingsB_of h4.sameSettings⟩, sameCellsB_of h4.cell⟩, sameDirtyB_of h4.dirty⟩
    · intro k _
      by_cases c1 : s.cursor.x < k
      · by_cases c2 : k < (tab s).cursor.x
        · right; exact h2 k c1 c2
        · left; right; exact decide_eq_false c2
      · left; left; exact decide_eq_false c1
    · by_cases c : (tab s).cursor.x < s.columns - 1
      · right; exact ⟨(h3 c).1, decide_eq_true (h3 c).2⟩
      · left; exact decide_eq_false c
    · unfold tab; split <;> rfl
  case reset =>
    simp only [propC18, step, tabs_after_reset]
    simp

/-- non-vacuity: width 20 with stops {8, 16} after HTS at 3: HT from 3 goes to 8, from 16 to 19 -/
example : (tab (setTabStop (cursorForward (init 20 2) (some 3)))).cursor.x = 8 := by decide
example : (tab (cursorForward (init 20 2) (some 16))).cursor.x = 19 := by decide
example : (tab (cursorForward (clearTabStop (init 20 2) (some 3)) (some 2))).cursor.x = 19 := by decide

end C18
end Memterm

