import Memterm.Proofs.InvStep
import Memterm.Proofs.SparseStep
import Memterm.Spec.C07

/-
  C07 — Erase operations blank exactly the documented cells with the current rendition.
-/
namespace Memterm
namespace C07

open Gen

/-! #### pointwise characterisations of the model -/

theorem el_cell (s : Screen) (how : Option Nat) (y x : Nat) (hx : x < s.columns) :
    (eraseInLine s how).cell y x =
      if (match how.getD 0 with
        | 0 => y == s.cursor.y && decide (s.cursor.x ≤ x)
        | 1 => y == s.cursor.y && decide (x ≤ min s.cursor.x (s.columns - 1))
        | 2 => y == s.cursor.y
        | _ => false) then cursorCell s else s.cell y x := by
  unfold eraseInLine elRange
  generalize how.getD 0 = k
  match k with
  | 0 => simp [hx, markDirty]
  | 1 => simp [markDirty]
  | 2 => simp [hx, markDirty]
  | n + 3 => simp [markDirty]

theorem el_frame (s : Screen) (how : Option Nat) : SameCursorSettings s (eraseInLine s how) := by
  unfold eraseInLine
  simp only
  split <;> exact ⟨rfl, rfl, rfl, rfl, rfl, rfl, rfl, rfl, rfl, rfl, rfl, rfl, rfl, rfl, rfl⟩

theorem ech_frame (s : Screen) (n : Option Nat) : SameCursorSettings s (eraseCharacters s n) :=
  ⟨rfl, rfl, rfl, rfl, rfl, rfl, rfl, rfl, rfl, rfl, rfl, rfl, rfl, rfl, rfl⟩

theorem edFill_frame (s : Screen) (lo hi : Nat) : SameCursorSettings s (edFill s lo hi) :=
  ⟨rfl, rfl, rfl, rfl, rfl, rfl, rfl, rfl, rfl, rfl, rfl, rfl, rfl, rfl, rfl⟩

theorem SameCursorSettings.trans {a b c : Screen} (h1 : SameCursorSettings a b) (h2 : SameCursorSettings b c) :
    SameCursorSettings a c := by
  obtain ⟨c1, s1, s2, s3, s4, s5, s6, s7, s8, s9, s10, s11, s12, s13, s14⟩ := h1
  obtain ⟨d1, t1, t2, t3, t4, t5, t6, t7, t8, t9, t10, t11, t12, t13, t14⟩ := h2
  exact ⟨d1.trans c1, t1.trans s1, t2.trans s2, t3.trans s3, t4.trans s4, t5.trans s5, t6.trans s6,
    t7.trans s7, t8.trans s8, t9.trans s9, t10.trans s10, t11.trans s11, t12.trans s12, t13.trans s13,
    t14.trans s14⟩

theorem ed_frame (s : Screen) (how : Option Nat) : SameCursorSettings s (eraseInDisplay s how) := by
  unfold eraseInDisplay
  simp only
  split
  · exact SameCursorSettings.trans (edFill_frame s _ _) (el_frame _ _)
  · exact edFill_frame s _ _

theorem el_cell0 (s : Screen) (y x : Nat) (hx : x < s.columns) :
    (eraseInLine s (some 0)).cell y x =
      if (y == s.cursor.y && decide (s.cursor.x ≤ x)) then cursorCell s else s.cell y x := by
  simp [eraseInLine, elRange, hx, markDirty]

theorem el_cell1 (s : Screen) (y x : Nat) :
    (eraseInLine s (some 1)).cell y x =
      if (y == s.cursor.y && decide (x ≤ min s.cursor.x (s.columns - 1))) then cursorCell s else s.cell y x := by
  simp [eraseInLine, elRange, markDirty]

theorem edFill_cell (s : Screen) (lo hi y x : Nat) :
    (edFill s lo hi).cell y x = if (decide (lo ≤ y) && decide (y < hi) && decide (x < s.columns)) then cursorCell s else s.cell y x := rfl

theorem ed_cell (s : Screen) (h : Inv s) (how : Option Nat) (y x : Nat) (hy : y < s.lines) (hx : x < s.columns) :
    (eraseInDisplay s how).cell y x =
      if (match how.getD 0 with
        | 0 => decide (s.cursor.y < y) || (y == s.cursor.y && decide (s.cursor.x ≤ x))
        | 1 => decide (y < s.cursor.y) || (y == s.cursor.y && decide (x ≤ min s.cursor.x (s.columns - 1)))
        | 2 => true
        | 3 => true
        | _ => false) then cursorCell s else s.cell y x := by
  have hcy := h.cy
  unfold eraseInDisplay
  simp only
  generalize how.getD 0 = k
  match k with
  | 0 =>
    simp only [beq_self_eq_true, Bool.true_or, if_true]
    rw [el_cell0 (edFill s (edRows s 0).1 (edRows s 0).2) y x hx, edFill_cell]
    show (if _ then cursorCell s else _) = _
    simp only [edFill, edRows, markDirtyRange]
    by_cases c1 : s.cursor.y < y
    · have : s.cursor.y + 1 ≤ y := c1
      simp [c1, hy, hx, this]
    · by_cases c2 : y = s.cursor.y
      · subst c2
        have : ¬ (s.cursor.y + 1 ≤ s.cursor.y) := by omega
        simp [this]
      · have : ¬ (s.cursor.y + 1 ≤ y) := by omega
        simp [c1, c2, this]
  | 1 =>
    simp only [beq_self_eq_true, if_true, Bool.or_true]
    rw [el_cell1 (edFill s (edRows s 1).1 (edRows s 1).2) y x, edFill_cell]
    show (if _ then cursorCell s else _) = _
    simp only [edFill, edRows, markDirtyRange]
    by_cases c1 : y < s.cursor.y
    · simp [c1, hx]
    · by_cases c2 : y = s.cursor.y
      · subst c2; simp
      · simp [c1, c2]
  | 2 => simp [edFill, edRows, hy, hx]
  | 3 => simp [edFill, edRows, hy, hx]
  | n + 4 => simp [edFill, edRows]
theorem ech_cell (s : Screen) (n : Option Nat) (y x : Nat) (hx : x < s.columns) :
    (eraseCharacters s n).cell y x =
      if (y == s.cursor.y && decide (s.cursor.x ≤ x) && decide (x < s.cursor.x + nz n)) then cursorCell s
      else s.cell y x := by
  unfold eraseCharacters
  simp only
  by_cases c : x < s.cursor.x + nz n
  · have : x < min (s.cursor.x + nz n) s.columns := by omega
    simp [c, this]
  · have : ¬ x < min (s.cursor.x + nz n) s.columns := by omega
    simp [c, this]

/-- C07 for the model -/
theorem C07_holds (env : Env) (cands : List Nat) (s : Screen) (c : Call) (h : Inv s) :
    propC07 cands s c (step env s c) = true := by
  unfold propC07
  cases c <;> simp only [region] <;> try rfl
  case eraseInDisplay how =>
    rw [Bool.and_eq_true, allCellsB_iff]
    refine ⟨?_, sameCursorSettingsB_of (ed_frame s how)⟩
    intro y x hy hx
    apply decide_eq_true
    show (eraseInDisplay s how).cell y x = _
    rw [ed_cell s h how y x hy hx]
    generalize how.getD 0 = k
    match k with
    | 0 => rfl
    | 1 => rfl
    | 2 => rfl
    | 3 => rfl
    | n + 4 => rfl
  case eraseInLine how =>
    rw [Bool.and_eq_true, allCellsB_iff]
    refine ⟨?_, sameCursorSettingsB_of (el_frame s how)⟩
    intro y x _ hx
    apply decide_eq_true
    show (eraseInLine s how).cell y x = _
    rw [el_cell s how y x hx]
    generalize how.getD 0 = k
    match k with
    | 0 => rfl
    | 1 => rfl
    | 2 => rfl
    | n + 3 => rfl
  case eraseCharacters n =>
    rw [Bool.and_eq_true, allCellsB_iff]
    refine ⟨?_, sameCursorSettingsB_of (ech_frame s n)⟩
    intro y x _ hx
    apply decide_eq_true
    exact ech_cell s n y x hx

/-- margins and origin mode do not occur in the documented region: erasure is not restricted by them -/
theorem region_ignores_margins (s : Screen) (c : Call) (m : Option (Nat × Nat)) (md : Nat → Bool) :
    region { s with margins := m, mode := md } c = region s c := by
  cases c <;> rfl


/-- non-vacuity: EL 1 at the pending-wrap column of a 3-column screen erases the whole row -/
example :
    let env : Env := { W := fun _ => 1, CM := fun _ => false, NFC := id }
    let s := draw env (init 3 2) [97, 98, 99]
    s.cursor.x = 3 ∧ (eraseInLine s (some 1)).cell 0 2 = cursorCell s ∧ (eraseInLine s (some 1)).cell 1 2 = s.cell 1 2 := by
  decide

/-! #### the sparse layer: the insert loops of the erase operations -/

theorem sparse_ed (ss : Sparse.SScreen) (h : Option Nat) :
    Sparse.abs (Sparse.eraseInDisplay ss h) = eraseInDisplay (Sparse.abs ss) h := Sparse.abs_eraseInDisplay ss h

theorem sparse_el (ss : Sparse.SScreen) (h : Option Nat) :
    Sparse.abs (Sparse.eraseInLine ss h) = eraseInLine (Sparse.abs ss) h := Sparse.abs_eraseInLine ss h

theorem sparse_ech (ss : Sparse.SScreen) (n : Option Nat) :
    Sparse.abs (Sparse.eraseCharacters ss n) = eraseCharacters (Sparse.abs ss) n := Sparse.abs_eraseCharacters ss n

end C07
end Memterm

