import Memterm.Props.C20
import Memterm.Spec.Probes

/-
  C20 - which listener method the crate's dispatch tables call for the sequences of this property, and
  with which parameter positions.  Two kinds of statement, kept in a leaf module that nothing else
  imports (so that a change to the dispatch of one property's sequences cannot break the proof build of
  another property): the model's dispatch functions on the regenerated constants (`dispatch_*`), and the
  agreement of those functions with what the COMPILED CRATE calls, probed on every run (`dispatch_probes`).
-/
namespace Memterm
namespace C20

open Gen

/-! #### the dispatch table of the crate, by translation -/

/-- SO / SI reach shift_out / shift_in (the UTF-8 gate is in the recogniser, not in the table), as probed on the compiled crate -/
theorem dispatch_probes :
    Probes.basicOk (Probes.slice Gen.BASIC_PROBES [Gen.SO, Gen.SI]) = true := by
  decide +kernel

/-- non-vacuity: the slice is not empty -/
example : (Probes.slice Gen.BASIC_PROBES [Gen.SO, Gen.SI]).length = 2 := by
  decide +kernel

end C20
end Memterm
