import Memterm.Props.C18
import Memterm.Spec.Probes

/-
  C18 - which listener method the crate's dispatch tables call for the sequences of this property, and
  with which parameter positions.  Two kinds of statement, kept in a leaf module that nothing else
  imports (so that a change to the dispatch of one property's sequences cannot break the proof build of
  another property): the model's dispatch functions on the regenerated constants (`dispatch_*`), and the
  agreement of those functions with what the COMPILED CRATE calls, probed on every run (`dispatch_probes`).
-/
namespace Memterm
namespace C18

open Gen

theorem dispatch_HTS : escapeDispatch 72 = [.setTabStop] := by rfl
theorem dispatch_TBC (ps : List Nat) (p : Bool) : csiDispatch 103 ps p = [.clearTabStop ps[0]?] := by rfl
theorem dispatch_HT : basicDispatch 9 = [.tab] := by rfl

/-! #### the dispatch table of the crate, by translation -/

/-- the crate's dispatch of TBC (selector = first parameter), HTS and HT, as probed on the compiled crate -/
theorem dispatch_probes :
    Probes.csiOk (Probes.slice Gen.CSI_PROBES [Gen.TBC]) = true ∧ Probes.escOk (Probes.slice Gen.ESC_PROBES [Gen.HTS]) = true ∧
    Probes.basicOk (Probes.slice Gen.BASIC_PROBES [Gen.HT]) = true := by
  decide +kernel

/-- non-vacuity: the slice is not empty -/
example : (Probes.slice Gen.CSI_PROBES [Gen.TBC]).length ≥ 10 ∧ (Probes.slice Gen.BASIC_PROBES [Gen.HT]).length = 1 := by
  decide +kernel

end C18
end Memterm
