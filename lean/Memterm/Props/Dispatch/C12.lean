import Memterm.Props.C12
import Memterm.Spec.Probes

/-
  C12 - which listener method the crate's dispatch tables call for the sequences of this property, and
  with which parameter positions.  Two kinds of statement, kept in a leaf module that nothing else
  imports (so that a change to the dispatch of one property's sequences cannot break the proof build of
  another property): the model's dispatch functions on the regenerated constants (`dispatch_*`), and the
  agreement of those functions with what the COMPILED CRATE calls, probed on every run (`dispatch_probes`).
-/
namespace Memterm
namespace C12

open Gen

theorem dispatch_SM (ps : List Nat) (p : Bool) : csiDispatch 104 ps p = [.setMode ps p] := by rfl
theorem dispatch_RM (ps : List Nat) (p : Bool) : csiDispatch 108 ps p = [.resetMode ps p] := by rfl

/-! #### the dispatch table of the crate, by translation -/

/-- `h` / `l` reach set_mode / reset_mode with the whole parameter list and the private flag, as probed on the compiled crate -/
theorem dispatch_probes :
    Probes.csiOk (Probes.slice Gen.CSI_PROBES [Gen.SM, Gen.RM]) = true := by
  decide +kernel

/-- non-vacuity: the slice is not empty -/
example : (Probes.slice Gen.CSI_PROBES [Gen.SM, Gen.RM]).length ≥ 20 := by
  decide +kernel

/-- the seven mode numbers, as regenerated from modes.rs -/
theorem mode_numbers :
    LNM = 20 ∧ IRM = 4 ∧ DECTCEM = 25 * 32 ∧ DECSCNM = 5 * 32 ∧ DECOM = 6 * 32 ∧ DECAWM = 7 * 32 ∧
    DECCOLM = 3 * 32 := by decide

end C12
end Memterm
