import Memterm.Props.C15
import Memterm.Spec.Probes

/-
  C15 - which listener method the crate's dispatch tables call for the sequences of this property, and
  with which parameter positions.  Two kinds of statement, kept in a leaf module that nothing else
  imports (so that a change to the dispatch of one property's sequences cannot break the proof build of
  another property): the model's dispatch functions on the regenerated constants (`dispatch_*`), and the
  agreement of those functions with what the COMPILED CRATE calls, probed on every run (`dispatch_probes`).
-/
namespace Memterm
namespace C15

open Gen

theorem dispatch_RIS : escapeDispatch 99 = [.reset] := by rfl

/-! #### the dispatch table of the crate, by translation -/

/-- `ESC c` reaches reset, as probed on the compiled crate -/
theorem dispatch_probes :
    Probes.escOk (Probes.slice Gen.ESC_PROBES [Gen.RIS]) = true := by
  decide +kernel

/-- non-vacuity: the slice is not empty -/
example : (Probes.slice Gen.ESC_PROBES [Gen.RIS]).length = 1 := by
  decide +kernel

/-- the documented defaults -/
theorem default_modes : DEFAULT_MODE = [DECAWM, DECTCEM] := by decide

end C15
end Memterm
