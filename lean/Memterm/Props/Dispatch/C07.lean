import Memterm.Props.C07
import Memterm.Spec.Probes

/-
  C07 - which listener method the crate's dispatch tables call for the sequences of this property, and
  with which parameter positions.  Two kinds of statement, kept in a leaf module that nothing else
  imports (so that a change to the dispatch of one property's sequences cannot break the proof build of
  another property): the model's dispatch functions on the regenerated constants (`dispatch_*`), and the
  agreement of those functions with what the COMPILED CRATE calls, probed on every run (`dispatch_probes`).
-/
namespace Memterm
namespace C07

open Gen

theorem dispatch_ED (ps : List Nat) (p : Bool) : csiDispatch 74 ps p = [.eraseInDisplay ps[0]?] := by rfl
theorem dispatch_EL (ps : List Nat) (p : Bool) : csiDispatch 75 ps p = [.eraseInLine ps[0]?] := by rfl
theorem dispatch_ECH (ps : List Nat) (p : Bool) : csiDispatch 88 ps p = [.eraseCharacters ps[0]?] := by rfl

/-! #### the dispatch table of the crate, by translation -/

/-- the crate's dispatch of ED, EL, ECH, as probed on the compiled crate (the `private` argument is C03's business:
    `Screen` ignores it for ED / EL) -/
theorem dispatch_probes :
    Probes.csiOk (Probes.slice Gen.CSI_PROBES [Gen.ED, Gen.EL, Gen.ECH]) = true := by
  decide +kernel

/-- non-vacuity: the slice is not empty -/
example : (Probes.slice Gen.CSI_PROBES [Gen.ED, Gen.EL, Gen.ECH]).length ≥ 30 := by
  decide +kernel

end C07
end Memterm
