import Memterm.Props.C05
import Memterm.Spec.Probes

/-
  C05 - which listener method the crate's dispatch tables call for the sequences of this property, and
  with which parameter positions.  Two kinds of statement, kept in a leaf module that nothing else
  imports (so that a change to the dispatch of one property's sequences cannot break the proof build of
  another property): the model's dispatch functions on the regenerated constants (`dispatch_*`), and the
  agreement of those functions with what the COMPILED CRATE calls, probed on every run (`dispatch_probes`).
-/
namespace Memterm
namespace C05

open Gen

theorem dispatch_CUU (ps : List Nat) (p : Bool) : csiDispatch 65 ps p = [.cursorUp ps[0]?] := by rfl
theorem dispatch_CUD (ps : List Nat) (p : Bool) : csiDispatch 66 ps p = [.cursorDown ps[0]?] := by rfl
theorem dispatch_CUF (ps : List Nat) (p : Bool) : csiDispatch 67 ps p = [.cursorForward ps[0]?] := by rfl
theorem dispatch_CUB (ps : List Nat) (p : Bool) : csiDispatch 68 ps p = [.cursorBack ps[0]?] := by rfl
theorem dispatch_CNL (ps : List Nat) (p : Bool) : csiDispatch 69 ps p = [.cursorDown1 ps[0]?] := by rfl
theorem dispatch_CPL (ps : List Nat) (p : Bool) : csiDispatch 70 ps p = [.cursorUp1 ps[0]?] := by rfl
theorem dispatch_CHA (ps : List Nat) (p : Bool) : csiDispatch 71 ps p = [.cursorToColumn ps[0]?] := by rfl
theorem dispatch_CUP (ps : List Nat) (p : Bool) : csiDispatch 72 ps p = [.cursorPosition ps[0]? ps[1]?] := by rfl
theorem dispatch_HPR (ps : List Nat) (p : Bool) : csiDispatch 97 ps p = [.cursorForward ps[0]?] := by rfl
theorem dispatch_VPA (ps : List Nat) (p : Bool) : csiDispatch 100 ps p = [.cursorToLine ps[0]?] := by rfl
theorem dispatch_VPR (ps : List Nat) (p : Bool) : csiDispatch 101 ps p = [.cursorDown ps[0]?] := by rfl
theorem dispatch_HVP (ps : List Nat) (p : Bool) : csiDispatch 102 ps p = [.cursorPosition ps[0]? ps[1]?] := by rfl
theorem dispatch_BS : basicDispatch 8 = [.backspace] := by rfl
theorem dispatch_CR : basicDispatch 13 = [.cariageReturn] := by rfl

/-! #### the dispatch table of the crate, by translation -/

/-- the crate's dispatch of the cursor-movement finals (parameter positions: first = row / count, second = column; surplus parameters ignored), BS and CR, as probed on the compiled crate -/
theorem dispatch_probes :
    Probes.csiOk (Probes.slice Gen.CSI_PROBES [Gen.CUU, Gen.CUD, Gen.CUF, Gen.CUB, Gen.CNL, Gen.CPL, Gen.CHA, Gen.CUP, Gen.HPR, Gen.VPA, Gen.VPR, Gen.HVP]) = true ∧
    Probes.basicOk (Probes.slice Gen.BASIC_PROBES [Gen.BS, Gen.CR]) = true := by
  decide +kernel

/-- non-vacuity: the slice is not empty -/
example : (Probes.slice Gen.CSI_PROBES [Gen.CUU, Gen.CUD, Gen.CUF, Gen.CUB, Gen.CNL, Gen.CPL, Gen.CHA, Gen.CUP, Gen.HPR, Gen.VPA, Gen.VPR, Gen.HVP]).length ≥ 12 * 10 := by
  decide +kernel

end C05
end Memterm
