import Memterm.Props.C08
import Memterm.Spec.Probes

/-
  C08 - which listener method the crate's dispatch tables call for the sequences of this property, and
  with which parameter positions.  Two kinds of statement, kept in a leaf module that nothing else
  imports (so that a change to the dispatch of one property's sequences cannot break the proof build of
  another property): the model's dispatch functions on the regenerated constants (`dispatch_*`), and the
  agreement of those functions with what the COMPILED CRATE calls, probed on every run (`dispatch_probes`).
-/
namespace Memterm
namespace C08

open Gen

theorem dispatch_SGR (ps : List Nat) (p : Bool) : csiDispatch 109 ps p = [.sgr ps] := by rfl

/-! #### the dispatch table of the crate, by translation -/

/-- every `CSI ... m` reaches select_graphic_rendition with the whole parameter list, whatever the private flag, as probed on the compiled crate -/
theorem dispatch_probes :
    Probes.csiOk (Probes.slice Gen.CSI_PROBES [Gen.SGR]) = true := by
  decide +kernel

/-- non-vacuity: the slice is not empty -/
example : (Probes.slice Gen.CSI_PROBES [Gen.SGR]).length ≥ 10 := by
  decide +kernel

end C08
end Memterm
