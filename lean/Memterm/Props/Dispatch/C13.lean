import Memterm.Props.C13
import Memterm.Spec.Probes

/-
  C13 - which listener method the crate's dispatch tables call for the sequences of this property, and
  with which parameter positions.  Two kinds of statement, kept in a leaf module that nothing else
  imports (so that a change to the dispatch of one property's sequences cannot break the proof build of
  another property): the model's dispatch functions on the regenerated constants (`dispatch_*`), and the
  agreement of those functions with what the COMPILED CRATE calls, probed on every run (`dispatch_probes`).
-/
namespace Memterm
namespace C13

open Gen

theorem dispatch_ICH (ps : List Nat) (p : Bool) : csiDispatch 64 ps p = [.insertCharacters ps[0]?] := by rfl
theorem dispatch_DCH (ps : List Nat) (p : Bool) : csiDispatch 80 ps p = [.deleteCharacters ps[0]?] := by rfl

/-! #### the dispatch table of the crate, by translation -/

/-- the crate's dispatch of ICH and DCH (count = first parameter, surplus parameters ignored), as probed on the compiled crate -/
theorem dispatch_probes :
    Probes.csiOk (Probes.slice Gen.CSI_PROBES [Gen.ICH, Gen.DCH]) = true := by
  decide +kernel

/-- non-vacuity: the slice is not empty -/
example : (Probes.slice Gen.CSI_PROBES [Gen.ICH, Gen.DCH]).length ≥ 20 := by
  decide +kernel

end C13
end Memterm
