import Memterm.Props.C14
import Memterm.Spec.Probes

/-
  C14 - which listener method the crate's dispatch tables call for the sequences of this property, and
  with which parameter positions.  Two kinds of statement, kept in a leaf module that nothing else
  imports (so that a change to the dispatch of one property's sequences cannot break the proof build of
  another property): the model's dispatch functions on the regenerated constants (`dispatch_*`), and the
  agreement of those functions with what the COMPILED CRATE calls, probed on every run (`dispatch_probes`).
-/
namespace Memterm
namespace C14

open Gen

theorem dispatch_DECSC : escapeDispatch 55 = [.saveCursor] := by rfl
theorem dispatch_DECRC : escapeDispatch 56 = [.restoreCursor] := by rfl

/-! #### the dispatch table of the crate, by translation -/

/-- `ESC 7` / `ESC 8` reach save_cursor / restore_cursor, as probed on the compiled crate -/
theorem dispatch_probes :
    Probes.escOk (Probes.slice Gen.ESC_PROBES [Gen.DECSC, Gen.DECRC]) = true := by
  decide +kernel

/-- non-vacuity: the slice is not empty -/
example : (Probes.slice Gen.ESC_PROBES [Gen.DECSC, Gen.DECRC]).length = 2 := by
  decide +kernel

end C14
end Memterm
