import Memterm.Props.C06
import Memterm.Spec.Probes

/-
  C06 - which listener method the crate's dispatch tables call for the sequences of this property, and
  with which parameter positions.  Two kinds of statement, kept in a leaf module that nothing else
  imports (so that a change to the dispatch of one property's sequences cannot break the proof build of
  another property): the model's dispatch functions on the regenerated constants (`dispatch_*`), and the
  agreement of those functions with what the COMPILED CRATE calls, probed on every run (`dispatch_probes`).
-/
namespace Memterm
namespace C06

open Gen

theorem dispatch_IND : escapeDispatch 68 = [.index] := by rfl
theorem dispatch_NEL : escapeDispatch 69 = [.linefeed] := by rfl
theorem dispatch_RI : escapeDispatch 77 = [.reverseIndex] := by rfl
theorem dispatch_LF : basicDispatch 10 = [.linefeed] := by rfl
theorem dispatch_VT : basicDispatch 11 = [.linefeed] := by rfl
theorem dispatch_FF : basicDispatch 12 = [.linefeed] := by rfl
theorem dispatch_IL (ps : List Nat) (p : Bool) : csiDispatch 76 ps p = [.insertLines ps[0]?] := by rfl
theorem dispatch_DL (ps : List Nat) (p : Bool) : csiDispatch 77 ps p = [.deleteLines ps[0]?] := by rfl
theorem dispatch_DECSTBM (ps : List Nat) (p : Bool) : csiDispatch 114 ps p = [.setMargins ps[0]? ps[1]?] := by rfl

/-! #### the dispatch table of the crate, by translation -/

/-- the crate's dispatch of IL, DL, DECSTBM, IND, NEL, RI, LF, VT, FF, as probed on the compiled crate -/
theorem dispatch_probes :
    Probes.csiOk (Probes.slice Gen.CSI_PROBES [Gen.IL, Gen.DL, Gen.DECSTBM]) = true ∧
    Probes.escOk (Probes.slice Gen.ESC_PROBES [Gen.IND, Gen.NEL, Gen.RI]) = true ∧
    Probes.basicOk (Probes.slice Gen.BASIC_PROBES [Gen.LF, Gen.VT, Gen.FF]) = true := by
  decide +kernel

/-- non-vacuity: the slice is not empty -/
example : (Probes.slice Gen.CSI_PROBES [Gen.IL, Gen.DL, Gen.DECSTBM]).length ≥ 30 ∧ (Probes.slice Gen.ESC_PROBES [Gen.IND, Gen.NEL, Gen.RI]).length = 3 := by
  decide +kernel

end C06
end Memterm
