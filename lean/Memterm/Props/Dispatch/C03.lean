import Memterm.Props.C03
import Memterm.Spec.Probes

/-
  C03 - which listener method the crate's dispatch tables call for the sequences of this property, and
  with which parameter positions.  Two kinds of statement, kept in a leaf module that nothing else
  imports (so that a change to the dispatch of one property's sequences cannot break the proof build of
  another property): the model's dispatch functions on the regenerated constants (`dispatch_*`), and the
  agreement of those functions with what the COMPILED CRATE calls, probed on every run (`dispatch_probes`).
-/
namespace Memterm
namespace C03

open Gen

/-! #### the dispatch table of the crate, by translation -/

/-- the model's three dispatch functions agree with what the crate's `csi_dispatch`, `escape_dispatch` and `basic_dispatch` call for every probed final character (all of 0x20..0x7E and a sample outside, resp. all of 0..255), every probed parameter-list shape (0 to 4 parameters, zeros included) and both values of the private flag - regenerated from the compiled crate on every run -/
theorem dispatch_probes :
    Probes.csiOk Gen.CSI_PROBES = true ∧ Probes.escOk Gen.ESC_PROBES = true ∧ Probes.basicOk Gen.BASIC_PROBES = true := by
  decide +kernel

/-- The private marker is part of the event: the `private` argument `erase_in_display`, `erase_in_line` and
    `report_device_attributes` receive from the compiled crate's `csi_dispatch` is `Some(true)` exactly for a
    sequence marked with `?` (`CSI ? 2 J` is DECSED for a listener, not plain ED 2; `CSI ? c` is not the DA
    request), and nothing otherwise - for every probed final, parameter shape and flag. -/
theorem private_argument_probes : Probes.csiPrivOk Gen.CSI_PROBES = true := by
  decide +kernel

theorem private_argument (c : Nat) (h : c = 74 ∨ c = 75 ∨ c = 99) :
    csiPrivateArg c true = 3 ∧ csiPrivateArg c false = 1 := by
  rcases h with e | e | e <;> subst e <;> decide

/-- non-vacuity: the slice is not empty -/
example : Gen.CSI_PROBES.length ≥ 1000 ∧ Gen.ESC_PROBES.length = 256 ∧ Gen.BASIC_PROBES.length = 256 := by
  decide +kernel

end C03
end Memterm
