import Memterm.Props.C03
import Memterm.Spec.Probes

/-
  C03 - which listener method the crate's dispatch tables call for the sequences of this property, and
  with which parameter positions.  Two kinds of statement, kept in a leaf module that nothing else
  imports (so that a change to the dispatch of one property's sequences cannot break the proof build of
  another property): the model's dispatch functions on the regenerated constants (`dispatch_*`), and the
  agreement of those functions with what the COMPILED CRATE calls, probed on every run (`dispatch_probes`).
-/
namespace Memterm
namespace C03

open Gen

/-! #### the dispatch table of the crate, by translation -/

/-- the model's three dispatch functions agree with what the crate's `csi_dispatch`, `escape_dispatch` and `basic_dispatch` call for every probed final character (all of 0x20..0x7E and a sample outside, resp. all of 0..255), every probed parameter-list shape (0 to 4 parameters, zeros included) and both values of the private flag - regenerated from the compiled crate on every run -/
theorem dispatch_probes :
    Probes.csiOk Gen.CSI_PROBES = true ∧ Probes.escOk Gen.ESC_PROBES = true ∧ Probes.basicOk Gen.BASIC_PROBES = true := by
  decide +kernel

/-- non-vacuity: the slice is not empty -/
example : Gen.CSI_PROBES.length ≥ 1000 ∧ Gen.ESC_PROBES.length = 256 ∧ Gen.BASIC_PROBES.length = 256 := by
  decide +kernel

end C03
end Memterm
