import Memterm.Proofs.InvStep
import Memterm.Proofs.SparseStep
import Memterm.Spec.C06
import Memterm.Proofs.DrawFrame

/-
  C06 — Scrolling and line insertion/deletion stay inside the scrolling region.
-/
namespace Memterm
namespace C06

open Gen

theorem propC06_of_meets (cands : List Nat) (pre : Screen) (c : Call) (post : Screen)
    (h : ∀ e, expect pre c = some e → Meets pre e post) : propC06 cands pre c post = true := by
  unfold propC06
  cases he : expect pre c with
  | none => rfl
  | some e =>
    obtain ⟨h1, h2, h3, h4, h5⟩ := h e he
    simp only [Bool.and_eq_true, allCellsB_iff, beq_iff_eq]
    refine ⟨⟨⟨⟨?_, h2⟩, h3⟩, h4⟩, sameSettingsB_of h5⟩
    intro y x hy hx
    exact decide_eq_true (h1 y x hy hx)

theorem SameSettings.rest {s s' : Screen} (h : SameSettings s s') : SameRest s s' := by
  obtain ⟨h1, h2, h3, h4, h5, h6, h7, h8, h9, h10, h11, h12, h13, h14⟩ := h
  exact ⟨h1, h2, h3, h4, rfl, h6, h7, h8, h9, h10, h11, h12, h13, h14⟩

/-! #### the model meets the documented forms -/

theorem index_spec (s : Screen) (h : Inv s) :
    (index s).cell = (expectIndex s).cell ∧ (index s).cursor.x = (expectIndex s).x ∧
    (index s).cursor.y = (expectIndex s).y ∧ SameSettings s (index s) := by
  unfold index expectIndex atBottom
  simp only
  by_cases hb : s.cursor.y = bottomMargin s
  · simp only [hb, beq_self_eq_true, if_true]
    refine ⟨?_, rfl, hb, ⟨rfl, rfl, rfl, rfl, rfl, rfl, rfl, rfl, rfl, rfl, rfl, rfl, rfl, rfl⟩⟩
    funext y x
    simp only [rowsUp, markAllDirty, markDirtyRange]
    have ht := topMargin_le_bottom h
    by_cases c1 : topMargin s ≤ y ∧ y < bottomMargin s
    · have : topMargin s ≤ y ∧ y ≤ bottomMargin s := ⟨c1.1, by omega⟩
      have a : y + 1 ≤ bottomMargin s := by omega
      simp [c1.1, c1.2, this, a]
    · by_cases c2 : y = bottomMargin s
      · subst c2
        have : ¬ (bottomMargin s + 1 ≤ bottomMargin s) := by omega
        simp [ht, this]
      · have n1 : ¬ (topMargin s ≤ y ∧ y ≤ bottomMargin s) := by
          intro c; exact c1 ⟨c.1, by omega⟩
        have n2 : (decide (topMargin s ≤ y) && decide (y < bottomMargin s)) = false := by
          simp only [Bool.and_eq_false_iff, decide_eq_false_iff_not]
          by_cases q : topMargin s ≤ y
          · right; intro q2; exact c1 ⟨q, q2⟩
          · left; exact q
        simp [n1, n2, c2]
  · have hb' : (s.cursor.y == bottomMargin s) = false := by simpa using hb
    simp only [hb', hb, if_false, Bool.false_eq_true]
    exact ⟨rfl, rfl, rfl, ⟨rfl, rfl, rfl, rfl, rfl, rfl, rfl, rfl, rfl, rfl, rfl, rfl, rfl, rfl⟩⟩

theorem rindex_spec (s : Screen) (h : Inv s) :
    (reverseIndex s).cell = (if s.cursor.y = topMargin s then rowsDown s (topMargin s) (bottomMargin s) 1 else s.cell) ∧
    (reverseIndex s).cursor.x = s.cursor.x ∧
    (reverseIndex s).cursor.y = (if s.cursor.y = topMargin s then s.cursor.y else max (s.cursor.y - 1) (topMargin s)) ∧
    SameSettings s (reverseIndex s) := by
  unfold reverseIndex
  simp only
  by_cases hb : s.cursor.y = topMargin s
  · simp only [hb, beq_self_eq_true, if_true]
    refine ⟨?_, rfl, hb, ⟨rfl, rfl, rfl, rfl, rfl, rfl, rfl, rfl, rfl, rfl, rfl, rfl, rfl, rfl⟩⟩
    funext y x
    simp only [rowsDown, markAllDirty, markDirtyRange]
    have ht := topMargin_le_bottom h
    by_cases c1 : topMargin s < y ∧ y ≤ bottomMargin s
    · have : topMargin s ≤ y ∧ y ≤ bottomMargin s := ⟨by omega, c1.2⟩
      have a : ¬ y < topMargin s + 1 := by omega
      simp [c1.1, c1.2, this, a]
    · by_cases c2 : y = topMargin s
      · subst c2
        simp [ht]
      · have n1 : ¬ (topMargin s ≤ y ∧ y ≤ bottomMargin s) := by
          intro c; exact c1 ⟨by omega, c.2⟩
        have n2 : (decide (topMargin s < y) && decide (y ≤ bottomMargin s)) = false := by
          simp only [Bool.and_eq_false_iff, decide_eq_false_iff_not]
          by_cases q : topMargin s < y
          · right; intro q2; exact c1 ⟨q, q2⟩
          · left; exact q
        simp [n1, n2, c2]
  · have hb' : (s.cursor.y == topMargin s) = false := by simpa using hb
    simp only [hb', hb, if_false, Bool.false_eq_true]
    exact ⟨rfl, rfl, rfl, ⟨rfl, rfl, rfl, rfl, rfl, rfl, rfl, rfl, rfl, rfl, rfl, rfl, rfl, rfl⟩⟩

theorem il_spec (s : Screen) (n : Option Nat) (hin : topMargin s ≤ s.cursor.y ∧ s.cursor.y ≤ bottomMargin s) :
    (insertLines s n).cell = rowsDown s s.cursor.y (bottomMargin s) (lineShift s n) ∧
    (insertLines s n).cursor.x = 0 ∧ (insertLines s n).cursor.y = s.cursor.y ∧
    SameSettings s (insertLines s n) := by
  unfold insertLines
  simp only [hin.1, hin.2, decide_true, Bool.and_self, if_true]
  refine ⟨?_, rfl, rfl, ⟨rfl, rfl, rfl, rfl, rfl, rfl, rfl, rfl, rfl, rfl, rfl, rfl, rfl, rfl⟩⟩
  funext y x
  simp only [rowsDown, cariageReturn, setCursorX, markDirtyRange]
  by_cases c1 : s.cursor.y ≤ y ∧ y ≤ bottomMargin s
  · simp only [c1.1, c1.2, decide_true, Bool.and_self, if_true, and_self]
    by_cases h2 : nz n ≤ bottomMargin s - s.cursor.y + 1
    · have hk : lineShift s n = nz n := by unfold lineShift; omega
      simp only [hk]
    · have hk : lineShift s n = bottomMargin s - s.cursor.y + 1 := by unfold lineShift; omega
      simp only [hk]
      have a1 : y < s.cursor.y + nz n := by omega
      have a2 : y < s.cursor.y + (bottomMargin s - s.cursor.y + 1) := by omega
      simp [a1, a2]
  · have n2 : (decide (s.cursor.y ≤ y) && decide (y ≤ bottomMargin s)) = false := by
      simp only [Bool.and_eq_false_iff, decide_eq_false_iff_not]
      by_cases q : s.cursor.y ≤ y
      · right; intro q2; exact c1 ⟨q, q2⟩
      · left; exact q
    simp [c1, n2]

theorem dl_spec (s : Screen) (n : Option Nat) (hin : topMargin s ≤ s.cursor.y ∧ s.cursor.y ≤ bottomMargin s) :
    (deleteLines s n).cell = rowsUp s s.cursor.y (bottomMargin s) (lineShift s n) ∧
    (deleteLines s n).cursor.x = 0 ∧ (deleteLines s n).cursor.y = s.cursor.y ∧
    SameSettings s (deleteLines s n) := by
  unfold deleteLines
  simp only [hin.1, hin.2, decide_true, Bool.and_self, if_true]
  refine ⟨?_, rfl, rfl, ⟨rfl, rfl, rfl, rfl, rfl, rfl, rfl, rfl, rfl, rfl, rfl, rfl, rfl, rfl⟩⟩
  funext y x
  simp only [rowsUp, cariageReturn, setCursorX, markDirtyRange]
  by_cases c1 : s.cursor.y ≤ y ∧ y ≤ bottomMargin s
  · simp only [c1.1, c1.2, decide_true, Bool.and_self, if_true, and_self]
    by_cases h2 : nz n ≤ bottomMargin s - s.cursor.y + 1
    · have hk : lineShift s n = nz n := by unfold lineShift; omega
      simp only [hk]
    · have hk : lineShift s n = bottomMargin s - s.cursor.y + 1 := by unfold lineShift; omega
      simp only [hk]
      have a1 : ¬ y + nz n ≤ bottomMargin s := by omega
      have a2 : ¬ y + (bottomMargin s - s.cursor.y + 1) ≤ bottomMargin s := by omega
      simp [a1, a2]
  · have n2 : (decide (s.cursor.y ≤ y) && decide (y ≤ bottomMargin s)) = false := by
      simp only [Bool.and_eq_false_iff, decide_eq_false_iff_not]
      by_cases q : s.cursor.y ≤ y
      · right; intro q2; exact c1 ⟨q, q2⟩
      · left; exact q
    simp [c1, n2]

theorem outside_region_noop_il (s : Screen) (n : Option Nat) (hin : ¬ inRegion s) : insertLines s n = s := by
  unfold insertLines
  have : (decide (topMargin s ≤ s.cursor.y) && decide (s.cursor.y ≤ bottomMargin s)) = false := by
    simp only [Bool.and_eq_false_iff, decide_eq_false_iff_not]
    by_cases q : topMargin s ≤ s.cursor.y
    · right; intro q2; exact hin ⟨q, q2⟩
    · left; exact q
  simp [this]

theorem outside_region_noop_dl (s : Screen) (n : Option Nat) (hin : ¬ inRegion s) : deleteLines s n = s := by
  unfold deleteLines
  have : (decide (topMargin s ≤ s.cursor.y) && decide (s.cursor.y ≤ bottomMargin s)) = false := by
    simp only [Bool.and_eq_false_iff, decide_eq_false_iff_not]
    by_cases q : topMargin s ≤ s.cursor.y
    · right; intro q2; exact hin ⟨q, q2⟩
    · left; exact q
  simp [this]

theorem sameSettings_refl (s : Screen) : SameSettings s s :=
  ⟨rfl, rfl, rfl, rfl, rfl, rfl, rfl, rfl, rfl, rfl, rfl, rfl, rfl, rfl⟩

/-- DECSTBM: `CSI r` alone removes the region; otherwise the clamped region is accepted iff it
    spans at least two rows, and then the cursor is homed (to the top margin in origin mode). -/
theorem stbm_spec (s : Screen) (h : Inv s) (top bottom : Option Nat) :
    setMargins s top bottom =
      { s with
        margins := if stbmClears top bottom then none
                   else if stbmAccepts s top bottom then some (stbmRegion s top bottom) else s.margins
        cursor := { s.cursor with
          x := if stbmAccepts s top bottom then 0 else s.cursor.x
          y := if stbmAccepts s top bottom then (if s.mode DECOM then (stbmRegion s top bottom).1 else 0)
               else s.cursor.y } } := by
  have hrows := h.rows
  unfold setMargins
  by_cases c1 : stbmClears top bottom
  · have na : ¬ stbmAccepts s top bottom := fun a => a.1 c1
    simp only [c1, na, if_true, if_false]
    obtain ⟨ct, cb⟩ := c1
    subst cb
    rcases ct with ct | ct <;> subst ct <;> simp
  · have c1' : (top.getD 0 == 0 && bottom.isNone) = false := by
      cases top with
      | none =>
        cases bottom with
        | none => exact absurd ⟨Or.inl rfl, rfl⟩ c1
        | some b => rfl
      | some t =>
        cases bottom with
        | none =>
          cases t with
          | zero => exact absurd ⟨Or.inr rfl, rfl⟩ c1
          | succ k => rfl
        | some b => simp
    simp only [c1', Bool.false_eq_true, if_false, c1]
    have hreg : (clampMargin s (s.margins.getD (0, s.lines - 1)).1 top,
        clampMargin s (s.margins.getD (0, s.lines - 1)).2 bottom) = stbmRegion s top bottom := by
      unfold stbmRegion clampMargin
      cases top <;> cases bottom <;> rfl
    have e1 : clampMargin s (s.margins.getD (0, s.lines - 1)).1 top = (stbmRegion s top bottom).1 := by
      rw [← hreg]
    have e2 : clampMargin s (s.margins.getD (0, s.lines - 1)).2 bottom = (stbmRegion s top bottom).2 := by
      rw [← hreg]
    rw [e1, e2]
    cases hr : stbmRegion s top bottom with
    | mk t b =>
    simp only [stbmAccepts, hr]
    by_cases hle : t + 1 ≤ b
    · simp only [hle, c1, not_false_eq_true, and_self, if_true]
      by_cases hd : s.mode DECOM = true
      · have n1 : ¬ (b < t) := by omega
        simp [cursorPosition, nz, hd, ensureVBounds, ensureHBounds, setCursorX, setCursorY, n1]
        omega
      · have hd' : s.mode DECOM = false := by simpa using hd
        simp [cursorPosition, nz, hd', ensureVBounds, ensureHBounds, setCursorX, setCursorY]
    · simp [hle]

theorem linefeed_spec (s : Screen) (h : Inv s) :
    (linefeed s).cell = (expectIndex s).cell ∧
    (linefeed s).cursor.x = (if s.mode LNM then 0 else s.cursor.x) ∧
    (linefeed s).cursor.y = (expectIndex s).y ∧ SameSettings s (linefeed s) := by
  obtain ⟨a, b, c, d⟩ := index_spec s h
  have hm : (index s).mode = s.mode := d.2.2.2.2.2.1
  unfold linefeed
  simp only [hm]
  by_cases hl : s.mode LNM = true
  · simp only [hl, if_true]
    exact ⟨a, rfl, c, d⟩
  · have hl' : s.mode LNM = false := by simpa using hl
    simp only [hl', Bool.false_eq_true, if_false]
    exact ⟨a, b, c, d⟩

/-- C06 for the model -/
theorem C06_holds (env : Env) (cands : List Nat) (s : Screen) (c : Call) (h : Inv s) :
    propC06 cands s c (step env s c) = true := by
  apply propC06_of_meets
  intro e he
  cases c <;> simp only [expect, reduceCtorEq, Option.some.injEq] at he <;> subst he
  case index =>
    obtain ⟨a, b, c, d⟩ := index_spec s h
    exact ⟨fun y x _ _ => by show (index s).cell y x = _; rw [a], b, c, d.2.2.2.2.1, SameSettings.rest d⟩
  case linefeed =>
    obtain ⟨a, b, c, d⟩ := linefeed_spec s h
    exact ⟨fun y x _ _ => by show (linefeed s).cell y x = _; rw [a], b, c, d.2.2.2.2.1, SameSettings.rest d⟩
  case reverseIndex =>
    obtain ⟨a, b, c, d⟩ := rindex_spec s h
    exact ⟨fun y x _ _ => by show (reverseIndex s).cell y x = _; rw [a]; rfl, b, c, d.2.2.2.2.1, SameSettings.rest d⟩
  case insertLines n =>
    by_cases hin : inRegion s
    · obtain ⟨a, b, c, d⟩ := il_spec s n hin
      refine ⟨fun y x _ _ => ?_, ?_, c, d.2.2.2.2.1, SameSettings.rest d⟩
      · show (insertLines s n).cell y x = _
        rw [a]; simp [hin]
      · show (insertLines s n).cursor.x = _
        rw [b]; simp [hin]
    · have e := outside_region_noop_il s n hin
      refine ⟨fun y x _ _ => ?_, ?_, ?_, ?_, ?_⟩
      · show (insertLines s n).cell y x = _
        rw [e]; simp [hin]
      · show (insertLines s n).cursor.x = _
        rw [e]; simp [hin]
      · show (insertLines s n).cursor.y = _
        rw [e]
      · show (insertLines s n).margins = _
        rw [e]
      · show SameRest s (insertLines s n)
        rw [e]; exact SameSettings.rest (sameSettings_refl s)
  case deleteLines n =>
    by_cases hin : inRegion s
    · obtain ⟨a, b, c, d⟩ := dl_spec s n hin
      refine ⟨fun y x _ _ => ?_, ?_, c, d.2.2.2.2.1, SameSettings.rest d⟩
      · show (deleteLines s n).cell y x = _
        rw [a]; simp [hin]
      · show (deleteLines s n).cursor.x = _
        rw [b]; simp [hin]
    · have e := outside_region_noop_dl s n hin
      refine ⟨fun y x _ _ => ?_, ?_, ?_, ?_, ?_⟩
      · show (deleteLines s n).cell y x = _
        rw [e]; simp [hin]
      · show (deleteLines s n).cursor.x = _
        rw [e]; simp [hin]
      · show (deleteLines s n).cursor.y = _
        rw [e]
      · show (deleteLines s n).margins = _
        rw [e]
      · show SameRest s (deleteLines s n)
        rw [e]; exact SameSettings.rest (sameSettings_refl s)
  case setMargins top bottom =>
    have e := stbm_spec s h top bottom
    refine ⟨fun y x _ _ => ?_, ?_, ?_, ?_, ?_⟩
    · show (setMargins s top bottom).cell y x = _
      rw [e]
    · show (setMargins s top bottom).cursor.x = _
      rw [e]
    · show (setMargins s top bottom).cursor.y = _
      rw [e]
    · show (setMargins s top bottom).margins = _
      rw [e]
    · show SameRest s (setMargins s top bottom)
      rw [e]
      exact ⟨rfl, rfl, rfl, rfl, rfl, rfl, rfl, rfl, rfl, rfl, rfl, rfl, rfl, rfl⟩

/-! #### autowrap -/

/-- IRM shifting and the character store touch only the cursor row, and leave the cursor on it -/
theorem put_other_rows (s : Screen) (c w y x : Nat) (hy : y ≠ s.cursor.y) :
    (putChar (irmStage s w) c w).cell y x = s.cell y x := by
  have hy' : (y == s.cursor.y) = false := by simpa using hy
  unfold putChar irmStage
  by_cases hI : s.mode IRM = true <;>
    by_cases hw : (w == 2 && decide (s.cursor.x + 1 < s.columns)) = true <;>
    simp [hI, hw, hy', hy, insertCharacters, markDirty, setCell, setCursorX]

theorem put_cursor_y (s : Screen) (c w : Nat) : (putChar (irmStage s w) c w).cursor.y = s.cursor.y := by
  unfold putChar irmStage
  by_cases hI : s.mode IRM = true <;>
    by_cases hw : (w == 2 && decide (s.cursor.x + 1 < s.columns)) = true <;>
    simp [hI, hw, insertCharacters, markDirty, setCell, setCursorX]

theorem put_margins (s : Screen) (c w : Nat) : (putChar (irmStage s w) c w).margins = s.margins := by
  unfold putChar irmStage
  by_cases hI : s.mode IRM = true <;>
    by_cases hw : (w == 2 && decide (s.cursor.x + 1 < s.columns)) = true <;>
    simp [hI, hw, insertCharacters, markDirty, setCell, setCursorX]

/-- AUTOWRAP: a printable character drawn at the pending-wrap position on the bottom margin with
    DECAWM set scrolls the region up by exactly one line - every row other than the cursor row is
    what `index` documents - and leaves the cursor row and the margins unchanged. -/
theorem wrap_scrolls (env : Env) (s : Screen) (t : List Nat) (h : Inv s) :
    propC06wrap env s (.draw t) (draw env s t) = true := by
  unfold propC06wrap
  simp only
  split
  · rename_i hw
    match t, hw with
    | [c], hw =>
      simp only [wrapsAtBottom, Bool.and_eq_true, beq_iff_eq] at hw
      obtain ⟨⟨⟨hW, hx⟩, ha⟩, hb⟩ := hw
      -- the wrap stage is carriage return + linefeed on the bottom margin
      have hu : Inv (cariageReturn (markDirty s s.cursor.y)) := inv_cariageReturn (inv_markDirty h _ h.cy)
      have hub : (cariageReturn (markDirty s s.cursor.y)).cursor.y = bottomMargin (cariageReturn (markDirty s s.cursor.y)) := hb
      obtain ⟨i1, _, i3, _⟩ := index_spec _ hu
      have hcell : ∀ y x, (linefeed (cariageReturn (markDirty s s.cursor.y))).cell y x =
          rowsUp s (topMargin s) (bottomMargin s) 1 y x := by
        intro y x
        have : (linefeed (cariageReturn (markDirty s s.cursor.y))).cell = (index (cariageReturn (markDirty s s.cursor.y))).cell := by
          unfold linefeed; simp only; split <;> rfl
        rw [this, i1]
        simp only [expectIndex, atBottom, hub, if_true]
        rfl
      have hcy : (linefeed (cariageReturn (markDirty s s.cursor.y))).cursor.y = s.cursor.y := by
        have : (linefeed (cariageReturn (markDirty s s.cursor.y))).cursor.y = (index (cariageReturn (markDirty s s.cursor.y))).cursor.y := by
          unfold linefeed; simp only; split <;> rfl
        rw [this, i3]
        simp only [expectIndex, atBottom, hub, if_true]
        exact hb.symm
      have hmg : (linefeed (cariageReturn (markDirty s s.cursor.y))).margins = s.margins :=
        (ss_linefeed _).2.2.2.2.1
      have hd : draw env s [c] =
          markDirty (putChar (irmStage (linefeed (cariageReturn (markDirty s s.cursor.y))) (env.W (translate s c)))
            (translate s c) (env.W (translate s c)))
            (putChar (irmStage (linefeed (cariageReturn (markDirty s s.cursor.y))) (env.W (translate s c)))
              (translate s c) (env.W (translate s c))).cursor.y := by
        simp only [draw, List.map_cons, List.map_nil, List.foldl_cons, List.foldl_nil, drawChar, hW, if_true,
          wrapStage, hx, beq_self_eq_true, ha]
      rw [hd]
      simp only [Bool.and_eq_true, allCellsB_iff, beq_iff_eq, Bool.or_eq_true, decide_eq_true_eq]
      refine ⟨⟨?_, ?_⟩, ?_⟩
      · intro y x _ _
        by_cases hy : y = s.cursor.y
        · left; exact hy
        · right
          show (putChar _ _ _).cell y x = _
          rw [put_other_rows _ _ _ _ _ (by rw [hcy]; exact hy), hcell]
      · show (putChar _ _ _).cursor.y = _
        rw [put_cursor_y, hcy]
      · show (putChar _ _ _).margins = _
        rw [put_margins, hmg]
  · rfl

/-- non-vacuity of the autowrap clause: region rows 1..2 of a 2x4 screen, cursor pending on the bottom margin -/
example :
    let env : Env := { W := fun _ => 1, CM := fun _ => false, NFC := id }
    let s := draw env (cursorPosition (setMargins (init 2 4) (some 2) (some 3)) (some 3) (some 1)) [97, 98]
    wrapsAtBottom env s [99] = true ∧ (draw env s [99]).cursor.y = 2 ∧
      display env (draw env s [99]) = [[32, 32], [97, 98], [99, 32], [32, 32]] := by
  decide

/-- non-vacuity: a 4-line screen with region rows 1..2, cursor on the bottom margin: index scrolls
    row 2 into row 1, blanks row 2 and leaves rows 0 and 3 alone -/
example :
    let env : Env := { W := fun _ => 1, CM := fun _ => false, NFC := id }
    let s0 := init 2 4
    let s1 := draw env (cursorPosition s0 (some 1) (some 1)) [97]
    let s2 := draw env (cursorPosition s1 (some 2) (some 1)) [98]
    let s3 := draw env (cursorPosition s2 (some 3) (some 1)) [99]
    let s4 := draw env (cursorPosition s3 (some 4) (some 1)) [100]
    let s5 := cursorDown (setMargins s4 (some 2) (some 3)) (some 9)
    s5.cursor.y = 2 ∧ display env (index s5) = [[97, 32], [99, 32], [32, 32], [100, 32]] := by
  decide

/-! #### the sparse layer: row re-keying -/

theorem sparse_index (ss : Sparse.SScreen) (h : Inv (Sparse.abs ss)) :
    Sparse.abs (Sparse.index ss) = index (Sparse.abs ss) := Sparse.abs_index ss h

theorem sparse_reverseIndex (ss : Sparse.SScreen) (h : Inv (Sparse.abs ss)) :
    Sparse.abs (Sparse.reverseIndex ss) = reverseIndex (Sparse.abs ss) := Sparse.abs_reverseIndex ss h

/-- the descending remove / insert loop of IL, on a row map in which any row may be absent -/
theorem sparse_il (ss : Sparse.SScreen) (n : Option Nat) :
    Sparse.abs (Sparse.insertLines ss n) = insertLines (Sparse.abs ss) n := Sparse.abs_insertLines ss n

/-- the ascending loop of DL (an absent source row removes the target) -/
theorem sparse_dl (ss : Sparse.SScreen) (n : Option Nat) :
    Sparse.abs (Sparse.deleteLines ss n) = deleteLines (Sparse.abs ss) n := Sparse.abs_deleteLines ss n

end C06
end Memterm

