import Memterm.Props.C16
import Memterm.Props.C15

/-
  Behaviour of the model that none of the twenty properties states, written down so that the model's
  coverage of the crate is explicit (the correspondence compares these operations like all others).
-/
namespace Memterm
namespace Extra

/-- DECALN (`ESC # 8`): every cell of the grid shows `E` and KEEPS its rendition (the source replaces
    `data` only); every row is marked; cursor, modes, margins, tab stops, title, charsets unchanged -/
theorem alignment_display_spec (env : Env) (s : Screen) :
    let s' := step env s .alignmentDisplay
    (∀ y x, y < s.lines → x < s.columns → s'.cell y x = { s.cell y x with data := [69] }) ∧
    (∀ y x, ¬ (y < s.lines ∧ x < s.columns) → s'.cell y x = s.cell y x) ∧
    (∀ y, y < s.lines → s'.dirty y = true) ∧
    s'.cursor = s.cursor ∧ s'.mode = s.mode ∧ s'.margins = s.margins ∧ s'.tabstops = s.tabstops ∧
    s'.savepoints = s.savepoints ∧ s'.title = s.title ∧ s'.g0 = s.g0 ∧ s'.g1 = s.g1 := by
  refine ⟨?_, ?_, ?_, rfl, rfl, rfl, rfl, rfl, rfl, rfl, rfl⟩
  · intro y x hy hx
    simp [step, alignmentDisplay, markAllDirty, markDirtyRange, hy, hx]
  · intro y x h
    simp only [step, alignmentDisplay, markAllDirty, markDirtyRange]
    have : (decide (y < s.lines) && decide (x < s.columns)) = false := by
      simp only [Bool.and_eq_false_iff, decide_eq_false_iff_not]
      by_cases hy : y < s.lines
      · right; exact fun hx => h ⟨hy, hx⟩
      · left; exact hy
    simp [this]
  · intro y hy
    simp [step, alignmentDisplay, markAllDirty, markDirtyRange, hy]

/-- BEL and the device-attributes request change nothing (the reply of DA goes to a stub) -/
theorem bell_da_noop (env : Env) (s : Screen) (m : Option Nat) :
    step env s .bell = s ∧ step env s (.reportDeviceAttributes m) = s := ⟨rfl, rfl⟩

/-- `resize` (and therefore DECCOLM) neither adds nor removes a tab stop: stops beyond a narrowed screen stay
    where they were (HT clamps to the last column, C18), and a widened screen gets no default stops in its
    new columns; the saved-cursor stack, modes, title and charsets are untouched as well -/
theorem resize_keeps_tabstops (s : Screen) (h : Inv s) (l c : Option Nat) :
    (resize s l c).tabstops = s.tabstops ∧ (resize s l c).savepoints = s.savepoints ∧
    (resize s l c).mode = s.mode ∧ (resize s l c).title = s.title := by
  have k := C16.kept_resize s h l c
  exact ⟨k.tabstops, k.savepoints, k.mode, k.title⟩

/-- RIS is idempotent: `ESC c ESC c` leaves exactly the state of `ESC c` (every field, dirty set and
    saved-cursor stack included), for every state with at least one line -/
theorem reset_idempotent (s : Screen) (hl : 1 ≤ s.lines) : reset (reset s) = reset s := by
  have e := C15.reset_eq s hl
  have c : (reset s).columns = s.columns := by rw [e]; rfl
  have l : (reset s).lines = s.lines := by rw [e]; rfl
  have sp : (reset s).savepoints = s.savepoints := by rw [e]; rfl
  rw [C15.reset_eq (reset s) (by rw [l]; exact hl), c, l, sp, ← e]

end Extra
end Memterm
