import Memterm.Proofs.InvStep

/-
  C08 — SGR sets exactly the documented rendition attributes.

  `specAct` is the documented table written out by hand, `palette` the xterm
  256-colour formula, `specLoop` the left-to-right fold with the documented
  parameter consumption.  `table_eq` / `palette_eq` prove that the tables
  regenerated from the source equal them; `sgr_eq_spec` that the model's
  `select_graphic_rendition` is that fold.
-/
namespace Memterm
namespace C08

open Gen

def str (s : String) : List Nat := s.toList.map Char.toNat

/-- the documented table: text attributes, ANSI and aixterm colours -/
def specAct (c : Nat) : Option Act :=
  if c = 1 then some (.flag (str "bold") true)
  else if c = 3 then some (.flag (str "italics") true)
  else if c = 4 then some (.flag (str "underscore") true)
  else if c = 5 then some (.flag (str "blink") true)
  else if c = 7 then some (.flag (str "reverse") true)
  else if c = 9 then some (.flag (str "strikethrough") true)
  else if c = 22 then some (.flag (str "bold") false)
  else if c = 23 then some (.flag (str "italics") false)
  else if c = 24 then some (.flag (str "underscore") false)
  else if c = 25 then some (.flag (str "blink") false)
  else if c = 27 then some (.flag (str "reverse") false)
  else if c = 29 then some (.flag (str "strikethrough") false)
  else if c = 30 then some (.fg (str "black"))
  else if c = 31 then some (.fg (str "red"))
  else if c = 32 then some (.fg (str "green"))
  else if c = 33 then some (.fg (str "brown"))
  else if c = 34 then some (.fg (str "blue"))
  else if c = 35 then some (.fg (str "magenta"))
  else if c = 36 then some (.fg (str "cyan"))
  else if c = 37 then some (.fg (str "white"))
  else if c = 39 then some (.fg (str "default"))
  else if c = 40 then some (.bg (str "black"))
  else if c = 41 then some (.bg (str "red"))
  else if c = 42 then some (.bg (str "green"))
  else if c = 43 then some (.bg (str "brown"))
  else if c = 44 then some (.bg (str "blue"))
  else if c = 45 then some (.bg (str "magenta"))
  else if c = 46 then some (.bg (str "cyan"))
  else if c = 47 then some (.bg (str "white"))
  else if c = 49 then some (.bg (str "default"))
  else if c = 90 then some (.fg (str "brightblack"))
  else if c = 91 then some (.fg (str "brightred"))
  else if c = 92 then some (.fg (str "brightgreen"))
  else if c = 93 then some (.fg (str "brightbrown"))
  else if c = 94 then some (.fg (str "brightblue"))
  else if c = 95 then some (.fg (str "brightmagenta"))
  else if c = 96 then some (.fg (str "brightcyan"))
  else if c = 97 then some (.fg (str "brightwhite"))
  else if c = 100 then some (.bg (str "brightblack"))
  else if c = 101 then some (.bg (str "brightred"))
  else if c = 102 then some (.bg (str "brightgreen"))
  else if c = 103 then some (.bg (str "brightbrown"))
  else if c = 104 then some (.bg (str "brightblue"))
  else if c = 105 then some (.bg (str "brightmagenta"))
  else if c = 106 then some (.bg (str "brightcyan"))
  else if c = 107 then some (.bg (str "brightwhite"))
  else none

/-- xterm 256-colour palette: 16 base colours, 6x6x6 cube, 24 greys -/
def base16 : List (Nat × Nat × Nat) :=
  [(0x00, 0x00, 0x00), (0xcd, 0x00, 0x00), (0x00, 0xcd, 0x00), (0xcd, 0xcd, 0x00),
   (0x00, 0x00, 0xee), (0xcd, 0x00, 0xcd), (0x00, 0xcd, 0xcd), (0xe5, 0xe5, 0xe5),
   (0x7f, 0x7f, 0x7f), (0xff, 0x00, 0x00), (0x00, 0xff, 0x00), (0xff, 0xff, 0x00),
   (0x5c, 0x5c, 0xff), (0xff, 0x00, 0xff), (0x00, 0xff, 0xff), (0xff, 0xff, 0xff)]

def cubeLevel (i : Nat) : Nat := if i = 0 then 0 else 55 + 40 * i

def paletteRgb (n : Nat) : Nat × Nat × Nat :=
  if n < 16 then base16.getD n (0, 0, 0)
  else if n < 232 then
    let i := n - 16
    (cubeLevel ((i / 36) % 6), cubeLevel ((i / 6) % 6), cubeLevel (i % 6))
  else
    let v := 8 + (n - 232) * 10
    (v, v, v)

def palette (n : Nat) : List Nat :=
  let c := paletteRgb n
  hex2 c.1 ++ hex2 c.2.1 ++ hex2 c.2.2

/-- the documented fold, with the documented parameter consumption -/
def specLoop (dflt : Attr) : Nat → List Nat → Attr → Attr
  | 0, _, a => a
  | _, [], a => a
  | fuel + 1, c :: rest, a =>
    if c = 0 then specLoop dflt fuel rest dflt
    else match specAct c with
    | some act => specLoop dflt fuel rest (act.run a)
    | none =>
    if c = 38 ∨ c = 48 then
      match rest with
      | [] => a
      | n :: rest2 =>
        if n = 5 then
          match rest2 with
          | [] => a
          | m :: rest3 =>
            if m < 256 then specLoop dflt fuel rest3 (setColor (c == 38) (palette m) a)
            else specLoop dflt fuel rest3 a
        else if n = 2 then
          match rest2 with
          | r :: g :: b :: rest3 => specLoop dflt fuel rest3 (setColor (c == 38) (hex2 r ++ hex2 g ++ hex2 b) a)
          | _ => a
        else specLoop dflt fuel rest2 a
    else specLoop dflt fuel rest a

/-- the documented rendition after `CSI attrs m` -/
def specSgr (dflt : Attr) (attrs : List Nat) (a : Attr) : Attr :=
  if attrs = [] then dflt else specLoop dflt attrs.length attrs a

/-! #### the regenerated tables are the documented ones -/

theorem lookup_none_of_keys_lt (k bound : Nat) (l : List (Nat × List Nat))
    (hl : l.all (fun p => decide (p.1 < bound)) = true) (hk : bound ≤ k) : lookup k l = none := by
  induction l with
  | nil => rfl
  | cons p rest ih =>
    obtain ⟨k', v⟩ := p
    simp only [List.all_cons, Bool.and_eq_true, decide_eq_true_eq] at hl
    unfold lookup
    have : (k == k') = false := by
      simp only [beq_eq_false_iff_ne, ne_eq]
      omega
    simp only [this, Bool.false_eq_true, if_false]
    exact ih hl.2

theorem table_small : ∀ c, c < 108 → tableAct c = specAct c := by decide

theorem table_eq (c : Nat) : tableAct c = specAct c := by
  by_cases h : c < 108
  · exact table_small c h
  · have hk : 108 ≤ c := by omega
    have e1 := lookup_none_of_keys_lt c 108 FG_ANSI (by decide) hk
    have e2 := lookup_none_of_keys_lt c 108 BG_ANSI (by decide) hk
    have e3 := lookup_none_of_keys_lt c 108 TEXT (by decide) hk
    have e4 := lookup_none_of_keys_lt c 108 FG_AIXTERM (by decide) hk
    have e5 := lookup_none_of_keys_lt c 108 BG_AIXTERM (by decide) hk
    have : specAct c = none := by
      unfold specAct
      repeat (first | (rw [if_neg (by omega)]) | rfl)
    rw [this]
    simp [tableAct, e1, e2, e3, e4, e5]

theorem palette_table : FG_BG_256 = (List.range 256).map palette := by decide +kernel

theorem palette_eq (m : Nat) : FG_BG_256[m]? = if m < 256 then some (palette m) else none := by
  rw [palette_table]
  by_cases h : m < 256
  · simp [h]
  · simp [h]

theorem codes : FG_256 = 38 ∧ BG_256 = 48 := by decide

/-! #### the model is the documented fold -/

theorem loop_eq_spec (dflt : Attr) (fuel : Nat) (l : List Nat) (a : Attr) :
    sgrLoop dflt fuel l a = specLoop dflt fuel l a := by
  induction fuel generalizing l a with
  | zero => cases l <;> rfl
  | succ f ih =>
    cases l with
    | nil => rfl
    | cons c rest =>
      unfold sgrLoop specLoop
      by_cases h0 : c = 0
      · subst h0; simp [ih]
      · have h0' : (c == 0) = false := by simpa using h0
        simp only [h0', h0, Bool.false_eq_true, if_false, table_eq]
        cases hact : specAct c with
        | some act => simp [ih]
        | none =>
          simp only [codes.1, codes.2]
          by_cases hx : c = 38 ∨ c = 48
          · have hx' : (c == 38 || c == 48) = true := by
              rcases hx with hx | hx <;> simp [hx]
            simp only [hx', hx, if_true]
            cases rest with
            | nil => rfl
            | cons n rest2 =>
              simp only
              by_cases h5 : n = 5
              · subst h5
                simp only [beq_self_eq_true, if_true]
                cases rest2 with
                | nil => rfl
                | cons m rest3 =>
                  simp only [palette_eq]
                  by_cases hm : m < 256
                  · simp [hm, ih]
                  · simp [hm, ih]
              · have h5' : (n == 5) = false := by simpa using h5
                simp only [h5', h5, Bool.false_eq_true, if_false]
                by_cases h2 : n = 2
                · subst h2
                  simp only [beq_self_eq_true, if_true]
                  match rest2 with
                  | [] => rfl
                  | [_] => rfl
                  | [_, _] => rfl
                  | r :: g :: b :: rest3 => simp [ih]
                · have h2' : (n == 2) = false := by simpa using h2
                  simp [h2', h2, ih]
          · have hx' : (c == 38 || c == 48) = false := by
              simp only [Bool.or_eq_false_iff, beq_eq_false_iff_ne, ne_eq]
              exact ⟨fun e => hx (Or.inl e), fun e => hx (Or.inr e)⟩
            simp [hx', hx, ih]

/-- SGR = the documented fold; only the cursor's rendition changes -/
theorem sgr_eq_spec (s : Screen) (attrs : List Nat) :
    selectGraphicRendition s attrs =
      { s with cursor := { s.cursor with attr := specSgr (defaultAttr s) attrs s.cursor.attr } } := by
  unfold selectGraphicRendition specSgr
  by_cases he : attrs = []
  · subst he; rfl
  · have he' : attrs.isEmpty = false := by
      cases attrs with
      | nil => exact absurd rfl he
      | cons _ _ => rfl
    by_cases h0 : attrs = [0]
    · subst h0
      simp [specLoop]
    · have h0' : (attrs == [0]) = false := by simpa using h0
      simp only [he', h0', Bool.or_self, Bool.false_eq_true, if_false, he, loop_eq_spec]

/-- executable predicate: the rendition is the documented fold; cells already on screen,
    the cursor position and every other setting are unchanged -/
def propC08 (cands : List Nat) (pre : Screen) (c : Call) (post : Screen) : Bool :=
  match c with
  | .sgr attrs =>
    decide (post.cursor.attr = specSgr (defaultAttr pre) attrs pre.cursor.attr) &&
    post.cursor.x == pre.cursor.x && post.cursor.y == pre.cursor.y &&
    sameSettingsB cands { pre with cursor := { pre.cursor with attr := post.cursor.attr } } post &&
    sameCellsB pre post && sameDirtyB pre post
  | _ => true

theorem C08_holds (env : Env) (cands : List Nat) (s : Screen) (c : Call) :
    propC08 cands s c (step env s c) = true := by
  cases c <;> try rfl
  case sgr attrs =>
    simp only [propC08, step, sgr_eq_spec]
    simp [sameSettingsB, sameCellsB, sameDirtyB]

/-- single codes, for every code: the table entry, or nothing for an unknown code -/
theorem sgr_single (dflt a : Attr) (c : Nat) (h0 : c ≠ 0) (h38 : c ≠ 38) (h48 : c ≠ 48) :
    specSgr dflt [c] a = match specAct c with
      | some act => act.run a
      | none => a := by
  simp only [specSgr, List.cons_ne_nil, if_false, List.length_singleton, specLoop, h0]
  cases specAct c with
  | some act => rfl
  | none => simp [h38, h48, specLoop]

/-- the extended forms select the palette entry / the rrggbb colour, or are ignored -/
theorem sgr_256 (dflt a : Attr) (m : Nat) (hm : m < 256) :
    specSgr dflt [38, 5, m] a = { a with fg := palette m } ∧
    specSgr dflt [48, 5, m] a = { a with bg := palette m } := by
  simp [specSgr, specLoop, specAct, hm, setColor]

theorem sgr_256_out_of_range (dflt a : Attr) (m : Nat) (hm : 256 ≤ m) :
    specSgr dflt [38, 5, m] a = a ∧ specSgr dflt [48, 5, m] a = a := by
  have : ¬ m < 256 := by omega
  simp [specSgr, specLoop, specAct, this]

theorem sgr_rgb (dflt a : Attr) (r g b : Nat) :
    specSgr dflt [38, 2, r, g, b] a = { a with fg := hex2 r ++ hex2 g ++ hex2 b } ∧
    specSgr dflt [48, 2, r, g, b] a = { a with bg := hex2 r ++ hex2 g ++ hex2 b } := by
  simp [specSgr, specLoop, specAct, setColor]

theorem sgr_reset (dflt a : Attr) : specSgr dflt [0] a = dflt ∧ specSgr dflt [] a = dflt := by
  simp [specSgr, specLoop]

theorem dispatch_SGR (ps : List Nat) (p : Bool) : csiDispatch 109 ps p = [.sgr ps] := by rfl

/-- cells drawn afterwards carry exactly the cursor's rendition (narrow character, no wrap, no IRM) -/
theorem draw_uses_rendition (env : Env) (s : Screen) (c : Nat) (hw : env.W c = 1)
    (hx : s.cursor.x ≠ s.columns) (hirm : s.mode IRM = false) :
    (drawChar env s c).cell s.cursor.y s.cursor.x = { data := [c], attr := s.cursor.attr } := by
  have hx' : (s.cursor.x == s.columns) = false := by simpa using hx
  simp [drawChar, putChar, irmStage, wrapStage, hw, hx', hirm, setCell, setCursorX]

example : palette 196 = str "ff0000" ∧ palette 16 = str "000000" ∧ palette 255 = str "eeeeee" := by decide

end C08
end Memterm
