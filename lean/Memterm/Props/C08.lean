import Memterm.Proofs.InvStep
import Memterm.Spec.C08

/-
  C08 — SGR sets exactly the documented rendition attributes.

  `specAct` is the documented table written out by hand, `palette` the xterm
  256-colour formula, `specLoop` the left-to-right fold with the documented
  parameter consumption.  `table_eq` / `palette_eq` prove that the tables
  regenerated from the source equal them; `sgr_eq_spec` that the model's
  `select_graphic_rendition` is that fold.
-/
namespace Memterm
namespace C08

open Gen

/-! #### the regenerated tables are the documented ones -/

theorem lookup_none_of_keys_lt (k bound : Nat) (l : List (Nat × List Nat))
    (hl : l.all (fun p => decide (p.1 < bound)) = true) (hk : bound ≤ k) : lookup k l = none := by
  induction l with
  | nil => rfl
  | cons p rest ih =>
    obtain ⟨k', v⟩ := p
    simp only [List.all_cons, Bool.and_eq_true, decide_eq_true_eq] at hl
    unfold lookup
    have : (k == k') = false := by
      simp only [beq_eq_false_iff_ne, ne_eq]
      omega
    simp only [this, Bool.false_eq_true, if_false]
    exact ih hl.2

theorem table_small : ∀ c, c < 108 → tableAct c = specAct c := by decide

theorem table_eq (c : Nat) : tableAct c = specAct c := by
  by_cases h : c < 108
  · exact table_small c h
  · have hk : 108 ≤ c := by omega
    have e1 := lookup_none_of_keys_lt c 108 FG_ANSI (by decide) hk
    have e2 := lookup_none_of_keys_lt c 108 BG_ANSI (by decide) hk
    have e3 := lookup_none_of_keys_lt c 108 TEXT (by decide) hk
    have e4 := lookup_none_of_keys_lt c 108 FG_AIXTERM (by decide) hk
    have e5 := lookup_none_of_keys_lt c 108 BG_AIXTERM (by decide) hk
    have : specAct c = none := by
      unfold specAct
      repeat (first | (rw [if_neg (by omega)]) | rfl)
    rw [this]
    simp [tableAct, e1, e2, e3, e4, e5]

theorem palette_table : FG_BG_256 = (List.range 256).map palette := by decide +kernel

theorem palette_eq (m : Nat) : FG_BG_256[m]? = if m < 256 then some (palette m) else none := by
  rw [palette_table]
  by_cases h : m < 256
  · simp [h]
  · simp [h]

theorem codes : FG_256 = 38 ∧ BG_256 = 48 := by decide

/-! #### the model is the documented fold -/

theorem loop_eq_spec (dflt : Attr) (fuel : Nat) (l : List Nat) (a : Attr) :
    sgrLoop dflt fuel l a = specLoop dflt fuel l a := by
  induction fuel generalizing l a with
  | zero => cases l <;> rfl
  | succ f ih =>
    cases l with
    | nil => rfl
    | cons c rest =>
      unfold sgrLoop specLoop
      by_cases h0 : c = 0
      · subst h0; simp [ih]
      · have h0' : (c == 0) = false := by simpa using h0
        simp only [h0', h0, Bool.false_eq_true, if_false, table_eq]
        cases hact : specAct c with
        | some act => simp [ih]
        | none =>
          simp only [codes.1, codes.2]
          by_cases hx : c = 38 ∨ c = 48
          · have hx' : (c == 38 || c == 48) = true := by
              rcases hx with hx | hx <;> simp [hx]
            simp only [hx', hx, if_true]
            cases rest with
            | nil => rfl
            | cons n rest2 =>
              simp only
              by_cases h5 : n = 5
              · subst h5
                simp only [beq_self_eq_true, if_true]
                cases rest2 with
                | nil => rfl
                | cons m rest3 =>
                  simp only [palette_eq]
                  by_cases hm : m < 256
                  · simp [hm, ih]
                  · simp [hm, ih]
              · have h5' : (n == 5) = false := by simpa using h5
                simp only [h5', h5, Bool.false_eq_true, if_false]
                by_cases h2 : n = 2
                · subst h2
                  simp only [beq_self_eq_true, if_true]
                  match rest2 with
                  | [] => rfl
                  | [_] => rfl
                  | [_, _] => rfl
                  | r :: g :: b :: rest3 => simp [ih]
                · have h2' : (n == 2) = false := by simpa using h2
                  simp [h2', h2, ih]
          · have hx' : (c == 38 || c == 48) = false := by
              simp only [Bool.or_eq_false_iff, beq_eq_false_iff_ne, ne_eq]
              exact ⟨fun e => hx (Or.inl e), fun e => hx (Or.inr e)⟩
            simp [hx', hx, ih]

/-- SGR = the documented fold; only the cursor's rendition changes -/
theorem sgr_eq_spec (s : Screen) (attrs : List Nat) :
    selectGraphicRendition s attrs =
      { s with cursor := { s.cursor with attr := specSgr (defaultAttr s) attrs s.cursor.attr } } := by
  unfold selectGraphicRendition specSgr
  by_cases he : attrs = []
  · subst he; rfl
  · have he' : attrs.isEmpty = false := by
      cases attrs with
      | nil => exact absurd rfl he
      | cons _ _ => rfl
    by_cases h0 : attrs = [0]
    · subst h0
      simp [specLoop]
    · have h0' : (attrs == [0]) = false := by simpa using h0
      simp only [he', h0', Bool.or_self, Bool.false_eq_true, if_false, he, loop_eq_spec]

theorem C08_holds (env : Env) (cands : List Nat) (s : Screen) (c : Call) :
    propC08 cands s c (step env s c) = true := by
  cases c <;> try rfl
  case sgr attrs =>
    simp only [propC08, step, sgr_eq_spec]
    simp [sameSettingsB, sameCellsB, sameDirtyB]

/-- single codes, for every code: the table entry, or nothing for an unknown code -/
theorem sgr_single (dflt a : Attr) (c : Nat) (h0 : c ≠ 0) (h38 : c ≠ 38) (h48 : c ≠ 48) :
    specSgr dflt [c] a = match specAct c with
      | some act => act.run a
      | none => a := by
  simp only [specSgr, List.cons_ne_nil, if_false, List.length_singleton, specLoop, h0]
  cases specAct c with
  | some act => rfl
  | none => simp [h38, h48, specLoop]

/-- the extended forms select the palette entry / the rrggbb colour, or are ignored -/
theorem sgr_256 (dflt a : Attr) (m : Nat) (hm : m < 256) :
    specSgr dflt [38, 5, m] a = { a with fg := palette m } ∧
    specSgr dflt [48, 5, m] a = { a with bg := palette m } := by
  simp [specSgr, specLoop, specAct, hm, setColor]

theorem sgr_256_out_of_range (dflt a : Attr) (m : Nat) (hm : 256 ≤ m) :
    specSgr dflt [38, 5, m] a = a ∧ specSgr dflt [48, 5, m] a = a := by
  have : ¬ m < 256 := by omega
  simp [specSgr, specLoop, specAct, this]

theorem sgr_rgb (dflt a : Attr) (r g b : Nat) (h : r ≤ 255 ∧ g ≤ 255 ∧ b ≤ 255) :
    specSgr dflt [38, 2, r, g, b] a = { a with fg := hex2 r ++ hex2 g ++ hex2 b } ∧
    specSgr dflt [48, 2, r, g, b] a = { a with bg := hex2 r ++ hex2 g ++ hex2 b } := by
  simp [specSgr, specLoop, specAct, setColor, h]

/-- a component above 255 is not a colour: the form is ignored, and its five parameters are consumed
    (the code that follows is applied as usual) -/
theorem sgr_rgb_out_of_range (dflt a : Attr) (r g b : Nat) (h : ¬ (r ≤ 255 ∧ g ≤ 255 ∧ b ≤ 255)) :
    specSgr dflt [38, 2, r, g, b] a = a ∧ specSgr dflt [48, 2, r, g, b] a = a ∧
    specSgr dflt [38, 2, r, g, b, 1] a = { a with bold := true } := by
  simp [specSgr, specLoop, specAct, h]
  rfl

/-- an in-range colour is exactly six hexadecimal digits -/
theorem hex2_length (n : Nat) (h : n ≤ 255) : (hex2 n).length = 2 := by
  unfold hex2
  split
  · rfl
  · rename_i h16
    have h2 : n / 16 < 16 := by omega
    simp [hexDigits, h16, h2]

theorem rgb_six_digits (r g b : Nat) (h : r ≤ 255 ∧ g ≤ 255 ∧ b ≤ 255) :
    (hex2 r ++ hex2 g ++ hex2 b).length = 6 := by
  simp [hex2_length, h.1, h.2.1, h.2.2]

theorem sgr_reset (dflt a : Attr) : specSgr dflt [0] a = dflt ∧ specSgr dflt [] a = dflt := by
  simp [specSgr, specLoop]


/-- cells drawn afterwards carry exactly the cursor's rendition (narrow character, no wrap, no IRM) -/
theorem draw_uses_rendition (env : Env) (s : Screen) (c : Nat) (hw : env.W c = 1)
    (hx : s.cursor.x ≠ s.columns) (hirm : s.mode IRM = false) :
    (drawChar env s c).cell s.cursor.y s.cursor.x = { data := [c], attr := s.cursor.attr } := by
  have hx' : (s.cursor.x == s.columns) = false := by simpa using hx
  simp [drawChar, putChar, irmStage, wrapStage, hw, hx', hirm, setCell, setCursorX]

example : palette 196 = str "ff0000" ∧ palette 16 = str "000000" ∧ palette 255 = str "eeeeee" := by decide

end C08
end Memterm

