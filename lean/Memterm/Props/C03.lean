import Memterm.Props.C02

/-
  C03 — Escape-sequence recognition conforms to the documented grammar.

  The recogniser model (`Memterm/Parser.lean`) is the coroutine of parser.rs with one
  state per `yield_`.  The theorems below state the grammar form by form, over *all*
  parameter lists and digit strings, on the constants regenerated from control.rs.
  The tie to the shipping parser is the lockstep comparison of listener events.
-/
namespace Memterm
namespace C03

open Gen

/-! #### the character classes, as regenerated from control.rs -/

theorem constants :
    ESC = [27] ∧ CSI = [0x9b] ∧ OSC = [0x9d] ∧ BEL = [7] ∧ CAN = [24] ∧ SUB = [26] ∧ SP = [32] ∧
    GREATER = [62] ∧ DECALN = [56] ∧ ST_C0 = [27, 92] ∧ ST_C1 = [0x9c] ∧
    BASIC = [[7], [8], [9], [10], [11], [12], [13], [14], [15]] ∧
    ALLOWED_IN_CSI = [[7], [8], [9], [10], [11], [12], [13]] ∧
    OSC_TERMINATORS = [[7], [27, 92], [0x9c]] := by decide

theorem special_iff (c : Nat) :
    isSpecial c = true ↔ (c = 27 ∨ c = 0x9b ∨ c = 0x9d ∨ (7 ≤ c ∧ c ≤ 15)) := by
  simp only [isSpecial, SPECIAL, List.contains_cons, List.contains_nil, Bool.or_false, Bool.or_eq_true,
    beq_iff_eq, List.cons.injEq, and_true]
  omega

/-! #### text outside control sequences -/

/-- the ground state of the recogniser -/
def Ground (p : Parser) : Prop := p.taking = true ∧ p.fsm = .ground

theorem Ground.init : Ground Parser.init := ⟨rfl, rfl⟩

/-- every character outside a control sequence is delivered as text exactly once, in order,
    and the recogniser stays in its ground state -/
theorem text_ground (p : Parser) (hp : Ground p) (cs : List Nat) (hcs : ∀ c ∈ cs, isSpecial c = false) :
    feed p cs = (p, cs.map (fun c => Call.draw [c])) := by
  induction cs with
  | nil => rfl
  | cons c cs ih =>
    have hc := hcs c (List.mem_cons_self ..)
    have ih' := ih (fun c' h' => hcs c' (List.mem_cons_of_mem _ h'))
    simp only [feed, pstep, hp.1, hc, Bool.and_false, Bool.false_eq_true, if_false, if_true]
    have : ({ p with taking := true } : Parser) = p := by
      cases p; simp only [Parser.mk.injEq, and_true]; exact hp.1.symm
    rw [this, ih']
    rfl

/-! #### one step in the middle of a sequence -/

/-- a character fed while a sequence is in progress goes to the coroutine -/
theorem feed_cons_fsm (p : Parser) (h : p.taking = false) (c : Nat) (cs : List Nat) :
    feed p (c :: cs) =
      ((feed { p with taking := (send p.useUtf8 p.fsm c).1 == .ground, fsm := (send p.useUtf8 p.fsm c).1 } cs).1,
       (send p.useUtf8 p.fsm c).2 ++
       (feed { p with taking := (send p.useUtf8 p.fsm c).1 == .ground, fsm := (send p.useUtf8 p.fsm c).1 } cs).2) := by
  simp [feed, pstep, h]

/-- a special character in the ground state starts a sequence -/
theorem feed_cons_special (p : Parser) (hp : Ground p) (c : Nat) (hc : isSpecial c = true) (cs : List Nat) :
    feed p (c :: cs) =
      ((feed { p with taking := (send p.useUtf8 .ground c).1 == .ground, fsm := (send p.useUtf8 .ground c).1 } cs).1,
       (send p.useUtf8 .ground c).2 ++
       (feed { p with taking := (send p.useUtf8 .ground c).1 == .ground, fsm := (send p.useUtf8 .ground c).1 } cs).2) := by
  simp [feed, pstep, hp.1, hp.2, hc]

/-! #### C0 controls -/

theorem basic_dispatch_table :
    basicDispatch 7 = [.bell] ∧ basicDispatch 8 = [.backspace] ∧ basicDispatch 9 = [.tab] ∧
    basicDispatch 10 = [.linefeed] ∧ basicDispatch 11 = [.linefeed] ∧ basicDispatch 12 = [.linefeed] ∧
    basicDispatch 13 = [.cariageReturn] ∧ basicDispatch 14 = [.shiftOut] ∧ basicDispatch 15 = [.shiftIn] := by
  decide

/-- a C0 control in the ground state is executed at once and leaves the recogniser in the ground
    state; in UTF-8 mode SO/SI are ignored -/
theorem c0_ground (utf8 : Bool) (c : Nat) (h : 7 ≤ c ∧ c ≤ 15) :
    send utf8 .ground c =
      (.ground, if (c = 14 ∨ c = 15) ∧ utf8 = true then [] else basicDispatch c) := by
  obtain ⟨h1, h2⟩ := h
  have : c = 7 ∨ c = 8 ∨ c = 9 ∨ c = 10 ∨ c = 11 ∨ c = 12 ∨ c = 13 ∨ c = 14 ∨ c = 15 := by omega
  rcases this with e | e | e | e | e | e | e | e | e <;> subst e <;> cases utf8 <;> rfl

/-! #### ESC sequences -/

theorem esc_dispatch_table :
    escapeDispatch 99 = [.reset] ∧ escapeDispatch 68 = [.index] ∧ escapeDispatch 69 = [.linefeed] ∧
    escapeDispatch 77 = [.reverseIndex] ∧ escapeDispatch 72 = [.setTabStop] ∧
    escapeDispatch 55 = [.saveCursor] ∧ escapeDispatch 56 = [.restoreCursor] := by decide

theorem esc_starts (utf8 : Bool) : send utf8 .ground 27 = (.esc, []) := rfl

/-- ESC + final (anything but `[ ] # % ( )`): dispatched, back to ground; unknown finals are
    consumed without effect -/
theorem esc_final (utf8 : Bool) (c : Nat) (h : c ≠ 91 ∧ c ≠ 93 ∧ c ≠ 35 ∧ c ≠ 37 ∧ c ≠ 40 ∧ c ≠ 41) :
    send utf8 .esc c = (.ground, escapeDispatch c) := by
  obtain ⟨h1, h2, h3, h4, h5, h6⟩ := h
  simp [send, h1, h2, h3, h4, h5, h6]

theorem esc_unknown_final (c : Nat)
    (h : c ≠ 99 ∧ c ≠ 68 ∧ c ≠ 69 ∧ c ≠ 77 ∧ c ≠ 72 ∧ c ≠ 55 ∧ c ≠ 56) : escapeDispatch c = [] := by
  obtain ⟨h1, h2, h3, h4, h5, h6, h7⟩ := h
  simp [escapeDispatch, isStr, RIS, IND, NEL, RI, HTS, DECSC, DECRC, h1, h2, h3, h4, h5, h6, h7]

theorem esc_hash (utf8 : Bool) (c : Nat) :
    send utf8 .esc 35 = (.escHash, []) ∧
    send utf8 .escHash c = (.ground, if c = 56 then [.alignmentDisplay] else []) := by
  refine ⟨rfl, ?_⟩
  by_cases h : c = 56
  · subst h; rfl
  · simp [send, isStr, DECALN, h]

theorem esc_percent (utf8 : Bool) (c : Nat) :
    send utf8 .esc 37 = (.escPercent, []) ∧ send utf8 .escPercent c = (.ground, []) := ⟨rfl, rfl⟩

/-- `ESC (` / `ESC )` + code: `define_charset` in 8-bit mode, ignored in UTF-8 mode -/
theorem esc_charset (c : Nat) :
    send false .esc 40 = (.escCharset 40, []) ∧ send false .esc 41 = (.escCharset 41, []) ∧
    send false (.escCharset 40) c = (.ground, [.defineCharset [c] [40]]) ∧
    send false (.escCharset 41) c = (.ground, [.defineCharset [c] [41]]) ∧
    send true (.escCharset 40) c = (.ground, []) ∧ send true (.escCharset 41) c = (.ground, []) :=
  ⟨rfl, rfl, rfl, rfl, rfl, rfl⟩

/-- both introducers lead to the same states -/
theorem introducers (utf8 : Bool) :
    send utf8 .esc 91 = (.csi [] [] false, []) ∧ send utf8 .ground 0x9b = (.csi [] [] false, []) ∧
    send utf8 .esc 93 = (.oscCode, []) ∧ send utf8 .ground 0x9d = (.oscCode, []) := by
  cases utf8 <;> exact ⟨rfl, rfl, rfl, rfl⟩

/-! #### CSI -/

/-- a decimal parameter: empty = 0, saturating at 9999, however many digits -/
theorem paramValue_spec (ds : List Nat) :
    paramValue ds = if ds = [] then 0 else min (digitsValue ds) 9999 := by
  unfold paramValue
  cases ds with
  | nil => rfl
  | cons d ds =>
    simp only [List.isEmpty_cons, Bool.false_eq_true, if_false, reduceCtorEq]
    split <;> omega

theorem csi_digit (utf8 : Bool) (params cur : List Nat) (priv : Bool) (c : Nat) (h : isDigit c = true) :
    send utf8 (.csi params cur priv) c = (.csi params (cur ++ [c]) priv, []) := by
  simp only [isDigit, Bool.and_eq_true, decide_eq_true_eq] at h
  have : c = 48 ∨ c = 49 ∨ c = 50 ∨ c = 51 ∨ c = 52 ∨ c = 53 ∨ c = 54 ∨ c = 55 ∨ c = 56 ∨ c = 57 := by omega
  rcases this with e | e | e | e | e | e | e | e | e | e <;> subst e <;> rfl

theorem csi_private (utf8 : Bool) (params cur : List Nat) (priv : Bool) :
    send utf8 (.csi params cur priv) 63 = (.csi params cur true, []) := rfl

/-- BEL BS HT LF VT FF CR inside a CSI are executed immediately; the collector state is unchanged -/
theorem csi_embedded_control (utf8 : Bool) (params cur : List Nat) (priv : Bool) (c : Nat)
    (h : 7 ≤ c ∧ c ≤ 13) :
    send utf8 (.csi params cur priv) c = (.csi params cur priv, basicDispatch c) := by
  obtain ⟨h1, h2⟩ := h
  have : c = 7 ∨ c = 8 ∨ c = 9 ∨ c = 10 ∨ c = 11 ∨ c = 12 ∨ c = 13 := by omega
  rcases this with e | e | e | e | e | e | e <;> subst e <;> rfl

/-- SP and `>` are skipped -/
theorem csi_skip (utf8 : Bool) (params cur : List Nat) (priv : Bool) :
    send utf8 (.csi params cur priv) 32 = (.csi params cur priv, []) ∧
    send utf8 (.csi params cur priv) 62 = (.csi params cur priv, []) := ⟨rfl, rfl⟩

/-- CAN and SUB abort the sequence (the character is handed to draw(), where it is invisible) -/
theorem csi_abort (utf8 : Bool) (params cur : List Nat) (priv : Bool) :
    send utf8 (.csi params cur priv) 24 = (.ground, [.draw [24]]) ∧
    send utf8 (.csi params cur priv) 26 = (.ground, [.draw [26]]) := ⟨rfl, rfl⟩

/-- `$` + one more character: skipped -/
theorem csi_dollar (utf8 : Bool) (params cur : List Nat) (priv : Bool) (c : Nat) :
    send utf8 (.csi params cur priv) 36 = (.csiDollar, []) ∧ send utf8 .csiDollar c = (.ground, []) := ⟨rfl, rfl⟩

theorem csi_semicolon (utf8 : Bool) (params cur : List Nat) (priv : Bool) :
    send utf8 (.csi params cur priv) 59 = (.csi (params ++ [paramValue cur]) [] priv, []) := rfl

/-- a final character: anything that is not one of the CSI-internal classes -/
def csiFinal (c : Nat) : Bool :=
  c != 63 && !(decide (7 ≤ c) && decide (c ≤ 13)) && c != 32 && c != 62 && c != 24 && c != 26 &&
  !isDigit c && c != 36 && c != 59

/-- the final character dispatches with the collected parameters and returns to ground -/
theorem csi_final (utf8 : Bool) (params cur : List Nat) (priv : Bool) (c : Nat) (h : csiFinal c = true) :
    send utf8 (.csi params cur priv) c = (.ground, csiDispatch c (params ++ [paramValue cur]) priv) := by
  simp only [csiFinal, Bool.and_eq_true, bne_iff_ne, ne_eq, Bool.not_eq_true', Bool.and_eq_false_iff,
    decide_eq_false_iff_not] at h
  obtain ⟨⟨⟨⟨⟨⟨⟨⟨h1, h2⟩, h3⟩, h4⟩, h5⟩, h6⟩, h7⟩, h8⟩, h9⟩ := h
  have ha : inStrList c ALLOWED_IN_CSI = false := by
    simp only [inStrList, ALLOWED_IN_CSI, List.contains_cons, List.contains_nil, Bool.or_false,
      Bool.or_eq_false_iff, beq_eq_false_iff_ne, ne_eq, List.cons.injEq, and_true]
    omega
  have e1 : (c == 63) = false := by simpa using h1
  have e8 : (c == 36) = false := by simpa using h8
  have e9 : (c == 59) = false := by simpa using h9
  simp [send, e1, ha, isStr, SP, GREATER, CAN, SUB, h3, h4, h5, h6, h7, e8, e9]

/-- feeding a run of digits while collecting a parameter -/
theorem feed_digits (p : Parser) (params cur : List Nat) (priv : Bool) (ds : List Nat)
    (hp : p.taking = false ∧ p.fsm = .csi params cur priv) (hd : ∀ d ∈ ds, isDigit d = true) :
    feed p ds = ({ p with fsm := .csi params (cur ++ ds) priv }, []) := by
  induction ds generalizing p cur with
  | nil => simp only [feed, List.append_nil]; cases p; simp_all
  | cons d ds ih =>
    rw [feed_cons_fsm p hp.1, hp.2, csi_digit _ _ _ _ _ (hd d (List.mem_cons_self ..))]
    have := ih { p with taking := (PState.csi params (cur ++ [d]) priv == PState.ground),
                        fsm := .csi params (cur ++ [d]) priv } (cur ++ [d]) ⟨rfl, rfl⟩
      (fun d' h' => hd d' (List.mem_cons_of_mem _ h'))
    simp only [this, List.append_assoc, List.singleton_append, List.nil_append]
    cases p
    simp_all

/-- rendering of a parameter list: digit strings separated by `;` -/
def renderParams : List (List Nat) → List Nat
  | [] => []
  | [d] => d
  | d :: rest => d ++ [59] ++ renderParams rest

/-- A complete control sequence, for every list of digit strings (of any length, so also digit
    runs longer than any machine integer) and every final: exactly one dispatch with the decoded
    parameters (empty = 0, saturating at 9999), and the recogniser is back in the ground state. -/
theorem csi_body (p : Parser) (params : List Nat) (priv : Bool) (ps : List (List Nat)) (f : Nat)
    (hp : p.taking = false ∧ p.fsm = .csi params [] priv) (hps : ps ≠ [])
    (hd : ∀ ds ∈ ps, ∀ d ∈ ds, isDigit d = true) (hf : csiFinal f = true) :
    feed p (renderParams ps ++ [f]) =
      ({ p with taking := true, fsm := .ground }, csiDispatch f (params ++ ps.map paramValue) priv) := by
  induction ps generalizing p params with
  | nil => exact absurd rfl hps
  | cons d rest ih =>
    cases rest with
    | nil =>
      simp only [renderParams, List.map_cons, List.map_nil]
      rw [C02.feed_append, feed_digits p params [] priv d hp (hd d (List.mem_cons_self ..))]
      simp only [List.nil_append]
      rw [feed_cons_fsm { taking := p.taking, fsm := PState.csi params d priv, useUtf8 := p.useUtf8 } hp.1]
      simp only [csi_final _ _ _ _ _ hf, feed, List.append_nil, beq_self_eq_true]
    | cons d2 rest2 =>
      simp only [renderParams, List.map_cons, List.append_assoc]
      rw [C02.feed_append, feed_digits p params [] priv d hp (hd d (List.mem_cons_self ..))]
      simp only [List.nil_append, List.singleton_append]
      rw [feed_cons_fsm { taking := p.taking, fsm := PState.csi params d priv, useUtf8 := p.useUtf8 } hp.1]
      simp only [csi_semicolon]
      have := ih { p with taking := (PState.csi (params ++ [paramValue d]) [] priv == PState.ground),
                          fsm := .csi (params ++ [paramValue d]) [] priv } (params ++ [paramValue d])
        ⟨rfl, rfl⟩ (by simp) (fun ds h' => hd ds (List.mem_cons_of_mem _ h'))
      simp only [renderParams, List.map_cons, List.append_assoc] at this
      simp only [this, List.nil_append, List.append_assoc, List.singleton_append]

/-- `ESC [` params final, from the ground state -/
theorem csi_complete (p : Parser) (hp : Ground p) (priv : Bool) (ps : List (List Nat)) (f : Nat)
    (hps : ps ≠ []) (hd : ∀ ds ∈ ps, ∀ d ∈ ds, isDigit d = true) (hf : csiFinal f = true) :
    feed p ([27, 91] ++ (if priv then [63] else []) ++ renderParams ps ++ [f]) =
      (p, csiDispatch f (ps.map paramValue) priv) := by
  have hsp : isSpecial 27 = true := by decide
  have hpe : p = { taking := true, fsm := .ground, useUtf8 := p.useUtf8 } := by
    cases p; simp only [Parser.mk.injEq, and_true]; exact ⟨hp.1, hp.2⟩
  simp only [List.cons_append, List.nil_append, List.append_assoc]
  rw [feed_cons_special p hp 27 hsp]
  simp only [esc_starts, List.nil_append]
  rw [feed_cons_fsm _ rfl]
  simp only [(introducers p.useUtf8).1, List.nil_append]
  cases priv with
  | false =>
    simp only [Bool.false_eq_true, if_false, List.nil_append]
    rw [csi_body _ [] false ps f ⟨rfl, rfl⟩ hps hd hf]
    simp only [List.nil_append]
    rw [hpe]
  | true =>
    simp only [if_true, List.cons_append, List.nil_append]
    rw [feed_cons_fsm _ rfl]
    simp only [csi_private, List.nil_append]
    rw [csi_body _ [] true ps f ⟨rfl, rfl⟩ hps hd hf]
    simp only [List.nil_append]
    rw [hpe]

/-- a CSI without any parameter characters delivers the single parameter 0 -/
theorem csi_no_params (p : Parser) (hp : Ground p) (f : Nat) (hf : csiFinal f = true) :
    feed p [27, 91, f] = (p, csiDispatch f [0] false) := by
  have := csi_complete p hp false [[]] f (by simp) (by simp) hf
  simpa [renderParams, paramValue] using this

/-- unknown finals are consumed without effect -/
theorem csi_unknown_final (c : Nat) (params : List Nat) (priv : Bool)
    (h : c ∉ [64, 66, 65, 67, 68, 69, 70, 71, 72, 74, 75, 76, 77, 80, 88, 97, 99, 100, 101, 102, 103, 104, 108, 109, 114]) :
    csiDispatch c params priv = [] := by
  simp only [List.mem_cons, List.not_mem_nil, or_false, not_or] at h
  obtain ⟨h1, h2, h3, h4, h5, h6, h7, h8, h9, h10, h11, h12, h13, h14, h15, h16, h17, h18, h19, h20, h21, h22,
    h23, h24, h25⟩ := h
  simp [csiDispatch, isStr, ICH, CUD, CUU, CUF, CUB, CNL, CPL, CHA, CUP, ED, EL, IL, DL, DCH, ECH, HPR, DA, VPA,
    VPR, HVP, TBC, SM, RM, SGR, DECSTBM, h1, h2, h3, h4, h5, h6, h7, h8, h9, h10, h11, h12, h13, h14, h15, h16,
    h17, h18, h19, h20, h21, h22, h23, h24, h25]

/-! #### no character of a control sequence is delivered as text -/

def Call.isDraw : Call → Bool
  | .draw _ => true
  | _ => false

theorem basicDispatch_no_draw (c : Nat) : ∀ x ∈ basicDispatch c, Call.isDraw x = false := by
  unfold basicDispatch
  repeat' split
  all_goals simp [Call.isDraw]

theorem escapeDispatch_no_draw (c : Nat) : ∀ x ∈ escapeDispatch c, Call.isDraw x = false := by
  unfold escapeDispatch
  repeat' split
  all_goals simp [Call.isDraw]

theorem all_ite (b : Prop) [Decidable b] (l1 l2 : List Call) (f : Call → Bool) :
    (if b then l1 else l2).all f = if b then l1.all f else l2.all f := by
  split <;> rfl

theorem csiDispatch_no_draw (c : Nat) (ps : List Nat) (p : Bool) : ∀ x ∈ csiDispatch c ps p, Call.isDraw x = false := by
  have h : (csiDispatch c ps p).all (fun x => !Call.isDraw x) = true := by
    unfold csiDispatch
    simp only [all_ite, List.all_cons, List.all_nil, Call.isDraw, Bool.not_false, Bool.and_self, ite_self]
  intro x hx
  have := List.all_eq_true.mp h x hx
  simpa using this

theorem oscFinish_no_draw (code : Nat) (param : List Nat) : ∀ x ∈ oscFinish code param, Call.isDraw x = false := by
  unfold oscFinish
  intro x hx
  split at hx
  · simp only [List.mem_append] at hx
    rcases hx with hx | hx <;> (split at hx <;> simp_all [Call.isDraw])
  · simp at hx

/-- While a sequence is in progress no character is delivered as text, except CAN/SUB aborting a CSI
    (handed to draw(), where they are invisible). -/
theorem no_text_inside (utf8 : Bool) (st : PState) (c : Nat) (hst : st ≠ .ground) :
    ∀ x ∈ (send utf8 st c).2, Call.isDraw x = true → (c = 24 ∨ c = 26) ∧ x = .draw [c] := by
  intro x hx hd
  have nb := basicDispatch_no_draw
  have ne := escapeDispatch_no_draw
  have nc := csiDispatch_no_draw
  have no := oscFinish_no_draw
  cases st with
  | ground => exact absurd rfl hst
  | esc =>
    by_cases h91 : c = 91
    · subst h91; rw [(introducers utf8).1] at hx; simp at hx
    · by_cases h93 : c = 93
      · subst h93; rw [(introducers utf8).2.2.1] at hx; simp at hx
      · by_cases h35 : c = 35
        · subst h35; simp [send] at hx
        · by_cases h37 : c = 37
          · subst h37; simp [send] at hx
          · by_cases h40 : c = 40
            · subst h40; simp [send] at hx
            · by_cases h41 : c = 41
              · subst h41; simp [send] at hx
              · rw [esc_final utf8 c ⟨h91, h93, h35, h37, h40, h41⟩] at hx
                rw [ne _ x hx] at hd; cases hd
  | escHash =>
    simp only [send] at hx
    split at hx <;> simp at hx
    subst hx; cases hd
  | escPercent => simp [send] at hx
  | escCharset m =>
    simp only [send] at hx
    split at hx <;> simp at hx
    subst hx; cases hd
  | csi params cur priv =>
    simp only [send] at hx
    repeat' split at hx
    all_goals first
      | (simp at hx; done)
      | (rw [nb _ x hx] at hd; cases hd)
      | (rw [nc _ _ _ x hx] at hd; cases hd)
      | skip
    · rename_i hcs
      simp only [List.mem_singleton] at hx
      subst hx
      simp only [isStr, CAN, SUB, Bool.or_eq_true, beq_iff_eq, List.cons.injEq, and_true] at hcs
      exact ⟨hcs, rfl⟩
  | csiDollar => simp [send] at hx
  | oscCode =>
    simp only [send] at hx
    repeat' split at hx
    all_goals simp at hx
  | oscFirstEsc =>
    simp only [send] at hx
    split at hx <;> simp at hx
  | oscParam code param =>
    simp only [send] at hx
    repeat' split at hx
    all_goals first
      | (simp at hx; done)
      | (rw [no _ _ x hx] at hd; cases hd)
  | oscParamEsc code param =>
    simp only [send] at hx
    split at hx
    · rw [no _ _ x hx] at hd; cases hd
    · simp at hx

/-- non-vacuity: `CSI 1 ; 0 0 0 0 0 0 0 0 0 0 0 0 0 0 0 0 0 0 0 0 9 9 9 9 9 H` -/
example :
    (feed Parser.init ([27, 91, 49, 59] ++ List.replicate 20 48 ++ [57, 57, 57, 57, 57, 72])).2 =
      [.cursorPosition (some 1) (some 9999)] := by decide

end C03
end Memterm
