import Memterm.Props.C18
import Memterm.Proofs.SparseStep
import Memterm.Spec.C15
import Memterm.Proofs.StackExt

/-
  C15 — RIS returns the terminal to its power-on state.
-/
namespace Memterm
namespace C15

open Gen

/-- RIS: everything but the saved-cursor stack is re-initialised -/
theorem reset_eq (s : Screen) (hl : 1 ≤ s.lines) : reset s = powerOn s.columns s.lines s.savepoints := by
  unfold reset powerOn
  simp only [cursorPosition, nz, ensureVBounds, ensureHBounds, setCursorX, setCursorY, defaultCell, defaultAttr]
  first
    | done
    | (congr 1 <;> first | rfl | simp | (funext c; simp [C18.defaultStop]))

/-- a new screen is the power-on state with an empty stack -/
theorem init_eq (columns lines : Nat) (hl : 1 ≤ lines) : init columns lines = powerOn columns lines [] := by
  unfold init
  rw [reset_eq _ hl]

/-- after RIS the state equals that of a newly constructed screen of the current dimensions,
    except for the saved-cursor stack, which RIS leaves alone -/
theorem reset_is_new_screen (s : Screen) (hl : 1 ≤ s.lines) :
    reset s = { init s.columns s.lines with savepoints := s.savepoints } := by
  rw [reset_eq s hl, init_eq _ _ hl]
  rfl

/-- every row is marked dirty, and nothing that is not a row -/
theorem reset_dirty (s : Screen) (hl : 1 ≤ s.lines) (d : Nat) : (reset s).dirty d = decide (d < s.lines) := by
  rw [reset_eq s hl]; rfl

/-- whatever happened before: RIS forgets it (two arbitrary histories on screens of the same
    size and stack end in the same state after RIS) -/
theorem reset_forgets (s t : Screen) (hs : 1 ≤ s.lines) (ht : 1 ≤ t.lines)
    (hc : s.columns = t.columns) (hl : s.lines = t.lines) (hsp : s.savepoints = t.savepoints) :
    reset s = reset t := by
  rw [reset_eq s hs, reset_eq t ht, hc, hl, hsp]

theorem C15_holds (env : Env) (cands : List Nat) (s : Screen) (c : Call) (h : Inv s) :
    propC15 cands s c (step env s c) = true := by
  cases c <;> try rfl
  case reset =>
    simp only [propC15, step, reset_eq s h.rows]
    simp [sameSettingsB, sameCellsB, powerOn]

/-- RIS gives a new screen sitting on top of the old saved-cursor stack -/
theorem reset_is_ext (s : Screen) (hl : 1 ≤ s.lines) :
    reset s = ext (init s.columns s.lines) s.savepoints := by
  rw [reset_is_new_screen s hl]
  have h0 : (init s.columns s.lines).savepoints = [] := by rw [init_eq _ _ hl]; rfl
  unfold ext
  rw [h0]
  rfl

/-- THE CONTINUATION CLAUSE.  From RIS on, the same input produces the same state as on a new
    screen of the current dimensions, the saved-cursor stack being the one thing RIS leaves
    alone: for every history `cs` (any length, any operations, any arguments) that does not pop
    below the stack a new screen starts with, the run after RIS equals the run on the new screen
    with the old stack appended underneath - every other component of the state is identical. -/
theorem reset_continuation (env : Env) (s : Screen) (hl : 1 ≤ s.lines) (cs : List Call)
    (h : noEmptyRestore env (init s.columns s.lines) cs = true) :
    run env (reset s) cs = ext (run env (init s.columns s.lines) cs) s.savepoints := by
  rw [reset_is_ext s hl]
  exact run_ext env cs _ _ h

/-- spelled out: after RIS + `cs` every observable component other than the stack equals the one
    reached by `cs` on a new screen, and the stack is the new screen's with the old one below -/
theorem reset_continuation_fields (env : Env) (s : Screen) (hl : 1 ≤ s.lines) (cs : List Call)
    (h : noEmptyRestore env (init s.columns s.lines) cs = true) :
    let a := run env (reset s) cs
    let b := run env (init s.columns s.lines) cs
    a.columns = b.columns ∧ a.lines = b.lines ∧ a.cursor = b.cursor ∧ a.margins = b.margins ∧
    a.mode = b.mode ∧ a.tabstops = b.tabstops ∧ a.dirty = b.dirty ∧ a.title = b.title ∧
    a.icon = b.icon ∧ a.g0 = b.g0 ∧ a.g1 = b.g1 ∧ a.g1Active = b.g1Active ∧
    a.savedColumns = b.savedColumns ∧ a.cell = b.cell ∧
    display env a = display env b ∧ a.savepoints = b.savepoints ++ s.savepoints := by
  intro a b
  have hab : a = ext b s.savepoints := reset_continuation env s hl cs h
  rw [hab]
  exact ⟨rfl, rfl, rfl, rfl, rfl, rfl, rfl, rfl, rfl, rfl, rfl, rfl, rfl, rfl, display_ext _ _ _, rfl⟩

/-- the hypothesis is needed and is exactly the exception the property names: a DECRC that
    reaches the stack RIS left alone restores what was saved before the reset -/
example :
    let env : Env := { W := fun _ => 1, CM := fun _ => false, NFC := id }
    let s := run env (init 4 3) [.cursorPosition (some 2) (some 3), .saveCursor]
    (run env (reset s) [.restoreCursor]).cursor.y = 1 ∧
    (run env (init 4 3) [.restoreCursor]).cursor.y = 0 ∧
    noEmptyRestore env (init 4 3) [.restoreCursor] = false := by
  decide

/-- non-vacuity of the continuation theorem: a history with nested, balanced DECSC/DECRC and a resize -/
example :
    let env : Env := { W := fun _ => 1, CM := fun _ => false, NFC := id }
    noEmptyRestore env (init 4 3)
      [.draw [97], .saveCursor, .setMode [6] true, .resize (some 2) none, .restoreCursor, .linefeed] = true := by
  decide


/-- non-vacuity: after an arbitrary history, RIS gives the power-on screen -/
example :
    let env : Env := { W := fun _ => 1, CM := fun _ => false, NFC := id }
    let s := run env (init 4 3) [.setMargins (some 1) (some 2), .draw [97, 98], .sgr [1, 31], .setMode [4] false,
      .setTabStop, .saveCursor, .shiftOut]
    display env (reset s) = display env (init 4 3) ∧ (reset s).cursor = (init 4 3).cursor ∧
      (reset s).savepoints.length = 1 := by
  decide

/-! #### the sparse layer -/

/-- RIS clears the buffer: every cell is absent afterwards and reads as the power-on blank -/
theorem sparse_reset (ss : Sparse.SScreen) :
    (Sparse.reset ss).buf = [] ∧ Sparse.abs (Sparse.reset ss) = reset (Sparse.abs ss) :=
  ⟨rfl, Sparse.abs_reset ss⟩

end C15
end Memterm

