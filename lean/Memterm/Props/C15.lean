import Memterm.Props.C18
import Memterm.Spec.C15

/-
  C15 — RIS returns the terminal to its power-on state.
-/
namespace Memterm
namespace C15

open Gen

/-- RIS: everything but the saved-cursor stack is re-initialised -/
theorem reset_eq (s : Screen) (hl : 1 ≤ s.lines) : reset s = powerOn s.columns s.lines s.savepoints := by
  unfold reset powerOn
  simp only [cursorPosition, nz, ensureVBounds, ensureHBounds, setCursorX, setCursorY, defaultCell, defaultAttr]
  first
    | done
    | (congr 1 <;> first | rfl | simp | (funext c; simp [C18.defaultStop]))

/-- a new screen is the power-on state with an empty stack -/
theorem init_eq (columns lines : Nat) (hl : 1 ≤ lines) : init columns lines = powerOn columns lines [] := by
  unfold init
  rw [reset_eq _ hl]

/-- after RIS the state equals that of a newly constructed screen of the current dimensions,
    except for the saved-cursor stack, which RIS leaves alone -/
theorem reset_is_new_screen (s : Screen) (hl : 1 ≤ s.lines) :
    reset s = { init s.columns s.lines with savepoints := s.savepoints } := by
  rw [reset_eq s hl, init_eq _ _ hl]
  rfl

/-- every row is marked dirty, and nothing that is not a row -/
theorem reset_dirty (s : Screen) (hl : 1 ≤ s.lines) (d : Nat) : (reset s).dirty d = decide (d < s.lines) := by
  rw [reset_eq s hl]; rfl

/-- whatever happened before: RIS forgets it (two arbitrary histories on screens of the same
    size and stack end in the same state after RIS) -/
theorem reset_forgets (s t : Screen) (hs : 1 ≤ s.lines) (ht : 1 ≤ t.lines)
    (hc : s.columns = t.columns) (hl : s.lines = t.lines) (hsp : s.savepoints = t.savepoints) :
    reset s = reset t := by
  rw [reset_eq s hs, reset_eq t ht, hc, hl, hsp]

/-- the documented defaults -/
theorem default_modes : DEFAULT_MODE = [DECAWM, DECTCEM] := by decide

theorem C15_holds (env : Env) (cands : List Nat) (s : Screen) (c : Call) (h : Inv s) :
    propC15 cands s c (step env s c) = true := by
  cases c <;> try rfl
  case reset =>
    simp only [propC15, step, reset_eq s h.rows]
    simp [sameSettingsB, sameCellsB, powerOn]

theorem dispatch_RIS : escapeDispatch 99 = [.reset] := by rfl

/-- non-vacuity: after an arbitrary history, RIS gives the power-on screen -/
example :
    let env : Env := { W := fun _ => 1, CM := fun _ => false, NFC := id }
    let s := run env (init 4 3) [.setMargins (some 1) (some 2), .draw [97, 98], .sgr [1, 31], .setMode [4] false,
      .setTabStop, .saveCursor, .shiftOut]
    display env (reset s) = display env (init 4 3) ∧ (reset s).cursor = (init 4 3).cursor ∧
      (reset s).savepoints.length = 1 := by
  decide

end C15
end Memterm

