import Memterm.Props.C02
import Memterm.Proofs.Utf8Spec

/-
  C11 — Byte input is decoded as streaming UTF-8 (or 1:1 in 8-bit mode).

  The decoder is `encoding_rs`'s (a dependency); the model is the WHATWG UTF-8 decoder
  state machine, tied to the crate by the lockstep runs on byte sessions (every chunk of
  every byte session: the characters reaching the recogniser are compared via the calls
  they cause) and by the `String::from_utf8_lossy` oracle of the metamorphic runs.
-/
namespace Memterm
namespace C11

open Utf8Spec

/-- Unicode scalar value -/
def Scalar (c : Nat) : Prop := c < 0x110000 ∧ ¬ (0xD800 ≤ c ∧ c ≤ 0xDFFF)

instance (c : Nat) : Decidable (Scalar c) := inferInstanceAs (Decidable (_ ∧ _))

/-- the UTF-8 encoding of a scalar value (Unicode Table 3-6) -/
def encode (c : Nat) : List Nat :=
  if c < 0x80 then [c]
  else if c < 0x800 then [0xC0 + c / 64, 0x80 + c % 64]
  else if c < 0x10000 then [0xE0 + c / 4096, 0x80 + (c / 64) % 64, 0x80 + c % 64]
  else [0xF0 + c / 262144, 0x80 + (c / 4096) % 64, 0x80 + (c / 64) % 64, 0x80 + c % 64]

/-- each well-formed sequence yields its code point exactly once and leaves the decoder idle -/
theorem decode_one (c : Nat) (h : Scalar c) : utf8Decode DState.init (encode c) = (DState.init, [c]) := by
  obtain ⟨h1, h2⟩ := h
  unfold encode
  by_cases c1 : c < 0x80
  · simp only [c1, if_true, utf8Decode, utf8Step, DState.init, beq_self_eq_true]
    have : c ≤ 0x7F := by omega
    simp [this]
  · by_cases c2 : c < 0x800
    · simp only [c1, c2, if_false, if_true, utf8Decode, utf8Step, DState.init, beq_self_eq_true]
      have a1 : ¬ (0xC0 + c / 64 ≤ 0x7F) := by omega
      have a2 : 0xC2 ≤ 0xC0 + c / 64 ∧ 0xC0 + c / 64 ≤ 0xDF := by omega
      simp only [a1, a2.1, a2.2, decide_true, Bool.and_self, if_true, if_false, Nat.reduceBEq,
        Bool.false_eq_true]
      have a3 : 0x80 ≤ 0x80 + c % 64 ∧ 0x80 + c % 64 ≤ 0xBF := by omega
      simp only [a3.1, a3.2, decide_true, Bool.and_self, if_true, List.append_nil, List.nil_append,
        Prod.mk.injEq, List.cons.injEq, and_true, true_and]
      omega
    · by_cases c3 : c < 0x10000
      · simp only [c1, c2, c3, if_false, if_true, utf8Decode, utf8Step, DState.init, beq_self_eq_true]
        have a1 : ¬ (0xE0 + c / 4096 ≤ 0x7F) := by omega
        have a2 : ¬ (0xC2 ≤ 0xE0 + c / 4096 ∧ 0xE0 + c / 4096 ≤ 0xDF) := by omega
        have a3 : 0xE0 ≤ 0xE0 + c / 4096 ∧ 0xE0 + c / 4096 ≤ 0xEF := by omega
        have a2' : (decide (0xC2 ≤ 0xE0 + c / 4096) && decide (0xE0 + c / 4096 ≤ 0xDF)) = false := by
          simp only [Bool.and_eq_false_iff, decide_eq_false_iff_not]; omega
        simp only [a1, a2', a3.1, a3.2, decide_true, Bool.and_self, if_true, if_false, Nat.reduceBEq,
          Bool.false_eq_true]
        -- second byte within the (possibly narrowed) range
        have b1 : (if (0xE0 + c / 4096 == 0xE0) = true then 0xA0 else 0x80) ≤ 0x80 + c / 64 % 64 := by
          split
          · rename_i e; simp only [beq_iff_eq] at e; omega
          · omega
        have b2 : 0x80 + c / 64 % 64 ≤ (if (0xE0 + c / 4096 == 0xED) = true then 0x9F else 0xBF) := by
          split
          · rename_i e; simp only [beq_iff_eq] at e; omega
          · omega
        simp only [b1, b2, decide_true, Bool.and_self, if_true, Nat.add_sub_cancel_left]
        have b3 : 0x80 ≤ 0x80 + c % 64 ∧ 0x80 + c % 64 ≤ 0xBF := by omega
        simp only [Nat.reduceSub, Nat.reduceBEq, Bool.false_eq_true, if_false, b3.1, b3.2, decide_true,
          Bool.and_self, if_true, List.append_nil, List.nil_append, beq_self_eq_true,
          Prod.mk.injEq, List.cons.injEq, and_true, true_and]
        omega
      · simp only [c1, c2, c3, if_false, utf8Decode, utf8Step, DState.init, beq_self_eq_true, if_true]
        have a1 : ¬ (0xF0 + c / 262144 ≤ 0x7F) := by omega
        have a2' : (decide (0xC2 ≤ 0xF0 + c / 262144) && decide (0xF0 + c / 262144 ≤ 0xDF)) = false := by
          simp only [Bool.and_eq_false_iff, decide_eq_false_iff_not]; omega
        have a3' : (decide (0xE0 ≤ 0xF0 + c / 262144) && decide (0xF0 + c / 262144 ≤ 0xEF)) = false := by
          simp only [Bool.and_eq_false_iff, decide_eq_false_iff_not]; omega
        have a4 : 0xF0 ≤ 0xF0 + c / 262144 ∧ 0xF0 + c / 262144 ≤ 0xF4 := by omega
        simp only [a1, a2', a3', a4.1, a4.2, decide_true, Bool.and_self, if_true, if_false,
          Nat.reduceBEq, Bool.false_eq_true]
        have b1 : (if (0xF0 + c / 262144 == 0xF0) = true then 0x90 else 0x80) ≤ 0x80 + c / 4096 % 64 := by
          split
          · rename_i e; simp only [beq_iff_eq] at e; omega
          · omega
        have b2 : 0x80 + c / 4096 % 64 ≤ (if (0xF0 + c / 262144 == 0xF4) = true then 0x8F else 0xBF) := by
          split
          · rename_i e; simp only [beq_iff_eq] at e; omega
          · omega
        simp only [b1, b2, decide_true, Bool.and_self, if_true, Nat.add_sub_cancel_left]
        have b3 : 0x80 ≤ 0x80 + c / 64 % 64 ∧ 0x80 + c / 64 % 64 ≤ 0xBF := by omega
        have b4 : 0x80 ≤ 0x80 + c % 64 ∧ 0x80 + c % 64 ≤ 0xBF := by omega
        simp only [Nat.reduceSub, Nat.reduceBEq, Bool.false_eq_true, if_false, b3.1, b3.2, b4.1, b4.2,
          decide_true, Bool.and_self, if_true, List.append_nil, List.nil_append, beq_self_eq_true,
          Prod.mk.injEq, List.cons.injEq, and_true, true_and]
        omega

/-- a well-formed byte string decodes to exactly its characters, in order, nothing pending -/
theorem decode_wellformed (cs : List Nat) (h : ∀ c ∈ cs, Scalar c) :
    utf8Decode DState.init (cs.flatMap encode) = (DState.init, cs) := by
  induction cs with
  | nil => rfl
  | cons c cs ih =>
    simp only [List.flatMap_cons]
    rw [C02.utf8Decode_append, decode_one c (h c (List.mem_cons_self ..))]
    simp only [ih (fun c' h' => h c' (List.mem_cons_of_mem _ h')), List.singleton_append]

/-- ... and however the encoded bytes are cut into chunks -/
theorem decode_wellformed_chunked (cs : List Nat) (h : ∀ c ∈ cs, Scalar c) (chunks : List (List Nat))
    (hc : chunks.flatten = cs.flatMap encode) (bp : ByteParser)
    (hb : bp.parser.useUtf8 = true ∧ bp.dec = DState.init) :
    (C02.feedBytesAll bp chunks).2 = (feed bp.parser cs).2 ∧ (C02.feedBytesAll bp chunks).1.dec = DState.init := by
  rw [C02.bytes_chunking, hc]
  unfold feedBytes
  simp only [hb.1, if_true, hb.2, decode_wellformed cs h]
  simp

/-! ill-formed input -/

/-- a byte that cannot start a sequence (stray continuation byte, C0/C1 overlong lead, > F4)
    yields exactly one U+FFFD -/
theorem invalid_lead (b : Nat) (h : (0x80 ≤ b ∧ b ≤ 0xC1) ∨ (0xF5 ≤ b ∧ b ≤ 0xFF)) :
    utf8Step DState.init b = (DState.init, [0xFFFD]) := by
  have a1 : ¬ b ≤ 0x7F := by omega
  have a2 : (decide (0xC2 ≤ b) && decide (b ≤ 0xDF)) = false := by
    simp only [Bool.and_eq_false_iff, decide_eq_false_iff_not]; omega
  have a3 : (decide (0xE0 ≤ b) && decide (b ≤ 0xEF)) = false := by
    simp only [Bool.and_eq_false_iff, decide_eq_false_iff_not]; omega
  have a4 : (decide (0xF0 ≤ b) && decide (b ≤ 0xF4)) = false := by
    simp only [Bool.and_eq_false_iff, decide_eq_false_iff_not]; omega
  simp [utf8Step, DState.init, a1, a2, a3, a4]

/-- an incomplete sequence is held: no output while continuation bytes are still expected -/
theorem incomplete_held (d : DState) (b : Nat) (h1 : 1 < d.needed) (h2 : d.lo ≤ b ∧ b ≤ d.hi) :
    (utf8Step d b).2 = [] ∧ (utf8Step d b).1.needed = d.needed - 1 := by
  have n0 : (d.needed == 0) = false := by simp; omega
  have n1 : (d.needed == 1) = false := by simp; omega
  simp [utf8Step, n0, n1, h2.1, h2.2]

/-- a byte outside the expected range ends the ill-formed subsequence with one U+FFFD (maximal
    subpart) and is then processed as the start of the next sequence - nothing is dropped -/
theorem maximal_subpart (d : DState) (b : Nat) (h1 : d.needed ≠ 0) (h2 : ¬ (d.lo ≤ b ∧ b ≤ d.hi)) :
    utf8Step d b = ((utf8Step DState.init b).1, 0xFFFD :: (utf8Step DState.init b).2) := by
  have n0 : (d.needed == 0) = false := by simpa using h1
  have n2 : (decide (d.lo ≤ b) && decide (b ≤ d.hi)) = false := by
    simp only [Bool.and_eq_false_iff, decide_eq_false_iff_not]
    by_cases q : d.lo ≤ b
    · right; exact fun q2 => h2 ⟨q, q2⟩
    · left; exact q
  simp only [utf8Step, n0, n2, Bool.false_eq_true, if_false, DState.init, beq_self_eq_true, if_true]

/-- at most three bytes are ever pending -/
def DOk (d : DState) : Prop := d.needed ≤ 3

theorem dok_step (d : DState) (b : Nat) (h : DOk d) : DOk (utf8Step d b).1 := by
  unfold DOk at *
  unfold utf8Step
  simp only
  repeat' split
  all_goals first | (simp only [DState.init]; omega) | (simp only []; omega)

/-! the declarative specification (Memterm/Proofs/Utf8Spec.lean) -/

/-- Table 3-7 and the encoding function agree: the well-formed sequences are exactly the
    encodings of the Unicode scalar values -/
theorem wf_encode (c : Nat) (h : Scalar c) : wfSeq (encode c) = some c := by
  obtain ⟨h1, h2⟩ := h
  unfold encode
  by_cases c1 : c < 0x80
  · simp [c1, wfSeq]; omega
  · by_cases c2 : c < 0x800
    · simp only [c1, c2, if_false, if_true, wfSeq, inR, cont]
      have a : (0xC2 ≤ 0xC0 + c / 64 ∧ 0xC0 + c / 64 ≤ 0xDF) ∧ (0x80 ≤ 0x80 + c % 64 ∧ 0x80 + c % 64 ≤ 0xBF) := by omega
      simp [a.1.1, a.1.2, a.2.1, a.2.2]; omega
    · by_cases c3 : c < 0x10000
      · simp only [c1, c2, c3, if_false, if_true, wfSeq, inR, cont, second]
        have a : (0xE0 ≤ 0xE0 + c / 4096 ∧ 0xE0 + c / 4096 ≤ 0xEF) := by omega
        have b2 : (0x80 ≤ 0x80 + c % 64 ∧ 0x80 + c % 64 ≤ 0xBF) := by omega
        by_cases e0 : c / 4096 = 0
        · have b1 : 0xA0 ≤ 0x80 + c / 64 % 64 ∧ 0x80 + c / 64 % 64 ≤ 0xBF := by omega
          simp [e0, b1.1, b1.2, b2.2]; omega
        · by_cases ed : c / 4096 = 13
          · have b1 : 0x80 ≤ 0x80 + c / 64 % 64 ∧ 0x80 + c / 64 % 64 ≤ 0x9F := by omega
            simp [ed, b1.2, b2.2]; omega
          · have b1 : 0x80 ≤ 0x80 + c / 64 % 64 ∧ 0x80 + c / 64 % 64 ≤ 0xBF := by omega
            have n1 : ¬ (0xE0 + c / 4096 = 0xE0) := by omega
            have n2 : ¬ (0xE0 + c / 4096 = 0xED) := by omega
            have n3 : ¬ (0xE0 + c / 4096 = 0xF0) := by omega
            have n4 : ¬ (0xE0 + c / 4096 = 0xF4) := by omega
            simp [n1, n2, n3, n4, a.2, b1.2, b2.2]; omega
      · simp only [c1, c2, c3, if_false, wfSeq, inR, cont, second]
        have a : (0xF0 ≤ 0xF0 + c / 262144 ∧ 0xF0 + c / 262144 ≤ 0xF4) := by omega
        have b2 : (0x80 + c / 64 % 64 ≤ 0xBF) := by omega
        have b3 : (0x80 + c % 64 ≤ 0xBF) := by omega
        have n1 : ¬ (0xF0 + c / 262144 = 0xE0) := by omega
        have n2 : ¬ (0xF0 + c / 262144 = 0xED) := by omega
        by_cases f0 : c / 262144 = 0
        · have b1 : 0x90 ≤ 0x80 + c / 4096 % 64 ∧ 0x80 + c / 4096 % 64 ≤ 0xBF := by omega
          simp [f0, b1.1, b1.2, b2, b3]; omega
        · by_cases f4 : c / 262144 = 4
          · have b1 : 0x80 + c / 4096 % 64 ≤ 0x8F := by omega
            simp [f4, b1, b2, b3]; omega
          · have b1 : 0x80 + c / 4096 % 64 ≤ 0xBF := by omega
            have n3 : ¬ (0xF0 + c / 262144 = 0xF0) := by omega
            have n4 : ¬ (0xF0 + c / 262144 = 0xF4) := by omega
            simp [n1, n2, n3, n4, a.2, b1, b2, b3]; omega


/-- ... and conversely: a sequence the table accepts denotes a scalar value whose encoding it is -/
theorem encode_wf (seq : List Nat) (cp : Nat) (hw : wfSeq seq = some cp) : Scalar cp ∧ encode cp = seq := by
  match seq, hw with
  | [b0], hw =>
    simp only [wfSeq] at hw
    split at hw
    · have e := Option.some.inj hw
      subst e
      refine ⟨⟨by omega, by omega⟩, ?_⟩
      have : b0 < 0x80 := by omega
      simp [encode, this]
    · cases hw
  | [b0, b1], hw =>
    simp only [wfSeq] at hw
    split at hw
    · rename_i h
      simp only [inR, cont, Bool.and_eq_true, decide_eq_true_eq] at h
      have e := Option.some.inj hw
      subst e
      refine ⟨⟨by omega, by omega⟩, ?_⟩
      have n1 : ¬ ((b0 - 0xC0) * 64 + (b1 - 0x80) < 0x80) := by omega
      have n2 : (b0 - 0xC0) * 64 + (b1 - 0x80) < 0x800 := by omega
      simp only [encode, n1, n2, if_false, if_true, List.cons.injEq, and_true]
      omega
    · cases hw
  | [b0, b1, b2], hw =>
    simp only [wfSeq] at hw
    split at hw
    · rename_i h
      simp only [inR, cont, second, Bool.and_eq_true, decide_eq_true_eq] at h
      have e := Option.some.inj hw
      subst e
      obtain ⟨⟨h0, hs⟩, h2⟩ := h
      have hb1 : 0x80 ≤ b1 ∧ b1 ≤ 0xBF ∧ (b0 = 0xE0 → 0xA0 ≤ b1) ∧ (b0 = 0xED → b1 ≤ 0x9F) := by
        by_cases e0 : b0 = 0xE0
        · subst e0; simp [inR] at hs; omega
        · by_cases ed : b0 = 0xED
          · subst ed; simp [inR] at hs; omega
          · have f0 : ¬ b0 = 0xF0 := by omega
            have f4 : ¬ b0 = 0xF4 := by omega
            simp [e0, ed, f0, f4, inR, cont] at hs
            omega
      refine ⟨⟨by omega, by omega⟩, ?_⟩
      have n1 : ¬ (((b0 - 0xE0) * 64 + (b1 - 0x80)) * 64 + (b2 - 0x80) < 0x80) := by omega
      have n2 : ¬ (((b0 - 0xE0) * 64 + (b1 - 0x80)) * 64 + (b2 - 0x80) < 0x800) := by omega
      have n3 : ((b0 - 0xE0) * 64 + (b1 - 0x80)) * 64 + (b2 - 0x80) < 0x10000 := by omega
      simp only [encode, n1, n2, n3, if_false, if_true, List.cons.injEq, and_true]
      omega
    · cases hw
  | [b0, b1, b2, b3], hw =>
    simp only [wfSeq] at hw
    split at hw
    · rename_i h
      simp only [inR, cont, second, Bool.and_eq_true, decide_eq_true_eq] at h
      have e := Option.some.inj hw
      subst e
      obtain ⟨⟨⟨h0, hs⟩, h2⟩, h3⟩ := h
      have hb1 : 0x80 ≤ b1 ∧ b1 ≤ 0xBF ∧ (b0 = 0xF0 → 0x90 ≤ b1) ∧ (b0 = 0xF4 → b1 ≤ 0x8F) := by
        have e0 : ¬ b0 = 0xE0 := by omega
        have ed : ¬ b0 = 0xED := by omega
        by_cases f0 : b0 = 0xF0
        · subst f0; simp [inR] at hs; omega
        · by_cases f4 : b0 = 0xF4
          · subst f4; simp [inR] at hs; omega
          · simp [e0, ed, f0, f4, inR, cont] at hs
            omega
      refine ⟨⟨by omega, by omega⟩, ?_⟩
      have n1 : ¬ ((((b0 - 0xF0) * 64 + (b1 - 0x80)) * 64 + (b2 - 0x80)) * 64 + (b3 - 0x80) < 0x80) := by omega
      have n2 : ¬ ((((b0 - 0xF0) * 64 + (b1 - 0x80)) * 64 + (b2 - 0x80)) * 64 + (b3 - 0x80) < 0x800) := by omega
      have n3 : ¬ ((((b0 - 0xF0) * 64 + (b1 - 0x80)) * 64 + (b2 - 0x80)) * 64 + (b3 - 0x80) < 0x10000) := by omega
      simp only [encode, n1, n2, n3, if_false, List.cons.injEq, and_true]
      omega
    · cases hw
  | [], hw => cases hw
  | _ :: _ :: _ :: _ :: _ :: _, hw => cases hw


/-- THE C11 STATEMENT for UTF-8 mode, at full strength.  Whatever was fed before (the decoder
    holding the incomplete tail `p`), the characters handed to the recogniser for the next bytes
    `bs` are exactly the conforming decoding of `p ++ bs`: each well-formed sequence (= the
    encoding of a scalar value, `wf_encode` / `encode_wf`) yields its code point once, each
    ill-formed subsequence yields U+FFFD per maximal subpart, and the incomplete trailing
    sequence is held; that decoding is unique (`decodes_unique`), so nothing is dropped,
    duplicated or reordered, and it does not depend on the chunking (`C02.bytes_chunking`). -/
theorem feedBytes_conforming (bp : ByteParser) (p bs : List Nat) (hu : bp.parser.useUtf8 = true)
    (hp : Holds p bp.dec) :
    ∃ out p', Decodes (p ++ bs) out p' ∧ Holds p' (feedBytes bp bs).1.dec ∧
      (feedBytes bp bs).2 = (feed bp.parser out).2 := by
  obtain ⟨p', h1, h2⟩ := decode_sound bs p bp.dec hp
  refine ⟨(utf8Decode bp.dec bs).2, p', h2, ?_, ?_⟩ <;> simp [feedBytes, hu, h1]

/-- the characterisation, completeness direction included: `out` is a conforming decoding of `bs`
    if and only if it is what the decoder produces -/
theorem conforming_iff (bs out : List Nat) :
    (∃ p, Decodes bs out p) ↔ (utf8Decode DState.init bs).2 = out := decode_spec bs out

/-- the conforming decoding of a byte string is unique -/
theorem conforming_unique (bs out out' p p' : List Nat) (h : Decodes bs out p) (h' : Decodes bs out' p') :
    out = out' ∧ stateFor p = stateFor p' := decodes_unique bs out out' p p' h h'

/-- what is held back is literally the tail of the input -/
theorem held_suffix (bs out p : List Nat) (h : Decodes bs out p) : ∃ pre, bs = pre ++ p :=
  held_is_suffix bs out p h

/-- a new ByteParser holds nothing -/
theorem init_holds : Holds [] ByteParser.init.dec := Or.inl ⟨rfl, rfl⟩

/-! 8-bit mode and mode switches -/

/-- after select_other_charset("@") each byte maps to the code point of equal value -/
theorem eightbit (bp : ByteParser) (h : bp.parser.useUtf8 = false) (bs : List Nat) :
    feedBytes bp bs = ({ bp with parser := (feed bp.parser bs).1 }, (feed bp.parser bs).2) := by
  simp [feedBytes, h]

theorem switch_to_8bit (bp : ByteParser) :
    (selectOtherCharset bp [64]).parser.useUtf8 = false ∧ (selectOtherCharset bp [64]).dec = DState.init := ⟨rfl, rfl⟩

theorem switch_to_utf8 (bp : ByteParser) :
    (selectOtherCharset bp [71]).parser.useUtf8 = true ∧ (selectOtherCharset bp [56]).parser.useUtf8 = true := ⟨rfl, rfl⟩

theorem other_codes_ignored (bp : ByteParser) (code : List Nat) (h : code ≠ [64] ∧ code ≠ [71] ∧ code ≠ [56]) :
    selectOtherCharset bp code = bp := by
  simp [selectOtherCharset, h.1, h.2.1, h.2.2]

/-- non-vacuity: "é", a truncated 3-byte sequence cut by "(", a surrogate encoding, > U+10FFFF, BOM -/
example : (utf8Decode DState.init [0xC3, 0xA9, 0xE2, 0x9E, 0x28, 0xED, 0xA0, 0x80, 0xF4, 0x90, 0x80, 0x80,
    0xEF, 0xBB, 0xBF]).2 =
    [0xE9, 0xFFFD, 0x28, 0xFFFD, 0xFFFD, 0xFFFD, 0xFFFD, 0xFFFD, 0xFFFD, 0xFFFD, 0xFEFF] := by decide

example : Scalar 0x1F600 ∧ encode 0x1F600 = [0xF0, 0x9F, 0x98, 0x80] := by decide

end C11
end Memterm
