import Memterm.Inv

/-
  Frame conditions shared by the property statements: "nothing but X changes",
  as a proposition (for the theorems) and as a bounded executable check (for
  the driver, evaluated on the implementation's dumped states).
-/
namespace Memterm

/-- everything except the cursor position is equal -/
def OnlyCursorMoved (s s' : Screen) : Prop :=
  s' = { s with cursor := { s.cursor with x := s'.cursor.x, y := s'.cursor.y } }

/-- everything except cursor position and the dirty set is equal -/
def OnlyCursorDirty (s s' : Screen) : Prop :=
  s' = { s with cursor := { s.cursor with x := s'.cursor.x, y := s'.cursor.y }, dirty := s'.dirty }

/-- everything except the cell store, cursor position and dirty set is equal -/
def SameSettings (s s' : Screen) : Prop :=
  s'.columns = s.columns ∧ s'.lines = s.lines ∧ s'.cursor.attr = s.cursor.attr ∧
  s'.cursor.hidden = s.cursor.hidden ∧ s'.margins = s.margins ∧ s'.mode = s.mode ∧
  s'.tabstops = s.tabstops ∧ s'.title = s.title ∧ s'.icon = s.icon ∧ s'.g0 = s.g0 ∧
  s'.g1 = s.g1 ∧ s'.g1Active = s.g1Active ∧ s'.savepoints = s.savepoints ∧
  s'.savedColumns = s.savedColumns

instance : BEq Attr := ⟨fun a b => decide (a = b)⟩
instance : BEq Cell := ⟨fun a b => decide (a = b)⟩
instance : BEq Cursor := ⟨fun a b => decide (a = b)⟩
instance : BEq CsId := ⟨fun a b => decide (a = b)⟩
instance : BEq Savepoint := ⟨fun a b => decide (a = b)⟩

/-- bounded executable form of `SameSettings` (membership functions compared on `cands`) -/
def sameSettingsB (cands : List Nat) (s s' : Screen) : Bool :=
  s'.columns == s.columns && s'.lines == s.lines && decide (s'.cursor.attr = s.cursor.attr) &&
  s'.cursor.hidden == s.cursor.hidden && s'.margins == s.margins &&
  cands.all (fun m => s'.mode m == s.mode m) &&
  (List.range (s.columns + 3)).all (fun c => s'.tabstops c == s.tabstops c) &&
  s'.title == s.title && s'.icon == s.icon && decide (s'.g0 = s.g0) && decide (s'.g1 = s.g1) &&
  s'.g1Active == s.g1Active && decide (s'.savepoints = s.savepoints) &&
  s'.savedColumns == s.savedColumns

/-- all cells of the grid equal (bounded, executable) -/
def sameCellsB (s s' : Screen) : Bool :=
  (List.range s.lines).all fun y => (List.range s.columns).all fun x => decide (s'.cell y x = s.cell y x)

def sameDirtyB (s s' : Screen) : Bool :=
  (List.range (s.lines + 3)).all fun r => s'.dirty r == s.dirty r

theorem sameSettingsB_of {cands : List Nat} {s s' : Screen} (h : SameSettings s s') :
    sameSettingsB cands s s' = true := by
  obtain ⟨h1, h2, h3, h4, h5, h6, h7, h8, h9, h10, h11, h12, h13, h14⟩ := h
  simp [sameSettingsB, h1, h2, h3, h4, h5, h6, h7, h8, h9, h10, h11, h12, h13, h14]

theorem sameCellsB_of {s s' : Screen} (h : s'.cell = s.cell) : sameCellsB s s' = true := by
  simp [sameCellsB, h]

theorem sameDirtyB_of {s s' : Screen} (h : s'.dirty = s.dirty) : sameDirtyB s s' = true := by
  simp [sameDirtyB, h]

theorem OnlyCursorMoved.sameSettings {s s' : Screen} (h : OnlyCursorMoved s s') : SameSettings s s' := by
  unfold OnlyCursorMoved at h
  rw [h]
  simp [SameSettings]

theorem OnlyCursorMoved.cell {s s' : Screen} (h : OnlyCursorMoved s s') : s'.cell = s.cell := by
  unfold OnlyCursorMoved at h
  rw [h]

theorem OnlyCursorMoved.dirty {s s' : Screen} (h : OnlyCursorMoved s s') : s'.dirty = s.dirty := by
  unfold OnlyCursorMoved at h
  rw [h]

/-- bounded quantification over the cells of the grid (executable) -/
def allCellsB (lines columns : Nat) (p : Nat → Nat → Bool) : Bool :=
  (List.range lines).all fun y => (List.range columns).all fun x => p y x

theorem allCellsB_iff (lines columns : Nat) (p : Nat → Nat → Bool) :
    allCellsB lines columns p = true ↔ ∀ y x, y < lines → x < columns → p y x = true := by
  simp only [allCellsB, List.all_eq_true, List.mem_range]
  constructor
  · intro h y x hy hx; exact h y hy x hx
  · intro h y hy x hx; exact h y x hy hx

/-- cursor (position, rendition, visibility) unchanged and `SameSettings` -/
def SameCursorSettings (s s' : Screen) : Prop := s'.cursor = s.cursor ∧ SameSettings s s'

def sameCursorSettingsB (cands : List Nat) (s s' : Screen) : Bool :=
  decide (s'.cursor = s.cursor) && sameSettingsB cands s s'

theorem sameCursorSettingsB_of {cands : List Nat} {s s' : Screen} (h : SameCursorSettings s s') :
    sameCursorSettingsB cands s s' = true := by
  simp [sameCursorSettingsB, h.1, sameSettingsB_of h.2]

end Memterm
