import Memterm.Props.C07
import Memterm.Props.C08
import Memterm.Proofs.ModeOrder
import Memterm.Proofs.SparseStep
import Memterm.Proofs.Sgr
import Memterm.Spec.C12

/-
  C12 — SM/RM switch exactly the named modes with their documented side effects.
-/
namespace Memterm
namespace C12

open Gen

/-! #### frames of the building blocks -/

theorem Quiet.refl (s : Screen) : Quiet s s := ⟨rfl, rfl, rfl, rfl, rfl, rfl, rfl, rfl, rfl, rfl, rfl⟩

theorem Quiet.trans {a b c : Screen} (h1 : Quiet a b) (h2 : Quiet b c) : Quiet a c :=
  ⟨h2.mode.trans h1.mode, h2.tabstops.trans h1.tabstops, h2.title.trans h1.title, h2.icon.trans h1.icon,
   h2.g0.trans h1.g0, h2.g1.trans h1.g1, h2.g1Active.trans h1.g1Active, h2.savepoints.trans h1.savepoints,
   h2.attr.trans h1.attr, h2.hidden.trans h1.hidden, h2.lines.trans h1.lines⟩

theorem quiet_cursorPosition (s : Screen) (l c : Option Nat) : Quiet s (cursorPosition s l c) := by
  unfold cursorPosition
  simp only
  split
  · split
    · split <;> exact ⟨rfl, rfl, rfl, rfl, rfl, rfl, rfl, rfl, rfl, rfl, rfl⟩
    · exact ⟨rfl, rfl, rfl, rfl, rfl, rfl, rfl, rfl, rfl, rfl, rfl⟩
  · exact ⟨rfl, rfl, rfl, rfl, rfl, rfl, rfl, rfl, rfl, rfl, rfl⟩

theorem quiet_eraseInDisplay (s : Screen) (how : Option Nat) : Quiet s (eraseInDisplay s how) := by
  obtain ⟨hc, h1, h2, h3, h4, h5, h6, h7, h8, h9, h10, h11, h12, h13, h14⟩ := C07.ed_frame s how
  exact ⟨h6, h7, h8, h9, h10, h11, h12, h13, by rw [hc], by rw [hc], h2⟩

/-- a width-only resize: no rows are dropped, so no save/restore happens -/
theorem quiet_resize_width (s : Screen) (c : Nat) : Quiet s (resize s none (some c)) := by
  unfold resize
  simp only [Option.getD_none, Option.getD_some, beq_self_eq_true, Bool.true_and, Nat.lt_irrefl, if_false]
  split
  · exact Quiet.refl s
  · have hsm : ∀ t : Screen, setMargins t none none = { t with margins := none } := by
      intro t; simp [setMargins]
    rw [hsm]
    split <;> exact ⟨rfl, rfl, rfl, rfl, rfl, rfl, rfl, rfl, rfl, rfl, rfl⟩

theorem resize_width_columns (s : Screen) (c : Nat) : (resize s none (some c)).columns = c := by
  unfold resize
  simp only [Option.getD_none, Option.getD_some, beq_self_eq_true, Bool.true_and, Nat.lt_irrefl, if_false]
  split
  · rename_i h
    have : c = s.columns := by simpa using h
    exact this.symm
  · have hsm : ∀ t : Screen, setMargins t none none = { t with margins := none } := by
      intro t; simp [setMargins]
    rw [hsm]
    split <;> rfl

theorem quiet_colmSet (s : Screen) : Quiet s (colmSet s) := by
  unfold colmSet
  have q0 : Quiet s { s with savedColumns := some s.columns } := ⟨rfl, rfl, rfl, rfl, rfl, rfl, rfl, rfl, rfl, rfl, rfl⟩
  exact q0.trans ((quiet_resize_width _ 132).trans ((quiet_eraseInDisplay _ _).trans (quiet_cursorPosition _ _ _)))

theorem quiet_colmRestore (s : Screen) : Quiet s (colmRestore s) := by
  unfold colmRestore
  split
  · split
    · rename_i sc _
      have q := quiet_resize_width s sc
      exact ⟨q.mode, q.tabstops, q.title, q.icon, q.g0, q.g1, q.g1Active, q.savepoints, q.attr, q.hidden, q.lines⟩
    · exact Quiet.refl s
  · exact Quiet.refl s

theorem quiet_colmReset (s : Screen) : Quiet s (colmReset s) := by
  unfold colmReset
  exact (quiet_colmRestore s).trans ((quiet_eraseInDisplay _ _).trans (quiet_cursorPosition _ _ _))

theorem quiet_homeIf (s : Screen) (b : Bool) : Quiet s (homeIf b s) := by
  unfold homeIf
  split
  · exact quiet_cursorPosition s none none
  · exact Quiet.refl s

/-! #### membership: exactly the listed numbers are added / removed -/

theorem sgr_mode (s : Screen) (a : List Nat) : (selectGraphicRendition s a).mode = s.mode := by
  rw [sgr_frame]

theorem applySet_mode (s : Screen) (ml : List Nat) (m : Nat) :
    (applySetModes s ml).mode m = (ml.contains m || s.mode m) := by
  unfold applySetModes
  split
  · rw [sgr_mode]; rfl
  · rfl

theorem applyReset_mode (s : Screen) (ml : List Nat) (m : Nat) :
    (applyResetModes s ml).mode m = (!ml.contains m && s.mode m) := by
  unfold applyResetModes
  split
  · rw [sgr_mode]; rfl
  · rfl

theorem hiddenIf_mode (s : Screen) (b v : Bool) : (hiddenIf b v s).mode = s.mode := by
  unfold hiddenIf; split <;> rfl

/-- SM adds exactly the listed numbers (private ones shifted by 5 bits, so that `?n` and `n` differ) -/
theorem sm_membership (s : Screen) (ms : List Nat) (p : Bool) (m : Nat) :
    (setMode s ms p).mode m = ((shiftModes ms p).contains m || s.mode m) := by
  unfold setMode
  simp only
  rw [hiddenIf_mode, (quiet_homeIf _ _).mode]
  split
  · rw [(quiet_colmSet _).mode, applySet_mode]
  · rw [applySet_mode]

/-- RM removes exactly the listed numbers -/
theorem rm_membership (s : Screen) (ms : List Nat) (p : Bool) (m : Nat) :
    (resetMode s ms p).mode m = (!(shiftModes ms p).contains m && s.mode m) := by
  unfold resetMode
  simp only
  rw [hiddenIf_mode, (quiet_homeIf _ _).mode]
  split
  · rw [(quiet_colmReset _).mode, applyReset_mode]
  · rw [applyReset_mode]

/-- `?n` is recorded as 32·n: distinct from ANSI n for every n >= 1 -/
theorem private_distinct (n : Nat) (h : 0 < n) : shiftModes [n] true ≠ shiftModes [n] false := by
  simp [shiftModes]; omega

/-! #### any other mode number: recorded, no other effect -/

theorem sm_other (s : Screen) (ms : List Nat) (p : Bool) (h : plain (shiftModes ms p)) :
    setMode s ms p = addModes s (shiftModes ms p) := by
  obtain ⟨h1, h2, h3, h4⟩ := h
  unfold setMode applySetModes homeIf hiddenIf
  simp only [h1, h2, h3, h4, Bool.false_eq_true, if_false]

theorem rm_other (s : Screen) (ms : List Nat) (p : Bool) (h : plain (shiftModes ms p)) :
    resetMode s ms p = removeModes s (shiftModes ms p) := by
  obtain ⟨h1, h2, h3, h4⟩ := h
  unfold resetMode applyResetModes homeIf hiddenIf
  simp only [h1, h2, h3, h4, Bool.false_eq_true, if_false]

/-! #### the documented side effects -/

/-- DECTCEM shows / hides the cursor -/
theorem sm_dectcem (s : Screen) (ms : List Nat) (p : Bool) (h : (shiftModes ms p).contains DECTCEM = true) :
    (setMode s ms p).cursor.hidden = false := by
  unfold setMode hiddenIf
  simp only [h, if_true]

theorem rm_dectcem (s : Screen) (ms : List Nat) (p : Bool) (h : (shiftModes ms p).contains DECTCEM = true) :
    (resetMode s ms p).cursor.hidden = true := by
  unfold resetMode hiddenIf
  simp only [h, if_true]

/-! cursor homing -/

theorem home_spec (s : Screen) (h : Inv s) :
    (cursorPosition s none none).cursor.x = 0 ∧ (cursorPosition s none none).cursor.y = homeRow s ∧
    OnlyCursorMoved s (cursorPosition s none none) := by
  have hexp : C05.expected s (.cursorPosition none none) = some (0, homeRow s) := by
    simp only [C05.expected, homeRow, nz]
    cases hm : s.margins with
    | none => simp
    | some tb =>
      obtain ⟨t, b⟩ := tb
      have := h.marg t b hm
      cases hd : s.mode DECOM
      · simp
      · have : t ≤ b := by omega
        simp [this]
  exact C05.position_and_frame ⟨fun _ => 1, fun _ => false, id⟩ s (.cursorPosition none none) 0 (homeRow s) h hexp

theorem hiddenIf_frame (s : Screen) (b v : Bool) :
    (hiddenIf b v s).cell = s.cell ∧ (hiddenIf b v s).cursor.x = s.cursor.x ∧ (hiddenIf b v s).cursor.y = s.cursor.y ∧
    (hiddenIf b v s).margins = s.margins ∧ (hiddenIf b v s).mode = s.mode ∧ (hiddenIf b v s).columns = s.columns ∧
    (hiddenIf b v s).lines = s.lines ∧ (hiddenIf b v s).dirty = s.dirty ∧ (hiddenIf b v s).cursor.attr = s.cursor.attr := by
  unfold hiddenIf; split <;> exact ⟨rfl, rfl, rfl, rfl, rfl, rfl, rfl, rfl, rfl⟩

/-- DECOM (set): the cursor is homed; addressing is region-relative from then on (C05) -/
theorem sm_decom (s : Screen) (h : Inv s) (ms : List Nat) (p : Bool)
    (hc : (shiftModes ms p).contains DECOM = true) :
    (setMode s ms p).cursor.x = 0 ∧ (setMode s ms p).cursor.y = homeRow (setMode s ms p) := by
  unfold setMode
  simp only [hc, homeIf, if_true]
  generalize hX : (if (shiftModes ms p).contains DECCOLM = true then colmSet (applySetModes s (shiftModes ms p))
    else applySetModes s (shiftModes ms p)) = X
  have hXi : Inv X := by
    subst hX
    split
    · exact inv_colmSet (inv_applySetModes h _)
    · exact inv_applySetModes h _
  obtain ⟨a, b, c⟩ := home_spec X hXi
  obtain ⟨f1, f2, f3, f4, f5, _⟩ := hiddenIf_frame (cursorPosition X none none) ((shiftModes ms p).contains DECTCEM) false
  refine ⟨by rw [f2, a], ?_⟩
  rw [f3, b]
  have hs := c.sameSettings
  unfold homeRow
  rw [f4, f5, hs.2.2.2.2.1, hs.2.2.2.2.2.1]

theorem rm_decom (s : Screen) (h : Inv s) (ms : List Nat) (p : Bool)
    (hc : (shiftModes ms p).contains DECOM = true) :
    (resetMode s ms p).cursor.x = 0 ∧ (resetMode s ms p).cursor.y = 0 := by
  have hmode : (resetMode s ms p).mode DECOM = false := by
    rw [rm_membership, hc]; rfl
  unfold resetMode at hmode ⊢
  simp only [hc, homeIf, if_true] at hmode ⊢
  generalize hX : (if (shiftModes ms p).contains DECCOLM = true then colmReset (applyResetModes s (shiftModes ms p))
    else applyResetModes s (shiftModes ms p)) = X at hmode ⊢
  have hXi : Inv X := by
    subst hX
    split
    · exact inv_colmReset (inv_applyResetModes h _)
    · exact inv_applyResetModes h _
  obtain ⟨a, b, c⟩ := home_spec X hXi
  obtain ⟨f1, f2, f3, f4, f5, _⟩ := hiddenIf_frame (cursorPosition X none none) ((shiftModes ms p).contains DECTCEM) true
  refine ⟨by rw [f2, a], ?_⟩
  rw [f3, b]
  have hs := c.sameSettings
  have hXm : X.mode DECOM = false := by
    rw [f5, hs.2.2.2.2.2.1] at hmode
    exact hmode
  unfold homeRow
  rw [hXm]
  cases X.margins with
  | none => rfl
  | some tb => rfl

/-! DECSCNM -/

/-- DECSCNM (without DECCOLM in the same list): every cell, the current rendition and the
    default rendition get reverse video, every row is dirty, nothing else about the cells changes -/
theorem sm_decscnm (s : Screen) (ms : List Nat) (p : Bool)
    (hc : (shiftModes ms p).contains DECSCNM = true) (hn : (shiftModes ms p).contains DECCOLM = false) :
    (∀ y x, (setMode s ms p).cell y x = { s.cell y x with attr := { (s.cell y x).attr with reverse := true } }) ∧
    (setMode s ms p).cursor.attr.reverse = true ∧ (defaultAttr (setMode s ms p)).reverse = true ∧
    (∀ r, r < s.lines → (setMode s ms p).dirty r = true) := by
  have hmode : (setMode s ms p).mode DECSCNM = true := by rw [sm_membership, hc]; rfl
  refine ⟨?_, ?_, by simp [defaultAttr, hmode], ?_⟩
  all_goals
    unfold setMode
    simp only [hn, Bool.false_eq_true, if_false]
    obtain ⟨f1, f2, f3, f4, f5, f6, f7, f8, f9⟩ := hiddenIf_frame
      (homeIf ((shiftModes ms p).contains DECOM) (applySetModes s (shiftModes ms p)))
      ((shiftModes ms p).contains DECTCEM) false
    have hh : ∀ X : Screen, (homeIf ((shiftModes ms p).contains DECOM) X).cell = X.cell ∧
        (homeIf ((shiftModes ms p).contains DECOM) X).dirty = X.dirty ∧
        (homeIf ((shiftModes ms p).contains DECOM) X).cursor.attr = X.cursor.attr := by
      intro X
      unfold homeIf
      split
      · have q := quiet_cursorPosition X none none
        unfold cursorPosition
        simp only
        split
        · split
          · split <;> exact ⟨rfl, rfl, rfl⟩
          · exact ⟨rfl, rfl, rfl⟩
        · exact ⟨rfl, rfl, rfl⟩
      · exact ⟨rfl, rfl, rfl⟩
    obtain ⟨g1, g2, g3⟩ := hh (applySetModes s (shiftModes ms p))
    have ha : applySetModes s (shiftModes ms p) =
        selectGraphicRendition (setAllReverse (addModes (markAllDirty s) (shiftModes ms p)) true) [7] := by
      unfold applySetModes; simp only [hc, if_true]
  · intro y x
    rw [f1, g1, ha, sgr_frame]
    rfl
  · rw [f9, g3, ha, sgr_frame]
    exact sgr7_reverse _
  · intro r hr
    rw [f8, g2, ha, sgr_frame]
    simp [setAllReverse, addModes, markAllDirty, markDirtyRange, hr]

theorem rm_decscnm (s : Screen) (ms : List Nat) (p : Bool)
    (hc : (shiftModes ms p).contains DECSCNM = true) (hn : (shiftModes ms p).contains DECCOLM = false) :
    (∀ y x, (resetMode s ms p).cell y x = { s.cell y x with attr := { (s.cell y x).attr with reverse := false } }) ∧
    (resetMode s ms p).cursor.attr.reverse = false ∧ (defaultAttr (resetMode s ms p)).reverse = false ∧
    (∀ r, r < s.lines → (resetMode s ms p).dirty r = true) := by
  have hmode : (resetMode s ms p).mode DECSCNM = false := by rw [rm_membership, hc]; rfl
  refine ⟨?_, ?_, by simp [defaultAttr, hmode], ?_⟩
  all_goals
    unfold resetMode
    simp only [hn, Bool.false_eq_true, if_false]
    obtain ⟨f1, f2, f3, f4, f5, f6, f7, f8, f9⟩ := hiddenIf_frame
      (homeIf ((shiftModes ms p).contains DECOM) (applyResetModes s (shiftModes ms p)))
      ((shiftModes ms p).contains DECTCEM) true
    have hh : ∀ X : Screen, (homeIf ((shiftModes ms p).contains DECOM) X).cell = X.cell ∧
        (homeIf ((shiftModes ms p).contains DECOM) X).dirty = X.dirty ∧
        (homeIf ((shiftModes ms p).contains DECOM) X).cursor.attr = X.cursor.attr := by
      intro X
      unfold homeIf
      split
      · unfold cursorPosition
        simp only
        split
        · split
          · split <;> exact ⟨rfl, rfl, rfl⟩
          · exact ⟨rfl, rfl, rfl⟩
        · exact ⟨rfl, rfl, rfl⟩
      · exact ⟨rfl, rfl, rfl⟩
    obtain ⟨g1, g2, g3⟩ := hh (applyResetModes s (shiftModes ms p))
    have ha : applyResetModes s (shiftModes ms p) =
        selectGraphicRendition (setAllReverse (removeModes (markAllDirty s) (shiftModes ms p)) false) [27] := by
      unfold applyResetModes; simp only [hc, if_true]
  · intro y x
    rw [f1, g1, ha, sgr_frame]
    rfl
  · rw [f9, g3, ha, sgr_frame]
    exact sgr27_reverse _
  · intro r hr
    rw [f8, g2, ha, sgr_frame]
    simp [setAllReverse, removeModes, markAllDirty, markDirtyRange, hr]

/-! DECCOLM -/

theorem applySet_geom (s : Screen) (ml : List Nat) :
    (applySetModes s ml).columns = s.columns ∧ (applySetModes s ml).lines = s.lines ∧
    (applySetModes s ml).savedColumns = s.savedColumns ∧ (applySetModes s ml).margins = s.margins := by
  unfold applySetModes
  split
  · rw [sgr_frame]; exact ⟨rfl, rfl, rfl, rfl⟩
  · exact ⟨rfl, rfl, rfl, rfl⟩

theorem applyReset_geom (s : Screen) (ml : List Nat) :
    (applyResetModes s ml).columns = s.columns ∧ (applyResetModes s ml).lines = s.lines ∧
    (applyResetModes s ml).savedColumns = s.savedColumns ∧ (applyResetModes s ml).margins = s.margins := by
  unfold applyResetModes
  split
  · rw [sgr_frame]; exact ⟨rfl, rfl, rfl, rfl⟩
  · exact ⟨rfl, rfl, rfl, rfl⟩

/-- erase-all followed by homing: every cell of the grid is the cursor's blank, the cursor is home -/
theorem erase_home (R : Screen) (h : Inv R) :
    let H := cursorPosition (eraseInDisplay R (some 2)) none none
    H.columns = R.columns ∧ H.lines = R.lines ∧ H.cursor.attr = R.cursor.attr ∧ H.margins = R.margins ∧
    H.mode = R.mode ∧ H.savedColumns = R.savedColumns ∧
    (∀ y x, y < R.lines → x < R.columns → H.cell y x = { data := strSpace, attr := R.cursor.attr }) ∧
    H.cursor.x = 0 ∧ H.cursor.y = homeRow H := by
  simp only
  have hE := inv_eraseInDisplay h (some 2)
  obtain ⟨a, b, c⟩ := home_spec _ hE
  obtain ⟨ec, e1, e2, e3, e4, e5, e6, e7, e8, e9, e10, e11, e12, e13, e14⟩ := C07.ed_frame R (some 2)
  have hs := c.sameSettings
  obtain ⟨s1, s2, s3, s4, s5, s6, s7, s8, s9, s10, s11, s12, s13, s14⟩ := hs
  refine ⟨s1.trans e1, s2.trans e2, s3.trans (by rw [ec]), s5.trans e5, s6.trans e6, s14.trans e14, ?_, a, ?_⟩
  · intro y x hy hx
    rw [c.cell, C07.ed_cell R h (some 2) y x hy hx]
    rfl
  · rw [b]
    unfold homeRow
    rw [s5, s6]

theorem home_idem (H : Screen) (b : Bool) (hx : H.cursor.x = 0) (hy : H.cursor.y = homeRow H) (hi : Inv H) :
    homeIf b H = H := by
  unfold homeIf
  split
  · obtain ⟨a, b', c⟩ := home_spec H hi
    unfold OnlyCursorMoved at c
    rw [c, a, b', ← hx, ← hy]
  · rfl

/-- DECCOLM (set): 132 columns, the previous width remembered, screen erased with the current
    rendition, cursor home -/
theorem sm_deccolm (s : Screen) (h : Inv s) (ms : List Nat) (p : Bool)
    (hc : (shiftModes ms p).contains DECCOLM = true) :
    let t := setMode s ms p
    t.columns = 132 ∧ t.lines = s.lines ∧ t.savedColumns = some s.columns ∧
    (∀ y x, y < t.lines → x < t.columns → t.cell y x = { data := strSpace, attr := t.cursor.attr }) ∧
    t.cursor.x = 0 ∧ t.cursor.y = homeRow t := by
  simp only
  unfold setMode
  simp only [hc, if_true]
  obtain ⟨g1, g2, g3, g4⟩ := applySet_geom s (shiftModes ms p)
  have hX1 := inv_applySetModes h (shiftModes ms p)
  generalize applySetModes s (shiftModes ms p) = X1 at *
  unfold colmSet
  have h0 : Inv { X1 with savedColumns := some X1.columns } := by
    refine { hX1 with saved := ?_ }
    intro c e
    have e' : some X1.columns = some c := e
    simp only [Option.some.injEq] at e'
    subst e'
    exact ⟨hX1.cols, hX1.dimc⟩
  have hR := inv_resize h0 none (some 132) (by intro v e; cases e) (by
    intro v e
    simp only [Option.some.injEq] at e
    subst e
    decide)
  have qR := quiet_resize_width { X1 with savedColumns := some X1.columns } 132
  have cR := resize_width_columns { X1 with savedColumns := some X1.columns } 132
  have sR : (resize { X1 with savedColumns := some X1.columns } none (some 132)).savedColumns = some X1.columns := by
    unfold resize
    simp only [Option.getD_none, Option.getD_some, beq_self_eq_true, Bool.true_and, Nat.lt_irrefl, if_false]
    have hsm : ∀ t : Screen, setMargins t none none = { t with margins := none } := by
      intro t; simp [setMargins]
    split
    · rfl
    · rw [hsm]; split <;> rfl
  generalize resize { X1 with savedColumns := some X1.columns } none (some 132) = R at *
  obtain ⟨k1, k2, k3, k4, k5, k6, k7, k8, k9⟩ := erase_home R hR
  have hH := inv_cursorPosition (inv_eraseInDisplay hR (some 2)) none none
  generalize cursorPosition (eraseInDisplay R (some 2)) none none = H at *
  rw [home_idem H _ k8 k9 hH]
  obtain ⟨f1, f2, f3, f4, f5, f6, f7, f8, f9⟩ := hiddenIf_frame H ((shiftModes ms p).contains DECTCEM) false
  have fsc : (hiddenIf ((shiftModes ms p).contains DECTCEM) false H).savedColumns = H.savedColumns := by
    unfold hiddenIf; split <;> rfl
  refine ⟨by rw [f6, k1, cR], by rw [f7, k2, qR.lines]; exact g2, by rw [fsc, k6, sR, g1], ?_,
    by rw [f2, k8], ?_⟩
  · intro y x hy hx
    rw [f7, k2] at hy
    rw [f6, k1] at hx
    rw [f1, f9, k3]
    exact k7 y x hy hx
  · rw [f3, k9]
    unfold homeRow
    rw [f4, f5]

/-- DECCOLM (reset): the width saved by the last SM comes back if the screen is still 132 wide;
    screen erased, cursor home -/
theorem rm_deccolm (s : Screen) (h : Inv s) (ms : List Nat) (p : Bool)
    (hc : (shiftModes ms p).contains DECCOLM = true) :
    let t := resetMode s ms p
    t.columns = (if s.columns = 132 then s.savedColumns.getD s.columns else s.columns) ∧ t.lines = s.lines ∧
    (∀ y x, y < t.lines → x < t.columns → t.cell y x = { data := strSpace, attr := t.cursor.attr }) ∧
    t.cursor.x = 0 ∧ t.cursor.y = homeRow t := by
  simp only
  unfold resetMode
  simp only [hc, if_true]
  obtain ⟨g1, g2, g3, g4⟩ := applyReset_geom s (shiftModes ms p)
  have hX1 := inv_applyResetModes h (shiftModes ms p)
  generalize applyResetModes s (shiftModes ms p) = X1 at *
  unfold colmReset
  -- the state after the optional width restore
  have hR : ∃ R : Screen, R = colmRestore X1 ∧ Inv R ∧ R.lines = s.lines ∧
      R.columns = (if s.columns = 132 then s.savedColumns.getD s.columns else s.columns) := by
    refine ⟨_, rfl, inv_colmRestore hX1, by rw [(quiet_colmRestore X1).lines, g2], ?_⟩
    unfold colmRestore
    by_cases h132 : X1.columns = 132
    · have hb : (X1.columns == 132) = true := by simpa using h132
      simp only [hb, if_true]
      cases hsv : X1.savedColumns with
      | none =>
        rw [← g1, ← g3, h132, hsv]; simp [h132]
      | some sc =>
        show (resize X1 none (some sc)).columns = _
        rw [resize_width_columns, ← g1, ← g3, h132, hsv]; simp
    · have hb : (X1.columns == 132) = false := by simpa using h132
      simp only [hb, Bool.false_eq_true, if_false]
      rw [← g1]; simp [h132]
  obtain ⟨R, hRe, hRi, hRl, hRc⟩ := hR
  rw [← hRe]
  obtain ⟨k1, k2, k3, k4, k5, k6, k7, k8, k9⟩ := erase_home R hRi
  have hH := inv_cursorPosition (inv_eraseInDisplay hRi (some 2)) none none
  generalize cursorPosition (eraseInDisplay R (some 2)) none none = H at *
  rw [home_idem H _ k8 k9 hH]
  obtain ⟨f1, f2, f3, f4, f5, f6, f7, f8, f9⟩ := hiddenIf_frame H ((shiftModes ms p).contains DECTCEM) true
  refine ⟨by rw [f6, k1, hRc], by rw [f7, k2, hRl], ?_, by rw [f2, k8], ?_⟩
  · intro y x hy hx
    rw [f7, k2] at hy
    rw [f6, k1] at hx
    rw [f1, f9, k3]
    exact k7 y x hy hx
  · rw [f3, k9]
    unfold homeRow
    rw [f4, f5]

/-! #### executable predicate -/

theorem effectful_false {ml : List Nat} (h : effectful ml = false) : plain ml := by
  simp only [effectful, Bool.or_eq_false_iff] at h
  exact ⟨h.1.1.1, h.1.1.2, h.1.2, h.2⟩

/-- what a reset inside an SGR list resets to is the default rendition, whose reverse flag is the mode -/
theorem sgr_reset_is_mode (s : Screen) :
    (C08.specSgr (defaultAttr s) [0] s.cursor.attr).reverse = s.mode DECSCNM ∧
    (C08.specSgr (defaultAttr s) [0, 1] s.cursor.attr).reverse = s.mode DECSCNM := by
  simp [C08.specSgr, C08.specLoop, C08.specAct, defaultAttr]
  rfl

theorem C12_holds (env : Env) (cands : List Nat) (s : Screen) (c : Call) (h : Inv s) :
    propC12 cands s c (step env s c) = true := by
  cases c <;> try rfl
  case sgr attrs =>
    simp only [propC12, propRev, step, C08.sgr_eq_spec, beq_self_eq_true, Bool.or_true]
  case setMode ms p =>
    simp only [propC12, step, propModes, Bool.and_eq_true]
    refine ⟨⟨⟨⟨⟨?_, ?_⟩, ?_⟩, ?_⟩, ?_⟩, ?_⟩
    · simp only [List.all_eq_true, beq_iff_eq, if_true]
      intro m _
      exact sm_membership s ms p m
    · cases he : effectful (shiftModes ms p) with
      | true => rfl
      | false =>
        have e := sm_other s ms p (effectful_false he)
        simp [e, addModes, sameSettingsB, sameCellsB, sameDirtyB]
    · cases hc : (shiftModes ms p).contains DECTCEM with
      | false => rfl
      | true => simp [sm_dectcem s ms p hc]
    · cases hc : (shiftModes ms p).contains DECOM with
      | false => rfl
      | true =>
        obtain ⟨a, b⟩ := sm_decom s h ms p hc
        simp only [Bool.not_true, Bool.false_or, Bool.and_eq_true, beq_iff_eq]
        exact ⟨a, b⟩
    · cases hc : (shiftModes ms p).contains DECSCNM with
      | false => rfl
      | true =>
        cases hn : (shiftModes ms p).contains DECCOLM with
        | true => rfl
        | false =>
          obtain ⟨a, b, _, d⟩ := sm_decscnm s ms p hc hn
          simp only [Bool.not_false, Bool.and_self, Bool.not_true, Bool.false_or, Bool.and_eq_true,
            allCellsB_iff, beq_iff_eq, List.all_eq_true, List.mem_range]
          exact ⟨⟨fun y x _ _ => decide_eq_true (a y x), b⟩, d⟩
    · cases hc : (shiftModes ms p).contains DECCOLM with
      | false => rfl
      | true =>
        obtain ⟨a, b, _, d, e, f⟩ := sm_deccolm s h ms p hc
        simp only [Bool.not_true, Bool.false_or, Bool.and_eq_true, allCellsB_iff, beq_iff_eq, if_true]
        exact ⟨⟨⟨⟨a, b⟩, fun y x hy hx => decide_eq_true (d y x hy hx)⟩, e⟩, f⟩
  case resetMode ms p =>
    simp only [propC12, step, propModes, Bool.and_eq_true]
    refine ⟨⟨⟨⟨⟨?_, ?_⟩, ?_⟩, ?_⟩, ?_⟩, ?_⟩
    · simp only [List.all_eq_true, beq_iff_eq, Bool.false_eq_true, if_false]
      intro m _
      exact rm_membership s ms p m
    · cases he : effectful (shiftModes ms p) with
      | true => rfl
      | false =>
        have e := rm_other s ms p (effectful_false he)
        simp [e, removeModes, sameSettingsB, sameCellsB, sameDirtyB]
    · cases hc : (shiftModes ms p).contains DECTCEM with
      | false => rfl
      | true => simp [rm_dectcem s ms p hc]
    · cases hc : (shiftModes ms p).contains DECOM with
      | false => rfl
      | true =>
        obtain ⟨a, b⟩ := rm_decom s h ms p hc
        have hmode : (resetMode s ms p).mode DECOM = false := by rw [rm_membership, hc]; rfl
        have hr : homeRow (resetMode s ms p) = 0 := by
          unfold homeRow; rw [hmode]
          cases (resetMode s ms p).margins with
          | none => rfl
          | some tb => rfl
        simp only [Bool.not_true, Bool.false_or, Bool.and_eq_true, beq_iff_eq]
        exact ⟨a, by rw [b, hr]⟩
    · cases hc : (shiftModes ms p).contains DECSCNM with
      | false => rfl
      | true =>
        cases hn : (shiftModes ms p).contains DECCOLM with
        | true => rfl
        | false =>
          obtain ⟨a, b, _, d⟩ := rm_decscnm s ms p hc hn
          simp only [Bool.not_false, Bool.and_self, Bool.not_true, Bool.false_or, Bool.and_eq_true,
            allCellsB_iff, beq_iff_eq, List.all_eq_true, List.mem_range]
          exact ⟨⟨fun y x _ _ => decide_eq_true (a y x), b⟩, d⟩
    · cases hc : (shiftModes ms p).contains DECCOLM with
      | false => rfl
      | true =>
        obtain ⟨a, b, d, e, f⟩ := rm_deccolm s h ms p hc
        simp only [Bool.not_true, Bool.false_or, Bool.and_eq_true, allCellsB_iff, beq_iff_eq,
          Bool.false_eq_true, if_false]
        refine ⟨⟨⟨⟨?_, b⟩, fun y x hy hx => decide_eq_true (d y x hy hx)⟩, e⟩, f⟩
        rw [a]


/-- non-vacuity: SM ?3 on a 10x3 screen gives 132 columns, RM ?3 gives 10 back -/
example :
    let s := setMode (init 10 3) [3] true
    s.columns = 132 ∧ s.savedColumns = some 10 ∧ (resetMode s [3] true).columns = 10 := by decide

/-! #### the sparse layer -/

/-- DECSCNM flips the cells that EXIST in the buffer; never-written cells follow because they read
    as `default_char()`, which consults the mode: together this is the dense "every cell" -/
theorem sparse_setMode (ss : Sparse.SScreen) (ms : List Nat) (p : Bool) :
    Sparse.abs (Sparse.setMode ss ms p) = setMode (Sparse.abs ss) ms p := Sparse.abs_setMode ss ms p

theorem sparse_resetMode (ss : Sparse.SScreen) (ms : List Nat) (p : Bool) :
    Sparse.abs (Sparse.resetMode ss ms p) = resetMode (Sparse.abs ss) ms p := Sparse.abs_resetMode ss ms p

/-! #### the order of the blocks in the source -/

/-- `set_mode` written block by block in the order of src/screen.rs (the reverse-video block AFTER the
    DECCOLM and DECOM blocks) is the same function as the model's `setMode` (which has it first) -/
theorem source_order_set (s : Screen) (modes : List Nat) (priv : Bool) :
    setModeSrc s modes priv = setMode s modes priv := setModeSrc_eq s modes priv

theorem source_order_reset (s : Screen) (modes : List Nat) (priv : Bool) :
    resetModeSrc s modes priv = resetMode s modes priv := resetModeSrc_eq s modes priv

end C12
end Memterm

