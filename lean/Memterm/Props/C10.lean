import Memterm.Proofs.InvStep
import Memterm.Spec.C10
import Memterm.Proofs.SparseStep

/-
  C10 — display() is a faithful and side-effect-free rendering of the grid.

  In the observation model `display` is a function of the state.  The implementation's
  `display()` materialises default cells in its sparse buffer; the sparse layer
  (`Memterm/Sparse.lean`, `Sparse.display`) models exactly that, and the theorems at the end of
  this file show that the materialisation is unobservable and that the returned strings are
  the rendering of the observation - for every state and however often it is called.  The tie of
  the sparse layer to the crate is measured on every transition (raw-buffer agreement, in the
  evidence); on the implementation the property is decided on every display transition
  (obs post = obs pre, rendering = `display env (obs pre)`) and by the model-free runs with
  display() interposed at arbitrary points of a history.
-/
namespace Memterm
namespace C10

theorem renderRow_spec (env : Env) (s : Screen) (y : Nat) (fuel x : Nat) (h : s.columns ≤ x + fuel) :
    renderRow env s y fuel x false = specRender env.W (rowTexts s y x) ∧
    renderRow env s y fuel x true = specRender env.W ((rowTexts s y x).drop 1) := by
  induction fuel generalizing x with
  | zero =>
    have : s.columns - x = 0 := by omega
    simp [renderRow, rowTexts, this, specRender]
  | succ f ih =>
    by_cases hx : x < s.columns
    · have hr : rowTexts s y x = (s.cell y x).data :: rowTexts s y (x + 1) := by
        unfold rowTexts
        have : s.columns - x = (s.columns - (x + 1)) + 1 := by omega
        rw [this, List.range'_succ]
        rfl
      obtain ⟨i1, i2⟩ := ih (x + 1) (by omega)
      constructor
      · rw [hr]
        simp only [renderRow, hx, if_true, Bool.false_eq_true, if_false]
        rw [specRender]
        cases hw : wideText env.W (s.cell y x).data with
        | true => simp only [if_true]; rw [i2]
        | false => simp only [Bool.false_eq_true, if_false]; rw [i1]
      · rw [hr]
        simp only [renderRow, hx, if_true, List.drop_succ_cons, List.drop_zero]
        exact i1
    · have : s.columns - x = 0 := by omega
      simp [renderRow, hx, rowTexts, this, specRender]

/-- display(): exactly `lines` rows, each the documented rendering of that row's cells -/
theorem display_spec (env : Env) (s : Screen) :
    display env s = (List.range s.lines).map (fun y => specRender env.W (rowTexts s y 0)) := by
  unfold display
  apply List.map_congr_left
  intro y _
  exact (renderRow_spec env s y s.columns 0 (by omega)).1

theorem display_length (env : Env) (s : Screen) : (display env s).length = s.lines := by
  simp [display]

/-- display() does not change the state -/
theorem display_pure (env : Env) (s : Screen) : step env s .display = s := rfl

/-- calling display() - any number of times, at any points of a history - changes neither the
    final state nor the effect of any later operation -/
theorem run_strip (env : Env) (s : Screen) (h : List Call) : run env s h = run env s (strip h) := by
  induction h generalizing s with
  | nil => rfl
  | cons c rest ih =>
    cases c
    case display => simp only [run, List.foldl_cons, strip]; exact ih (step env s .display)
    all_goals (simp only [run, List.foldl_cons, strip]; exact ih _)

/-- two runs of the same history that differ only in where display() was called end in the same state -/
theorem display_positions_irrelevant (env : Env) (s : Screen) (h1 h2 : List Call) (e : strip h1 = strip h2) :
    run env s h1 = run env s h2 := by
  rw [run_strip env s h1, run_strip env s h2, e]

/-! #### the sparse layer: materialisation is unobservable -/

/-- `display()` on the sparse state (absent rows and cells are inserted as it reads them) returns the
    rendering of the observation ... -/
theorem sparse_display_renders (env : Env) (ss : Sparse.SScreen) :
    (Sparse.display env ss).2 = display env (Sparse.abs ss) := Sparse.display_eq env ss

/-- ... and changes no observation: never-written cells still read as blanks, everything else is untouched -/
theorem sparse_display_pure (env : Env) (ss : Sparse.SScreen) :
    Sparse.abs (Sparse.display env ss).1 = Sparse.abs ss := Sparse.abs_display env ss

/-- two runs of the same history on the sparse state that differ only in where display() was called
    (so: in which cells were materialised when) end in the same observable state -/
theorem sparse_display_positions_irrelevant (env : Env) (columns lines : Nat) (hc : 1 ≤ columns) (hl : 1 ≤ lines)
    (hdc : columns < dimBound) (hdl : lines < dimBound)
    (h1 h2 : List Call) (e : strip h1 = strip h2)
    (a1 : ∀ c ∈ h1, c.argOk = true) (a2 : ∀ c ∈ h2, c.argOk = true) :
    Sparse.abs (h1.foldl (Sparse.step env) (Sparse.init columns lines)) =
      Sparse.abs (h2.foldl (Sparse.step env) (Sparse.init columns lines)) := by
  have hi : Inv (Sparse.abs (Sparse.init columns lines)) := by
    rw [Sparse.abs_init]; exact inv_init columns lines hc hl hdc hdl
  rw [Sparse.abs_run env h1 _ hi a1, Sparse.abs_run env h2 _ hi a2]
  exact display_positions_irrelevant env _ h1 h2 e

/-- non-vacuity of the sparse statements: after drawing one character into a 3x2 screen the buffer holds
    one row with one cell; display() materialises all six cells; the rendering and every observation
    are unchanged -/
example :
    let env : Env := { W := fun _ => 1, CM := fun _ => false, NFC := id }
    let ss := Sparse.draw env (Sparse.init 3 2) [97]
    let dd := Sparse.display env ss
    ss.buf.length = 1 ∧ (ss.buf.map (fun r => r.2.length)) = [1] ∧
    dd.1.buf.length = 2 ∧ (dd.1.buf.map (fun r => r.2.length)) = [3, 3] ∧
    dd.2 = [[97, 32, 32], [32, 32, 32]] ∧ display env (Sparse.abs dd.1) = dd.2 := by
  decide

/-- a never-written (blank) row renders as `columns` spaces -/
theorem blank_row (env : Env) (s : Screen) (y : Nat) (hw : env.W 32 ≠ 2)
    (hb : ∀ x, (s.cell y x).data = strSpace) :
    specRender env.W (rowTexts s y 0) = List.replicate s.columns 32 := by
  have : ∀ n x, specRender env.W ((List.range' x n).map (fun x => (s.cell y x).data)) = List.replicate n 32 := by
    intro n
    induction n with
    | zero => intro x; simp [specRender]
    | succ n ih =>
      intro x
      rw [List.range'_succ, List.map_cons, specRender]
      have hw' : (env.W 32 == 2) = false := by simpa using hw
      simp only [hb x, strSpace, wideText, List.head?_cons, hw', Bool.false_eq_true, if_false, ih (x + 1)]
      rfl
  unfold rowTexts
  simpa using this s.columns 0

/-- non-vacuity: an orphaned placeholder, a wide character in the last column, a combining sequence -/
example :
    let env : Env := { W := fun c => if c == 0x30b3 then 2 else if c == 0x301 then 0 else 1,
                       CM := fun c => c == 0x301, NFC := id }
    let s := draw env (init 4 2) [0x30b3, 97, 0x301, 0x30b3]
    let t := draw env (cariageReturn s) [120]
    display env s = [[0x30b3, 97, 0x301, 0x30b3], [32, 32, 32, 32]] ∧
    display env t = [[120, 97, 0x301, 0x30b3], [32, 32, 32, 32]] := by
  decide

end C10
end Memterm

