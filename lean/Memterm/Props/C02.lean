import Memterm.Utf8

/-
  C02 — Streaming: the result is independent of how the input is chunked.

  In the model every piece of state that survives a `feed()` call is explicit
  (`taking`, the coroutine position, the UTF-8 flag, the decoder state), so
  chunk-independence is the statement that feeding is a fold.  That the real
  `feed`s are such folds is the content of the tie: the lockstep event
  correspondence and the model-free re-chunking runs on the implementation.
-/
namespace Memterm
namespace C02

/-- feeding a list of chunks one after the other -/
def feedAll (p : Parser) : List (List Nat) → Parser × List Call
  | [] => (p, [])
  | c :: cs =>
    let r := feed p c
    let r2 := feedAll r.1 cs
    (r2.1, r.2 ++ r2.2)

theorem feed_append (p : Parser) (a b : List Nat) :
    feed p (a ++ b) = ((feed (feed p a).1 b).1, (feed p a).2 ++ (feed (feed p a).1 b).2) := by
  induction a generalizing p with
  | nil => simp [feed]
  | cons c cs ih =>
    simp only [List.cons_append, feed]
    rw [ih]
    simp [List.append_assoc]

/-- characters: any partition into consecutive chunks (empty chunks included) gives the same
    parser state and the same listener calls, in the same order, as one feed of the concatenation -/
theorem chars_chunking (p : Parser) (chunks : List (List Nat)) :
    feedAll p chunks = feed p chunks.flatten := by
  induction chunks generalizing p with
  | nil => rfl
  | cons c cs ih =>
    simp only [feedAll, List.flatten_cons, feed_append, ih]

theorem feed_nil (p : Parser) : feed p [] = (p, []) := rfl

/-! bytes -/

def feedBytesAll (bp : ByteParser) : List (List Nat) → ByteParser × List Call
  | [] => (bp, [])
  | c :: cs =>
    let r := feedBytes bp c
    let r2 := feedBytesAll r.1 cs
    (r2.1, r.2 ++ r2.2)

theorem utf8Decode_append (d : DState) (a b : List Nat) :
    utf8Decode d (a ++ b) =
      ((utf8Decode (utf8Decode d a).1 b).1, (utf8Decode d a).2 ++ (utf8Decode (utf8Decode d a).1 b).2) := by
  induction a generalizing d with
  | nil => simp [utf8Decode]
  | cons c cs ih =>
    simp only [List.cons_append, utf8Decode]
    rw [ih]
    simp [List.append_assoc]

/-- `feed` never changes the UTF-8 flag (only `select_other_charset` does) -/
theorem feed_useUtf8 (p : Parser) (cs : List Nat) : (feed p cs).1.useUtf8 = p.useUtf8 := by
  induction cs generalizing p with
  | nil => rfl
  | cons c cs ih =>
    simp only [feed]
    rw [ih]
    unfold pstep
    simp only
    split <;> (try split) <;> rfl

theorem feedBytes_useUtf8 (bp : ByteParser) (bs : List Nat) :
    (feedBytes bp bs).1.parser.useUtf8 = bp.parser.useUtf8 := by
  unfold feedBytes
  split
  · simp only [feed_useUtf8]
  · simp only [feed_useUtf8]

theorem feedBytes_append (bp : ByteParser) (a b : List Nat) :
    feedBytes bp (a ++ b) =
      ((feedBytes (feedBytes bp a).1 b).1, (feedBytes bp a).2 ++ (feedBytes (feedBytes bp a).1 b).2) := by
  have hu := feedBytes_useUtf8 bp a
  unfold feedBytes at hu ⊢
  by_cases h : bp.parser.useUtf8 = true
  · simp only [h, if_true] at hu ⊢
    simp only [hu, if_true, utf8Decode_append, feed_append]
  · have h' : bp.parser.useUtf8 = false := by simpa using h
    simp only [h', Bool.false_eq_true, if_false] at hu ⊢
    simp only [hu, Bool.false_eq_true, if_false, feed_append]

/-- bytes: cutting the stream at any byte offset - inside a multi-byte UTF-8 character, inside an
    escape sequence - gives the same decoder state, parser state and calls (both modes) -/
theorem bytes_chunking (bp : ByteParser) (chunks : List (List Nat)) :
    feedBytesAll bp chunks = feedBytes bp chunks.flatten := by
  induction chunks generalizing bp with
  | nil =>
    simp only [feedBytesAll, List.flatten_nil, feedBytes, utf8Decode, feed]
    split <;> rfl
  | cons c cs ih =>
    simp only [feedBytesAll, List.flatten_cons, feedBytes_append, ih]

/-- an empty chunk is a no-op -/
theorem empty_chunk (bp : ByteParser) : feedBytes bp [] = (bp, []) := by
  simp only [feedBytes, utf8Decode, feed]
  split <;> rfl

/-- the screen state after a stream is the fold of `step` over the calls, so it too depends only
    on the concatenation -/
theorem screen_chunking (env : Env) (s : Screen) (bp : ByteParser) (chunks : List (List Nat)) :
    run env s (feedBytesAll bp chunks).2 = run env s (feedBytes bp chunks.flatten).2 := by
  rw [bytes_chunking]

/-- non-vacuity: `ESC [ 3 1 m é` cut inside the CSI and inside the two-byte character -/
example :
    (feedBytesAll ByteParser.init [[27, 91, 51], [49, 109, 0xc3], [], [0xa9]]).2 =
      [.sgr [31], .draw [0xe9]] := by decide

end C02
end Memterm
