import Memterm.Props.C03
import Memterm.Props.Frame
import Memterm.Spec.C19

/-
  C19 — OSC 0/1/2 set title and icon name to exactly the payload.
-/
namespace Memterm
namespace C19

open Gen C03

theorem osc_plain (utf8 : Bool) (code : Nat) (param : List Nat) (c : Nat) (h : okChar c) :
    send utf8 (.oscParam code param) c = (.oscParam code (param ++ [c]), []) := by
  obtain ⟨h1, h2, h3⟩ := h
  simp [send, isStr, ESC, OSC_TERMINATORS, h1, h2, h3]

theorem osc_pair (utf8 : Bool) (code : Nat) (param : List Nat) (x : Nat) (h : x ≠ 92) :
    send utf8 (.oscParam code param) 27 = (.oscParamEsc code param, []) ∧
    send utf8 (.oscParamEsc code param) x = (.oscParam code (param ++ [27, x]), []) := by
  refine ⟨rfl, ?_⟩
  simp [send, ESC, OSC_TERMINATORS, h]

/-- the three terminators end the string and dispatch -/
theorem osc_terminators (utf8 : Bool) (code : Nat) (param : List Nat) :
    send utf8 (.oscParam code param) 7 = (.ground, oscFinish code param) ∧
    send utf8 (.oscParam code param) 0x9c = (.ground, oscFinish code param) ∧
    send utf8 (.oscParamEsc code param) 92 = (.ground, oscFinish code param) :=
  ⟨rfl, rfl, rfl⟩

theorem feed_atoms (p : Parser) (code : Nat) (param : List Nat) (atoms : List Atom)
    (hp : p.taking = false ∧ p.fsm = .oscParam code param) :
    feed p (payloadOf atoms) = ({ p with fsm := .oscParam code (param ++ payloadOf atoms) }, []) := by
  induction atoms generalizing p param with
  | nil =>
    simp only [payloadOf, List.map_nil, List.flatten_nil, feed, List.append_nil]
    cases p; simp_all
  | cons a rest ih =>
    cases a with
    | plain c h =>
      simp only [payloadOf, List.map_cons, List.flatten_cons, Atom.chars, List.singleton_append]
      rw [feed_cons_fsm p hp.1, hp.2, osc_plain _ _ _ _ h]
      have := ih { p with taking := (PState.oscParam code (param ++ [c]) == PState.ground),
                          fsm := .oscParam code (param ++ [c]) } (param ++ [c]) ⟨rfl, rfl⟩
      simp only [payloadOf] at this
      simp only [this, List.nil_append, List.append_assoc, List.singleton_append]
      cases p; simp_all
    | pair x h =>
      simp only [payloadOf, List.map_cons, List.flatten_cons, Atom.chars, List.cons_append, List.nil_append]
      rw [feed_cons_fsm p hp.1, hp.2, (osc_pair _ _ _ x h).1]
      rw [feed_cons_fsm _ rfl]
      simp only [(osc_pair _ _ _ x h).2]
      have := ih { p with taking := (PState.oscParam code (param ++ [27, x]) == PState.ground),
                          fsm := .oscParam code (param ++ [27, x]) } (param ++ [27, x]) ⟨rfl, rfl⟩
      simp only [payloadOf] at this
      simp only [this, List.nil_append, List.append_assoc, List.cons_append]
      cases p; simp_all

theorem oscFinish_eq (code : Nat) (payload : List Nat) :
    oscFinish code (59 :: payload) = titleCalls code payload := by
  simp [oscFinish, oscCodeEnds, titleCalls]

/-- the string from the code character on, fed while the recogniser waits for the code -/
theorem osc_body (p : Parser) (code : Nat) (atoms : List Atom) (term : List Nat)
    (hp : p.taking = false ∧ p.fsm = .oscCode)
    (hcode : code ≠ 82 ∧ okChar code)
    (hterm : term = [7] ∨ term = [0x9c] ∨ term = [27, 92]) :
    feed p ([code, 59] ++ payloadOf atoms ++ term) =
      ({ p with taking := true, fsm := .ground }, titleCalls code (payloadOf atoms)) := by
  obtain ⟨c1, c3, c4, c5⟩ := hcode
  have hs : send p.useUtf8 .oscCode code = (.oscParam code [], []) := by
    simp [send, isStr, ESC, OSC_TERMINATORS, c1, c3, c4, c5]
  have h59 : okChar 59 := by decide
  simp only [List.cons_append, List.nil_append, List.append_assoc]
  rw [feed_cons_fsm p hp.1, hp.2, hs, feed_cons_fsm _ rfl]
  simp only [osc_plain _ _ _ _ h59, List.nil_append]
  rw [C02.feed_append, feed_atoms _ code [59] atoms ⟨rfl, rfl⟩]
  simp only [List.nil_append]
  rcases hterm with e | e | e <;> subst e
  · rw [feed_cons_fsm _ rfl]
    simp only [(osc_terminators _ _ _).1, feed, List.append_nil, beq_self_eq_true, List.singleton_append, oscFinish_eq]
  · rw [feed_cons_fsm _ rfl]
    simp only [(osc_terminators _ _ _).2.1, feed, List.append_nil, beq_self_eq_true, List.singleton_append, oscFinish_eq]
  · rw [feed_cons_fsm _ rfl]
    have e1 : send p.useUtf8 (.oscParam code (59 :: payloadOf atoms)) 27 = (.oscParamEsc code (59 :: payloadOf atoms), []) := rfl
    simp only [List.singleton_append, e1, List.nil_append]
    rw [feed_cons_fsm _ rfl]
    simp only [(osc_terminators _ _ _).2.2, feed, List.append_nil, beq_self_eq_true, oscFinish_eq]

/-- OSC 0 / 1 / 2: for every payload (any characters incl. `;` `\` `]` spaces, non-ASCII, C0 controls
    other than BEL, embedded `ESC x` pairs), each terminator and both introducers, icon name and/or
    title are set to exactly the text between the first `;` and the terminator; nothing is drawn
    and the recogniser is back in the ground state. -/
theorem osc_title (p : Parser) (hp : Ground p) (intro : List Nat) (hi : intro = [27, 93] ∨ intro = [0x9d])
    (code : Nat) (hcode : code = 48 ∨ code = 49 ∨ code = 50) (atoms : List Atom) (term : List Nat)
    (hterm : term = [7] ∨ term = [0x9c] ∨ term = [27, 92]) :
    feed p (intro ++ ([code, 59] ++ payloadOf atoms ++ term)) = (p, titleCalls code (payloadOf atoms)) := by
  have hpe : p = { taking := true, fsm := .ground, useUtf8 := p.useUtf8 } := by
    cases p; simp only [Parser.mk.injEq, and_true]; exact ⟨hp.1, hp.2⟩
  have hc : code ≠ 82 ∧ okChar code := by
    rcases hcode with e | e | e <;> subst e <;> decide
  rcases hi with e | e <;> subst e
  · simp only [List.cons_append, List.nil_append]
    rw [feed_cons_special p hp 27 (by decide)]
    simp only [esc_starts, List.nil_append]
    rw [feed_cons_fsm _ rfl]
    simp only [(introducers p.useUtf8).2.2.1, List.nil_append]
    have := osc_body { taking := (PState.oscCode == PState.ground), fsm := .oscCode, useUtf8 := p.useUtf8 }
      code atoms term ⟨rfl, rfl⟩ hc hterm
    simp only [List.cons_append, List.nil_append, List.append_assoc] at this
    rw [this]
    rw [hpe]
  · simp only [List.cons_append, List.nil_append]
    rw [feed_cons_special p hp 0x9d (by decide)]
    simp only [(introducers p.useUtf8).2.2.2, List.nil_append]
    have := osc_body { taking := (PState.oscCode == PState.ground), fsm := .oscCode, useUtf8 := p.useUtf8 }
      code atoms term ⟨rfl, rfl⟩ hc hterm
    simp only [List.cons_append, List.nil_append, List.append_assoc] at this
    rw [this]
    rw [hpe]

/-- an empty payload sets the empty string -/
theorem osc_empty_payload (code : Nat) : titleCalls code (payloadOf []) = titleCalls code [] := rfl

/-- OSC strings with other codes are consumed without any effect -/
theorem osc_other_code (code : Nat) (param : List Nat) (h : code ≠ 48 ∧ code ≠ 49 ∧ code ≠ 50) :
    oscFinish code param = [] := by
  obtain ⟨h1, h2, h3⟩ := h
  simp [oscFinish, h1, h2, h3]

/-- The code is the whole text before the first `;`: when the one-character code is followed by
    anything but the separator (`OSC 10 ; x`, `OSC 133 ; A`, `OSC 1 x`), the string is another command
    and has no effect - whatever its first character is. -/
theorem osc_longer_code (code c : Nat) (rest : List Nat) (h : c ≠ 59) : oscFinish code (c :: rest) = [] := by
  simp [oscFinish, oscCodeEnds, h]

/-- e.g. `ESC ] 1 0 ; f o o BEL` and `ESC ] 1 3 3 ; A ESC \` make no listener call -/
example : (feed Parser.init [27, 93, 49, 48, 59, 102, 111, 111, 7]).2 = [] ∧
    (feed Parser.init [27, 93, 49, 51, 51, 59, 65, 27, 92]).2 = [] := by decide

/-- no call made by an OSC string draws or moves anything: only title / icon name change -/
theorem title_calls_frame (env : Env) (s : Screen) (t : List Nat) :
    step env s (.setTitle t) = { s with title := t } ∧ step env s (.setIconName t) = { s with icon := t } :=
  ⟨rfl, rfl⟩

theorem C19_holds (env : Env) (cands : List Nat) (s : Screen) (c : Call) :
    propC19 cands s c (step env s c) = true := by
  cases c <;> try rfl
  all_goals simp [propC19, step, setTitle, setIconName, sameSettingsB, sameCellsB, sameDirtyB]

/-- non-vacuity: `ESC ] 0 ; C:\dir;x ESC q y ESC \` sets both to `C:\dir;x ESC q y` -/
example :
    (feed Parser.init ([27, 93] ++ ([48, 59] ++ payloadOf
        [.plain 67 (by decide), .plain 58 (by decide), .plain 92 (by decide), .plain 59 (by decide),
         .pair 113 (by decide), .plain 121 (by decide)] ++ [27, 92]))).2 =
      [.setIconName [67, 58, 92, 59, 27, 113, 121], .setTitle [67, 58, 92, 59, 27, 113, 121]] := by
  decide

end C19
end Memterm

