import Memterm.Props.C05

/-
  Executable property predicates, evaluated by the driver on the
  implementation's own transitions.  Each predicate is the definition the
  corresponding theorem in `Memterm/Props/Cxx.lean` is about.
-/
namespace Memterm

/-- (property id, what failed) for every predicate in scope of `c` that is false. -/
def propFailures (_env : Env) (cands : List Nat) (pre : Screen) (c : Call) (post : Screen) :
    List (String × String) :=
  (if C05.propC05 cands pre c post then [] else
    [("C05", s!"expected cursor {repr (C05.expected pre c)}, got ({post.cursor.x},{post.cursor.y}), or something other than the cursor position changed")])

end Memterm
