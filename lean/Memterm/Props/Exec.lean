import Memterm.Step

/-
  Executable property predicates, evaluated by the driver on the
  implementation's own transitions.  Each predicate is the definition the
  corresponding theorem in `Memterm/Props/Cxx.lean` is about.
-/
namespace Memterm

/-- (property id, what failed) for every predicate in scope of `c` that is false. -/
def propFailures (_env : Env) (_pre : Screen) (_c : Call) (_post : Screen) : List (String × String) := []

end Memterm
