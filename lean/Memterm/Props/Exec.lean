import Memterm.Spec.C05
import Memterm.Spec.C06
import Memterm.Spec.C07
import Memterm.Spec.C13
import Memterm.Spec.C18
import Memterm.Spec.C08
import Memterm.Spec.C12
import Memterm.Spec.C14
import Memterm.Spec.C15
import Memterm.Spec.C16
import Memterm.Spec.C17
import Memterm.Spec.C19
import Memterm.Spec.C04
import Memterm.Spec.C20
import Memterm.Spec.C10

/-
  Executable property predicates, evaluated by the driver on the
  implementation's own transitions.  Each predicate is the definition the
  corresponding theorem in `Memterm/Props/Cxx.lean` is about.
-/
namespace Memterm

/-- (property id, what failed) for every predicate in scope of `c` that is false. -/
def propFailures (env : Env) (cands : List Nat) (pre : Screen) (c : Call) (post : Screen) :
    List (String × String) :=
  (if C05.propC05 cands pre c post then [] else
    [("C05", s!"expected cursor {repr (C05.expected pre c)}, got ({post.cursor.x},{post.cursor.y}), or something other than the cursor position changed")]) ++
  (if C06.propC06 cands pre c post then [] else
    [("C06", s!"grid / cursor / margins after {c.name} differ from the documented outcome (cursor ({post.cursor.x},{post.cursor.y}), margins {repr post.margins})")]) ++
  (if C06.propC06wrap env pre c post then [] else
    [("C06", s!"autowrap on the bottom margin did not scroll the region up by exactly one line (cursor ({post.cursor.x},{post.cursor.y}), margins {repr post.margins})")]) ++
  (if C07.propC07 cands pre c post then [] else
    [("C07", s!"cells after {c.name} differ from the documented erased region, or cursor/settings changed")]) ++
  (if C13.propC13 cands pre c post then [] else
    [("C13", s!"cursor row after {c.name} is not the documented splice, or another row / the cursor / settings changed")]) ++
  (if C18.propC18 cands pre c post then [] else
    [("C18", s!"tab stops / cursor after {c.name} differ from the documented outcome (cursor.x={post.cursor.x})")]) ++
  (if C08.propC08 cands pre c post then [] else
    [("C08", s!"rendition after SGR is not the documented fold (got fg={post.cursor.attr.fg} bg={post.cursor.attr.bg}), or something else changed")]) ++
  (if C12.propC12 cands pre c post then [] else
    [("C12", s!"mode membership or a documented side effect of {c.name} is wrong - for SGR: the reverse flag a reset inside the list resets to is not the mode's (columns={post.columns}, cursor=({post.cursor.x},{post.cursor.y}), hidden={post.cursor.hidden}, reverse={post.cursor.attr.reverse})")]) ++
  (if C14.propC14 cands pre c post then [] else
    [("C14", s!"saved-cursor stack / restored state after {c.name} differ from the documented outcome (depth {post.savepoints.length}, cursor=({post.cursor.x},{post.cursor.y}))")]) ++
  (if C15.propC15 cands pre c post then [] else
    [("C15", "state after reset differs from the power-on state of a screen of the current size")]) ++
  (if C16.propC16 cands pre c post then [] else
    [("C16", s!"state after resize differs from the documented outcome ({post.columns}x{post.lines}, cursor=({post.cursor.x},{post.cursor.y}), margins {repr post.margins})")]) ++
  (if C04.propC04 env cands pre c post then [] else
    [("C04", s!"cells / cursor after draw differ from the documented rendering, or a setting changed (cursor=({post.cursor.x},{post.cursor.y}))")]) ++
  (if C17.propC17 pre c post then [] else
    [("C17", s!"after {c.name} a changed row is not in the dirty set, an earlier mark was lost, a screen-wide change did not mark every row, or a dirty index is not a row")]) ++
  (if C19.propC19 cands pre c post then [] else
    [("C19", s!"{c.name} changed something other than the title / icon name, or did not store exactly its argument")]) ++
  (if C20.propC20 env cands pre c post then [] else
    [("C20", s!"{c.name}: drawn cells / charset state differ from the published tables and designators")])

end Memterm
