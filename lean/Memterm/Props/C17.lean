import Memterm.Props.C16
import Memterm.Props.C15
import Memterm.Props.C04
import Memterm.Spec.C17

/-
  C17 — The dirty set covers every row whose appearance changed.
-/
namespace Memterm
namespace C17

open Gen

theorem Good.refl (s : Screen) : Good s s := ⟨fun _ _ _ h => absurd rfl h, fun _ h => h, rfl⟩

theorem Good.trans {a b c : Screen} (h1 : Good a b) (h2 : Good b c) : Good a c := by
  refine ⟨?_, fun d h => h2.mono d (h1.mono d h), h2.lines.trans h1.lines⟩
  intro y x hy hne
  by_cases e : c.cell y x = b.cell y x
  · rw [e] at hne
    exact h2.mono y (h1.covers y x (by rw [← h2.lines]; exact hy) hne)
  · exact h2.covers y x hy e

theorem AllDirty.good {a b : Screen} (h1 : AllDirty a) (h2 : Good a b) : AllDirty b :=
  fun y hy => h2.mono y (h1 y (by rw [← h2.lines]; exact hy))

theorem Step.trans {a b c : Screen} (h1 : Step a b) (h2 : Step b c) : Step a c := by
  rcases h1 with h1 | h1 <;> rcases h2 with h2 | h2
  · exact Or.inl (h1.trans h2)
  · exact Or.inr h2
  · exact Or.inr (h1.good h2)
  · exact Or.inr h2

/-- cells and dirty set untouched -/
theorem good_of_same {s s' : Screen} (hc : s'.cell = s.cell) (hd : s'.dirty = s.dirty) (hl : s'.lines = s.lines) :
    Good s s' :=
  ⟨fun y x _ h => absurd (by rw [hc]) h, fun d h => by rw [hd]; exact h, hl⟩

theorem good_of_ocm {s s' : Screen} (h : OnlyCursorMoved s s') : Good s s' :=
  good_of_same h.cell h.dirty h.sameSettings.2.1

/-- cells of a set of rows rewritten, those rows (and possibly more) marked -/
theorem good_of_rows {s s' : Screen} (rows : Nat → Prop)
    (hc : ∀ y x, ¬ rows y → s'.cell y x = s.cell y x)
    (hd : ∀ d, s'.dirty d = true ↔ (rows d ∧ d < s.lines) ∨ s.dirty d = true ∨ (s'.dirty d = true ∧ ¬ rows d))
    (hl : s'.lines = s.lines) : Good s s' := by
  refine ⟨?_, fun d h => (hd d).mpr (Or.inr (Or.inl h)), hl⟩
  intro y x hy hne
  by_cases hr : rows y
  · exact (hd y).mpr (Or.inl ⟨hr, by rw [← hl]; exact hy⟩)
  · exact absurd (hc y x hr) hne

theorem good_markDirty (s : Screen) (y : Nat) : Good s (markDirty s y) :=
  ⟨fun _ _ _ h => absurd rfl h, fun d h => by simp [markDirty, h], rfl⟩

theorem good_markDirtyRange (s : Screen) (lo hi : Nat) : Good s (markDirtyRange s lo hi) :=
  ⟨fun _ _ _ h => absurd rfl h, fun d h => by simp [markDirtyRange, h], rfl⟩

/-! #### the operations that rewrite cells -/

theorem good_ich (s : Screen) (n : Option Nat) : Good s (insertCharacters s n) := by
  refine ⟨?_, fun d h => by simp [insertCharacters, markDirty, h], rfl⟩
  intro y x _ hne
  simp only [insertCharacters, markDirty, Bool.or_eq_true, beq_iff_eq]
  by_cases e : y = s.cursor.y
  · exact Or.inl e
  · exfalso; apply hne; simp [insertCharacters, e]

theorem good_dch (s : Screen) (n : Option Nat) : Good s (deleteCharacters s n) := by
  refine ⟨?_, fun d h => by simp [deleteCharacters, markDirty, h], rfl⟩
  intro y x _ hne
  simp only [deleteCharacters, markDirty, Bool.or_eq_true, beq_iff_eq]
  by_cases e : y = s.cursor.y
  · exact Or.inl e
  · exfalso; apply hne; simp [deleteCharacters, e]

theorem good_ech (s : Screen) (n : Option Nat) : Good s (eraseCharacters s n) := by
  refine ⟨?_, fun d h => by simp [eraseCharacters, markDirty, h], rfl⟩
  intro y x _ hne
  simp only [eraseCharacters, markDirty, Bool.or_eq_true, beq_iff_eq]
  by_cases e : y = s.cursor.y
  · exact Or.inl e
  · exfalso; apply hne; simp [eraseCharacters, e]

theorem good_el (s : Screen) (how : Option Nat) : Good s (eraseInLine s how) := by
  unfold eraseInLine
  simp only
  split
  · exact good_markDirty s _
  · refine ⟨?_, fun d h => by simp [markDirty, h], rfl⟩
    intro y x _ hne
    simp only [markDirty, Bool.or_eq_true, beq_iff_eq]
    by_cases e : y = s.cursor.y
    · exact Or.inl e
    · exfalso; apply hne; simp [e]

theorem good_edFill (s : Screen) (lo hi : Nat) (hhi : hi ≤ s.lines) : Good s (edFill s lo hi) := by
  refine ⟨?_, fun d h => by simp [edFill, markDirtyRange, h], rfl⟩
  intro y x _ hne
  simp only [edFill, markDirtyRange, Bool.or_eq_true, Bool.and_eq_true, decide_eq_true_eq]
  by_cases e : lo ≤ y ∧ y < hi
  · exact Or.inl e
  · exfalso; apply hne
    simp only [edFill]
    have : (decide (lo ≤ y) && decide (y < hi) && decide (x < s.columns)) = false := by
      simp only [Bool.and_eq_false_iff, decide_eq_false_iff_not]
      by_cases q : lo ≤ y
      · left; right; exact fun q2 => e ⟨q, q2⟩
      · left; left; exact q
    simp [this]

theorem good_ed (s : Screen) (h : Inv s) (how : Option Nat) : Good s (eraseInDisplay s how) := by
  unfold eraseInDisplay
  simp only
  have g := good_edFill s (edRows s (how.getD 0)).1 (edRows s (how.getD 0)).2 (edRows_le h _)
  split
  · exact g.trans (good_el _ _)
  · exact g

theorem step_index (s : Screen) : Step s (index s) := by
  unfold index
  simp only
  split
  · right
    intro y hy
    have hy' : y < s.lines := hy
    simp [markAllDirty, markDirtyRange, hy']
  · left
    exact good_of_same rfl rfl rfl

theorem step_linefeed (s : Screen) : Step s (linefeed s) := by
  unfold linefeed
  simp only
  split
  · exact (step_index s).trans (Or.inl (good_of_same rfl rfl rfl))
  · exact step_index s

theorem step_reverseIndex (s : Screen) : Step s (reverseIndex s) := by
  unfold reverseIndex
  simp only
  split
  · right
    intro y hy
    have hy' : y < s.lines := hy
    simp [markAllDirty, markDirtyRange, hy']
  · left
    exact good_of_same rfl rfl rfl

theorem good_il (s : Screen) (n : Option Nat) : Good s (insertLines s n) := by
  unfold insertLines
  simp only
  split
  · refine ⟨?_, fun d h => by simp [cariageReturn, setCursorX, markDirtyRange, h], rfl⟩
    intro y x hy hne
    simp only [cariageReturn, setCursorX, markDirtyRange, Bool.or_eq_true, Bool.and_eq_true, decide_eq_true_eq]
    by_cases e : s.cursor.y ≤ y
    · exact Or.inl ⟨e, hy⟩
    · exfalso; apply hne
      simp [cariageReturn, setCursorX, e]
  · exact Good.refl s

theorem good_dl (s : Screen) (n : Option Nat) : Good s (deleteLines s n) := by
  unfold deleteLines
  simp only
  split
  · refine ⟨?_, fun d h => by simp [cariageReturn, setCursorX, markDirtyRange, h], rfl⟩
    intro y x hy hne
    simp only [cariageReturn, setCursorX, markDirtyRange, Bool.or_eq_true, Bool.and_eq_true, decide_eq_true_eq]
    by_cases e : s.cursor.y ≤ y
    · exact Or.inl ⟨e, hy⟩
    · exfalso; apply hne
      simp [cariageReturn, setCursorX, e]
  · exact Good.refl s

theorem alldirty_alignment (s : Screen) : AllDirty (alignmentDisplay s) := by
  intro y hy
  simp only [alignmentDisplay, markAllDirty, markDirtyRange, Bool.or_eq_true, Bool.and_eq_true, decide_eq_true_eq]
  exact Or.inl ⟨Nat.zero_le _, hy⟩

theorem alldirty_reset (s : Screen) (h : 1 ≤ s.lines) : AllDirty (reset s) := by
  intro y hy
  rw [C15.reset_eq s h] at hy ⊢
  simpa [C15.powerOn] using hy

theorem alldirty_resize (s : Screen) (h : Inv s) (l c : Option Nat)
    (hne : ¬ (l.getD s.lines = s.lines ∧ c.getD s.columns = s.columns)) : AllDirty (resize s l c) := by
  obtain ⟨r1, _, _, r4, _⟩ := C16.resize_spec s h l c hne
  intro y hy
  rw [r4 y]
  rw [r1] at hy
  simpa using hy

/-! #### draw -/

theorem GoodExcept.refl (s : Screen) : GoodExcept s s := ⟨fun _ _ _ h => absurd rfl h, fun _ h => h, rfl⟩

/-- an intermediate state extended by an operation that only rewrites the cursor row (and may
    move the cursor within the row) -/
theorem GoodExcept.row_op {a b c : Screen} (h1 : GoodExcept a b)
    (hc : ∀ y x, y ≠ b.cursor.y → c.cell y x = b.cell y x) (hd : ∀ d, b.dirty d = true → c.dirty d = true)
    (hl : c.lines = b.lines) (hy : c.cursor.y = b.cursor.y) : GoodExcept a c := by
  refine ⟨?_, fun d h => hd d (h1.mono d h), hl.trans h1.lines⟩
  intro y x hy' hne
  by_cases e : y = b.cursor.y
  · right; rw [hy]; exact e
  · rw [hc y x e] at hne
    rcases h1.covers y x (by rw [← hl]; exact hy') hne with q | q
    · left; exact hd y q
    · exact absurd q e

theorem stepExcept_wrapStage {a s : Screen} (h : StepExcept a s) (w : Nat) : StepExcept a (wrapStage s w) := by
  unfold wrapStage
  split
  · split
    · -- mark the row, carriage return, linefeed
      have hm : ∀ t : Screen, StepExcept a t → Step a (cariageReturn (markDirty t t.cursor.y)) := by
        intro t ht
        rcases ht with ht | ht
        · left
          refine ⟨?_, fun d q => by simp [cariageReturn, setCursorX, markDirty, ht.mono d q], ht.lines⟩
          intro y x hy hne
          rcases ht.covers y x hy hne with q | q
          · simp [cariageReturn, setCursorX, markDirty, q]
          · simp [cariageReturn, setCursorX, markDirty, q]
        · right
          intro y hy
          simp [cariageReturn, setCursorX, markDirty, ht y hy]
      have := (hm s h).trans (step_linefeed _)
      rcases this with g | g
      · exact Or.inl ⟨fun y x hy hne => Or.inl (g.covers y x hy hne), g.mono, g.lines⟩
      · exact Or.inr g
    · rcases h with h | h
      · exact Or.inl (h.row_op (fun _ _ _ => rfl) (fun _ q => q) rfl rfl)
      · exact Or.inr h
  · exact h

theorem stepExcept_irmStage {a s : Screen} (h : StepExcept a s) (w : Nat) : StepExcept a (irmStage s w) := by
  unfold irmStage
  split
  · rcases h with h | h
    · left
      apply h.row_op
      · intro y x e
        simp [insertCharacters, e]
      · intro d q; simp [insertCharacters, markDirty, q]
      · rfl
      · rfl
    · right
      intro y hy
      simp [insertCharacters, markDirty, h y hy]
  · exact h

theorem stepExcept_putChar {a s : Screen} (h : StepExcept a s) (c w : Nat) : StepExcept a (putChar s c w) := by
  have hcell : ∀ y x, y ≠ s.cursor.y → (putChar s c w).cell y x = s.cell y x := by
    intro y x e
    by_cases hw : w = 2
    · subst hw
      rw [C04.put_wide_cell]
      simp [e]
    · have hw' : (w == 2) = false := by simpa using hw
      unfold putChar
      simp only [setCursorX, setCell, hw', Bool.false_and, Bool.false_eq_true, if_false]
      simp [e]
  have hd : (putChar s c w).dirty = s.dirty := by
    unfold putChar; simp only; split <;> rfl
  have hl : (putChar s c w).lines = s.lines := by
    unfold putChar; simp only; split <;> rfl
  rcases h with h | h
  · exact Or.inl (h.row_op hcell (fun d q => by rw [hd]; exact q) hl (C04.put_cursor s c w).2)
  · right
    intro y hy
    rw [hd]; exact h y (by rw [← hl]; exact hy)

theorem stepExcept_combine (env : Env) {a s : Screen} (h : StepExcept a s) (c : Nat) :
    StepExcept a (combine env s c) := by
  unfold combine
  split
  · rcases h with h | h
    · left
      apply h.row_op
      · intro y x e; simp [setCell, e]
      · intro d q; exact q
      · rfl
      · rfl
    · exact Or.inr h
  · split
    · rcases h with h | h
      · left
        refine ⟨?_, fun d q => by simp [markDirty, setCell, h.mono d q], h.lines⟩
        intro y x hy hne
        by_cases e : y = s.cursor.y - 1
        · left; simp [markDirty, e]
        · have this : ∀ cc : Cell, (markDirty (setCell s (s.cursor.y - 1) (s.columns - 1) cc) (s.cursor.y - 1)).cell y x = s.cell y x := by
            intro cc; simp [markDirty, setCell, e]
          rw [this] at hne
          rcases h.covers y x hy hne with q | q
          · left; simp [markDirty, setCell, q]
          · right; exact q
      · right
        intro y hy
        simp [markDirty, setCell, h y hy]
    · exact h

theorem stepExcept_drawChar (env : Env) {a s : Screen} (h : StepExcept a s) (c : Nat) :
    StepExcept a (drawChar env s c) := by
  unfold drawChar
  simp only
  split
  · exact stepExcept_putChar (stepExcept_irmStage (stepExcept_wrapStage h _) _) _ _
  · split
    · exact stepExcept_combine env h c
    · exact h

theorem stepExcept_foldl (env : Env) (cs : List Nat) {a s : Screen} (h : StepExcept a s) :
    StepExcept a (cs.foldl (drawChar env) s) := by
  induction cs generalizing s with
  | nil => exact h
  | cons c cs ih => exact ih (stepExcept_drawChar env h c)

theorem step_draw (env : Env) (s : Screen) (t : List Nat) : Step s (draw env s t) := by
  unfold draw
  simp only
  rcases stepExcept_foldl env (t.map (translate s)) (Or.inl (GoodExcept.refl s)) with h | h
  · left
    refine ⟨?_, fun d q => by simp [markDirty, h.mono d q], h.lines⟩
    intro y x hy hne
    rcases h.covers y x hy hne with q | q
    · simp [markDirty, q]
    · simp [markDirty, q]
  · right
    intro y hy
    simp [markDirty, h y hy]

/-! #### modes, save / restore, margins -/

theorem good_cursorPosition (s : Screen) (h : Inv s) (l c : Option Nat) : Good s (cursorPosition s l c) := by
  have : ∃ x y, C05.expected s (.cursorPosition l c) = some (x, y) := by
    simp only [C05.expected]
    split <;> (try split) <;> exact ⟨_, _, rfl⟩
  obtain ⟨x, y, e⟩ := this
  exact good_of_ocm (C05.position_and_frame ⟨fun _ => 1, fun _ => false, id⟩ s (.cursorPosition l c) x y h e).2.2

theorem good_sgr (s : Screen) (a : List Nat) : Good s (selectGraphicRendition s a) := by
  rw [sgr_frame]; exact good_of_same rfl rfl rfl

theorem good_homeIf (s : Screen) (h : Inv s) (b : Bool) : Good s (homeIf b s) := by
  unfold homeIf; split
  · exact good_cursorPosition s h none none
  · exact Good.refl s

theorem good_hiddenIf (s : Screen) (b v : Bool) : Good s (hiddenIf b v s) := by
  unfold hiddenIf; split <;> exact good_of_same rfl rfl rfl

theorem step_applySet (s : Screen) (ml : List Nat) : Step s (applySetModes s ml) := by
  unfold applySetModes
  split
  · right
    intro y hy
    rw [sgr_frame]
    have hy' : y < s.lines := hy
    simp [setAllReverse, addModes, markAllDirty, markDirtyRange, hy']
  · left; exact good_of_same rfl rfl rfl

theorem step_applyReset (s : Screen) (ml : List Nat) : Step s (applyResetModes s ml) := by
  unfold applyResetModes
  split
  · right
    intro y hy
    rw [sgr_frame]
    have hy' : y < s.lines := hy
    simp [setAllReverse, removeModes, markAllDirty, markDirtyRange, hy']
  · left; exact good_of_same rfl rfl rfl

theorem alldirty_erase_all (R : Screen) : AllDirty (eraseInDisplay R (some 2)) := by
  intro y hy
  have hy' : y < R.lines := by
    have := (C07.ed_frame R (some 2)).2.2.1
    rw [this] at hy; exact hy
  simp [eraseInDisplay, edFill, edRows, markDirtyRange, hy']

theorem alldirty_colmSet (s : Screen) (h : Inv s) : AllDirty (colmSet s) := by
  unfold colmSet
  have h0 : Inv { s with savedColumns := some s.columns } := by
    refine { h with saved := ?_ }
    intro c e
    have e' : some s.columns = some c := e
    simp only [Option.some.injEq] at e'
    subst e'
    exact ⟨h.cols, h.dimc⟩
  have hR := inv_resize h0 none (some 132) (by intro v e; cases e) (by
    intro v e; simp only [Option.some.injEq] at e; subst e; decide)
  exact (alldirty_erase_all _).good (good_cursorPosition _ (inv_eraseInDisplay hR _) _ _)

theorem alldirty_colmReset (s : Screen) (h : Inv s) : AllDirty (colmReset s) := by
  unfold colmReset
  exact (alldirty_erase_all _).good (good_cursorPosition _ (inv_eraseInDisplay (inv_colmRestore h) _) _ _)

theorem step_setMode (s : Screen) (h : Inv s) (ms : List Nat) (p : Bool) : Step s (setMode s ms p) := by
  unfold setMode
  simp only
  have h1 := inv_applySetModes h (shiftModes ms p)
  have s1 := step_applySet s (shiftModes ms p)
  split
  · have h2 := inv_colmSet h1
    exact Or.inr (((alldirty_colmSet _ h1).good (good_homeIf _ h2 _)).good (good_hiddenIf _ _ _))
  · exact (s1.trans (Or.inl (good_homeIf _ h1 _))).trans (Or.inl (good_hiddenIf _ _ _))

theorem step_resetMode (s : Screen) (h : Inv s) (ms : List Nat) (p : Bool) : Step s (resetMode s ms p) := by
  unfold resetMode
  simp only
  have h1 := inv_applyResetModes h (shiftModes ms p)
  have s1 := step_applyReset s (shiftModes ms p)
  split
  · have h2 := inv_colmReset h1
    exact Or.inr (((alldirty_colmReset _ h1).good (good_homeIf _ h2 _)).good (good_hiddenIf _ _ _))
  · exact (s1.trans (Or.inl (good_homeIf _ h1 _))).trans (Or.inl (good_hiddenIf _ _ _))

theorem good_restoreCursor (s : Screen) (h : Inv s) : Good s (restoreCursor s) := by
  cases hsp : s.savepoints with
  | nil => rw [C14.restore_empty s h hsp]; exact good_of_same rfl rfl rfl
  | cons sp rest => rw [C14.restore_spec s h sp rest hsp]; exact good_of_same rfl rfl rfl

theorem good_setMargins (s : Screen) (h : Inv s) (t b : Option Nat) : Good s (setMargins s t b) := by
  rw [C06.stbm_spec s h t b]; exact good_of_same rfl rfl rfl

/-! #### every operation -/

/-- between two clears: each operation either marks every row whose cells it changed and keeps the
    earlier marks (same height), or marks every row of the (possibly resized) screen -/
theorem step_all (env : Env) (s : Screen) (h : Inv s) (c : Call) (ha : c.argOk = true)
    (hc : c ≠ .clearDirty) : Step s (step env s c) := by
  cases c
  case clearDirty => exact absurd rfl hc
  case alignmentDisplay => exact Or.inr (alldirty_alignment s)
  case reset => exact Or.inr (alldirty_reset s h.rows)
  case index => exact step_index s
  case linefeed => exact step_linefeed s
  case reverseIndex => exact step_reverseIndex s
  case draw t => exact step_draw env s t
  case insertCharacters n => exact Or.inl (good_ich s n)
  case deleteCharacters n => exact Or.inl (good_dch s n)
  case eraseCharacters n => exact Or.inl (good_ech s n)
  case eraseInLine hw => exact Or.inl (good_el s hw)
  case eraseInDisplay hw => exact Or.inl (good_ed s h hw)
  case insertLines n => exact Or.inl (good_il s n)
  case deleteLines n => exact Or.inl (good_dl s n)
  case setMode ms p => exact step_setMode s h ms p
  case resetMode ms p => exact step_resetMode s h ms p
  case restoreCursor => exact Or.inl (good_restoreCursor s h)
  case setMargins t b => exact Or.inl (good_setMargins s h t b)
  case sgr a => exact Or.inl (good_sgr s a)
  case cursorPosition l c => exact Or.inl (good_cursorPosition s h l c)
  case resize l c =>
    by_cases hsame : l.getD s.lines = s.lines ∧ c.getD s.columns = s.columns
    · have e : resize s l c = s := by unfold resize; simp [hsame.1, hsame.2]
      simp only [step, e]; exact Or.inl (Good.refl s)
    · exact Or.inr (alldirty_resize s h l c hsame)
  all_goals first
    | exact Or.inl (Good.refl s)
    | exact Or.inl (good_of_same rfl rfl rfl)
    | (left
       first
        | exact good_of_ocm (C05.position_and_frame env s _ _ _ h rfl).2.2
        | (have : ∃ x y, C05.expected s (.cursorToLine _) = some (x, y) := by
             simp only [C05.expected]; split <;> exact ⟨_, _, rfl⟩
           obtain ⟨x, y, e⟩ := this
           exact good_of_ocm (C05.position_and_frame env s _ x y h e).2.2)
        | (simp only [step]; unfold tab; split <;> exact good_of_same rfl rfl rfl)
        | (simp only [step]; unfold defineCharset; split <;> (try split) <;> (try split) <;> exact good_of_same rfl rfl rfl))

theorem screen_wide_all_dirty (env : Env) (s : Screen) (h : Inv s) (c : Call) (hw : screenWide s c) :
    AllDirty (step env s c) := by
  cases c <;> simp only [screenWide] at hw
  case reset => exact alldirty_reset s h.rows
  case alignmentDisplay => exact alldirty_alignment s
  case resize l c => exact alldirty_resize s h l c hw
  case index =>
    intro y hy
    have e : (s.cursor.y == bottomMargin s) = true := by simpa using hw
    have hy' : y < s.lines := by simpa [step, index, e, markAllDirty, markDirtyRange] using hy
    simp [step, index, e, markAllDirty, markDirtyRange, hy']
  case linefeed =>
    intro y hy
    have e : (s.cursor.y == bottomMargin s) = true := by simpa using hw
    have hy' : y < s.lines := by
      simp only [step, linefeed, index, e, if_true] at hy
      split at hy <;> exact hy
    simp only [step, linefeed, index, e, if_true]
    split <;> simp [cariageReturn, setCursorX, markAllDirty, markDirtyRange, hy']
  case reverseIndex =>
    intro y hy
    have e : (s.cursor.y == topMargin s) = true := by simpa using hw
    have hy' : y < s.lines := by simpa [step, reverseIndex, e, markAllDirty, markDirtyRange] using hy
    simp [step, reverseIndex, e, markAllDirty, markDirtyRange, hy']
  case setMode ms p =>
    simp only [step, setMode]
    have h1 := inv_applySetModes h (shiftModes ms p)
    by_cases hcolm : (shiftModes ms p).contains DECCOLM = true
    · simp only [hcolm, if_true]
      exact ((alldirty_colmSet _ h1).good (good_homeIf _ (inv_colmSet h1) _)).good (good_hiddenIf _ _ _)
    · have hscnm : (shiftModes ms p).contains DECSCNM = true := by
        rcases hw with q | q
        · exact q
        · exact absurd q hcolm
      have hcolm' : (shiftModes ms p).contains DECCOLM = false := by simpa using hcolm
      simp only [hcolm', Bool.false_eq_true, if_false]
      have a1 : AllDirty (applySetModes s (shiftModes ms p)) := by
        intro y hy
        unfold applySetModes at hy ⊢
        simp only [hscnm, if_true] at hy ⊢
        rw [sgr_frame] at hy ⊢
        have hy' : y < s.lines := hy
        simp [setAllReverse, addModes, markAllDirty, markDirtyRange, hy']
      exact (a1.good (good_homeIf _ h1 _)).good (good_hiddenIf _ _ _)
  case resetMode ms p =>
    simp only [step, resetMode]
    have h1 := inv_applyResetModes h (shiftModes ms p)
    by_cases hcolm : (shiftModes ms p).contains DECCOLM = true
    · simp only [hcolm, if_true]
      exact ((alldirty_colmReset _ h1).good (good_homeIf _ (inv_colmReset h1) _)).good (good_hiddenIf _ _ _)
    · have hscnm : (shiftModes ms p).contains DECSCNM = true := by
        rcases hw with q | q
        · exact q
        · exact absurd q hcolm
      have hcolm' : (shiftModes ms p).contains DECCOLM = false := by simpa using hcolm
      simp only [hcolm', Bool.false_eq_true, if_false]
      have a1 : AllDirty (applyResetModes s (shiftModes ms p)) := by
        intro y hy
        unfold applyResetModes at hy ⊢
        simp only [hscnm, if_true] at hy ⊢
        rw [sgr_frame] at hy ⊢
        have hy' : y < s.lines := hy
        simp [setAllReverse, removeModes, markAllDirty, markDirtyRange, hy']
      exact (a1.good (good_homeIf _ h1 _)).good (good_hiddenIf _ _ _)

/-! #### between two clears -/

/-- After the embedder cleared the dirty set, for every history without another clear: every row of
    the final screen in which any cell differs from the state at the clear is in the dirty set, and
    the set contains only rows of the current screen. -/
theorem between_clears (env : Env) (s0 : Screen) (h0 : Inv s0) (hist : List Call)
    (ha : ∀ c ∈ hist, c.argOk = true) (hc : ∀ c ∈ hist, c ≠ .clearDirty) :
    let sf := run env s0 hist
    Step s0 sf ∧ (∀ d, sf.dirty d = true → d < sf.lines) := by
  simp only
  have key : ∀ (hist : List Call) (s : Screen), Inv s → Step s0 s → (∀ c ∈ hist, c.argOk = true) →
      (∀ c ∈ hist, c ≠ .clearDirty) → Step s0 (run env s hist) ∧ Inv (run env s hist) := by
    intro hist
    induction hist with
    | nil => intro s hi hs _ _; exact ⟨hs, hi⟩
    | cons c rest ih =>
      intro s hi hs ha hc
      have hi' := inv_step env hi c (ha c (List.mem_cons_self ..))
      have st := step_all env s hi c (ha c (List.mem_cons_self ..)) (hc c (List.mem_cons_self ..))
      exact ih (step env s c) hi' (hs.trans st) (fun c' h' => ha c' (List.mem_cons_of_mem _ h'))
        (fun c' h' => hc c' (List.mem_cons_of_mem _ h'))
  obtain ⟨a, b⟩ := key hist s0 h0 (Or.inl (Good.refl s0)) ha hc
  exact ⟨a, b.dirty⟩

/-! #### executable predicate -/

theorem goodB_of (s s' : Screen) (h : Good s s') : goodB s s' = true := by
  simp only [goodB, Bool.and_eq_true, allCellsB_iff, Bool.or_eq_true, decide_eq_true_eq, List.all_eq_true,
    List.mem_range, Bool.not_eq_true', beq_iff_eq]
  refine ⟨⟨?_, ?_⟩, h.lines⟩
  · intro y x hy _
    by_cases e : s'.cell y x = s.cell y x
    · exact Or.inl e
    · exact Or.inr (h.covers y x hy e)
  · intro d _
    cases hd : s.dirty d
    · exact Or.inl rfl
    · exact Or.inr (h.mono d hd)

theorem allDirtyB_of (s : Screen) (h : AllDirty s) : allDirtyB s = true := by
  simp only [allDirtyB, List.all_eq_true, List.mem_range]
  exact h

theorem screenWide_of_B (s : Screen) (c : Call) (hw : screenWideB s c = true) : screenWide s c := by
  cases c <;> simp only [screenWideB, Bool.false_eq_true] at hw <;> simp only [screenWide]
  case resize l c =>
    intro q
    simp [q.1, q.2] at hw
  case setMode ms p => simpa using hw
  case resetMode ms p => simpa using hw
  case index => simpa using hw
  case linefeed => simpa using hw
  case reverseIndex => simpa using hw

theorem C17_holds (env : Env) (s : Screen) (c : Call) (h : Inv s) (ha : c.argOk = true) :
    propC17 s c (step env s c) = true := by
  by_cases hc : c = .clearDirty
  · subst hc
    simp [propC17, step, sameCellsB]
  · have st := step_all env s h c ha hc
    have hi := inv_step env h c ha
    have e1 : (goodB s (step env s c) || allDirtyB (step env s c)) = true := by
      rcases st with g | g
      · simp [goodB_of _ _ g]
      · simp [allDirtyB_of _ g]
    have e2 : (!screenWideB s c || allDirtyB (step env s c)) = true := by
      cases hw : screenWideB s c with
      | false => rfl
      | true =>
        have := screenWide_of_B s c hw
        simp [allDirtyB_of _ (screen_wide_all_dirty env s h c this)]
    have e3 : ((List.range ((step env s c).lines + 8)).all
        (fun d => !(step env s c).dirty d || decide (d < (step env s c).lines))) = true := by
      simp only [List.all_eq_true, List.mem_range, Bool.or_eq_true, Bool.not_eq_true', decide_eq_true_eq]
      intro d _
      cases hd : (step env s c).dirty d
      · exact Or.inl rfl
      · exact Or.inr (hi.dirty d hd)
    cases c
    case clearDirty => exact absurd rfl hc
    all_goals (simp only [propC17]; rw [e1, e2, e3]; rfl)

end C17
end Memterm

