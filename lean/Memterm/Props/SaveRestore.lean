import Memterm.Props.C14

/-
  DECSC immediately followed by DECRC, for every well-formed state: the pair only NORMALISES the cursor
  (a pending wrap is cancelled, a cursor outside the scrolling region is pulled to its nearest row) and
  changes nothing else - not the stack, the modes, the charsets, the grid or the dirty set.  With the cursor on
  a column of the screen and inside the region it is the identity.  (C14 states what DECRC restores; this is
  the round trip a full-screen program relies on when it brackets a status-line update with ESC 7 / ESC 8.)
-/
namespace Memterm
namespace SaveRestore

open C14 Gen

theorem save_restore (s : Screen) (h : Inv s) :
    restoreCursor (saveCursor s) =
      { s with cursor := { s.cursor with x := min s.cursor.x (s.columns - 1), y := clampRow s s.cursor.y } } := by
  rw [restore_spec (saveCursor s) (inv_saveCursor h) _ _ rfl]
  simp only [saveCursor]
  have hm : (fun m => (s.mode DECAWM && m == DECAWM) || ((s.mode DECOM && m == DECOM) || s.mode m)) = s.mode := by
    funext m
    by_cases h1 : m = DECAWM
    · subst h1
      have : (DECAWM == DECOM) = false := by decide
      simp [this]
    · have b1 : (m == DECAWM) = false := beq_eq_false_iff_ne.mpr h1
      by_cases h2 : m = DECOM
      · subst h2; simp [b1]
      · have b2 : (m == DECOM) = false := beq_eq_false_iff_ne.mpr h2
        simp [b1, b2]
  simp only [hm]
  rfl

/-- the identity case: cursor on a column (no pending wrap) and inside the region (always so without margins) -/
theorem save_restore_id (s : Screen) (h : Inv s) (hx : s.cursor.x < s.columns)
    (hy : topMargin s ≤ s.cursor.y ∧ s.cursor.y ≤ bottomMargin s) :
    restoreCursor (saveCursor s) = s := by
  rw [save_restore s h]
  have ex : min s.cursor.x (s.columns - 1) = s.cursor.x := by omega
  have ey : clampRow s s.cursor.y = s.cursor.y := by
    have := h.cy
    unfold clampRow
    unfold topMargin bottomMargin at hy
    split <;> rename_i hm <;> simp only [hm] at hy <;> omega
  rw [ex, ey]

/-- non-vacuity: a new 80x24 screen meets the hypotheses -/
example : Inv (init 80 24) ∧ (init 80 24).cursor.x < (init 80 24).columns ∧
    topMargin (init 80 24) ≤ (init 80 24).cursor.y ∧ (init 80 24).cursor.y ≤ bottomMargin (init 80 24) := by
  refine ⟨inv_init 80 24 (by decide) (by decide) (by decide) (by decide), by decide, by decide, by decide⟩

end SaveRestore
end Memterm
