import Memterm.Props.C12
import Memterm.Proofs.ModeOrder
import Memterm.Proofs.DrawFrame
import Memterm.Spec.C14

/-
  C14 — DECSC/DECRC save and restore the cursor state as a LIFO stack.
-/
namespace Memterm
namespace C14

open Gen

/-! #### DECSC -/

/-- DECSC pushes exactly one snapshot and changes nothing else -/
theorem save_spec (s : Screen) : saveCursor s = { s with savepoints := snapshot s :: s.savepoints } := rfl

/-! #### DECRC -/

theorem facts :
    ([DECOM].contains DECSCNM) = false ∧ ([DECOM].contains DECTCEM) = false ∧ ([DECOM].contains DECOM) = true ∧
    ([DECAWM].contains DECSCNM) = false ∧ ([DECAWM].contains DECTCEM) = false ∧ ([DECAWM].contains DECOM) = false := by
  decide

theorem setDecom (t : Screen) (hi : Inv t) :
    ∃ cx cy, setModeNoColm t [DECOM] = { addModes t [DECOM] with cursor := { t.cursor with x := cx, y := cy } } := by
  obtain ⟨f1, f2, f3, _, _, _⟩ := facts
  unfold setModeNoColm hiddenIf homeIf applySetModes
  simp only [f1, f2, f3, Bool.false_eq_true, if_false, if_true]
  have hA : Inv (addModes t [DECOM]) := inv_addModes_noflip hi _ f1
  obtain ⟨_, _, c⟩ := C12.home_spec _ hA
  unfold OnlyCursorMoved at c
  exact ⟨_, _, c⟩

theorem setDecawm (t : Screen) : setModeNoColm t [DECAWM] = addModes t [DECAWM] := by
  obtain ⟨_, _, _, f4, f5, f6⟩ := facts
  unfold setModeNoColm hiddenIf homeIf applySetModes
  simp only [f4, f5, f6, Bool.false_eq_true, if_false]

/-- DECRC with a saved state: pops it; position clamped into the current screen / region,
    rendition, visibility and charset state reinstated, origin mode and autowrap re-enabled
    if they were on when saved; cells, margins, tab stops, titles unchanged. -/
theorem restore_spec (s : Screen) (h : Inv s) (sp : Savepoint) (rest : List Savepoint)
    (hsp : s.savepoints = sp :: rest) :
    restoreCursor s =
      { s with
        savepoints := rest
        g0 := sp.g0, g1 := sp.g1, g1Active := sp.g1Active
        mode := fun m => (sp.wrap && m == DECAWM) || ((sp.origin && m == DECOM) || s.mode m)
        cursor := { sp.cursor with x := min sp.cursor.x (s.columns - 1), y := clampRow s sp.cursor.y } } := by
  unfold restoreCursor
  rw [hsp]
  simp only
  have h0 : Inv { s with savepoints := rest, g0 := sp.g0, g1 := sp.g1, g1Active := sp.g1Active } :=
    h.of_same_geom rfl rfl rfl rfl rfl h.cy h.cx h.dirty (fun y x e => h.outside y x e)
  generalize ht1 : ({ s with savepoints := rest, g0 := sp.g0, g1 := sp.g1, g1Active := sp.g1Active } : Screen) = t1 at h0
  have hclamp : ∀ (u : Screen), u.columns = s.columns → u.lines = s.lines → u.margins = s.margins →
      ensureVBounds (ensureHBounds { u with cursor := sp.cursor }) true =
        { u with cursor := { sp.cursor with x := min sp.cursor.x (s.columns - 1), y := clampRow s sp.cursor.y } } := by
    intro u e1 e2 e3
    unfold ensureVBounds ensureHBounds setCursorX setCursorY clampRow
    simp only [e1, e2, e3]
    cases s.margins with
    | none => simp
    | some tb => obtain ⟨t, b⟩ := tb; simp
  cases ho : sp.origin <;> cases hw : sp.wrap
  · simp only [Bool.false_eq_true, if_false, Bool.false_and, Bool.false_or]
    rw [hclamp t1 (by subst ht1; rfl) (by subst ht1; rfl) (by subst ht1; rfl)]
    subst ht1; rfl
  · simp only [Bool.false_eq_true, if_false, if_true, setDecawm, Bool.false_and, Bool.false_or, Bool.true_and]
    rw [hclamp _ (by subst ht1; rfl) (by subst ht1; rfl) (by subst ht1; rfl)]
    subst ht1
    simp only [addModes, List.contains_cons, List.contains_nil, Bool.or_false]
  · simp only [Bool.false_eq_true, if_false, if_true, Bool.false_and, Bool.false_or, Bool.true_and]
    obtain ⟨cx, cy, e⟩ := setDecom t1 h0
    rw [e, hclamp _ (by subst ht1; rfl) (by subst ht1; rfl) (by subst ht1; rfl)]
    subst ht1
    simp only [addModes, List.contains_cons, List.contains_nil, Bool.or_false]
  · simp only [if_true, Bool.true_and]
    obtain ⟨cx, cy, e⟩ := setDecom t1 h0
    rw [e, setDecawm, hclamp _ (by subst ht1; rfl) (by subst ht1; rfl) (by subst ht1; rfl)]
    subst ht1
    simp only [addModes, List.contains_cons, List.contains_nil, Bool.or_false]

/-- DECRC on an empty stack: origin mode cleared, cursor home, nothing else -/
theorem restore_empty (s : Screen) (h : Inv s) (hsp : s.savepoints = []) :
    restoreCursor s =
      { s with mode := fun m => !(m == DECOM) && s.mode m, cursor := { s.cursor with x := 0, y := 0 } } := by
  unfold restoreCursor
  rw [hsp]
  simp only
  obtain ⟨f1, f2, f3, _, _, _⟩ := facts
  have e1 : resetModeNoColm s [DECOM] = cursorPosition (removeModes s [DECOM]) none none := by
    unfold resetModeNoColm hiddenIf homeIf applyResetModes
    simp only [f1, f2, f3, Bool.false_eq_true, if_false, if_true]
  have hR : Inv (removeModes s [DECOM]) := inv_removeModes_noflip h _ f1
  have hm : (removeModes s [DECOM]).mode DECOM = false := by simp [removeModes]
  have hp : ∀ u : Screen, Inv u → u.mode DECOM = false →
      cursorPosition u none none = { u with cursor := { u.cursor with x := 0, y := 0 } } := by
    intro u hu hd
    obtain ⟨a, b, c⟩ := C12.home_spec u hu
    have hr : C12.homeRow u = 0 := by
      unfold C12.homeRow; rw [hd]
      cases u.margins with
      | none => rfl
      | some tb => rfl
    unfold OnlyCursorMoved at c
    rw [c, a, b, hr]
  rw [e1, hp _ hR hm]
  have hm2 : ({ removeModes s [DECOM] with cursor := { (removeModes s [DECOM]).cursor with x := 0, y := 0 } } : Screen).mode DECOM = false := hm
  have hI2 : Inv ({ removeModes s [DECOM] with cursor := { (removeModes s [DECOM]).cursor with x := 0, y := 0 } } : Screen) :=
    hR.of_same_geom rfl rfl rfl rfl rfl h.rows (Nat.zero_le _) hR.dirty (fun y x e => hR.outside y x e)
  rw [hp _ hI2 hm2]
  simp only [removeModes, List.contains_cons, List.contains_nil, Bool.or_false]
  congr 1

/-! #### LIFO -/

/-- the stack after DECRC is the tail of the stack before -/
theorem restore_pops (s : Screen) (h : Inv s) : (restoreCursor s).savepoints = s.savepoints.tail := by
  cases hsp : s.savepoints with
  | nil => rw [restore_empty s h hsp]; simp [hsp]
  | cons sp rest => rw [restore_spec s h sp rest hsp]; rfl

theorem save_pushes (s : Screen) : (saveCursor s).savepoints = snapshot s :: s.savepoints := rfl

/-- restoring right after saving pops what was pushed -/
theorem restore_after_save_stack (s : Screen) (h : Inv s) :
    (restoreCursor (saveCursor s)).savepoints = s.savepoints := by
  rw [restore_pops _ (inv_saveCursor h)]; rfl

/-! #### only DECSC pushes and only DECRC pops -/

theorem sp_cursorPosition (s : Screen) (l c : Option Nat) : (cursorPosition s l c).savepoints = s.savepoints :=
  (C12.quiet_cursorPosition s l c).savepoints

theorem sp_sgr (s : Screen) (a : List Nat) : (selectGraphicRendition s a).savepoints = s.savepoints := by
  rw [sgr_frame]

theorem sp_dropRows (s1 : Screen) (h : Inv s1) (l : Nat) : (dropRowsFromTop s1 l).savepoints = s1.savepoints := by
  unfold dropRowsFromTop
  have hi := inv_deleteLines (inv_cursorPosition (inv_saveCursor h) (some 0) (some 0)) (some (s1.lines - l))
  rw [restore_pops _ hi, (deleteLines_geo _ _).2.2.2.2.2, sp_cursorPosition]
  rfl

theorem sp_resize (s : Screen) (h : Inv s) (l c : Option Nat) : (resize s l c).savepoints = s.savepoints := by
  unfold resize
  simp only
  split
  · rfl
  · have hsm : ∀ t : Screen, setMargins t none none = { t with margins := none } := by
      intro t; simp [setMargins]
    rw [hsm]
    have h1 : Inv { s with margins := none } := { h with marg := by intro t b e; simp at e }
    show (if _ then cutColumns _ _ else _).savepoints = _
    have : ∀ u : Screen, (if c.getD s.columns < u.columns then cutColumns u (c.getD s.columns) else u).savepoints = u.savepoints := by
      intro u; split <;> rfl
    rw [this]
    split
    · exact sp_dropRows _ h1 _
    · rfl

theorem sp_setMode (s : Screen) (h : Inv s) (ms : List Nat) (p : Bool) :
    (setMode s ms p).savepoints = s.savepoints := by
  unfold setMode
  simp only
  have h1 : ∀ u : Screen, ∀ b v, (hiddenIf b v u).savepoints = u.savepoints := by
    intro u b v; unfold hiddenIf; split <;> rfl
  have h2 : ∀ u : Screen, ∀ b, (homeIf b u).savepoints = u.savepoints := by
    intro u b; unfold homeIf; split
    · exact sp_cursorPosition _ _ _
    · rfl
  have h3 : (applySetModes s (shiftModes ms p)).savepoints = s.savepoints := by
    unfold applySetModes; split
    · rw [sp_sgr]; rfl
    · rfl
  rw [h1, h2]
  split
  · rw [(C12.quiet_colmSet _).savepoints, h3]
  · exact h3

theorem sp_resetMode (s : Screen) (h : Inv s) (ms : List Nat) (p : Bool) :
    (resetMode s ms p).savepoints = s.savepoints := by
  unfold resetMode
  simp only
  have h1 : ∀ u : Screen, ∀ b v, (hiddenIf b v u).savepoints = u.savepoints := by
    intro u b v; unfold hiddenIf; split <;> rfl
  have h2 : ∀ u : Screen, ∀ b, (homeIf b u).savepoints = u.savepoints := by
    intro u b; unfold homeIf; split
    · exact sp_cursorPosition _ _ _
    · rfl
  have h3 : (applyResetModes s (shiftModes ms p)).savepoints = s.savepoints := by
    unfold applyResetModes; split
    · rw [sp_sgr]; rfl
    · rfl
  rw [h1, h2]
  split
  · rw [(C12.quiet_colmReset _).savepoints, h3]
  · exact h3

theorem sp_foldl_drawChar (env : Env) (cs : List Nat) (s : Screen) :
    (cs.foldl (drawChar env) s).savepoints = s.savepoints :=
  (ss_foldl_drawChar env cs s).2.2.2.2.2.2.2.2.2.2.2.2.1

/-- the saved-cursor stack changes only through DECSC (push) and DECRC (pop) -/
theorem stack_discipline (env : Env) (s : Screen) (h : Inv s) (c : Call) :
    (step env s c).savepoints =
      match c with
      | .saveCursor => snapshot s :: s.savepoints
      | .restoreCursor => s.savepoints.tail
      | _ => s.savepoints := by
  cases c
  case saveCursor => rfl
  case restoreCursor => exact restore_pops s h
  case resize l c => exact sp_resize s h l c
  case setMode ms p => exact sp_setMode s h ms p
  case resetMode ms p => exact sp_resetMode s h ms p
  case sgr a => exact sp_sgr s a
  case cursorPosition l c => exact sp_cursorPosition s l c
  case draw t =>
    simp only [step, draw, markDirty]
    exact sp_foldl_drawChar env _ s
  case reset =>
    simp only [step, reset]
    rw [sp_cursorPosition]
  case setMargins t b =>
    simp only [step, setMargins]
    split
    · rfl
    · split
      · rw [sp_cursorPosition]
      · rfl
  all_goals first
    | rfl
    | (simp only [step]; first
        | (unfold index; simp only; split <;> rfl)
        | (unfold linefeed index; simp only; split <;> split <;> rfl)
        | (unfold reverseIndex; simp only; split <;> rfl)
        | (unfold insertLines; simp only; split <;> rfl)
        | (unfold deleteLines; simp only; split <;> rfl)
        | (unfold tab; split <;> rfl)
        | (unfold cursorToLine; rfl)
        | (unfold eraseInLine; simp only; split <;> rfl)
        | (unfold eraseInDisplay eraseInLine; simp only; split <;> (try split) <;> rfl)
        | (unfold defineCharset; split <;> (try split) <;> (try split) <;> rfl))

/-! #### executable predicate -/

theorem C14_holds (env : Env) (cands : List Nat) (s : Screen) (c : Call) (h : Inv s) :
    propC14 cands s c (step env s c) = true := by
  cases c
  case saveCursor => simp [propC14, step, save_spec, sameSettingsB, sameCellsB, sameDirtyB]
  case restoreCursor =>
    simp only [propC14, step]
    cases hsp : s.savepoints with
    | nil =>
      have e := restore_empty s h hsp
      simp [e, hsp, adjusted, sameSettingsB, sameCellsB, sameDirtyB]
    | cons sp rest =>
      have e := restore_spec s h sp rest hsp
      simp [e, adjusted, sameSettingsB, sameCellsB, sameDirtyB]
  all_goals
    simp only [propC14]
    apply decide_eq_true
    exact stack_discipline env s h _


/-- non-vacuity: two nested saves are restored in reverse order -/
example :
    let s0 := init 10 5
    let s1 := saveCursor (cursorPosition s0 (some 2) (some 3))
    let s2 := saveCursor (cursorPosition s1 (some 4) (some 7))
    let r1 := restoreCursor (cursorPosition s2 (some 1) (some 1))
    let r2 := restoreCursor r1
    (r1.cursor.y, r1.cursor.x) = (3, 6) ∧ (r2.cursor.y, r2.cursor.x) = (1, 2) ∧ r2.savepoints = [] := by
  decide

/-! #### `restore_cursor` as the source writes it -/

/-- with `set_mode(&[DECOM], false)` / `set_mode(&[DECAWM], false)` / `reset_mode(&[DECOM], false)` as in
    src/screen.rs, `restore_cursor` is the model's `restoreCursor` -/
theorem source_form_restore (s : Screen) : restoreCursorSrc s = restoreCursor s := restoreCursorSrc_eq s

end C14
end Memterm

