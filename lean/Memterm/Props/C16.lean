import Memterm.Props.C14
import Memterm.Proofs.SparseStep
import Memterm.Proofs.SparseKeys
import Memterm.Spec.C16

/-
  C16 — resize() preserves overlapping content and leaves a well-formed screen.
-/
namespace Memterm
namespace C16

open Gen

theorem resize_same (s : Screen) : resize s (some s.lines) (some s.columns) = s ∧ resize s none none = s := by
  constructor <;> simp [resize]

/-- the rows that survive a height shrink -/
theorem dropRows_cell {s1 : Screen} (h : Inv s1) (hm : s1.margins = none) (l : Nat) (hl : l < s1.lines)
    (y x : Nat) :
    (dropRowsFromTop s1 l).cell y x =
      if y + (s1.lines - l) < s1.lines then s1.cell (y + (s1.lines - l)) x else defaultCell s1 := by
  have hrows := h.rows
  have h0 := inv_saveCursor h
  have hexp : C05.expected (saveCursor s1) (.cursorPosition (some 0) (some 0)) = some (0, 0) := by
    simp [C05.expected, saveCursor, hm, nz]
  obtain ⟨px, py, pf⟩ := C05.position_and_frame ⟨fun _ => 1, fun _ => false, id⟩ (saveCursor s1)
    (.cursorPosition (some 0) (some 0)) 0 0 h0 hexp
  have pf' : OnlyCursorMoved (saveCursor s1) (cursorPosition (saveCursor s1) (some 0) (some 0)) := pf
  have py' : (cursorPosition (saveCursor s1) (some 0) (some 0)).cursor.y = 0 := py
  generalize ht1 : cursorPosition (saveCursor s1) (some 0) (some 0) = t1 at pf' py'
  have ss := pf'.sameSettings
  obtain ⟨e1, e2, _, _, e5, e6, _, _, _, _, _, _, e13, e14⟩ := ss
  have ecell : t1.cell = s1.cell := pf'.cell
  have etop : topMargin t1 = 0 := by simp [topMargin, e5, saveCursor, hm]
  have ebot : bottomMargin t1 = s1.lines - 1 := by
    simp only [bottomMargin, e5, saveCursor, hm, e2]
  have hd : nz (some (s1.lines - l)) = s1.lines - l := C05.nz_pos _ (by omega)
  obtain ⟨d1, d2, d3, d4, d5, d6⟩ := deleteLines_geo t1 (some (s1.lines - l))
  have hsp : (deleteLines t1 (some (s1.lines - l))).savepoints = C14.snapshot s1 :: s1.savepoints := by
    rw [d6, e13]; rfl
  have g := geo_restoreCursor _ _ _ hsp
  unfold dropRowsFromTop
  rw [ht1, g.1, deleteLines_cell t1 _ (by rw [etop, ebot, py']; omega)]
  have hdef : defaultCell t1 = defaultCell s1 := defaultCell_congr (by rw [e6]; rfl)
  rw [py', ebot, hd, hdef, ecell]
  by_cases c1 : y ≤ s1.lines - 1
  · simp only [Nat.zero_le, c1, and_self, if_true]
    by_cases c2 : y + (s1.lines - l) ≤ s1.lines - 1
    · have : y + (s1.lines - l) < s1.lines := by omega
      simp [c2, this]
    · have : ¬ y + (s1.lines - l) < s1.lines := by omega
      simp [c2, this]
  · have : ¬ (0 ≤ y ∧ y ≤ s1.lines - 1) := fun c => c1 c.2
    have n2 : ¬ y + (s1.lines - l) < s1.lines := by omega
    simp only [this, if_false, n2]
    exact h.outside y x (by omega)

/-- the grid, geometry, margins and dirty set after a real resize -/
theorem resize_spec (s : Screen) (h : Inv s) (lines columns : Option Nat)
    (hne : ¬ (lines.getD s.lines = s.lines ∧ columns.getD s.columns = s.columns)) :
    let l := lines.getD s.lines
    let c := columns.getD s.columns
    let r := resize s lines columns
    r.lines = l ∧ r.columns = c ∧ r.margins = none ∧ (∀ d, r.dirty d = decide (d < l)) ∧
    (∀ y x, y < l → x < c → r.cell y x = expectedCell s l c y x) := by
  simp only
  have hne' : (lines.getD s.lines == s.lines && columns.getD s.columns == s.columns) = false := by
    simp only [Bool.and_eq_false_iff, beq_eq_false_iff_ne, ne_eq]
    by_cases a : lines.getD s.lines = s.lines
    · right; exact fun b => hne ⟨a, b⟩
    · left; exact a
  unfold resize
  simp only [hne', Bool.false_eq_true, if_false]
  have hsm : ∀ t : Screen, setMargins t none none = { t with margins := none } := by
    intro t; simp [setMargins]
  rw [hsm]
  generalize lines.getD s.lines = l at *
  generalize columns.getD s.columns = c at *
  have h1 : Inv { s with margins := none } := { h with marg := by intro t b e; simp at e }
  refine ⟨rfl, rfl, rfl, fun d => rfl, ?_⟩
  intro y x hy hx
  show (if c < _ then cutColumns _ c else _).cell y x = _
  -- facts about the state after the optional row drop
  have hs2 : ∀ y x, (if l < s.lines then dropRowsFromTop { s with margins := none } l else { s with margins := none }).cell y x =
      if y + (s.lines - l) < s.lines then s.cell (y + (s.lines - l)) x else defaultCell s := by
    intro y x
    split
    · rename_i hl
      exact dropRows_cell h1 rfl l hl y x
    · rename_i hl
      have : s.lines - l = 0 := by omega
      rw [this]
      simp only [Nat.add_zero]
      split
      · rfl
      · rename_i hy'
        exact h.outside y x (fun c => hy' c.1)
  have hc2 : (if l < s.lines then dropRowsFromTop { s with margins := none } l else { s with margins := none }).columns = s.columns := by
    split
    · rename_i hl
      exact (dropRows_facts h1 rfl l hl).2.1
    · rfl
  have hcut : ∀ u : Screen, (if c < u.columns then cutColumns u c else u).cell y x = u.cell y x := by
    intro u
    split
    · show (if (decide (c ≤ x) && decide (x < u.columns)) = true then defaultCell u else u.cell y x) = _
      have : ¬ c ≤ x := by omega
      simp [this]
    · rfl
  rw [hcut, hs2]
  unfold expectedCell
  simp only
  by_cases c1 : y + (s.lines - l) < s.lines
  · by_cases c2 : x < s.columns
    · simp [c1, c2, hx, hy]
    · have := h.outside (y + (s.lines - l)) x (fun c => c2 c.2)
      simp [c1, c2, this]
  · simp [c1]

/-- the cursor ends inside the new bounds, with its rendition and visibility unchanged,
    and the new state is well-formed (nothing is kept outside the new grid) -/
theorem resize_wellformed (s : Screen) (h : Inv s) (lines columns : Option Nat)
    (hl : ∀ v, lines = some v → 1 ≤ v ∧ v < dimBound) (hc : ∀ v, columns = some v → 1 ≤ v ∧ v < dimBound) :
    Inv (resize s lines columns) := inv_resize h lines columns hl hc

/-- content discarded by a shrink does not come back when the screen grows again:
    shrink to `l x c`, then grow back: the regained area is blank -/
theorem shrink_then_grow (s : Screen) (h : Inv s) (l c : Nat) (hl1 : 1 ≤ l) (hc1 : 1 ≤ c)
    (hl : l ≤ s.lines) (hc : c ≤ s.columns) (hne : ¬ (l = s.lines ∧ c = s.columns)) (y x : Nat)
    (hy : y < s.lines) (hx : x < s.columns) (hout : l ≤ y ∨ c ≤ x) :
    (resize (resize s (some l) (some c)) (some s.lines) (some s.columns)).cell y x =
      defaultCell (resize s (some l) (some c)) := by
  have hdl := h.diml
  have hdc := h.dimc
  have hr : Inv (resize s (some l) (some c)) := inv_resize h _ _
    (by intro v e; cases e; exact ⟨hl1, by omega⟩) (by intro v e; cases e; exact ⟨hc1, by omega⟩)
  obtain ⟨r1, r2, _, _, _⟩ := resize_spec s h (some l) (some c) (by simpa using hne)
  simp only [Option.getD_some] at r1 r2
  have hne2 : ¬ ((some s.lines).getD (resize s (some l) (some c)).lines = (resize s (some l) (some c)).lines ∧
      (some s.columns).getD (resize s (some l) (some c)).columns = (resize s (some l) (some c)).columns) := by
    simp only [Option.getD_some, r1, r2]
    intro e; exact hne ⟨e.1.symm, e.2.symm⟩
  obtain ⟨_, _, _, _, q⟩ := resize_spec _ hr (some s.lines) (some s.columns) hne2
  simp only [Option.getD_some] at q
  rw [q y x hy hx]
  unfold expectedCell
  simp only [r1, r2]
  have d0 : l - s.lines = 0 := by omega
  rw [d0]
  simp only [Nat.add_zero]
  by_cases c1 : x < c ∧ x < s.columns ∧ y < l ∧ y < s.lines
  · omega
  · simp [c1]

/-! #### what resize leaves alone -/

theorem kept_dropRows (s1 : Screen) (h : Inv s1) (l : Nat) : Kept s1 (dropRowsFromTop s1 l) := by
  unfold dropRowsFromTop
  have hi := inv_deleteLines (inv_cursorPosition (inv_saveCursor h) (some 0) (some 0)) (some (s1.lines - l))
  obtain ⟨d1, d2, d3, d4, d5, d6⟩ := deleteLines_geo (cursorPosition (saveCursor s1) (some 0) (some 0)) (some (s1.lines - l))
  have q := C12.quiet_cursorPosition (saveCursor s1) (some 0) (some 0)
  have hsp : (deleteLines (cursorPosition (saveCursor s1) (some 0) (some 0)) (some (s1.lines - l))).savepoints =
      C14.snapshot s1 :: s1.savepoints := by rw [d6, q.savepoints]; rfl
  have e := C14.restore_spec _ hi _ _ hsp
  rw [e]
  have hcs : (cursorPosition (saveCursor s1) (some 0) (some 0)).savedColumns = s1.savedColumns := by
    unfold cursorPosition
    simp only
    split
    · split
      · split <;> rfl
      · rfl
    · rfl
  have hdl : ∀ (t : Screen) (n : Option Nat), (deleteLines t n).tabstops = t.tabstops ∧ (deleteLines t n).title = t.title ∧
      (deleteLines t n).icon = t.icon := by
    intro t n; unfold deleteLines; simp only; split <;> exact ⟨rfl, rfl, rfl⟩
  obtain ⟨t1, t2, t3⟩ := hdl (cursorPosition (saveCursor s1) (some 0) (some 0)) (some (s1.lines - l))
  refine ⟨?_, by show (deleteLines _ _).tabstops = _; rw [t1, q.tabstops]; rfl,
    by show (deleteLines _ _).title = _; rw [t2, q.title]; rfl,
    by show (deleteLines _ _).icon = _; rw [t3, q.icon]; rfl, rfl, rfl, rfl, rfl, rfl, rfl,
    by show (deleteLines _ _).savedColumns = _; rw [d4]; exact hcs⟩
  funext m
  show ((C14.snapshot s1).wrap && m == DECAWM || ((C14.snapshot s1).origin && m == DECOM ||
    (deleteLines (cursorPosition (saveCursor s1) (some 0) (some 0)) (some (s1.lines - l))).mode m)) = s1.mode m
  rw [d1, q.mode]
  show (s1.mode DECAWM && m == DECAWM || (s1.mode DECOM && m == DECOM || s1.mode m)) = s1.mode m
  have f1 : (DECAWM == DECOM) = false := by decide
  have f2 : (DECOM == DECAWM) = false := by decide
  by_cases e1 : m = DECAWM
  · subst e1; cases s1.mode DECAWM <;> cases s1.mode DECOM <;> simp [f1]
  · by_cases e2 : m = DECOM
    · subst e2; cases s1.mode DECOM <;> cases s1.mode DECAWM <;> simp [f2]
    · have b1 : (m == DECAWM) = false := by simpa using e1
      have b2 : (m == DECOM) = false := by simpa using e2
      rw [b1, b2]; simp

theorem kept_resize (s : Screen) (h : Inv s) (lines columns : Option Nat) : Kept s (resize s lines columns) := by
  unfold resize
  simp only
  split
  · exact ⟨rfl, rfl, rfl, rfl, rfl, rfl, rfl, rfl, rfl, rfl, rfl⟩
  · have hsm : ∀ t : Screen, setMargins t none none = { t with margins := none } := by
      intro t; simp [setMargins]
    rw [hsm]
    have h1 : Inv { s with margins := none } := { h with marg := by intro t b e; simp at e }
    have k2 : Kept s (if lines.getD s.lines < s.lines then dropRowsFromTop { s with margins := none } (lines.getD s.lines)
        else { s with margins := none }) := by
      split
      · have k := kept_dropRows _ h1 (lines.getD s.lines)
        exact ⟨k.mode, k.tabstops, k.title, k.icon, k.g0, k.g1, k.g1Active, k.savepoints, k.attr, k.hidden, k.savedColumns⟩
      · exact ⟨rfl, rfl, rfl, rfl, rfl, rfl, rfl, rfl, rfl, rfl, rfl⟩
    generalize (if lines.getD s.lines < s.lines then dropRowsFromTop { s with margins := none } (lines.getD s.lines)
        else { s with margins := none }) = s2 at k2
    have k3 : Kept s (if columns.getD s.columns < s2.columns then cutColumns s2 (columns.getD s.columns) else s2) := by
      split
      · exact ⟨k2.mode, k2.tabstops, k2.title, k2.icon, k2.g0, k2.g1, k2.g1Active, k2.savepoints, k2.attr, k2.hidden, k2.savedColumns⟩
      · exact k2
    exact ⟨k3.mode, k3.tabstops, k3.title, k3.icon, k3.g0, k3.g1, k3.g1Active, k3.savepoints, k3.attr, k3.hidden, k3.savedColumns⟩

/-! #### executable predicate -/

theorem resize_cursor (s : Screen) (h : Inv s) (lines columns : Option Nat)
    (hne : ¬ (lines.getD s.lines = s.lines ∧ columns.getD s.columns = s.columns))
    (hl : 1 ≤ lines.getD s.lines) :
    (resize s lines columns).cursor.y < lines.getD s.lines ∧
    (resize s lines columns).cursor.x ≤ columns.getD s.columns - 1 := by
  have hne' : (lines.getD s.lines == s.lines && columns.getD s.columns == s.columns) = false := by
    simp only [Bool.and_eq_false_iff, beq_eq_false_iff_ne, ne_eq]
    by_cases a : lines.getD s.lines = s.lines
    · right; exact fun b => hne ⟨a, b⟩
    · left; exact a
  unfold resize
  simp only [hne', Bool.false_eq_true, if_false]
  have hsm : ∀ t : Screen, setMargins t none none = { t with margins := none } := by
    intro t; simp [setMargins]
  rw [hsm]
  constructor
  · show min (max _ _) _ < _
    simp only [ensureHBounds, setCursorX]
    omega
  · show min _ (columns.getD s.columns - 1) ≤ _
    omega

theorem C16_holds (env : Env) (cands : List Nat) (s : Screen) (c : Call) (h : Inv s) (ha : c.argOk = true) :
    propC16 cands s c (step env s c) = true := by
  cases c <;> try rfl
  case resize lines columns =>
    simp only [propC16, step]
    by_cases hsame : lines.getD s.lines = s.lines ∧ columns.getD s.columns = s.columns
    · have e : resize s lines columns = s := by
        unfold resize; simp [hsame.1, hsame.2]
      simp [hsame.1, hsame.2, e, sameSettingsB, sameCellsB, sameDirtyB]
    · have hne' : (lines.getD s.lines == s.lines && columns.getD s.columns == s.columns) = false := by
        simp only [Bool.and_eq_false_iff, beq_eq_false_iff_ne, ne_eq]
        by_cases a : lines.getD s.lines = s.lines
        · right; exact fun b => hsame ⟨a, b⟩
        · left; exact a
      simp only [hne', Bool.false_eq_true, if_false]
      have hl1 : 1 ≤ lines.getD s.lines := by
        cases lines with
        | none => exact h.rows
        | some v =>
          simp only [Call.argOk, Bool.and_eq_true, dimOk, decide_eq_true_eq] at ha
          exact ha.1.1
      obtain ⟨r1, r2, r3, r4, r5⟩ := resize_spec s h lines columns hsame
      obtain ⟨c1, c2⟩ := resize_cursor s h lines columns hsame hl1
      have k := kept_resize s h lines columns
      simp only [Bool.and_eq_true, beq_iff_eq, List.all_eq_true, allCellsB_iff, decide_eq_true_eq]
      refine ⟨⟨⟨⟨⟨⟨⟨⟨⟨⟨⟨⟨⟨⟨⟨⟨⟨r1, r2⟩, r3⟩, fun d _ => r4 d⟩, fun y x hy hx => decide_eq_true (r5 y x hy hx)⟩, decide_eq_true c1⟩, decide_eq_true c2⟩, decide_eq_true k.attr⟩, k.hidden⟩,
        fun m _ => by rw [k.mode]⟩, fun m _ => by rw [k.tabstops]⟩, k.title⟩, k.icon⟩, decide_eq_true k.g0⟩, decide_eq_true k.g1⟩, k.g1Active⟩,
        decide_eq_true k.savepoints⟩, k.savedColumns⟩

/-- non-vacuity: shrink 4x3 -> 2x2 keeps the bottom-left part, growing back shows blanks -/
example :
    let env : Env := { W := fun _ => 1, CM := fun _ => false, NFC := id }
    let s0 := draw env (init 4 3) [97, 98, 99, 100, 101, 102, 103, 104, 105, 106, 107]
    let s1 := resize s0 (some 2) (some 2)
    let s2 := resize s1 (some 3) (some 4)
    display env s0 = [[97, 98, 99, 100], [101, 102, 103, 104], [105, 106, 107, 32]] ∧
    display env s1 = [[101, 102], [105, 106]] ∧
    display env s2 = [[101, 102, 32, 32], [105, 106, 32, 32], [32, 32, 32, 32]] := by
  decide

/-! #### the sparse layer -/

/-- `resize` on the HashMap buffer (rows re-keyed by the DL loop, per-row removal of the cut columns)
    observes as the dense crop / extend -/
theorem sparse_resize (ss : Sparse.SScreen) (l c : Option Nat) :
    Sparse.abs (Sparse.resize ss l c) = resize (Sparse.abs ss) l c := Sparse.abs_resize ss l c

/-- after `resize` every row key of the buffer is below the new height and every cell key below the
    new width: what was cut is gone from the HashMap, not merely out of sight -/
theorem sparse_resize_keys {ss : Sparse.SScreen} (h : Sparse.KeysIn ss) (hi : Inv (Sparse.abs ss)) (l c : Option Nat) :
    Sparse.KeysIn (Sparse.resize ss l c) := Sparse.keysIn_resize h hi l c

end C16
end Memterm

