import Memterm.Parser

/-
  Executable model of `src/byte_parser.rs`.  The UTF-8 decoding is done by
  `encoding_rs`'s streaming decoder (a dependency); it is modelled by the
  WHATWG "UTF-8 decoder" state machine, whose agreement with the crate is
  checked by the correspondence runs.
-/
namespace Memterm

/-- WHATWG UTF-8 decoder state: bytes still needed, code point so far,
    allowed range of the next continuation byte. -/
structure DState where
  needed : Nat
  cp : Nat
  lo : Nat
  hi : Nat
deriving DecidableEq, Repr, Inhabited

def DState.init : DState := { needed := 0, cp := 0, lo := 0x80, hi := 0xBF }

/-- Process one byte: new state and the characters emitted (0, 1 or 2). -/
def utf8Step (d : DState) (b : Nat) : DState × List Nat :=
  if d.needed == 0 then
    if b ≤ 0x7F then (DState.init, [b])
    else if 0xC2 ≤ b && b ≤ 0xDF then ({ needed := 1, cp := b - 0xC0, lo := 0x80, hi := 0xBF }, [])
    else if 0xE0 ≤ b && b ≤ 0xEF then
      ({ needed := 2, cp := b - 0xE0,
         lo := if b == 0xE0 then 0xA0 else 0x80,
         hi := if b == 0xED then 0x9F else 0xBF }, [])
    else if 0xF0 ≤ b && b ≤ 0xF4 then
      ({ needed := 3, cp := b - 0xF0,
         lo := if b == 0xF0 then 0x90 else 0x80,
         hi := if b == 0xF4 then 0x8F else 0xBF }, [])
    else (DState.init, [0xFFFD])
  else if d.lo ≤ b && b ≤ d.hi then
    let cp := d.cp * 64 + (b - 0x80)
    if d.needed == 1 then (DState.init, [cp])
    else ({ needed := d.needed - 1, cp := cp, lo := 0x80, hi := 0xBF }, [])
  else
    -- ill-formed: emit U+FFFD for the maximal subpart and reprocess the byte
    let r :=
      if b ≤ 0x7F then (DState.init, [b])
      else if 0xC2 ≤ b && b ≤ 0xDF then ({ needed := 1, cp := b - 0xC0, lo := 0x80, hi := 0xBF : DState }, [])
      else if 0xE0 ≤ b && b ≤ 0xEF then
        ({ needed := 2, cp := b - 0xE0,
           lo := if b == 0xE0 then 0xA0 else 0x80,
           hi := if b == 0xED then 0x9F else 0xBF : DState }, [])
      else if 0xF0 ≤ b && b ≤ 0xF4 then
        ({ needed := 3, cp := b - 0xF0,
           lo := if b == 0xF0 then 0x90 else 0x80,
           hi := if b == 0xF4 then 0x8F else 0xBF : DState }, [])
      else (DState.init, [0xFFFD])
    (r.1, 0xFFFD :: r.2)

def utf8Decode (d : DState) : List Nat → DState × List Nat
  | [] => (d, [])
  | b :: bs =>
    let r := utf8Step d b
    let r2 := utf8Decode r.1 bs
    (r2.1, r.2 ++ r2.2)

structure ByteParser where
  parser : Parser
  dec : DState
deriving DecidableEq, Repr, Inhabited

def ByteParser.init : ByteParser := { parser := Parser.init, dec := DState.init }

/-- `ByteParser::feed(data)` -/
def feedBytes (bp : ByteParser) (data : List Nat) : ByteParser × List Call :=
  if bp.parser.useUtf8 then
    let r := utf8Decode bp.dec data
    let r2 := feed bp.parser r.2
    ({ parser := r2.1, dec := r.1 }, r2.2)
  else
    let r2 := feed bp.parser data
    ({ bp with parser := r2.1 }, r2.2)

/-- `ByteParser::select_other_charset(code)` -/
def selectOtherCharset (bp : ByteParser) (code : List Nat) : ByteParser :=
  if code == [64] then                       -- "@"
    { parser := { bp.parser with useUtf8 := false }, dec := DState.init }
  else if code == [71] || code == [56] then  -- "G" | "8"
    { bp with parser := { bp.parser with useUtf8 := true } }
  else bp

end Memterm
