import Memterm.Step

/-
  The well-formedness invariant (C09) and the argument-range predicate, as
  propositions over the model state.
-/
namespace Memterm

/-- upper bound on dimensions (DESIGN R11): keeps all u32 / i32 arithmetic exact -/
def dimBound : Nat := 2147473648

structure Inv (s : Screen) : Prop where
  cols : 1 ≤ s.columns
  rows : 1 ≤ s.lines
  dimc : s.columns < dimBound
  diml : s.lines < dimBound
  cy : s.cursor.y < s.lines
  cx : s.cursor.x ≤ s.columns
  marg : ∀ t b, s.margins = some (t, b) → t < b ∧ b ≤ s.lines - 1
  dirty : ∀ d, s.dirty d = true → d < s.lines
  /-- nothing is stored outside the grid (dense form of "no hidden cells") -/
  outside : ∀ y x, ¬ (y < s.lines ∧ x < s.columns) → s.cell y x = defaultCell s
  saved : ∀ c, s.savedColumns = some c → 1 ≤ c ∧ c < dimBound

/-- An operation that only moves the cursor (and possibly changes fields the
    invariant does not mention) preserves the invariant. -/
theorem Inv.of_cursor_only {s s' : Screen} (h : Inv s)
    (hc : s'.columns = s.columns) (hl : s'.lines = s.lines) (hm : s'.margins = s.margins)
    (hd : s'.dirty = s.dirty) (hcell : s'.cell = s.cell) (hmode : s'.mode = s.mode)
    (hs : s'.savedColumns = s.savedColumns)
    (hy : s'.cursor.y < s.lines) (hx : s'.cursor.x ≤ s.columns) : Inv s' := by
  refine ⟨?_, ?_, ?_, ?_, ?_, ?_, ?_, ?_, ?_, ?_⟩
  · rw [hc]; exact h.cols
  · rw [hl]; exact h.rows
  · rw [hc]; exact h.dimc
  · rw [hl]; exact h.diml
  · rw [hl]; exact hy
  · rw [hc]; exact hx
  · intro t b e; rw [hm] at e; rw [hl]; exact h.marg t b e
  · intro d e; rw [hd] at e; rw [hl]; exact h.dirty d e
  · intro y x e
    rw [hl, hc] at e
    rw [hcell]
    have := h.outside y x e
    rw [this]
    simp [defaultCell, defaultAttr, hmode]
  · intro c e; rw [hs] at e; exact h.saved c e

theorem topMargin_lt {s : Screen} (h : Inv s) : topMargin s < s.lines := by
  unfold topMargin
  split
  · rename_i t b e
    have := h.marg t b e
    have := h.rows
    omega
  · exact h.rows

theorem bottomMargin_lt {s : Screen} (h : Inv s) : bottomMargin s < s.lines := by
  unfold bottomMargin
  split
  · rename_i t b e
    have := h.marg t b e
    have := h.rows
    omega
  · have := h.rows; omega

theorem topMargin_le_bottom {s : Screen} (h : Inv s) : topMargin s ≤ bottomMargin s := by
  unfold topMargin bottomMargin
  split
  · rename_i t b e
    have := h.marg t b e
    omega
  · omega

end Memterm
