import Memterm.Step

/-
  The SPARSE layer: an executable model of `Screen.buffer`, the
  `HashMap<u32, HashMap<u32, CharOpts>>` of `src/screen.rs`, and of every function that
  reads or writes it, following the Rust loops statement by statement (each `for` loop is a
  fold over the list of its indices, `entry().or_insert` / `get` / `insert` / `remove` are the
  map operations below).  Rows and cells that were never written are ABSENT; `read` is how
  an embedder (or the harness's dump) observes a cell.  `Memterm/Proofs/SparseRefine.lean`
  proves that the observation of every sparse operation is the dense operation of
  `Memterm/Screen.lean` on the observation (refinement), that no key is ever stored outside
  the grid, and that `display()`'s materialisation is unobservable.
-/
namespace Memterm
namespace Sparse

/-! ### finite maps with unique keys (order is irrelevant, as in a HashMap) -/

def lookup {α : Type} (k : Nat) : List (Nat × α) → Option α
  | [] => none
  | (k', v) :: r => if k' == k then some v else lookup k r

def erase {α : Type} (k : Nat) (m : List (Nat × α)) : List (Nat × α) := m.filter (fun p => p.1 != k)

def insert {α : Type} (k : Nat) (v : α) (m : List (Nat × α)) : List (Nat × α) := (k, v) :: erase k m

abbrev Row := List (Nat × Cell)
abbrev Buf := List (Nat × Row)

/-- `[hi-1, ..., lo]` : the indices of `(lo..hi).rev()` -/
def downFrom (lo : Nat) : Nat → List Nat
  | 0 => []
  | hi + 1 => if lo ≤ hi then hi :: downFrom lo hi else []

/-- `[lo, ..., hi-1]` : the indices of `lo..hi` -/
def upToF (lo : Nat) : Nat → List Nat
  | 0 => []
  | f + 1 => lo :: upToF (lo + 1) f

def upTo (lo hi : Nat) : List Nat := upToF lo (hi - lo)

/-- The sparse screen: every field of `Screen` except the cell store (the `cell` field of `s`
    is not used by this layer), plus the buffer. -/
structure SScreen where
  s : Screen
  buf : Buf

/-- the row map under key `y` (`buffer.get(&y)`), empty if absent -/
def rowOf (b : Buf) (y : Nat) : Row := (lookup y b).getD []

/-- how a cell is observed: absent reads as `default_char()` -/
def read (ss : SScreen) (y x : Nat) : Cell :=
  match lookup y ss.buf with
  | none => defaultCell ss.s
  | some row => (lookup x row).getD (defaultCell ss.s)

/-- the observation: the dense state of `Memterm/Screen.lean` -/
def abs (ss : SScreen) : Screen := { ss.s with cell := read ss }

/-! ### the buffer-touching operations, loop by loop -/

/-- `for x in (cursor.x..columns).rev() { if x + count < columns { line.insert(x + count,
    line.get(&x).cloned().unwrap_or(default)) }; line.insert(x, default) }` -/
def ichLoop (dflt : Cell) (count columns : Nat) : List Nat → Row → Row
  | [], line => line
  | x :: xs, line =>
    let line1 := if x + count < columns then insert (x + count) ((lookup x line).getD dflt) line else line
    ichLoop dflt count columns xs (insert x dflt line1)

/-- `insert_characters` -/
def insertCharacters (ss : SScreen) (count : Option Nat) : SScreen :=
  let s := ss.s
  let n := nz count
  let line := ichLoop (defaultCell s) n s.columns (downFrom s.cursor.x s.columns) (rowOf ss.buf s.cursor.y)
  { s := markDirty s s.cursor.y, buf := insert s.cursor.y line ss.buf }

/-- `for x in cursor.x..columns { if x + count < columns { if let Some(c) = line.remove(&(x + count))
    { line.insert(x, c) } else { line.insert(x, default) } } else { line.remove(&x) } }` -/
def dchLoop (dflt : Cell) (count columns : Nat) : List Nat → Row → Row
  | [], line => line
  | x :: xs, line =>
    let line1 :=
      if x + count < columns then
        match lookup (x + count) line with
        | some c => insert x c (erase (x + count) line)
        | none => insert x dflt line
      else erase x line
    dchLoop dflt count columns xs line1

/-- `delete_characters` -/
def deleteCharacters (ss : SScreen) (count : Option Nat) : SScreen :=
  let s := ss.s
  let n := nz count
  let line := dchLoop (defaultCell s) n s.columns (upTo s.cursor.x s.columns) (rowOf ss.buf s.cursor.y)
  { s := markDirty s s.cursor.y, buf := insert s.cursor.y line ss.buf }

/-- `for x in xs { line.insert(x, v) }` -/
def fillLoop (v : Cell) : List Nat → Row → Row
  | [], line => line
  | x :: xs, line => fillLoop v xs (insert x v line)

/-- `erase_characters` -/
def eraseCharacters (ss : SScreen) (count : Option Nat) : SScreen :=
  let s := ss.s
  let n := nz count
  let line := fillLoop (cursorCell s) (upTo s.cursor.x (min (s.cursor.x + n) s.columns)) (rowOf ss.buf s.cursor.y)
  { s := markDirty s s.cursor.y, buf := insert s.cursor.y line ss.buf }

/-- the interval of `erase_in_line` as the list the loop runs over -/
def elList (s : Screen) (h : Nat) : Option (List Nat) :=
  match h with
  | 0 => some (upTo s.cursor.x s.columns)
  | 1 => some (upTo 0 (min s.cursor.x (s.columns - 1) + 1))
  | 2 => some (upTo 0 s.columns)
  | _ => none

/-- `erase_in_line` -/
def eraseInLine (ss : SScreen) (how : Option Nat) : SScreen :=
  let s := ss.s
  let s1 := markDirty s s.cursor.y
  match elList s (how.getD 0) with
  | none => { ss with s := s1 }
  | some xs => { s := s1, buf := insert s.cursor.y (fillLoop (cursorCell s) xs (rowOf ss.buf s.cursor.y)) ss.buf }

/-- `for y in interval { let line = buffer.entry(y).or_insert(new); for x in 0..columns { line.insert(x, attr) } }` -/
def edLoop (v : Cell) (columns : Nat) : List Nat → Buf → Buf
  | [], b => b
  | y :: ys, b => edLoop v columns ys (insert y (fillLoop v (upTo 0 columns) (rowOf b y)) b)

/-- `erase_in_display` -/
def eraseInDisplay (ss : SScreen) (how : Option Nat) : SScreen :=
  let s := ss.s
  let h := how.getD 0
  let r := edRows s h
  let ss2 : SScreen := { s := markDirtyRange s r.1 r.2, buf := edLoop (cursorCell s) s.columns (upTo r.1 r.2) ss.buf }
  if h == 0 || h == 1 then eraseInLine ss2 (some h) else ss2

/-- the rebuilt row map of `index` / `reverse_index`: exactly the keys `0..lines`, each the old
    row (`entry(y).or_insert(new).clone()`) of the given source, or a new empty one -/
def rebuild (lines : Nat) (src : Nat → Option Nat) (b : Buf) : Buf :=
  (List.range lines).map fun y =>
    (y, match src y with
        | some y' => rowOf b y'
        | none => [])

/-- `index` -/
def index (ss : SScreen) : SScreen :=
  let s := ss.s
  let t := topMargin s
  let b := bottomMargin s
  if s.cursor.y == b then
    { s := markAllDirty s,
      buf := rebuild s.lines (fun y => if t ≤ y && y < b then some (y + 1) else if y == b then none else some y) ss.buf }
  else { ss with s := cursorDown s none }

/-- `linefeed` -/
def linefeed (ss : SScreen) : SScreen :=
  let ss1 := index ss
  if ss1.s.mode Gen.LNM then { ss1 with s := cariageReturn ss1.s } else ss1

/-- `reverse_index` -/
def reverseIndex (ss : SScreen) : SScreen :=
  let s := ss.s
  let t := topMargin s
  let b := bottomMargin s
  if s.cursor.y == t then
    { s := markAllDirty s,
      buf := rebuild s.lines (fun y => if t < y && y ≤ b then some (y - 1) else if y == t then none else some y) ss.buf }
  else { ss with s := cursorUp s none }

/-- `for y in (cursor.y..=bottom).rev() { if y + count <= bottom { if let Some(line) = buffer.remove(&y)
    { buffer.insert(y + count, line) } } else { buffer.remove(&y) } }` -/
def ilLoop (count bottom : Nat) : List Nat → Buf → Buf
  | [], b => b
  | y :: ys, b =>
    let b1 :=
      if y + count ≤ bottom then
        match lookup y b with
        | some line => insert (y + count) line (erase y b)
        | none => b
      else erase y b
    ilLoop count bottom ys b1

/-- `insert_lines` -/
def insertLines (ss : SScreen) (count : Option Nat) : SScreen :=
  let s := ss.s
  let n := nz count
  let t := topMargin s
  let b := bottomMargin s
  if t ≤ s.cursor.y && s.cursor.y ≤ b then
    { s := cariageReturn (markDirtyRange s s.cursor.y s.lines),
      buf := ilLoop n b (downFrom s.cursor.y (b + 1)) ss.buf }
  else ss

/-- `for y in cursor.y..=bottom { if y + count <= bottom { if let Some(line) = buffer.remove(&(y + count))
    { buffer.insert(y, line) } else { buffer.remove(&y) } } else { buffer.remove(&y) } }` -/
def dlLoop (count bottom : Nat) : List Nat → Buf → Buf
  | [], b => b
  | y :: ys, b =>
    let b1 :=
      if y + count ≤ bottom then
        match lookup (y + count) b with
        | some line => insert y line (erase (y + count) b)
        | none => erase y b
      else erase y b
    dlLoop count bottom ys b1

/-- `delete_lines` -/
def deleteLines (ss : SScreen) (count : Option Nat) : SScreen :=
  let s := ss.s
  let n := nz count
  let t := topMargin s
  let b := bottomMargin s
  if t ≤ s.cursor.y && s.cursor.y ≤ b then
    { s := cariageReturn (markDirtyRange s s.cursor.y s.lines),
      buf := dlLoop n b (upTo s.cursor.y (b + 1)) ss.buf }
  else ss


/-! ### draw -/

/-- `buffer.entry(y).or_insert_with(HashMap::new)` without using the result -/
def touchRow (y : Nat) (b : Buf) : Buf :=
  match lookup y b with
  | some _ => b
  | none => insert y [] b

/-- the wrap test at the head of the loop body (for a character that will be drawn) -/
def wrapStage (ss : SScreen) (w : Nat) : SScreen :=
  let s := ss.s
  if s.cursor.x == s.columns then
    if s.mode Gen.DECAWM then linefeed { ss with s := cariageReturn (markDirty s s.cursor.y) }
    else { ss with s := setCursorX s (s.cursor.x - w) }
  else ss

def irmStage (ss : SScreen) (w : Nat) : SScreen :=
  if ss.s.mode Gen.IRM then insertCharacters ss (some w) else ss

/-- `line.insert(x, cell)` (and the placeholder of a double-width character), cursor advance -/
def putChar (ss : SScreen) (c w : Nat) : SScreen :=
  let s := ss.s
  let row := rowOf ss.buf s.cursor.y
  let row1 := insert s.cursor.x { data := [c], attr := s.cursor.attr } row
  let row2 :=
    if w == 2 && s.cursor.x + 1 < s.columns then insert (s.cursor.x + 1) { data := [], attr := s.cursor.attr } row1
    else row1
  { s := setCursorX s (min (s.cursor.x + w) s.columns), buf := insert s.cursor.y row2 ss.buf }

/-- `line.entry(x).or_insert(default).data = nfc(data) + c` -/
def combineAt (env : Env) (dflt : Cell) (y x c : Nat) (b : Buf) : Buf :=
  let row := rowOf b y
  let old := (lookup x row).getD dflt
  insert y (insert x { old with data := env.NFC old.data ++ [c] } row) b

def combine (env : Env) (ss : SScreen) (c : Nat) : SScreen :=
  let s := ss.s
  let b := touchRow s.cursor.y ss.buf
  if s.cursor.x > 0 then
    { ss with buf := combineAt env (defaultCell s) s.cursor.y (s.cursor.x - 1) c b }
  else if s.cursor.y > 0 then
    { s := markDirty s (s.cursor.y - 1), buf := combineAt env (defaultCell s) (s.cursor.y - 1) (s.columns - 1) c b }
  else { ss with buf := b }

def drawChar (env : Env) (ss : SScreen) (c : Nat) : SScreen :=
  let w := env.W c
  if w == 1 || w == 2 then putChar (irmStage (wrapStage ss w) w) c w
  else if w == 0 && env.CM c then combine env ss c
  else { ss with buf := touchRow ss.s.cursor.y ss.buf }

/-- `draw(data)` -/
def draw (env : Env) (ss : SScreen) (data : List Nat) : SScreen :=
  let ss1 := (data.map (translate ss.s)).foldl (drawChar env) ss
  { ss1 with s := markDirty ss1.s ss1.s.cursor.y }

/-! ### alignment display, reverse video, resize, reset, display -/

/-- `for x in xs { let c = line.entry(x).or_insert(default); c.data = "E" }` -/
def alignRow (dflt : Cell) : List Nat → Row → Row
  | [], line => line
  | x :: xs, line => alignRow dflt xs (insert x { ((lookup x line).getD dflt) with data := [69] } line)

def alignLoop (dflt : Cell) (columns : Nat) : List Nat → Buf → Buf
  | [], b => b
  | y :: ys, b => alignLoop dflt columns ys (insert y (alignRow dflt (upTo 0 columns) (rowOf b y)) b)

/-- `alignment_display` -/
def alignmentDisplay (ss : SScreen) : SScreen :=
  let s := ss.s
  { s := markAllDirty s, buf := alignLoop (defaultCell s) s.columns (upTo 0 s.lines) ss.buf }

/-- `for line in buffer.values_mut() { for x in line.iter_mut() { x.1.reverse = v } }` -/
def flipAll (v : Bool) (b : Buf) : Buf :=
  b.map fun (y, row) => (y, row.map fun (x, c) => (x, { c with attr := { c.attr with reverse := v } }))

/-- `for line in buffer.values_mut() { for x in columns..self.columns { line.remove(&x) } }` -/
def cutColumns (c cols : Nat) (b : Buf) : Buf :=
  b.map fun (y, row) => (y, row.filter fun (x, _) => !(c ≤ x && x < cols))

/-- lift an operation that neither reads nor writes the buffer -/
def lift (f : Screen → Screen) (ss : SScreen) : SScreen := { ss with s := f ss.s }

/-- the `save_cursor; cursor_position(0, 0); delete_lines(lines - l); restore_cursor` block of `resize` -/
def dropRowsFromTop (ss1 : SScreen) (l : Nat) : SScreen :=
  lift restoreCursor
    (deleteLines (lift (fun s => cursorPosition (saveCursor s) (some 0) (some 0)) ss1) (some (ss1.s.lines - l)))

/-- `resize(lines, columns)` -/
def resize (ss : SScreen) (lines columns : Option Nat) : SScreen :=
  let l := lines.getD ss.s.lines
  let c := columns.getD ss.s.columns
  if l == ss.s.lines && c == ss.s.columns then ss
  else
    let ss1 : SScreen := lift (fun s => { s with margins := none }) ss
    let ss2 := if l < ss1.s.lines then dropRowsFromTop ss1 l else ss1
    let ss3 : SScreen := if c < ss2.s.columns then { ss2 with buf := cutColumns c ss2.s.columns ss2.buf } else ss2
    lift (fun s3 =>
      ensureVBounds (ensureHBounds (setMargins { s3 with lines := l, columns := c, dirty := fun d => d < l } none none)) false) ss3

/-- `reset`: `buffer.clear()` and the re-initialisation of every other field (the dense `reset`) -/
def reset (ss : SScreen) : SScreen := { s := Memterm.reset ss.s, buf := [] }

/-- `line.entry(x).or_insert(default)` without using the result -/
def orInsert (x : Nat) (dflt : Cell) (row : Row) : Row :=
  match lookup x row with
  | some _ => row
  | none => insert x dflt row

/-- the materialisation done by the `render` closure of `display()`: the cells it reads are
    stored if they were absent (`entry(x).or_insert(default)`), the cell after a double-width
    lead is skipped and therefore not materialised -/
def renderRow (env : Env) (dflt : Cell) (columns : Nat) : Nat → Nat → Bool → Row → Row × List Nat
  | 0, _, _, row => (row, [])
  | fuel + 1, x, skip, row =>
    if x < columns then
      if skip then renderRow env dflt columns fuel (x + 1) false row
      else
        let row1 := orInsert x dflt row
        let d := ((lookup x row).getD dflt).data
        let r := renderRow env dflt columns fuel (x + 1) (wideText env.W d) row1
        (r.1, d ++ r.2)
    else (row, [])

def displayLoop (env : Env) (dflt : Cell) (columns : Nat) : List Nat → Buf → Buf × List (List Nat)
  | [], b => (b, [])
  | y :: ys, b =>
    let r := renderRow env dflt columns columns 0 false (rowOf b y)
    let r2 := displayLoop env dflt columns ys (insert y r.1 b)
    (r2.1, r.2 :: r2.2)

/-- `display()`: the new (materialised) state and the rendering -/
def display (env : Env) (ss : SScreen) : SScreen × List (List Nat) :=
  let r := displayLoop env (defaultCell ss.s) ss.s.columns (upTo 0 ss.s.lines) ss.buf
  ({ ss with buf := r.1 }, r.2)

/-! ### modes (same order of the blocks as the dense model, see DESIGN.md section 3) -/

def applySetModes (ss : SScreen) (ml : List Nat) : SScreen :=
  if ml.contains Gen.DECSCNM then
    { s := selectGraphicRendition (addModes (markAllDirty ss.s) ml) [7], buf := flipAll true ss.buf }
  else lift (fun s => addModes s ml) ss

def applyResetModes (ss : SScreen) (ml : List Nat) : SScreen :=
  if ml.contains Gen.DECSCNM then
    { s := selectGraphicRendition (removeModes (markAllDirty ss.s) ml) [27], buf := flipAll false ss.buf }
  else lift (fun s => removeModes s ml) ss

def colmSet (ss : SScreen) : SScreen :=
  lift (fun s => cursorPosition s none none)
    (eraseInDisplay (resize (lift (fun s => { s with savedColumns := some s.columns }) ss) none (some 132)) (some 2))

def colmRestore (ss : SScreen) : SScreen :=
  if ss.s.columns == 132 then
    match ss.s.savedColumns with
    | some sc => lift (fun s => { s with savedColumns := none }) (resize ss none (some sc))
    | none => ss
  else ss

def colmReset (ss : SScreen) : SScreen :=
  lift (fun s => cursorPosition s none none) (eraseInDisplay (colmRestore ss) (some 2))

def setMode (ss : SScreen) (modes : List Nat) (priv : Bool) : SScreen :=
  let ml := shiftModes modes priv
  let ss1 := applySetModes ss ml
  let ss2 := if ml.contains Gen.DECCOLM then colmSet ss1 else ss1
  lift (fun s => hiddenIf (ml.contains Gen.DECTCEM) false (homeIf (ml.contains Gen.DECOM) s)) ss2

def resetMode (ss : SScreen) (modes : List Nat) (priv : Bool) : SScreen :=
  let ml := shiftModes modes priv
  let ss1 := applyResetModes ss ml
  let ss2 := if ml.contains Gen.DECCOLM then colmReset ss1 else ss1
  lift (fun s => hiddenIf (ml.contains Gen.DECTCEM) true (homeIf (ml.contains Gen.DECOM) s)) ss2

/-! ### one step -/

/-- one operation on the sparse state (`display()` materialises, see `display`) -/
def step (env : Env) (ss : SScreen) : Call → SScreen
  | .alignmentDisplay => alignmentDisplay ss
  | .reset => reset ss
  | .index => index ss
  | .linefeed => linefeed ss
  | .reverseIndex => reverseIndex ss
  | .draw t => draw env ss t
  | .insertCharacters n => insertCharacters ss n
  | .eraseInDisplay h => eraseInDisplay ss h
  | .eraseInLine h => eraseInLine ss h
  | .insertLines n => insertLines ss n
  | .deleteLines n => deleteLines ss n
  | .deleteCharacters n => deleteCharacters ss n
  | .eraseCharacters n => eraseCharacters ss n
  | .setMode ms p => setMode ss ms p
  | .resetMode ms p => resetMode ss ms p
  | .resize l c => resize ss l c
  | .display => (display env ss).1
  | c => lift (fun s => Memterm.step env s c) ss

/-- `Screen::new(columns, lines)` -/
def init (columns lines : Nat) : SScreen := { s := Memterm.init columns lines, buf := [] }

end Sparse
end Memterm
