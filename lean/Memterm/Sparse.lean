import Memterm.Step

/-
  The SPARSE layer: an executable model of `Screen.buffer`, the
  `HashMap<u32, HashMap<u32, CharOpts>>` of `src/screen.rs`, and of every function that
  reads or writes it, following the Rust loops statement by statement (each `for` loop is a
  fold over the list of its indices, `entry().or_insert` / `get` / `insert` / `remove` are the
  map operations below).  Rows and cells that were never written are ABSENT; `read` is how
  an embedder (or the harness's dump) observes a cell.  `Memterm/Proofs/SparseRefine.lean`
  proves that the observation of every sparse operation is the dense operation of
  `Memterm/Screen.lean` on the observation (refinement), that no key is ever stored outside
  the grid, and that `display()`'s materialisation is unobservable.
-/
namespace Memterm
namespace Sparse

/-! ### finite maps with unique keys (order is irrelevant, as in a HashMap) -/

def lookup {α : Type} (k : Nat) : List (Nat × α) → Option α
  | [] => none
  | (k', v) :: r => if k' == k then some v else lookup k r

def erase {α : Type} (k : Nat) (m : List (Nat × α)) : List (Nat × α) := m.filter (fun p => p.1 != k)

def insert {α : Type} (k : Nat) (v : α) (m : List (Nat × α)) : List (Nat × α) := (k, v) :: erase k m

abbrev Row := List (Nat × Cell)
abbrev Buf := List (Nat × Row)

/-- `[hi-1, ..., lo]` : the indices of `(lo..hi).rev()` -/
def downFrom (lo : Nat) : Nat → List Nat
  | 0 => []
  | hi + 1 => if lo ≤ hi then hi :: downFrom lo hi else []

/-- `[lo, ..., hi-1]` : the indices of `lo..hi` -/
def upToF (lo : Nat) : Nat → List Nat
  | 0 => []
  | f + 1 => lo :: upToF (lo + 1) f

def upTo (lo hi : Nat) : List Nat := upToF lo (hi - lo)

/-- The sparse screen: every field of `Screen` except the cell store (the `cell` field of `s`
    is not used by this layer), plus the buffer. -/
structure SScreen where
  s : Screen
  buf : Buf

/-- the row map under key `y` (`buffer.get(&y)`), empty if absent -/
def rowOf (b : Buf) (y : Nat) : Row := (lookup y b).getD []

/-- how a cell is observed: absent reads as `default_char()` -/
def read (ss : SScreen) (y x : Nat) : Cell :=
  match lookup y ss.buf with
  | none => defaultCell ss.s
  | some row => (lookup x row).getD (defaultCell ss.s)

/-- the observation: the dense state of `Memterm/Screen.lean` -/
def abs (ss : SScreen) : Screen := { ss.s with cell := read ss }

/-! ### the buffer-touching operations, loop by loop -/

/-- `for x in (cursor.x..columns).rev() { if x + count < columns { line.insert(x + count,
    line.get(&x).cloned().unwrap_or(default)) }; line.insert(x, default) }` -/
def ichLoop (dflt : Cell) (count columns : Nat) : List Nat → Row → Row
  | [], line => line
  | x :: xs, line =>
    let line1 := if x + count < columns then insert (x + count) ((lookup x line).getD dflt) line else line
    ichLoop dflt count columns xs (insert x dflt line1)

/-- `insert_characters` -/
def insertCharacters (ss : SScreen) (count : Option Nat) : SScreen :=
  let s := ss.s
  let n := nz count
  let line := ichLoop (defaultCell s) n s.columns (downFrom s.cursor.x s.columns) (rowOf ss.buf s.cursor.y)
  { s := markDirty s s.cursor.y, buf := insert s.cursor.y line ss.buf }

/-- `for x in cursor.x..columns { if x + count < columns { if let Some(c) = line.remove(&(x + count))
    { line.insert(x, c) } else { line.insert(x, default) } } else { line.remove(&x) } }` -/
def dchLoop (dflt : Cell) (count columns : Nat) : List Nat → Row → Row
  | [], line => line
  | x :: xs, line =>
    let line1 :=
      if x + count < columns then
        match lookup (x + count) line with
        | some c => insert x c (erase (x + count) line)
        | none => insert x dflt line
      else erase x line
    dchLoop dflt count columns xs line1

/-- `delete_characters` -/
def deleteCharacters (ss : SScreen) (count : Option Nat) : SScreen :=
  let s := ss.s
  let n := nz count
  let line := dchLoop (defaultCell s) n s.columns (upTo s.cursor.x s.columns) (rowOf ss.buf s.cursor.y)
  { s := markDirty s s.cursor.y, buf := insert s.cursor.y line ss.buf }

/-- `for x in xs { line.insert(x, v) }` -/
def fillLoop (v : Cell) : List Nat → Row → Row
  | [], line => line
  | x :: xs, line => fillLoop v xs (insert x v line)

/-- `erase_characters` -/
def eraseCharacters (ss : SScreen) (count : Option Nat) : SScreen :=
  let s := ss.s
  let n := nz count
  let line := fillLoop (cursorCell s) (upTo s.cursor.x (min (s.cursor.x + n) s.columns)) (rowOf ss.buf s.cursor.y)
  { s := markDirty s s.cursor.y, buf := insert s.cursor.y line ss.buf }

/-- the interval of `erase_in_line` as the list the loop runs over -/
def elList (s : Screen) (h : Nat) : Option (List Nat) :=
  match h with
  | 0 => some (upTo s.cursor.x s.columns)
  | 1 => some (upTo 0 (min s.cursor.x (s.columns - 1) + 1))
  | 2 => some (upTo 0 s.columns)
  | _ => none

/-- `erase_in_line` -/
def eraseInLine (ss : SScreen) (how : Option Nat) : SScreen :=
  let s := ss.s
  let s1 := markDirty s s.cursor.y
  match elList s (how.getD 0) with
  | none => { ss with s := s1 }
  | some xs => { s := s1, buf := insert s.cursor.y (fillLoop (cursorCell s) xs (rowOf ss.buf s.cursor.y)) ss.buf }

/-- `for y in interval { let line = buffer.entry(y).or_insert(new); for x in 0..columns { line.insert(x, attr) } }` -/
def edLoop (v : Cell) (columns : Nat) : List Nat → Buf → Buf
  | [], b => b
  | y :: ys, b => edLoop v columns ys (insert y (fillLoop v (upTo 0 columns) (rowOf b y)) b)

/-- `erase_in_display` -/
def eraseInDisplay (ss : SScreen) (how : Option Nat) : SScreen :=
  let s := ss.s
  let h := how.getD 0
  let r := edRows s h
  let ss2 : SScreen := { s := markDirtyRange s r.1 r.2, buf := edLoop (cursorCell s) s.columns (upTo r.1 r.2) ss.buf }
  if h == 0 || h == 1 then eraseInLine ss2 (some h) else ss2

/-- the rebuilt row map of `index` / `reverse_index`: exactly the keys `0..lines`, each the old
    row (`entry(y).or_insert(new).clone()`) of the given source, or a new empty one -/
def rebuild (lines : Nat) (src : Nat → Option Nat) (b : Buf) : Buf :=
  (List.range lines).map fun y =>
    (y, match src y with
        | some y' => rowOf b y'
        | none => [])

/-- `index` -/
def index (ss : SScreen) : SScreen :=
  let s := ss.s
  let t := topMargin s
  let b := bottomMargin s
  if s.cursor.y == b then
    { s := markAllDirty s,
      buf := rebuild s.lines (fun y => if t ≤ y && y < b then some (y + 1) else if y == b then none else some y) ss.buf }
  else { ss with s := cursorDown s none }

/-- `linefeed` -/
def linefeed (ss : SScreen) : SScreen :=
  let ss1 := index ss
  if ss1.s.mode Gen.LNM then { ss1 with s := cariageReturn ss1.s } else ss1

/-- `reverse_index` -/
def reverseIndex (ss : SScreen) : SScreen :=
  let s := ss.s
  let t := topMargin s
  let b := bottomMargin s
  if s.cursor.y == t then
    { s := markAllDirty s,
      buf := rebuild s.lines (fun y => if t < y && y ≤ b then some (y - 1) else if y == t then none else some y) ss.buf }
  else { ss with s := cursorUp s none }

/-- `for y in (cursor.y..=bottom).rev() { if y + count <= bottom { if let Some(line) = buffer.remove(&y)
    { buffer.insert(y + count, line) } } else { buffer.remove(&y) } }` -/
def ilLoop (count bottom : Nat) : List Nat → Buf → Buf
  | [], b => b
  | y :: ys, b =>
    let b1 :=
      if y + count ≤ bottom then
        match lookup y b with
        | some line => insert (y + count) line (erase y b)
        | none => b
      else erase y b
    ilLoop count bottom ys b1

/-- `insert_lines` -/
def insertLines (ss : SScreen) (count : Option Nat) : SScreen :=
  let s := ss.s
  let n := nz count
  let t := topMargin s
  let b := bottomMargin s
  if t ≤ s.cursor.y && s.cursor.y ≤ b then
    { s := cariageReturn (markDirtyRange s s.cursor.y s.lines),
      buf := ilLoop n b (downFrom s.cursor.y (b + 1)) ss.buf }
  else ss

/-- `for y in cursor.y..=bottom { if y + count <= bottom { if let Some(line) = buffer.remove(&(y + count))
    { buffer.insert(y, line) } else { buffer.remove(&y) } } else { buffer.remove(&y) } }` -/
def dlLoop (count bottom : Nat) : List Nat → Buf → Buf
  | [], b => b
  | y :: ys, b =>
    let b1 :=
      if y + count ≤ bottom then
        match lookup (y + count) b with
        | some line => insert y line (erase (y + count) b)
        | none => erase y b
      else erase y b
    dlLoop count bottom ys b1

/-- `delete_lines` -/
def deleteLines (ss : SScreen) (count : Option Nat) : SScreen :=
  let s := ss.s
  let n := nz count
  let t := topMargin s
  let b := bottomMargin s
  if t ≤ s.cursor.y && s.cursor.y ≤ b then
    { s := cariageReturn (markDirtyRange s s.cursor.y s.lines),
      buf := dlLoop n b (upTo s.cursor.y (b + 1)) ss.buf }
  else ss

end Sparse
end Memterm
