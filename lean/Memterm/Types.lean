/-
  State of the terminal model.  Characters are code points (`Nat`), strings
  are `List Nat`; sets (modes, tab stops, dirty rows) are membership functions.
  The cell store is the *observable* grid: a total function; cells that the
  implementation never wrote read as the default cell (see `defaultCell`).
-/
namespace Memterm

structure Attr where
  fg : List Nat
  bg : List Nat
  bold : Bool
  italics : Bool
  underscore : Bool
  strikethrough : Bool
  reverse : Bool
  blink : Bool
deriving DecidableEq, Repr, Inhabited

structure Cell where
  data : List Nat
  attr : Attr
deriving DecidableEq, Repr, Inhabited

structure Cursor where
  x : Nat
  y : Nat
  attr : Attr
  hidden : Bool
deriving DecidableEq, Repr, Inhabited

/-- The only character-set arrays the API can install. -/
inductive CsId
  | lat1 | vt100 | ibmpc | vax42
deriving DecidableEq, Repr, Inhabited

structure Savepoint where
  cursor : Cursor
  g0 : CsId
  g1 : CsId
  g1Active : Bool
  origin : Bool
  wrap : Bool
deriving DecidableEq, Repr, Inhabited

structure Screen where
  columns : Nat
  lines : Nat
  cursor : Cursor
  margins : Option (Nat × Nat)
  mode : Nat → Bool
  tabstops : Nat → Bool
  dirty : Nat → Bool
  title : List Nat
  icon : List Nat
  g0 : CsId
  g1 : CsId
  g1Active : Bool
  /-- head = most recently pushed -/
  savepoints : List Savepoint
  savedColumns : Option Nat
  cell : Nat → Nat → Cell

/-- Unicode facts the implementation takes from its dependencies
    (unicode-width, unicode-normalization).  Parameters of the model. -/
structure Env where
  /-- `UnicodeWidthChar::width(c).unwrap_or(0)` -/
  W : Nat → Nat
  /-- `is_combining_mark(c)` -/
  CM : Nat → Bool
  /-- NFC normalisation of a cell's text -/
  NFC : List Nat → List Nat

/-- "default" -/
def strDefault : List Nat := [100, 101, 102, 97, 117, 108, 116]

def strSpace : List Nat := [32]

end Memterm
