def hello := "world"
