import Memterm.Dump
import Memterm.Props.Frame
import Memterm.Spec.C09

/-
  Driver side: executable comparisons between a model state and a dumped
  implementation state, and the executable well-formedness predicate (C09)
  on dumped states.
-/
namespace Memterm

def attrColoursOk (a : Attr) : Bool := colourOk a.fg && colourOk a.bg

/-- C09 on a dumped implementation state: list of violated clauses. -/
def Dump.illFormed (d : Dump) : List String :=
  (if d.columns ≥ 1 && d.lines ≥ 1 then [] else ["dims<1"]) ++
  (if d.cursor.y < d.lines then [] else [s!"cursor.y={d.cursor.y}>=lines={d.lines}"]) ++
  (if d.cursor.x ≤ d.columns then [] else [s!"cursor.x={d.cursor.x}>columns={d.columns}"]) ++
  (match d.margins with
   | none => []
   | some (t, b) => if t < b && b ≤ d.lines - 1 then [] else [s!"margins=({t},{b})-lines={d.lines}"]) ++
  (match d.dirty.find? (· ≥ d.lines) with
   | some r => [s!"dirty-row={r}>=lines={d.lines}"]
   | none => []) ++
  (if attrColoursOk d.cursor.attr then [] else ["cursor-colour"]) ++
  (match d.cells.toList.find? (fun (y, x, c) => y < d.lines && x < d.columns && !attrColoursOk c.attr) with
   | some (y, x, _) => [s!"cell-colour@({y},{x})"]
   | none => [])

def cmpField {α} [BEq α] (name : String) (a b : α) : List String :=
  if a == b then [] else [name]

instance : BEq Call := ⟨fun a b => decide (a = b)⟩

/-- Compare a model state `m` with a dumped implementation state `d`.
    `cands` are the mode numbers on which membership is compared
    (both dumps' elements, the call's arguments in both spellings, the seven constants). -/
def compareState (m : Screen) (d : Dump) (cands : List Nat) : List String :=
  let i := d.toScreen
  cmpField "columns" m.columns i.columns ++
  cmpField "lines" m.lines i.lines ++
  cmpField "cursor.x" m.cursor.x i.cursor.x ++
  cmpField "cursor.y" m.cursor.y i.cursor.y ++
  cmpField "cursor.attr" m.cursor.attr i.cursor.attr ++
  cmpField "cursor.hidden" m.cursor.hidden i.cursor.hidden ++
  cmpField "margins" m.margins i.margins ++
  (if cands.all (fun c => m.mode c == i.mode c) then [] else ["mode"]) ++
  (if (List.range (max m.columns i.columns + 3) ++ d.tabstops).all (fun c => m.tabstops c == i.tabstops c)
    then [] else ["tabstops"]) ++
  cmpField "title" m.title i.title ++
  cmpField "icon" m.icon i.icon ++
  cmpField "g0" m.g0 i.g0 ++
  cmpField "g1" m.g1 i.g1 ++
  cmpField "g1Active" m.g1Active i.g1Active ++
  cmpField "savedColumns" m.savedColumns i.savedColumns ++
  cmpField "savepoints" m.savepoints i.savepoints ++
  (match (List.range i.lines).findSome? (fun y =>
      (List.range i.columns).findSome? (fun x =>
        if m.cell y x == i.cell y x then none else some (y, x))) with
   | some (y, x) => [s!"cell@({y},{x}):model={(m.cell y x).data}/{reprStr (m.cell y x).attr}:impl={(i.cell y x).data}/{reprStr (i.cell y x).attr}"]
   | none => [])

/-- exact comparison of the dirty sets (C17's tie) -/
def compareDirty (m : Screen) (d : Dump) : List String :=
  if (List.range (max m.lines d.lines + 3) ++ d.dirty).all (fun r => m.dirty r == d.dirty.contains r)
  then [] else ["dirty"]

/-- visible part of two dumped states equal? (used for display purity) -/
def sameObs (a b : Dump) : List String :=
  compareState a.toScreen b (a.mode ++ b.mode) ++ compareDirty a.toScreen b

def modeCands (pre post : Dump) (c : Call) : List Nat :=
  let args := match c with
    | .setMode ms _ | .resetMode ms _ => ms ++ ms.map (· * 32)
    | _ => []
  pre.mode ++ post.mode ++ args ++
    [Gen.LNM, Gen.IRM, Gen.DECTCEM, Gen.DECSCNM, Gen.DECOM, Gen.DECAWM, Gen.DECCOLM] ++ Gen.DEFAULT_MODE

end Memterm
