import Memterm.Step

/-
  Frame of select_graphic_rendition and the two codes DECSCNM uses, proved from the
  model directly (independent of the table theorems of C08, so that a change to an
  unrelated table entry does not break the properties that only need these).
-/
namespace Memterm

open Gen

/-- the rendition after SGR -/
def sgrAttr (s : Screen) (a : List Nat) : Attr := (selectGraphicRendition s a).cursor.attr

/-- SGR changes nothing but the cursor's rendition -/
theorem sgr_frame (s : Screen) (a : List Nat) :
    selectGraphicRendition s a = { s with cursor := { s.cursor with attr := sgrAttr s a } } := by
  unfold sgrAttr selectGraphicRendition
  split <;> rfl

theorem tableAct_7 : tableAct 7 = some (.flag [114, 101, 118, 101, 114, 115, 101] true) := by decide
theorem tableAct_27 : tableAct 27 = some (.flag [114, 101, 118, 101, 114, 115, 101] false) := by decide

theorem sgr7_reverse (s : Screen) : (sgrAttr s [7]).reverse = true := by
  unfold sgrAttr selectGraphicRendition
  simp [sgrLoop, tableAct_7, Act.run, setFlag]

theorem sgr27_reverse (s : Screen) : (sgrAttr s [27]).reverse = false := by
  unfold sgrAttr selectGraphicRendition
  simp [sgrLoop, tableAct_27, Act.run, setFlag]

end Memterm
