import Memterm.Proofs.InvStep
import Memterm.Spec.C09
import Memterm.Proofs.Sgr
import Memterm.Proofs.DrawFrame

/-
  The colour clause of C09: every reported cell (and the cursor's rendition, and every saved
  rendition) has a fg / bg that is a documented colour name or a hexadecimal colour string.
-/
namespace Memterm

open Gen

def AttrOk (a : Attr) : Prop := colourOk a.fg = true ∧ colourOk a.bg = true

structure ColInv (s : Screen) : Prop where
  cursor : AttrOk s.cursor.attr
  cells : ∀ y x, AttrOk (s.cell y x).attr
  saved : ∀ sp ∈ s.savepoints, AttrOk sp.cursor.attr

theorem default_ok : colourOk strDefault = true := by decide

theorem defaultAttr_ok (s : Screen) : AttrOk (defaultAttr s) := ⟨default_ok, default_ok⟩

/-! hexadecimal formatting -/

theorem hexDigit_ok (n : Nat) (h : n < 16) : isHexDigit (hexDigit n) = true := by
  unfold hexDigit isHexDigit
  split <;> simp <;> omega

theorem hexDigits_ok (fuel n : Nat) : (hexDigits fuel n).all isHexDigit = true := by
  induction fuel generalizing n with
  | zero => rfl
  | succ f ih =>
    unfold hexDigits
    split
    · rename_i h; simp [hexDigit_ok n h]
    · simp only [List.all_append, ih, Bool.true_and, List.all_cons, List.all_nil, Bool.and_true]
      exact hexDigit_ok _ (Nat.mod_lt _ (by decide))

theorem hexDigits_len (fuel n : Nat) (hf : 0 < fuel) : 1 ≤ (hexDigits fuel n).length := by
  cases fuel with
  | zero => omega
  | succ f =>
    unfold hexDigits
    split <;> simp

theorem hex2_ok (n : Nat) : (hex2 n).all isHexDigit = true ∧ 2 ≤ (hex2 n).length := by
  unfold hex2
  split
  · rename_i h
    have hd := hexDigit_ok n h
    have h0 : isHexDigit 48 = true := by decide
    refine ⟨by simp only [List.all_cons, List.all_nil, h0, hd, Bool.and_self], by simp⟩
  · rename_i h
    refine ⟨hexDigits_ok 16 n, ?_⟩
    unfold hexDigits
    have h' : ¬ n < 16 := h
    simp only [h', if_false, List.length_append, List.length_cons, List.length_nil]
    have := hexDigits_len 15 (n / 16) (by decide)
    omega

theorem hex2_len2 (n : Nat) (h : n ≤ 255) : (hex2 n).length = 2 := by
  unfold hex2
  split
  · rfl
  · rename_i h16
    have h2 : n / 16 < 16 := by omega
    simp [hexDigits, h16, h2]

theorem rgb_ok (r g b : Nat) (h : r ≤ 255 ∧ g ≤ 255 ∧ b ≤ 255) : colourOk (hex2 r ++ hex2 g ++ hex2 b) = true := by
  have h1 := hex2_ok r
  have h2 := hex2_ok g
  have h3 := hex2_ok b
  unfold colourOk isHexStr
  simp only [List.length_append, List.all_append, h1.1, h2.1, h3.1, Bool.and_self, Bool.and_true,
    Bool.or_eq_true, decide_eq_true_eq, hex2_len2 r h.1, hex2_len2 g h.2.1, hex2_len2 b h.2.2]
  right; trivial

/-! the tables only contain documented names / hex strings -/

theorem tables_ok :
    (FG_ANSI.all (fun p => colourOk p.2) && BG_ANSI.all (fun p => colourOk p.2) &&
     FG_AIXTERM.all (fun p => colourOk p.2) && BG_AIXTERM.all (fun p => colourOk p.2) &&
     FG_BG_256.all colourOk) = true := by decide +kernel

theorem lookup_ok (k : Nat) (l : List (Nat × List Nat)) (hl : l.all (fun p => colourOk p.2) = true)
    (v : List Nat) (h : lookup k l = some v) : colourOk v = true := by
  induction l with
  | nil => simp [lookup] at h
  | cons p rest ih =>
    obtain ⟨k', v'⟩ := p
    simp only [List.all_cons, Bool.and_eq_true] at hl
    unfold lookup at h
    split at h
    · simp only [Option.some.injEq] at h; subst h; exact hl.1
    · exact ih hl.2 h

theorem setFlag_ok (name : List Nat) (v : Bool) (a : Attr) (h : AttrOk a) : AttrOk (setFlag name v a) := by
  unfold setFlag
  repeat' split
  all_goals exact h

theorem tableAct_ok (c : Nat) (act : Act) (h : tableAct c = some act) (a : Attr) (ha : AttrOk a) :
    AttrOk (act.run a) := by
  have t := tables_ok
  simp only [Bool.and_eq_true] at t
  obtain ⟨⟨⟨⟨t1, t2⟩, t3⟩, t4⟩, _⟩ := t
  unfold tableAct at h
  split at h
  · rename_i v hv
    simp only [Option.some.injEq] at h; subst h
    exact ⟨lookup_ok _ _ t1 v hv, ha.2⟩
  · split at h
    · rename_i v hv
      simp only [Option.some.injEq] at h; subst h
      exact ⟨ha.1, lookup_ok _ _ t2 v hv⟩
    · split at h
      · simp only [Option.some.injEq] at h; subst h
        exact setFlag_ok _ _ a ha
      · split at h
        · rename_i v hv
          simp only [Option.some.injEq] at h; subst h
          exact ⟨lookup_ok _ _ t3 v hv, ha.2⟩
        · split at h
          · rename_i v hv
            simp only [Option.some.injEq] at h; subst h
            exact ⟨ha.1, lookup_ok _ _ t4 v hv⟩
          · cases h

theorem setColor_ok (isFg : Bool) (v : List Nat) (a : Attr) (hv : colourOk v = true) (ha : AttrOk a) :
    AttrOk (setColor isFg v a) := by
  unfold setColor
  split
  · exact ⟨hv, ha.2⟩
  · exact ⟨ha.1, hv⟩

theorem palette_ok (m : Nat) (v : List Nat) (h : FG_BG_256[m]? = some v) : colourOk v = true := by
  have t := tables_ok
  simp only [Bool.and_eq_true] at t
  have := List.all_eq_true.mp t.2 v (List.mem_of_getElem? h)
  exact this

theorem sgrLoop_ok (dflt : Attr) (hd : AttrOk dflt) (fuel : Nat) (l : List Nat) (a : Attr) (ha : AttrOk a) :
    AttrOk (sgrLoop dflt fuel l a) := by
  induction fuel generalizing l a with
  | zero => cases l <;> exact ha
  | succ f ih =>
    cases l with
    | nil => exact ha
    | cons c rest =>
      unfold sgrLoop
      split
      · exact ih _ _ hd
      · split
        · rename_i act hact
          exact ih _ _ (tableAct_ok c act hact a ha)
        · split
          · split
            · exact ha
            · rename_i n rest2
              split
              · split
                · exact ha
                · rename_i m rest3
                  split
                  · rename_i v hv
                    exact ih _ _ (setColor_ok _ v a (palette_ok m v hv) ha)
                  · exact ih _ _ ha
              · split
                · split
                  · rename_i r g b rest3
                    split
                    · rename_i hr
                      exact ih _ _ (setColor_ok _ _ a (rgb_ok r g b hr) ha)
                    · exact ih _ _ ha
                  · exact ha
                · exact ih _ _ ha
          · exact ih _ _ ha

theorem sgrAttr_ok (s : Screen) (h : ColInv s) (a : List Nat) : AttrOk (sgrAttr s a) := by
  unfold sgrAttr selectGraphicRendition
  split
  · exact defaultAttr_ok s
  · exact sgrLoop_ok _ (defaultAttr_ok s) _ _ _ h.cursor

/-! preservation -/

/-- a step that keeps the saved stack, and whose cursor rendition and cells are all derived
    from acceptable renditions -/
theorem ColInv.mk' {s s' : Screen} (h : ColInv s) (hc : AttrOk s'.cursor.attr)
    (hs : s'.savepoints = s.savepoints) (hcell : ∀ y x, AttrOk (s'.cell y x).attr) : ColInv s' :=
  ⟨hc, hcell, by rw [hs]; exact h.saved⟩

theorem colinv_of_ss {s s' : Screen} (h : ColInv s) (ss : SameSettings s s')
    (hcell : ∀ y x, AttrOk (s'.cell y x).attr) : ColInv s' :=
  h.mk' (by rw [ss.2.2.1]; exact h.cursor) ss.2.2.2.2.2.2.2.2.2.2.2.2.1 hcell

theorem cursorCell_ok (s : Screen) (h : ColInv s) : AttrOk (cursorCell s).attr := h.cursor

theorem defaultCell_ok (s : Screen) : AttrOk (defaultCell s).attr := defaultAttr_ok s

theorem colinv_ocm {s s' : Screen} (h : ColInv s) (m : OnlyCursorMoved s s') : ColInv s' :=
  colinv_of_ss h m.sameSettings (by rw [m.cell]; exact h.cells)

macro "col_cells" h:ident : tactic =>
  `(tactic| (intro y x; (try dsimp only []); repeat' split
             all_goals first
               | exact ($h).cells _ _
               | exact defaultCell_ok _
               | exact ($h).cursor
               | exact cursorCell_ok _ $h))

theorem col_markDirty {s : Screen} (h : ColInv s) (y : Nat) : ColInv (markDirty s y) := ⟨h.cursor, h.cells, h.saved⟩
theorem col_markDirtyRange {s : Screen} (h : ColInv s) (a b : Nat) : ColInv (markDirtyRange s a b) :=
  ⟨h.cursor, h.cells, h.saved⟩
theorem col_setCursorX {s : Screen} (h : ColInv s) (x : Nat) : ColInv (setCursorX s x) := ⟨h.cursor, h.cells, h.saved⟩
theorem col_setCursorY {s : Screen} (h : ColInv s) (y : Nat) : ColInv (setCursorY s y) := ⟨h.cursor, h.cells, h.saved⟩

theorem col_cursorPosition {s : Screen} (h : ColInv s) (l c : Option Nat) : ColInv (cursorPosition s l c) := by
  unfold cursorPosition
  simp only
  split
  · split
    · split <;> exact ⟨h.cursor, h.cells, h.saved⟩
    · exact ⟨h.cursor, h.cells, h.saved⟩
  · exact ⟨h.cursor, h.cells, h.saved⟩

theorem col_ich {s : Screen} (h : ColInv s) (n : Option Nat) : ColInv (insertCharacters s n) :=
  h.mk' h.cursor rfl (by unfold insertCharacters; col_cells h)

theorem col_dch {s : Screen} (h : ColInv s) (n : Option Nat) : ColInv (deleteCharacters s n) :=
  h.mk' h.cursor rfl (by unfold deleteCharacters; col_cells h)

theorem col_ech {s : Screen} (h : ColInv s) (n : Option Nat) : ColInv (eraseCharacters s n) :=
  h.mk' h.cursor rfl (by unfold eraseCharacters; col_cells h)

theorem col_el {s : Screen} (h : ColInv s) (how : Option Nat) : ColInv (eraseInLine s how) := by
  unfold eraseInLine
  simp only
  split
  · exact col_markDirty h _
  · exact h.mk' h.cursor rfl (by col_cells h)

theorem col_edFill {s : Screen} (h : ColInv s) (lo hi : Nat) : ColInv (edFill s lo hi) :=
  h.mk' h.cursor rfl (by unfold edFill; col_cells h)

theorem col_ed {s : Screen} (h : ColInv s) (how : Option Nat) : ColInv (eraseInDisplay s how) := by
  unfold eraseInDisplay
  simp only
  split
  · exact col_el (col_edFill h _ _) _
  · exact col_edFill h _ _

theorem col_index {s : Screen} (h : ColInv s) : ColInv (index s) := by
  unfold index
  simp only
  split
  · exact h.mk' h.cursor rfl (by col_cells h)
  · exact ⟨h.cursor, h.cells, h.saved⟩

theorem col_linefeed {s : Screen} (h : ColInv s) : ColInv (linefeed s) := by
  unfold linefeed
  simp only
  split
  · exact col_setCursorX (col_index h) 0
  · exact col_index h

theorem col_reverseIndex {s : Screen} (h : ColInv s) : ColInv (reverseIndex s) := by
  unfold reverseIndex
  simp only
  split
  · exact h.mk' h.cursor rfl (by col_cells h)
  · exact ⟨h.cursor, h.cells, h.saved⟩

theorem col_il {s : Screen} (h : ColInv s) (n : Option Nat) : ColInv (insertLines s n) := by
  unfold insertLines
  simp only
  split
  · exact h.mk' h.cursor rfl (by simp only [cariageReturn, setCursorX]; col_cells h)
  · exact h

theorem col_dl {s : Screen} (h : ColInv s) (n : Option Nat) : ColInv (deleteLines s n) := by
  unfold deleteLines
  simp only
  split
  · exact h.mk' h.cursor rfl (by simp only [cariageReturn, setCursorX]; col_cells h)
  · exact h

theorem col_sgr {s : Screen} (h : ColInv s) (a : List Nat) : ColInv (selectGraphicRendition s a) := by
  rw [sgr_frame]
  exact ⟨sgrAttr_ok s h a, h.cells, h.saved⟩

theorem col_alignment {s : Screen} (h : ColInv s) : ColInv (alignmentDisplay s) :=
  h.mk' h.cursor rfl (by unfold alignmentDisplay; col_cells h)

theorem col_setCell {s : Screen} (h : ColInv s) (y x : Nat) (c : Cell) (hc : AttrOk c.attr) : ColInv (setCell s y x c) :=
  h.mk' h.cursor rfl (by
    intro y' x'
    unfold setCell
    dsimp only []
    split
    · exact hc
    · exact h.cells _ _)

theorem col_setAllReverse {s : Screen} (h : ColInv s) (v : Bool) : ColInv (setAllReverse s v) :=
  h.mk' h.cursor rfl (fun y x => h.cells y x)

theorem col_addModes {s : Screen} (h : ColInv s) (ml : List Nat) : ColInv (addModes s ml) := ⟨h.cursor, h.cells, h.saved⟩
theorem col_removeModes {s : Screen} (h : ColInv s) (ml : List Nat) : ColInv (removeModes s ml) := ⟨h.cursor, h.cells, h.saved⟩

theorem col_applySet {s : Screen} (h : ColInv s) (ml : List Nat) : ColInv (applySetModes s ml) := by
  unfold applySetModes
  split
  · exact col_sgr (col_setAllReverse (col_addModes (col_markDirtyRange h _ _) ml) true) _
  · exact col_addModes h ml

theorem col_applyReset {s : Screen} (h : ColInv s) (ml : List Nat) : ColInv (applyResetModes s ml) := by
  unfold applyResetModes
  split
  · exact col_sgr (col_setAllReverse (col_removeModes (col_markDirtyRange h _ _) ml) false) _
  · exact col_removeModes h ml

theorem col_homeIf {s : Screen} (h : ColInv s) (b : Bool) : ColInv (homeIf b s) := by
  unfold homeIf; split
  · exact col_cursorPosition h _ _
  · exact h

theorem col_hiddenIf {s : Screen} (h : ColInv s) (b v : Bool) : ColInv (hiddenIf b v s) := by
  unfold hiddenIf; split <;> exact ⟨h.cursor, h.cells, h.saved⟩

theorem col_setModeNoColm {s : Screen} (h : ColInv s) (ml : List Nat) : ColInv (setModeNoColm s ml) :=
  col_hiddenIf (col_homeIf (col_applySet h ml) _) _ _

theorem col_resetModeNoColm {s : Screen} (h : ColInv s) (ml : List Nat) : ColInv (resetModeNoColm s ml) :=
  col_hiddenIf (col_homeIf (col_applyReset h ml) _) _ _

theorem col_saveCursor {s : Screen} (h : ColInv s) : ColInv (saveCursor s) := by
  refine ⟨h.cursor, h.cells, ?_⟩
  intro sp hsp
  simp only [saveCursor, List.mem_cons] at hsp
  rcases hsp with e | e
  · subst e; exact h.cursor
  · exact h.saved sp e

theorem col_restoreCursor {s : Screen} (h : ColInv s) : ColInv (restoreCursor s) := by
  unfold restoreCursor
  split
  · rename_i sp rest hsp
    simp only
    have hsp_ok : AttrOk sp.cursor.attr := h.saved sp (by rw [hsp]; exact List.mem_cons_self ..)
    have hrest : ∀ q ∈ rest, AttrOk q.cursor.attr := fun q hq => h.saved q (by rw [hsp]; exact List.mem_cons_of_mem _ hq)
    have h0 : ColInv { s with savepoints := rest, g0 := sp.g0, g1 := sp.g1, g1Active := sp.g1Active } :=
      ⟨h.cursor, h.cells, hrest⟩
    have h1 : ColInv (if sp.origin = true then
        setModeNoColm { s with savepoints := rest, g0 := sp.g0, g1 := sp.g1, g1Active := sp.g1Active } [DECOM]
        else { s with savepoints := rest, g0 := sp.g0, g1 := sp.g1, g1Active := sp.g1Active }) := by
      split
      · exact col_setModeNoColm h0 _
      · exact h0
    have h2 := fun (t : Screen) (ht : ColInv t) =>
      (show ColInv (if sp.wrap = true then setModeNoColm t [DECAWM] else t) by
        split
        · exact col_setModeNoColm ht _
        · exact ht)
    have h3 := h2 _ h1
    exact ⟨hsp_ok, h3.cells, h3.saved⟩
  · exact col_cursorPosition (col_resetModeNoColm h _) _ _

theorem col_setMargins {s : Screen} (h : ColInv s) (t b : Option Nat) : ColInv (setMargins s t b) := by
  unfold setMargins
  split
  · exact ⟨h.cursor, h.cells, h.saved⟩
  · simp only
    split
    · apply col_cursorPosition
      exact ⟨h.cursor, h.cells, h.saved⟩
    · exact h

theorem col_resize {s : Screen} (h : ColInv s) (l c : Option Nat) : ColInv (resize s l c) := by
  unfold resize
  simp only
  split
  · exact h
  · have h1 : ColInv { s with margins := none } := ⟨h.cursor, h.cells, h.saved⟩
    have h2 : ColInv (if l.getD s.lines < s.lines then dropRowsFromTop { s with margins := none } (l.getD s.lines)
        else { s with margins := none }) := by
      split
      · unfold dropRowsFromTop
        exact col_restoreCursor (col_dl (col_cursorPosition (col_saveCursor h1) _ _) _)
      · exact h1
    generalize (if l.getD s.lines < s.lines then dropRowsFromTop { s with margins := none } (l.getD s.lines)
        else { s with margins := none }) = s2 at h2
    have h3 : ColInv (if c.getD s.columns < s2.columns then cutColumns s2 (c.getD s.columns) else s2) := by
      split
      · exact h2.mk' h2.cursor rfl (by unfold cutColumns; col_cells h2)
      · exact h2
    generalize (if c.getD s.columns < s2.columns then cutColumns s2 (c.getD s.columns) else s2) = s3 at h3
    have h4 : ColInv { s3 with lines := l.getD s.lines, columns := c.getD s.columns,
                               dirty := fun d => decide (d < l.getD s.lines) } := ⟨h3.cursor, h3.cells, h3.saved⟩
    have h5 := col_setMargins h4 none none
    exact ⟨h5.cursor, h5.cells, h5.saved⟩

theorem col_colmSet {s : Screen} (h : ColInv s) : ColInv (colmSet s) := by
  unfold colmSet
  have h0 : ColInv { s with savedColumns := some s.columns } := ⟨h.cursor, h.cells, h.saved⟩
  exact col_cursorPosition (col_ed (col_resize h0 _ _) _) _ _

theorem col_colmRestore {s : Screen} (h : ColInv s) : ColInv (colmRestore s) := by
  unfold colmRestore
  split
  · split
    · rename_i sc _
      have hr := col_resize h none (some sc)
      exact ⟨hr.cursor, hr.cells, hr.saved⟩
    · exact h
  · exact h

theorem col_colmReset {s : Screen} (h : ColInv s) : ColInv (colmReset s) := by
  unfold colmReset
  exact col_cursorPosition (col_ed (col_colmRestore h) _) _ _

theorem col_setMode {s : Screen} (h : ColInv s) (ms : List Nat) (p : Bool) : ColInv (setMode s ms p) := by
  unfold setMode
  simp only
  apply col_hiddenIf
  apply col_homeIf
  split
  · exact col_colmSet (col_applySet h _)
  · exact col_applySet h _

theorem col_resetMode {s : Screen} (h : ColInv s) (ms : List Nat) (p : Bool) : ColInv (resetMode s ms p) := by
  unfold resetMode
  simp only
  apply col_hiddenIf
  apply col_homeIf
  split
  · exact col_colmReset (col_applyReset h _)
  · exact col_applyReset h _

theorem col_reset {s : Screen} (h : ColInv s) : ColInv (reset s) := by
  unfold reset
  simp only
  apply col_cursorPosition
  exact ⟨defaultAttr_ok _, fun _ _ => defaultAttr_ok _, h.saved⟩

theorem col_init (columns lines : Nat) : ColInv (init columns lines) := by
  unfold init reset
  simp only
  apply col_cursorPosition
  exact ⟨defaultAttr_ok _, fun _ _ => defaultAttr_ok _, by intro sp hsp; cases hsp⟩

theorem col_drawChar (env : Env) {s : Screen} (h : ColInv s) (c : Nat) : ColInv (drawChar env s c) := by
  unfold drawChar
  simp only
  have hw : ∀ w, ColInv (wrapStage s w) := by
    intro w
    unfold wrapStage
    split
    · split
      · exact col_linefeed (col_setCursorX (col_markDirty h _) 0)
      · exact col_setCursorX h _
    · exact h
  have hi : ∀ (t : Screen) (w : Nat), ColInv t → ColInv (irmStage t w) := by
    intro t w ht
    unfold irmStage
    split
    · exact col_ich ht _
    · exact ht
  have hp : ∀ (t : Screen) (c w : Nat), ColInv t → ColInv (putChar t c w) := by
    intro t c w ht
    unfold putChar
    simp only
    have h1 := col_setCell ht t.cursor.y t.cursor.x { data := [c], attr := t.cursor.attr } ht.cursor
    split
    · exact col_setCursorX (col_setCell h1 _ _ _ h1.cursor) _
    · exact col_setCursorX h1 _
  split
  · exact hp _ _ _ (hi _ _ (hw _))
  · split
    · unfold combine
      simp only []
      split
      · apply col_setCell h
        exact h.cells _ _
      · split
        · apply col_markDirty
          apply col_setCell h
          exact h.cells _ _
        · exact h
    · exact h

theorem col_draw (env : Env) {s : Screen} (h : ColInv s) (t : List Nat) : ColInv (draw env s t) := by
  unfold draw
  simp only
  have : ∀ (cs : List Nat) (u : Screen), ColInv u → ColInv (cs.foldl (drawChar env) u) := by
    intro cs
    induction cs with
    | nil => intro u hu; exact hu
    | cons c cs ih => intro u hu; exact ih _ (col_drawChar env hu c)
  exact col_markDirty (this _ s h) _

/-- the colour clause is preserved by every operation -/
theorem colinv_step (env : Env) {s : Screen} (h : ColInv s) (c : Call) : ColInv (step env s c) := by
  cases c
  case alignmentDisplay => exact col_alignment h
  case reset => exact col_reset h
  case index => exact col_index h
  case linefeed => exact col_linefeed h
  case reverseIndex => exact col_reverseIndex h
  case saveCursor => exact col_saveCursor h
  case restoreCursor => exact col_restoreCursor h
  case draw t => exact col_draw env h t
  case insertCharacters n => exact col_ich h n
  case deleteCharacters n => exact col_dch h n
  case eraseCharacters n => exact col_ech h n
  case eraseInLine hw => exact col_el h hw
  case eraseInDisplay hw => exact col_ed h hw
  case insertLines n => exact col_il h n
  case deleteLines n => exact col_dl h n
  case setMode ms p => exact col_setMode h ms p
  case resetMode ms p => exact col_resetMode h ms p
  case sgr a => exact col_sgr h a
  case setMargins t b => exact col_setMargins h t b
  case resize l c => exact col_resize h l c
  case cursorPosition l c => exact col_cursorPosition h l c
  all_goals first
    | exact h
    | exact ⟨h.cursor, h.cells, h.saved⟩
    | (simp only [step]; first
        | (unfold tab; split <;> exact ⟨h.cursor, h.cells, h.saved⟩)
        | (unfold defineCharset; split <;> (try split) <;> (try split) <;> exact ⟨h.cursor, h.cells, h.saved⟩)
        | (unfold cursorToLine; exact ⟨h.cursor, h.cells, h.saved⟩))

theorem colinv_run (env : Env) (cs : List Call) {s : Screen} (h : ColInv s) : ColInv (run env s cs) := by
  induction cs generalizing s with
  | nil => exact h
  | cons c cs ih => exact ih (colinv_step env h c)

end Memterm
