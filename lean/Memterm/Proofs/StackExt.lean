import Memterm.Step

/-
  Stack extension: every operation of the model commutes with appending further
  entries at the BOTTOM of the saved-cursor stack, except DECRC on an empty stack
  (which is where the extra entries would become visible).  Used for the
  continuation clause of C15 (RIS leaves the stack alone, and "from then on the
  same input produces the same state as on a new screen").
-/
namespace Memterm

/-- `s` with `e` appended below its saved-cursor stack -/
@[reducible] def ext (s : Screen) (e : List Savepoint) : Screen := { s with savepoints := s.savepoints ++ e }

theorem ext_ite (c : Prop) [Decidable c] (a b : Screen) (e) :
    ext (if c then a else b) e = if c then ext a e else ext b e := by
  split <;> rfl

theorem ite_ext {c c' : Prop} [Decidable c] [Decidable c'] (hc : c ↔ c') {a a' b b' : Screen} {e}
    (ha : a = ext a' e) (hb : b = ext b' e) : (if c then a else b) = ext (if c' then a' else b') e := by
  by_cases h : c
  · rw [if_pos h, if_pos (hc.1 h)]; exact ha
  · rw [if_neg h, if_neg (fun h' => h (hc.2 h'))]; exact hb

theorem ext_mk (a b c d f g h i j k l m n o p) (e) :
    ext ⟨a, b, c, d, f, g, h, i, j, k, l, m, n, o, p⟩ e = ⟨a, b, c, d, f, g, h, i, j, k, l, m, n ++ e, o, p⟩ := rfl

@[simp] theorem ext_columns (s e) : (ext s e).columns = s.columns := rfl
@[simp] theorem ext_lines (s e) : (ext s e).lines = s.lines := rfl
@[simp] theorem ext_cursor (s e) : (ext s e).cursor = s.cursor := rfl
@[simp] theorem ext_margins (s e) : (ext s e).margins = s.margins := rfl
@[simp] theorem ext_mode (s e) : (ext s e).mode = s.mode := rfl
@[simp] theorem ext_tabstops (s e) : (ext s e).tabstops = s.tabstops := rfl
@[simp] theorem ext_dirty (s e) : (ext s e).dirty = s.dirty := rfl
@[simp] theorem ext_g0 (s e) : (ext s e).g0 = s.g0 := rfl
@[simp] theorem ext_g1 (s e) : (ext s e).g1 = s.g1 := rfl
@[simp] theorem ext_g1Active (s e) : (ext s e).g1Active = s.g1Active := rfl
@[simp] theorem ext_savedColumns (s e) : (ext s e).savedColumns = s.savedColumns := rfl
@[simp] theorem ext_cell (s e) : (ext s e).cell = s.cell := rfl
@[simp] theorem ext_savepoints (s e) : (ext s e).savepoints = s.savepoints ++ e := rfl

/-- destructure the screen (and its margins), turn `ext ⟨..⟩ e` into a literal, unfold, push `ext` through -/
macro "ext_tac" s:ident "[" ls:Lean.Parser.Tactic.simpLemma,* "]" : tactic =>
  `(tactic| (obtain ⟨_, _, _, _ | ⟨_, _⟩, _, _, _, _, _, _, _, _, _, _, _⟩ := $s <;> rw [ext_mk] <;>
      simp only [$ls,*, ext_ite, ext_mk] <;> (first | rfl | ((repeat' split) <;> rfl))))

theorem setCursorX_ext (s e x) : setCursorX (ext s e) x = ext (setCursorX s x) e := rfl
theorem setCursorY_ext (s e y) : setCursorY (ext s e) y = ext (setCursorY s y) e := rfl
theorem markDirty_ext (s e y) : markDirty (ext s e) y = ext (markDirty s y) e := rfl
theorem markDirtyRange_ext (s e a b) : markDirtyRange (ext s e) a b = ext (markDirtyRange s a b) e := rfl
theorem markAllDirty_ext (s e) : markAllDirty (ext s e) = ext (markAllDirty s) e := rfl
theorem ensureHBounds_ext (s e) : ensureHBounds (ext s e) = ext (ensureHBounds s) e := rfl
theorem ensureVBounds_ext (s e u) : ensureVBounds (ext s e) u = ext (ensureVBounds s u) e := rfl
theorem cariageReturn_ext (s e) : cariageReturn (ext s e) = ext (cariageReturn s) e := rfl
theorem cursorUp_ext (s e n) : cursorUp (ext s e) n = ext (cursorUp s n) e := rfl
theorem cursorDown_ext (s e n) : cursorDown (ext s e) n = ext (cursorDown s n) e := rfl
theorem cursorDown1_ext (s e n) : cursorDown1 (ext s e) n = ext (cursorDown1 s n) e := rfl
theorem cursorUp1_ext (s e n) : cursorUp1 (ext s e) n = ext (cursorUp1 s n) e := rfl
theorem cursorForward_ext (s e n) : cursorForward (ext s e) n = ext (cursorForward s n) e := rfl
theorem cursorBack_ext (s e n) : cursorBack (ext s e) n = ext (cursorBack s n) e := rfl
theorem backspace_ext (s e) : backspace (ext s e) = ext (backspace s) e := rfl
theorem cursorToColumn_ext (s e n) : cursorToColumn (ext s e) n = ext (cursorToColumn s n) e := rfl
theorem cursorToLine_ext (s e n) : cursorToLine (ext s e) n = ext (cursorToLine s n) e := rfl
theorem setTabStop_ext (s e) : setTabStop (ext s e) = ext (setTabStop s) e := rfl
theorem clearTabStop_ext (s e h) : clearTabStop (ext s e) h = ext (clearTabStop s h) e := rfl
theorem shiftOut_ext (s e) : shiftOut (ext s e) = ext (shiftOut s) e := rfl
theorem shiftIn_ext (s e) : shiftIn (ext s e) = ext (shiftIn s) e := rfl
theorem setTitle_ext (s e t) : setTitle (ext s e) t = ext (setTitle s t) e := rfl
theorem setIconName_ext (s e t) : setIconName (ext s e) t = ext (setIconName s t) e := rfl
theorem insertCharacters_ext (s e n) : insertCharacters (ext s e) n = ext (insertCharacters s n) e := rfl
theorem deleteCharacters_ext (s e n) : deleteCharacters (ext s e) n = ext (deleteCharacters s n) e := rfl
theorem eraseCharacters_ext (s e n) : eraseCharacters (ext s e) n = ext (eraseCharacters s n) e := rfl
theorem alignmentDisplay_ext (s e) : alignmentDisplay (ext s e) = ext (alignmentDisplay s) e := rfl
theorem edFill_ext (s e a b) : edFill (ext s e) a b = ext (edFill s a b) e := rfl
theorem setCell_ext (s e y x c) : setCell (ext s e) y x c = ext (setCell s y x c) e := rfl
theorem addModes_ext (s e ml) : addModes (ext s e) ml = ext (addModes s ml) e := rfl
theorem removeModes_ext (s e ml) : removeModes (ext s e) ml = ext (removeModes s ml) e := rfl
theorem setAllReverse_ext (s e v) : setAllReverse (ext s e) v = ext (setAllReverse s v) e := rfl

theorem cursorPosition_ext (s : Screen) (e) (l c) : cursorPosition (ext s e) l c = ext (cursorPosition s l c) e := by
  ext_tac s [cursorPosition, ensureVBounds, ensureHBounds, setCursorX, setCursorY]

theorem tab_ext (s : Screen) (e) : tab (ext s e) = ext (tab s) e := by
  unfold tab
  simp only [ext_tabstops, ext_cursor, ext_columns, setCursorX_ext]
  split <;> rfl

theorem topMargin_ext (s e) : topMargin (ext s e) = topMargin s := rfl
theorem bottomMargin_ext (s e) : bottomMargin (ext s e) = bottomMargin s := rfl

theorem setMargins_ext (s : Screen) (e) (t b) : setMargins (ext s e) t b = ext (setMargins s t b) e := by
  unfold setMargins
  split
  · rfl
  · have hc : ∀ i o, clampMargin (ext s e) i o = clampMargin s i o := fun _ _ => rfl
    simp only [ext_margins, ext_lines, hc]
    split
    · exact cursorPosition_ext { s with margins := some (_, _) } e none none
    · rfl

theorem index_ext (s : Screen) (e) : index (ext s e) = ext (index s) e := by
  unfold index
  exact ite_ext Iff.rfl rfl rfl

theorem linefeed_ext (s : Screen) (e) : linefeed (ext s e) = ext (linefeed s) e := by
  simp only [linefeed, index_ext, ext_mode, cariageReturn_ext, ext_ite]

theorem reverseIndex_ext (s : Screen) (e) : reverseIndex (ext s e) = ext (reverseIndex s) e := by
  unfold reverseIndex
  exact ite_ext Iff.rfl rfl rfl

theorem insertLines_ext (s : Screen) (e) (n) : insertLines (ext s e) n = ext (insertLines s n) e := by
  unfold insertLines
  exact ite_ext Iff.rfl rfl rfl

theorem deleteLines_ext (s : Screen) (e) (n) : deleteLines (ext s e) n = ext (deleteLines s n) e := by
  unfold deleteLines
  exact ite_ext Iff.rfl rfl rfl

theorem eraseInLine_ext (s : Screen) (e) (h) : eraseInLine (ext s e) h = ext (eraseInLine s h) e := by
  unfold eraseInLine
  have : elRange (ext s e) (h.getD 0) = elRange s (h.getD 0) := rfl
  rw [this]
  split <;> rfl

theorem eraseInDisplay_ext (s : Screen) (e) (h) : eraseInDisplay (ext s e) h = ext (eraseInDisplay s h) e := by
  unfold eraseInDisplay
  have : edRows (ext s e) (h.getD 0) = edRows s (h.getD 0) := rfl
  simp only [this, edFill_ext, eraseInLine_ext, ext_ite]

theorem sgr_ext (s : Screen) (e) (a) : selectGraphicRendition (ext s e) a = ext (selectGraphicRendition s a) e := by
  unfold selectGraphicRendition
  split <;> rfl

theorem defineCharset_ext (s : Screen) (e) (c m) : defineCharset (ext s e) c m = ext (defineCharset s c m) e := by
  unfold defineCharset
  split
  · split
    · rfl
    · split <;> rfl
  · rfl

theorem saveCursor_ext (s : Screen) (e) : saveCursor (ext s e) = ext (saveCursor s) e := rfl

/-! ### modes, restore, resize -/

theorem homeIf_ext (b : Bool) (s : Screen) (e) : homeIf b (ext s e) = ext (homeIf b s) e := by
  cases b
  · rfl
  · exact cursorPosition_ext s e none none

theorem hiddenIf_ext (b v : Bool) (s : Screen) (e) : hiddenIf b v (ext s e) = ext (hiddenIf b v s) e := by
  cases b <;> rfl

theorem applySetModes_ext (s : Screen) (e) (ml) : applySetModes (ext s e) ml = ext (applySetModes s ml) e := by
  unfold applySetModes
  refine ite_ext Iff.rfl ?_ rfl
  rw [markAllDirty_ext, addModes_ext, setAllReverse_ext, sgr_ext]

theorem applyResetModes_ext (s : Screen) (e) (ml) : applyResetModes (ext s e) ml = ext (applyResetModes s ml) e := by
  unfold applyResetModes
  refine ite_ext Iff.rfl ?_ rfl
  rw [markAllDirty_ext, removeModes_ext, setAllReverse_ext, sgr_ext]

theorem setModeNoColm_ext (s : Screen) (e) (ml) : setModeNoColm (ext s e) ml = ext (setModeNoColm s ml) e := by
  unfold setModeNoColm
  rw [applySetModes_ext, homeIf_ext, hiddenIf_ext]

theorem resetModeNoColm_ext (s : Screen) (e) (ml) : resetModeNoColm (ext s e) ml = ext (resetModeNoColm s ml) e := by
  unfold resetModeNoColm
  rw [applyResetModes_ext, homeIf_ext, hiddenIf_ext]

/-- DECRC commutes with the extension as long as the stack proper is not empty -/
theorem restoreCursor_ext (s : Screen) (e) (h : s.savepoints ≠ []) :
    restoreCursor (ext s e) = ext (restoreCursor s) e := by
  obtain ⟨sp, rest, hs⟩ : ∃ sp rest, s.savepoints = sp :: rest := by
    cases hsp : s.savepoints with
    | nil => exact absurd hsp h
    | cons a b => exact ⟨a, b, rfl⟩
  have h1 : (ext s e).savepoints = sp :: (rest ++ e) := by simp [hs]
  unfold restoreCursor
  rw [h1, hs]
  simp only []
  have e0 : ({ ext s e with savepoints := rest ++ e, g0 := sp.g0, g1 := sp.g1, g1Active := sp.g1Active } : Screen)
      = ext { s with savepoints := rest, g0 := sp.g0, g1 := sp.g1, g1Active := sp.g1Active } e := rfl
  rw [e0]
  cases sp.origin <;> cases sp.wrap <;>
    simp only [Bool.false_eq_true, ↓reduceIte, setModeNoColm_ext] <;> rfl

theorem saveCursor_savepoints (s : Screen) : (saveCursor s).savepoints ≠ [] := by
  simp [saveCursor]

theorem cursorPosition_savepoints (s : Screen) (l c) : (cursorPosition s l c).savepoints = s.savepoints := by
  have h := congrArg Screen.savepoints (cursorPosition_ext s [] l c)
  simp only [ext_savepoints, List.append_nil] at h
  have h0 : ext s [] = s := by simp [ext]
  rw [h0] at h
  dsimp only [cursorPosition]
  repeat' split
  all_goals rfl

theorem deleteLines_savepoints (s : Screen) (n) : (deleteLines s n).savepoints = s.savepoints := by
  dsimp only [deleteLines]
  split <;> rfl

theorem dropRowsFromTop_ext (s : Screen) (e) (l) : dropRowsFromTop (ext s e) l = ext (dropRowsFromTop s l) e := by
  unfold dropRowsFromTop
  rw [saveCursor_ext, cursorPosition_ext, ext_lines, deleteLines_ext, restoreCursor_ext]
  rw [deleteLines_savepoints, cursorPosition_savepoints]
  exact saveCursor_savepoints s

theorem cutColumns_ext (s : Screen) (e) (c) : cutColumns (ext s e) c = ext (cutColumns s c) e := rfl

/-- the stages of `resize` after the same-size test, as one composition -/
def rz1 (s : Screen) : Screen := { s with margins := none }
def rz2 (L : Nat) (s1 : Screen) : Screen := if L < s1.lines then dropRowsFromTop s1 L else s1
def rz3 (C : Nat) (s2 : Screen) : Screen := if C < s2.columns then cutColumns s2 C else s2
def rz4 (L C : Nat) (s3 : Screen) : Screen := { s3 with lines := L, columns := C, dirty := fun d => d < L }
def resizeBody (s : Screen) (L C : Nat) : Screen :=
  ensureVBounds (ensureHBounds (setMargins (rz4 L C (rz3 C (rz2 L (rz1 s)))) none none)) false

theorem resize_eq_body (s : Screen) (l c) :
    resize s l c = if l.getD s.lines == s.lines && c.getD s.columns == s.columns then s
      else resizeBody s (l.getD s.lines) (c.getD s.columns) := rfl

theorem rz1_ext (s : Screen) (e) : rz1 (ext s e) = ext (rz1 s) e := rfl
theorem rz2_ext (L) (s : Screen) (e) : rz2 L (ext s e) = ext (rz2 L s) e :=
  ite_ext Iff.rfl (dropRowsFromTop_ext _ _ _) rfl
theorem rz3_ext (C) (s : Screen) (e) : rz3 C (ext s e) = ext (rz3 C s) e := ite_ext Iff.rfl rfl rfl
theorem rz4_ext (L C) (s : Screen) (e) : rz4 L C (ext s e) = ext (rz4 L C s) e := rfl

theorem resizeBody_ext (s : Screen) (e) (L C) : resizeBody (ext s e) L C = ext (resizeBody s L C) e := by
  unfold resizeBody
  rw [rz1_ext, rz2_ext, rz3_ext, rz4_ext, setMargins_ext, ensureHBounds_ext, ensureVBounds_ext]

theorem resize_ext (s : Screen) (e) (l c) : resize (ext s e) l c = ext (resize s l c) e := by
  rw [resize_eq_body, resize_eq_body]
  exact ite_ext Iff.rfl rfl (resizeBody_ext _ _ _ _)

theorem colmSet_ext (s : Screen) (e) : colmSet (ext s e) = ext (colmSet s) e := by
  unfold colmSet
  have e1 : ({ ext s e with savedColumns := some (ext s e).columns } : Screen)
      = ext { s with savedColumns := some s.columns } e := rfl
  rw [e1, resize_ext, eraseInDisplay_ext, cursorPosition_ext]

theorem colmRestore_ext (s : Screen) (e) : colmRestore (ext s e) = ext (colmRestore s) e := by
  unfold colmRestore
  simp only [ext_columns, ext_savedColumns]
  refine ite_ext Iff.rfl ?_ rfl
  cases s.savedColumns with
  | none => rfl
  | some sc =>
    simp only []
    rw [resize_ext]

theorem colmReset_ext (s : Screen) (e) : colmReset (ext s e) = ext (colmReset s) e := by
  unfold colmReset
  rw [colmRestore_ext, eraseInDisplay_ext, cursorPosition_ext]

theorem setMode_ext (s : Screen) (e) (ms p) : setMode (ext s e) ms p = ext (setMode s ms p) e := by
  unfold setMode
  simp only []
  rw [applySetModes_ext]
  have e2 : (if (shiftModes ms p).contains Gen.DECCOLM then colmSet (ext (applySetModes s (shiftModes ms p)) e)
        else ext (applySetModes s (shiftModes ms p)) e)
      = ext (if (shiftModes ms p).contains Gen.DECCOLM then colmSet (applySetModes s (shiftModes ms p))
        else applySetModes s (shiftModes ms p)) e := ite_ext Iff.rfl (colmSet_ext _ _) rfl
  rw [e2, homeIf_ext, hiddenIf_ext]

theorem resetMode_ext (s : Screen) (e) (ms p) : resetMode (ext s e) ms p = ext (resetMode s ms p) e := by
  unfold resetMode
  simp only []
  rw [applyResetModes_ext]
  have e2 : (if (shiftModes ms p).contains Gen.DECCOLM then colmReset (ext (applyResetModes s (shiftModes ms p)) e)
        else ext (applyResetModes s (shiftModes ms p)) e)
      = ext (if (shiftModes ms p).contains Gen.DECCOLM then colmReset (applyResetModes s (shiftModes ms p))
        else applyResetModes s (shiftModes ms p)) e := ite_ext Iff.rfl (colmReset_ext _ _) rfl
  rw [e2, homeIf_ext, hiddenIf_ext]

theorem reset_ext (s : Screen) (e) : reset (ext s e) = ext (reset s) e := by
  ext_tac s [reset, cursorPosition, ensureVBounds, ensureHBounds, setCursorX, setCursorY, defaultCell, defaultAttr]

/-! ### draw -/

theorem wrapStage_ext (s : Screen) (e) (w) : wrapStage (ext s e) w = ext (wrapStage s w) e := by
  unfold wrapStage
  refine ite_ext Iff.rfl (ite_ext Iff.rfl ?_ rfl) rfl
  rw [ext_cursor, markDirty_ext, cariageReturn_ext, linefeed_ext]

theorem irmStage_ext (s : Screen) (e) (w) : irmStage (ext s e) w = ext (irmStage s w) e :=
  ite_ext Iff.rfl rfl rfl

def pc2 (s1 : Screen) (w : Nat) : Screen :=
  if w == 2 && s1.cursor.x + 1 < s1.columns then
    setCell s1 s1.cursor.y (s1.cursor.x + 1) { data := [], attr := s1.cursor.attr }
  else s1

theorem putChar_eq (s : Screen) (c w) :
    putChar s c w =
      setCursorX (pc2 (setCell s s.cursor.y s.cursor.x { data := [c], attr := s.cursor.attr }) w)
        (min ((pc2 (setCell s s.cursor.y s.cursor.x { data := [c], attr := s.cursor.attr }) w).cursor.x + w)
          (pc2 (setCell s s.cursor.y s.cursor.x { data := [c], attr := s.cursor.attr }) w).columns) := rfl

theorem pc2_ext (s : Screen) (e) (w) : pc2 (ext s e) w = ext (pc2 s w) e := ite_ext Iff.rfl rfl rfl

theorem putChar_ext (s : Screen) (e) (c w) : putChar (ext s e) c w = ext (putChar s c w) e := by
  rw [putChar_eq, putChar_eq]
  show setCursorX (pc2 (setCell (ext s e) s.cursor.y s.cursor.x _) w) _ = _
  rw [setCell_ext, pc2_ext]
  rfl

theorem combine_ext (env : Env) (s : Screen) (e) (c) : combine env (ext s e) c = ext (combine env s c) e := by
  unfold combine
  exact ite_ext Iff.rfl rfl (ite_ext Iff.rfl rfl rfl)

theorem drawChar_ext (env : Env) (s : Screen) (e) (c) : drawChar env (ext s e) c = ext (drawChar env s c) e := by
  unfold drawChar
  refine ite_ext Iff.rfl ?_ (ite_ext Iff.rfl (combine_ext _ _ _ _) rfl)
  rw [wrapStage_ext, irmStage_ext, putChar_ext]

theorem foldl_drawChar_ext (env : Env) (l : List Nat) (s : Screen) (e) :
    l.foldl (drawChar env) (ext s e) = ext (l.foldl (drawChar env) s) e := by
  induction l generalizing s with
  | nil => rfl
  | cons c t ih => simp only [List.foldl_cons, drawChar_ext, ih]

theorem draw_ext (env : Env) (s : Screen) (e) (d) : draw env (ext s e) d = ext (draw env s d) e := by
  unfold draw
  have ht : translate (ext s e) = translate s := rfl
  simp only [ht, foldl_drawChar_ext]
  rfl

theorem renderRow_ext (env : Env) (s : Screen) (e) (y : Nat) (fuel x : Nat) (skip : Bool) :
    renderRow env (ext s e) y fuel x skip = renderRow env s y fuel x skip := by
  induction fuel generalizing x skip with
  | zero => rfl
  | succ n ih =>
    unfold renderRow
    simp only [ext_columns, ext_cell, ih]

theorem display_ext (env : Env) (s : Screen) (e) : display env (ext s e) = display env s := by
  unfold display
  simp only [ext_lines, ext_columns, renderRow_ext]

/-! ### one step, any history -/

/-- every operation commutes with the extension, except DECRC on an empty stack -/
theorem step_ext (env : Env) (s : Screen) (e) (c : Call)
    (h : c = .restoreCursor → s.savepoints ≠ []) :
    step env (ext s e) c = ext (step env s c) e := by
  cases c with
  | restoreCursor => exact restoreCursor_ext s e (h rfl)
  | alignmentDisplay => rfl
  | defineCharset a b => exact defineCharset_ext _ _ _ _
  | reset => exact reset_ext _ _
  | index => exact index_ext _ _
  | linefeed => exact linefeed_ext _ _
  | reverseIndex => exact reverseIndex_ext _ _
  | setTabStop => rfl
  | saveCursor => rfl
  | shiftOut => rfl
  | shiftIn => rfl
  | bell => rfl
  | backspace => rfl
  | tab => exact tab_ext _ _
  | cariageReturn => rfl
  | draw t => exact draw_ext _ _ _ _
  | insertCharacters n => rfl
  | cursorUp n => rfl
  | cursorDown n => rfl
  | cursorForward n => rfl
  | cursorBack n => rfl
  | cursorDown1 n => rfl
  | cursorUp1 n => rfl
  | cursorToColumn n => rfl
  | cursorPosition l c => exact cursorPosition_ext _ _ _ _
  | eraseInDisplay h => exact eraseInDisplay_ext _ _ _
  | eraseInLine h => exact eraseInLine_ext _ _ _
  | insertLines n => exact insertLines_ext _ _ _
  | deleteLines n => exact deleteLines_ext _ _ _
  | deleteCharacters n => rfl
  | eraseCharacters n => rfl
  | reportDeviceAttributes m => rfl
  | cursorToLine n => rfl
  | clearTabStop h => rfl
  | setMode ms p => exact setMode_ext _ _ _ _
  | resetMode ms p => exact resetMode_ext _ _ _ _
  | sgr a => exact sgr_ext _ _ _
  | setTitle t => rfl
  | setIconName t => rfl
  | setMargins t b => exact setMargins_ext _ _ _ _
  | resize l c => exact resize_ext _ _ _ _
  | display => rfl
  | clearDirty => rfl

/-- along the run from `s`, DECRC is never applied to an empty stack -/
def noEmptyRestore (env : Env) (s : Screen) : List Call → Bool
  | [] => true
  | c :: cs => (!(c == .restoreCursor) || !s.savepoints.isEmpty) && noEmptyRestore env (step env s c) cs

/-- a history that never pops below the stack it started with cannot see what lies below it -/
theorem run_ext (env : Env) (cs : List Call) (s : Screen) (e) (h : noEmptyRestore env s cs = true) :
    run env (ext s e) cs = ext (run env s cs) e := by
  induction cs generalizing s with
  | nil => rfl
  | cons c t ih =>
    simp only [noEmptyRestore, Bool.and_eq_true] at h
    have hc : c = .restoreCursor → s.savepoints ≠ [] := by
      intro hc hs
      have := h.1
      simp [hc, hs] at this
    simp only [run, List.foldl_cons]
    rw [step_ext env s e c hc]
    exact ih _ h.2

end Memterm
