import Memterm.Props.C05

/-
  B1: every operation preserves the invariant.
-/
namespace Memterm

open Gen

theorem defaultCell_congr {s s' : Screen} (h : s'.mode DECSCNM = s.mode DECSCNM) :
    defaultCell s' = defaultCell s := by
  simp [defaultCell, defaultAttr, h]

/-- geometry, margins, reverse-video flag and saved width unchanged -/
theorem Inv.of_same_geom {s s' : Screen} (h : Inv s)
    (hc : s'.columns = s.columns) (hl : s'.lines = s.lines) (hm : s'.margins = s.margins)
    (hmode : s'.mode DECSCNM = s.mode DECSCNM) (hs : s'.savedColumns = s.savedColumns)
    (hy : s'.cursor.y < s.lines) (hx : s'.cursor.x ≤ s.columns)
    (hd : ∀ d, s'.dirty d = true → d < s.lines)
    (hcell : ∀ y x, ¬ (y < s.lines ∧ x < s.columns) → s'.cell y x = defaultCell s) : Inv s' := by
  refine ⟨?_, ?_, ?_, ?_, ?_, ?_, ?_, ?_, ?_, ?_⟩
  · rw [hc]; exact h.cols
  · rw [hl]; exact h.rows
  · rw [hc]; exact h.dimc
  · rw [hl]; exact h.diml
  · rw [hl]; exact hy
  · rw [hc]; exact hx
  · intro t b e; rw [hm] at e; rw [hl]; exact h.marg t b e
  · intro d e; rw [hl]; exact hd d e
  · intro y x e
    rw [hl, hc] at e
    rw [defaultCell_congr hmode]
    exact hcell y x e
  · intro c e; rw [hs] at e; exact h.saved c e

/-! ### cursor-only operations (through C05) -/

theorem inv_cursorPosition {s : Screen} (h : Inv s) (l c : Option Nat) : Inv (cursorPosition s l c) := by
  have : ∃ x y, C05.expected s (.cursorPosition l c) = some (x, y) := by
    simp only [C05.expected]
    split <;> (try split) <;> exact ⟨_, _, rfl⟩
  obtain ⟨x, y, e⟩ := this
  exact C05.inv_preserved ⟨fun _ => 1, fun _ => false, id⟩ s (.cursorPosition l c) x y h e

theorem inv_cursorUp {s : Screen} (h : Inv s) (n : Option Nat) : Inv (cursorUp s n) :=
  C05.inv_preserved ⟨fun _ => 1, fun _ => false, id⟩ s (.cursorUp n) _ _ h rfl

theorem inv_cursorDown {s : Screen} (h : Inv s) (n : Option Nat) : Inv (cursorDown s n) :=
  C05.inv_preserved ⟨fun _ => 1, fun _ => false, id⟩ s (.cursorDown n) _ _ h rfl

theorem inv_cariageReturn {s : Screen} (h : Inv s) : Inv (cariageReturn s) :=
  C05.inv_preserved ⟨fun _ => 1, fun _ => false, id⟩ s .cariageReturn _ _ h rfl

theorem inv_cursorToLine {s : Screen} (h : Inv s) (n : Option Nat) : Inv (cursorToLine s n) := by
  have : ∃ x y, C05.expected s (.cursorToLine n) = some (x, y) := by
    simp only [C05.expected]
    split <;> exact ⟨_, _, rfl⟩
  obtain ⟨x, y, e⟩ := this
  exact C05.inv_preserved ⟨fun _ => 1, fun _ => false, id⟩ s (.cursorToLine n) x y h e

/-! ### small frame operations -/

theorem inv_markDirty {s : Screen} (h : Inv s) (y : Nat) (hy : y < s.lines) : Inv (markDirty s y) := by
  refine h.of_same_geom rfl rfl rfl rfl rfl h.cy h.cx ?_ (fun y x e => h.outside y x e)
  intro d e
  simp only [markDirty, Bool.or_eq_true, beq_iff_eq] at e
  rcases e with e | e
  · omega
  · exact h.dirty d e

theorem inv_markDirtyRange {s : Screen} (h : Inv s) (lo hi : Nat) (hhi : hi ≤ s.lines) :
    Inv (markDirtyRange s lo hi) := by
  refine h.of_same_geom rfl rfl rfl rfl rfl h.cy h.cx ?_ (fun y x e => h.outside y x e)
  intro d e
  simp only [markDirtyRange, Bool.or_eq_true, Bool.and_eq_true, decide_eq_true_eq] at e
  rcases e with e | e
  · omega
  · exact h.dirty d e

theorem inv_markAllDirty {s : Screen} (h : Inv s) : Inv (markAllDirty s) :=
  inv_markDirtyRange h 0 s.lines (Nat.le_refl _)

theorem inv_setCursorX {s : Screen} (h : Inv s) (x : Nat) (hx : x ≤ s.columns) : Inv (setCursorX s x) :=
  h.of_same_geom rfl rfl rfl rfl rfl h.cy hx h.dirty (fun y x e => h.outside y x e)

theorem inv_setCursorY {s : Screen} (h : Inv s) (y : Nat) (hy : y < s.lines) : Inv (setCursorY s y) :=
  h.of_same_geom rfl rfl rfl rfl rfl hy h.cx h.dirty (fun y x e => h.outside y x e)

theorem inv_tab {s : Screen} (h : Inv s) : Inv (tab s) := by
  have := h.cols
  unfold tab
  split <;> (apply inv_setCursorX h; omega)

theorem inv_setTabStop {s : Screen} (h : Inv s) : Inv (setTabStop s) :=
  h.of_same_geom rfl rfl rfl rfl rfl h.cy h.cx h.dirty (fun y x e => h.outside y x e)

theorem inv_clearTabStop {s : Screen} (h : Inv s) (how : Option Nat) : Inv (clearTabStop s how) :=
  h.of_same_geom rfl rfl rfl rfl rfl h.cy h.cx h.dirty (fun y x e => h.outside y x e)

/-- writing cells inside the grid only -/
theorem Inv.of_cells_inside {s : Screen} (h : Inv s) (cell' : Nat → Nat → Cell)
    (hin : ∀ y x, ¬ (y < s.lines ∧ x < s.columns) → cell' y x = s.cell y x) :
    Inv { s with cell := cell' } :=
  h.of_same_geom rfl rfl rfl rfl rfl h.cy h.cx h.dirty
    (fun y x e => by show cell' y x = _; rw [hin y x e]; exact h.outside y x e)

theorem inv_setCell {s : Screen} (h : Inv s) (y x : Nat) (c : Cell) (hy : y < s.lines) (hx : x < s.columns) :
    Inv (setCell s y x c) := by
  apply h.of_cells_inside
  intro y' x' e
  by_cases e1 : y' = y
  · by_cases e2 : x' = x
    · subst e1 e2; exact absurd ⟨hy, hx⟩ e
    · simp [e2]
  · simp [e1]

/-! ### margins -/

theorem clampMargin_le {s : Screen} (_h : Inv s) (inner : Nat) (hi : inner ≤ s.lines - 1) (o : Option Nat) :
    clampMargin s inner o ≤ s.lines - 1 := by
  cases o with
  | none => exact hi
  | some v => simp only [clampMargin]; omega

theorem inv_setMargins {s : Screen} (h : Inv s) (top bottom : Option Nat) : Inv (setMargins s top bottom) := by
  have hrows := h.rows
  unfold setMargins
  split
  · exact { h with marg := by intro t b e; simp at e }
  · simp only
    have hi : (s.margins.getD (0, s.lines - 1)).2 ≤ s.lines - 1 := by
      cases hm : s.margins with
      | none => simp
      | some tb =>
        obtain ⟨t0, b0⟩ := tb
        have := h.marg t0 b0 hm
        simp; omega
    have hb := clampMargin_le h _ hi bottom
    split
    · rename_i hle
      apply inv_cursorPosition
      refine { h with marg := ?_ }
      intro t b e
      simp only [Option.some.injEq, Prod.mk.injEq] at e
      obtain ⟨rfl, rfl⟩ := e
      exact ⟨by omega, hb⟩
    · exact h

/-! ### scrolling -/

theorem inv_index {s : Screen} (h : Inv s) : Inv (index s) := by
  have hb := bottomMargin_lt h
  have ht := topMargin_le_bottom h
  unfold index
  simp only
  split
  · have h1 := inv_markAllDirty h
    apply h1.of_cells_inside
    intro y x e
    have e' : ¬ (y < s.lines ∧ x < s.columns) := e
    by_cases hy : y < s.lines
    · have hx : ¬ x < s.columns := fun hx => e' ⟨hy, hx⟩
      show (if (decide (topMargin s ≤ y) && decide (y < bottomMargin s)) = true then s.cell (y + 1) x
        else if (y == bottomMargin s) = true then defaultCell s else s.cell y x) = s.cell y x
      have o1 : s.cell y x = defaultCell s := h.outside y x (fun c => hx c.2)
      have o2 : s.cell (y + 1) x = defaultCell s := h.outside (y + 1) x (fun c => hx c.2)
      split
      · rw [o1, o2]
      · split
        · rw [o1]
        · rfl
    · show (if (decide (topMargin s ≤ y) && decide (y < bottomMargin s)) = true then s.cell (y + 1) x
        else if (y == bottomMargin s) = true then defaultCell s else s.cell y x) = s.cell y x
      have n1 : ¬ y < bottomMargin s := by omega
      have n2 : ¬ y = bottomMargin s := by omega
      simp [n1, n2]
  · exact inv_cursorDown h none

theorem inv_linefeed {s : Screen} (h : Inv s) : Inv (linefeed s) := by
  unfold linefeed
  simp only
  split
  · exact inv_cariageReturn (inv_index h)
  · exact inv_index h

theorem inv_reverseIndex {s : Screen} (h : Inv s) : Inv (reverseIndex s) := by
  have hb := bottomMargin_lt h
  have ht := topMargin_le_bottom h
  unfold reverseIndex
  simp only
  split
  · have h1 := inv_markAllDirty h
    apply h1.of_cells_inside
    intro y x e
    have e' : ¬ (y < s.lines ∧ x < s.columns) := e
    show (if (decide (topMargin s < y) && decide (y ≤ bottomMargin s)) = true then s.cell (y - 1) x
      else if (y == topMargin s) = true then defaultCell s else s.cell y x) = s.cell y x
    by_cases hy : y < s.lines
    · have hx : ¬ x < s.columns := fun hx => e' ⟨hy, hx⟩
      have o1 : s.cell y x = defaultCell s := h.outside y x (fun c => hx c.2)
      have o2 : s.cell (y - 1) x = defaultCell s := h.outside (y - 1) x (fun c => hx c.2)
      split
      · rw [o1, o2]
      · split
        · rw [o1]
        · rfl
    · have n1 : ¬ y ≤ bottomMargin s := by omega
      have n2 : ¬ y = topMargin s := by omega
      simp [n1, n2]
  · exact inv_cursorUp h none

theorem inv_insertLines {s : Screen} (h : Inv s) (n : Option Nat) : Inv (insertLines s n) := by
  have hb := bottomMargin_lt h
  unfold insertLines
  simp only
  split
  · apply inv_cariageReturn
    have h1 := inv_markDirtyRange h s.cursor.y s.lines (Nat.le_refl _)
    apply h1.of_cells_inside
    intro y x e
    have e' : ¬ (y < s.lines ∧ x < s.columns) := e
    show (if (decide (s.cursor.y ≤ y) && decide (y ≤ bottomMargin s)) = true then
        (if y < s.cursor.y + nz n then defaultCell s else s.cell (y - nz n) x) else s.cell y x) = s.cell y x
    by_cases hy : y < s.lines
    · have hx : ¬ x < s.columns := fun hx => e' ⟨hy, hx⟩
      have o1 : s.cell y x = defaultCell s := h.outside y x (fun c => hx c.2)
      have o2 : s.cell (y - nz n) x = defaultCell s := h.outside (y - nz n) x (fun c => hx c.2)
      split
      · split
        · rw [o1]
        · rw [o1, o2]
      · rfl
    · have n1 : ¬ y ≤ bottomMargin s := by omega
      simp [n1]
  · exact h

theorem inv_deleteLines {s : Screen} (h : Inv s) (n : Option Nat) : Inv (deleteLines s n) := by
  have hb := bottomMargin_lt h
  unfold deleteLines
  simp only
  split
  · apply inv_cariageReturn
    have h1 := inv_markDirtyRange h s.cursor.y s.lines (Nat.le_refl _)
    apply h1.of_cells_inside
    intro y x e
    have e' : ¬ (y < s.lines ∧ x < s.columns) := e
    show (if (decide (s.cursor.y ≤ y) && decide (y ≤ bottomMargin s)) = true then
        (if y + nz n ≤ bottomMargin s then s.cell (y + nz n) x else defaultCell s) else s.cell y x) = s.cell y x
    by_cases hy : y < s.lines
    · have hx : ¬ x < s.columns := fun hx => e' ⟨hy, hx⟩
      have o1 : s.cell y x = defaultCell s := h.outside y x (fun c => hx c.2)
      have o2 : s.cell (y + nz n) x = defaultCell s := h.outside (y + nz n) x (fun c => hx c.2)
      split
      · split
        · rw [o1, o2]
        · rw [o1]
      · rfl
    · have n1 : ¬ y ≤ bottomMargin s := by omega
      simp [n1]
  · exact h

/-! ### character insertion / deletion / erasure -/

theorem inv_insertCharacters {s : Screen} (h : Inv s) (n : Option Nat) : Inv (insertCharacters s n) := by
  unfold insertCharacters
  simp only
  have h1 := inv_markDirty h s.cursor.y h.cy
  apply h1.of_cells_inside
  intro y x e
  have e' : ¬ (y < s.lines ∧ x < s.columns) := e
  show (if ((y == s.cursor.y) && decide (s.cursor.x ≤ x) && decide (x < s.columns)) = true then
      (if x < s.cursor.x + nz n then defaultCell s else s.cell y (x - nz n)) else s.cell y x) = s.cell y x
  have hcy := h.cy
  have : ¬ (y = s.cursor.y ∧ x < s.columns) := fun c => e' ⟨by omega, c.2⟩
  split
  · rename_i c
    simp only [Bool.and_eq_true, beq_iff_eq, decide_eq_true_eq] at c
    exact absurd ⟨c.1.1, c.2⟩ this
  · rfl

theorem inv_deleteCharacters {s : Screen} (h : Inv s) (n : Option Nat) : Inv (deleteCharacters s n) := by
  unfold deleteCharacters
  simp only
  have h1 := inv_markDirty h s.cursor.y h.cy
  apply h1.of_cells_inside
  intro y x e
  have e' : ¬ (y < s.lines ∧ x < s.columns) := e
  show (if ((y == s.cursor.y) && decide (s.cursor.x ≤ x) && decide (x < s.columns)) = true then
      (if x + nz n < s.columns then s.cell y (x + nz n) else defaultCell s) else s.cell y x) = s.cell y x
  have hcy := h.cy
  have : ¬ (y = s.cursor.y ∧ x < s.columns) := fun c => e' ⟨by omega, c.2⟩
  split
  · rename_i c
    simp only [Bool.and_eq_true, beq_iff_eq, decide_eq_true_eq] at c
    exact absurd ⟨c.1.1, c.2⟩ this
  · rfl

theorem inv_eraseCharacters {s : Screen} (h : Inv s) (n : Option Nat) : Inv (eraseCharacters s n) := by
  unfold eraseCharacters
  simp only
  have h1 := inv_markDirty h s.cursor.y h.cy
  apply h1.of_cells_inside
  intro y x e
  have e' : ¬ (y < s.lines ∧ x < s.columns) := e
  show (if ((y == s.cursor.y) && decide (s.cursor.x ≤ x) && decide (x < min (s.cursor.x + nz n) s.columns)) = true
      then cursorCell s else s.cell y x) = s.cell y x
  have hcy := h.cy
  have : ¬ (y = s.cursor.y ∧ x < s.columns) := fun c => e' ⟨by omega, c.2⟩
  split
  · rename_i c
    simp only [Bool.and_eq_true, beq_iff_eq, decide_eq_true_eq] at c
    exact absurd ⟨c.1.1, by omega⟩ this
  · rfl

theorem elRange_lt {s : Screen} (h : Inv s) (k : Nat) (p : Nat → Bool) (hp : elRange s k = some p)
    (x : Nat) (hx : p x = true) : x < s.columns := by
  have hcols := h.cols
  unfold elRange at hp
  split at hp
  all_goals (first
    | (injection hp with hp; subst hp; simp only [Bool.and_eq_true, decide_eq_true_eq] at hx; omega)
    | (cases hp))

theorem inv_eraseInLine {s : Screen} (h : Inv s) (how : Option Nat) : Inv (eraseInLine s how) := by
  have h1 := inv_markDirty h s.cursor.y h.cy
  have hcy := h.cy
  unfold eraseInLine
  simp only
  split
  · exact h1
  · rename_i p hp
    apply h1.of_cells_inside
    intro y x e
    have e' : ¬ (y < s.lines ∧ x < s.columns) := e
    show (if ((y == s.cursor.y) && p x) = true then cursorCell s else s.cell y x) = s.cell y x
    split
    · rename_i c
      simp only [Bool.and_eq_true, beq_iff_eq] at c
      exact absurd ⟨by omega, elRange_lt h _ p hp x c.2⟩ e'
    · rfl

theorem edRows_le {s : Screen} (h : Inv s) (k : Nat) : (edRows s k).2 ≤ s.lines := by
  have := h.cy
  unfold edRows
  split <;> simp <;> omega

theorem inv_edFill {s : Screen} (h : Inv s) (lo hi : Nat) (hhi : hi ≤ s.lines) : Inv (edFill s lo hi) := by
  unfold edFill
  apply (inv_markDirtyRange h lo hi hhi).of_cells_inside
  intro y x e
  have e' : ¬ (y < s.lines ∧ x < s.columns) := e
  show (if (decide (lo ≤ y) && decide (y < hi) && decide (x < s.columns)) = true
    then cursorCell s else s.cell y x) = s.cell y x
  split
  · rename_i c
    simp only [Bool.and_eq_true, decide_eq_true_eq] at c
    exact absurd ⟨by omega, c.2⟩ e'
  · rfl

theorem inv_eraseInDisplay {s : Screen} (h : Inv s) (how : Option Nat) : Inv (eraseInDisplay s how) := by
  unfold eraseInDisplay
  simp only
  have h2 := inv_edFill h (edRows s (how.getD 0)).1 (edRows s (how.getD 0)).2 (edRows_le h _)
  split
  · exact inv_eraseInLine h2 _
  · exact h2

/-! ### rendition, charsets, titles, save -/

theorem inv_sgr {s : Screen} (h : Inv s) (a : List Nat) : Inv (selectGraphicRendition s a) := by
  unfold selectGraphicRendition
  split <;> exact h.of_same_geom rfl rfl rfl rfl rfl h.cy h.cx h.dirty (fun y x e => h.outside y x e)

theorem inv_saveCursor {s : Screen} (h : Inv s) : Inv (saveCursor s) :=
  h.of_same_geom rfl rfl rfl rfl rfl h.cy h.cx h.dirty (fun y x e => h.outside y x e)

theorem inv_defineCharset {s : Screen} (h : Inv s) (code mode : List Nat) : Inv (defineCharset s code mode) := by
  unfold defineCharset
  split
  · split
    · exact h.of_same_geom rfl rfl rfl rfl rfl h.cy h.cx h.dirty (fun y x e => h.outside y x e)
    · split
      · exact h.of_same_geom rfl rfl rfl rfl rfl h.cy h.cx h.dirty (fun y x e => h.outside y x e)
      · exact h
  · exact h

theorem inv_alignmentDisplay {s : Screen} (h : Inv s) : Inv (alignmentDisplay s) := by
  unfold alignmentDisplay
  simp only
  apply (inv_markAllDirty h).of_cells_inside
  intro y x e
  have e' : ¬ (y < s.lines ∧ x < s.columns) := e
  show (if (decide (y < s.lines) && decide (x < s.columns)) = true then { s.cell y x with data := [69] }
    else s.cell y x) = s.cell y x
  split
  · rename_i c
    simp only [Bool.and_eq_true, decide_eq_true_eq] at c
    exact absurd c e'
  · rfl

/-! ### modes -/

theorem inv_addModes_noflip {s : Screen} (h : Inv s) (ml : List Nat) (hn : ml.contains DECSCNM = false) :
    Inv (addModes s ml) := by
  refine h.of_same_geom rfl rfl rfl ?_ rfl h.cy h.cx h.dirty (fun y x e => h.outside y x e)
  show (ml.contains DECSCNM || s.mode DECSCNM) = s.mode DECSCNM
  rw [hn]; rfl

theorem inv_removeModes_noflip {s : Screen} (h : Inv s) (ml : List Nat) (hn : ml.contains DECSCNM = false) :
    Inv (removeModes s ml) := by
  refine h.of_same_geom rfl rfl rfl ?_ rfl h.cy h.cx h.dirty (fun y x e => h.outside y x e)
  show (!ml.contains DECSCNM && s.mode DECSCNM) = s.mode DECSCNM
  rw [hn]; rfl

theorem inv_addModes_flip {s : Screen} (h : Inv s) (ml : List Nat) (hc : ml.contains DECSCNM = true) :
    Inv (setAllReverse (addModes s ml) true) := by
  refine { h with outside := ?_ }
  intro y x e
  have := h.outside y x e
  simp only [setAllReverse, addModes, this, defaultCell, defaultAttr, hc, Bool.true_or]

theorem inv_removeModes_flip {s : Screen} (h : Inv s) (ml : List Nat) (hc : ml.contains DECSCNM = true) :
    Inv (setAllReverse (removeModes s ml) false) := by
  refine { h with outside := ?_ }
  intro y x e
  have := h.outside y x e
  simp only [setAllReverse, removeModes, this, defaultCell, defaultAttr, hc, Bool.not_true, Bool.false_and]

theorem inv_applySetModes {s : Screen} (h : Inv s) (ml : List Nat) : Inv (applySetModes s ml) := by
  unfold applySetModes
  split
  · rename_i hc
    exact inv_sgr (inv_addModes_flip (inv_markAllDirty h) ml hc) _
  · rename_i hc
    exact inv_addModes_noflip h ml (by simpa using hc)

theorem inv_applyResetModes {s : Screen} (h : Inv s) (ml : List Nat) : Inv (applyResetModes s ml) := by
  unfold applyResetModes
  split
  · rename_i hc
    exact inv_sgr (inv_removeModes_flip (inv_markAllDirty h) ml hc) _
  · rename_i hc
    exact inv_removeModes_noflip h ml (by simpa using hc)

theorem inv_homeIf {s : Screen} (h : Inv s) (b : Bool) : Inv (homeIf b s) := by
  unfold homeIf
  split
  · exact inv_cursorPosition h none none
  · exact h

theorem inv_hiddenIf {s : Screen} (h : Inv s) (b v : Bool) : Inv (hiddenIf b v s) := by
  unfold hiddenIf
  split
  · exact h.of_same_geom rfl rfl rfl rfl rfl h.cy h.cx h.dirty (fun y x e => h.outside y x e)
  · exact h

theorem inv_setModeNoColm {s : Screen} (h : Inv s) (ml : List Nat) : Inv (setModeNoColm s ml) :=
  inv_hiddenIf (inv_homeIf (inv_applySetModes h ml) _) _ _

theorem inv_resetModeNoColm {s : Screen} (h : Inv s) (ml : List Nat) : Inv (resetModeNoColm s ml) :=
  inv_hiddenIf (inv_homeIf (inv_applyResetModes h ml) _) _ _

/-! ### restore -/

theorem inv_ensureHBounds {s : Screen} (h : Inv s) : Inv (ensureHBounds s) := by
  have := h.cols
  exact inv_setCursorX h _ (by omega)

/-- `ensure_hbounds; ensure_vbounds` repair any cursor position -/
theorem inv_clamp_cursor {s : Screen} (h : Inv s) (c : Cursor) (um : Bool) :
    Inv (ensureVBounds (ensureHBounds { s with cursor := c }) um) := by
  have hcols := h.cols
  have hrows := h.rows
  refine h.of_same_geom rfl rfl rfl rfl rfl ?_ ?_ h.dirty (fun y x e => h.outside y x e)
  · show min (max _ _) _ < s.lines
    simp only [ensureHBounds, setCursorX]
    cases hm : s.margins with
    | none => simp; omega
    | some tb =>
      obtain ⟨t, b⟩ := tb
      have := h.marg t b hm
      simp only
      by_cases hq : (um || s.mode DECOM) = true
      · simp only [hq, if_true]; omega
      · have hq' : (um || s.mode DECOM) = false := by simpa using hq
        simp [hq']; omega
  · show min c.x (s.columns - 1) ≤ s.columns
    omega

theorem inv_restoreCursor {s : Screen} (h : Inv s) : Inv (restoreCursor s) := by
  unfold restoreCursor
  split
  · rename_i sp rest hsp
    simp only
    have h0 : Inv { s with savepoints := rest, g0 := sp.g0, g1 := sp.g1, g1Active := sp.g1Active } :=
      h.of_same_geom rfl rfl rfl rfl rfl h.cy h.cx h.dirty (fun y x e => h.outside y x e)
    have h1 : Inv (if sp.origin = true then
        setModeNoColm { s with savepoints := rest, g0 := sp.g0, g1 := sp.g1, g1Active := sp.g1Active } [DECOM]
        else { s with savepoints := rest, g0 := sp.g0, g1 := sp.g1, g1Active := sp.g1Active }) := by
      split
      · exact inv_setModeNoColm h0 _
      · exact h0
    have h2 := fun (t : Screen) (ht : Inv t) =>
      (show Inv (if sp.wrap = true then setModeNoColm t [DECAWM] else t) by
        split
        · exact inv_setModeNoColm ht _
        · exact ht)
    exact inv_clamp_cursor (h2 _ h1) sp.cursor true
  · exact inv_cursorPosition (inv_resetModeNoColm h _) none none

/-! ### resize -/

theorem decom_ne_decscnm : ([DECOM].contains DECSCNM) = false := by decide
theorem decawm_ne_decscnm : ([DECAWM].contains DECSCNM) = false := by decide

theorem setModeNoColm_cell_of_noflip (t : Screen) (ml : List Nat) (hn : ml.contains DECSCNM = false) :
    (setModeNoColm t ml).cell = t.cell ∧ (setModeNoColm t ml).mode DECSCNM = t.mode DECSCNM ∧
    (setModeNoColm t ml).columns = t.columns ∧ (setModeNoColm t ml).lines = t.lines ∧
    (setModeNoColm t ml).savedColumns = t.savedColumns ∧ (setModeNoColm t ml).dirty = t.dirty ∧
    (setModeNoColm t ml).margins = t.margins := by
  have hm : (addModes t ml).mode DECSCNM = t.mode DECSCNM := by
    show (ml.contains DECSCNM || t.mode DECSCNM) = t.mode DECSCNM
    rw [hn]; rfl
  unfold setModeNoColm hiddenIf homeIf applySetModes
  simp only [hn, Bool.false_eq_true, if_false]
  have hcp : ∀ u : Screen, (cursorPosition u none none).cell = u.cell ∧
      (cursorPosition u none none).mode = u.mode ∧ (cursorPosition u none none).columns = u.columns ∧
      (cursorPosition u none none).lines = u.lines ∧ (cursorPosition u none none).savedColumns = u.savedColumns ∧
      (cursorPosition u none none).dirty = u.dirty ∧ (cursorPosition u none none).margins = u.margins := by
    intro u
    unfold cursorPosition
    simp only
    split
    · split
      · split <;> exact ⟨rfl, rfl, rfl, rfl, rfl, rfl, rfl⟩
      · exact ⟨rfl, rfl, rfl, rfl, rfl, rfl, rfl⟩
    · exact ⟨rfl, rfl, rfl, rfl, rfl, rfl, rfl⟩
  split <;> split
  all_goals first
    | (obtain ⟨a, b, c, d, e, f, g⟩ := hcp (addModes t ml)
       refine ⟨a, ?_, c, d, e, f, g⟩
       show (cursorPosition (addModes t ml) none none).mode DECSCNM = _
       rw [b]; exact hm)
    | exact ⟨rfl, hm, rfl, rfl, rfl, rfl, rfl⟩

/-- the fields of a state that `resize` cares about -/
def Geo (a b : Screen) : Prop :=
  a.cell = b.cell ∧ a.mode DECSCNM = b.mode DECSCNM ∧ a.columns = b.columns ∧ a.lines = b.lines ∧
  a.savedColumns = b.savedColumns ∧ a.margins = b.margins

theorem Geo.refl (a : Screen) : Geo a a := ⟨rfl, rfl, rfl, rfl, rfl, rfl⟩

theorem Geo.trans {a b c : Screen} (h1 : Geo a b) (h2 : Geo b c) : Geo a c :=
  ⟨h1.1.trans h2.1, h1.2.1.trans h2.2.1, h1.2.2.1.trans h2.2.2.1, h1.2.2.2.1.trans h2.2.2.2.1,
   h1.2.2.2.2.1.trans h2.2.2.2.2.1, h1.2.2.2.2.2.trans h2.2.2.2.2.2⟩

theorem geo_setModeNoColm_if (B : Screen) (b : Bool) (ml : List Nat) (hn : ml.contains DECSCNM = false) :
    Geo (if b = true then setModeNoColm B ml else B) B := by
  cases b
  · exact Geo.refl _
  · obtain ⟨c1, c2, c3, c4, c5, _, c7⟩ := setModeNoColm_cell_of_noflip B ml hn
    exact ⟨c1, c2, c3, c4, c5, c7⟩

theorem geo_restoreCursor (t : Screen) (sp : Savepoint) (rest : List Savepoint)
    (hsp : t.savepoints = sp :: rest) : Geo (restoreCursor t) t := by
  unfold restoreCursor
  rw [hsp]
  simp only
  have g1 := geo_setModeNoColm_if
    { t with savepoints := rest, g0 := sp.g0, g1 := sp.g1, g1Active := sp.g1Active } sp.origin [DECOM] decom_ne_decscnm
  have g2 := geo_setModeNoColm_if _ sp.wrap [DECAWM] decawm_ne_decscnm |>.trans g1
  exact ⟨g2.1, g2.2.1, g2.2.2.1, g2.2.2.2.1, g2.2.2.2.2.1, g2.2.2.2.2.2⟩

theorem deleteLines_cell (t : Screen) (n : Option Nat)
    (hin : topMargin t ≤ t.cursor.y ∧ t.cursor.y ≤ bottomMargin t) (y x : Nat) :
    (deleteLines t n).cell y x =
      if t.cursor.y ≤ y ∧ y ≤ bottomMargin t then
        (if y + nz n ≤ bottomMargin t then t.cell (y + nz n) x else defaultCell t)
      else t.cell y x := by
  unfold deleteLines
  simp only [hin.1, hin.2, decide_true, Bool.and_self, if_true, cariageReturn, setCursorX]
  by_cases c : t.cursor.y ≤ y ∧ y ≤ bottomMargin t
  · simp [c.1, c.2]
  · simp only [c, if_false]
    have : (decide (t.cursor.y ≤ y) && decide (y ≤ bottomMargin t)) = false := by
      simp only [Bool.and_eq_false_iff, decide_eq_false_iff_not]
      by_cases c1 : t.cursor.y ≤ y
      · right; exact fun c2 => c ⟨c1, c2⟩
      · left; exact c1
    simp [this]

theorem deleteLines_geo (t : Screen) (n : Option Nat) :
    (deleteLines t n).mode = t.mode ∧ (deleteLines t n).columns = t.columns ∧
    (deleteLines t n).lines = t.lines ∧ (deleteLines t n).savedColumns = t.savedColumns ∧
    (deleteLines t n).margins = t.margins ∧ (deleteLines t n).savepoints = t.savepoints := by
  unfold deleteLines
  simp only
  split <;> exact ⟨rfl, rfl, rfl, rfl, rfl, rfl⟩

theorem dropRows_facts {s1 : Screen} (h : Inv s1) (hm : s1.margins = none) (l : Nat) (hl : l < s1.lines) :
    Inv (dropRowsFromTop s1 l) ∧ (dropRowsFromTop s1 l).columns = s1.columns ∧
    (dropRowsFromTop s1 l).lines = s1.lines ∧ (dropRowsFromTop s1 l).margins = none ∧
    (dropRowsFromTop s1 l).savedColumns = s1.savedColumns ∧
    (dropRowsFromTop s1 l).mode DECSCNM = s1.mode DECSCNM ∧
    (∀ y x, l ≤ y → (dropRowsFromTop s1 l).cell y x = defaultCell s1) := by
  have hinv : Inv (dropRowsFromTop s1 l) :=
    inv_restoreCursor (inv_deleteLines (inv_cursorPosition (inv_saveCursor h) _ _) _)
  refine ⟨hinv, ?_⟩
  have hrows := h.rows
  have h0 := inv_saveCursor h
  -- cursor_position(0, 0) with no region: home, nothing else changes
  have hexp : C05.expected (saveCursor s1) (.cursorPosition (some 0) (some 0)) = some (0, 0) := by
    simp [C05.expected, saveCursor, hm, nz]
  obtain ⟨px, py, pf⟩ := C05.position_and_frame ⟨fun _ => 1, fun _ => false, id⟩ (saveCursor s1)
    (.cursorPosition (some 0) (some 0)) 0 0 h0 hexp
  have pf' : OnlyCursorMoved (saveCursor s1) (cursorPosition (saveCursor s1) (some 0) (some 0)) := pf
  have py' : (cursorPosition (saveCursor s1) (some 0) (some 0)).cursor.y = 0 := py
  generalize ht1 : cursorPosition (saveCursor s1) (some 0) (some 0) = t1 at pf' py'
  have ss := pf'.sameSettings
  obtain ⟨e1, e2, _, _, e5, e6, _, _, _, _, _, _, e13, e14⟩ := ss
  have ecell : t1.cell = s1.cell := pf'.cell
  have etop : topMargin t1 = 0 := by simp [topMargin, e5, saveCursor, hm]
  have ebot : bottomMargin t1 = s1.lines - 1 := by
    simp only [bottomMargin, e5, saveCursor, hm, e2]
  have hd : nz (some (s1.lines - l)) = s1.lines - l := C05.nz_pos _ (by omega)
  obtain ⟨d1, d2, d3, d4, d5, d6⟩ := deleteLines_geo t1 (some (s1.lines - l))
  have hsp : (deleteLines t1 (some (s1.lines - l))).savepoints =
      { cursor := s1.cursor, g0 := s1.g0, g1 := s1.g1, g1Active := s1.g1Active,
        origin := s1.mode DECOM, wrap := s1.mode DECAWM } :: s1.savepoints := by
    rw [d6, e13]; rfl
  have g := geo_restoreCursor _ _ _ hsp
  unfold dropRowsFromTop
  rw [ht1]
  obtain ⟨g1, g2, g3, g4, g5, g6⟩ := g
  refine ⟨by rw [g3, d2, e1]; rfl, by rw [g4, d3, e2]; rfl, by rw [g6, d5, e5]; exact hm,
    by rw [g5, d4, e14]; rfl, by rw [g2, d1, e6]; rfl, ?_⟩
  intro y x hy
  rw [g1, deleteLines_cell t1 _ (by rw [etop, ebot, py']; omega)]
  have hdef : defaultCell t1 = defaultCell s1 := defaultCell_congr (by rw [e6]; rfl)
  rw [py', ebot, hd, hdef, ecell]
  split
  · split
    · omega
    · rfl
  · rename_i c
    exact h.outside y x (by omega)

/-- what `resize` leaves in the buffer before it installs the new dimensions -/
structure ResizeMid (s : Screen) (l c : Nat) (m : Screen) : Prop where
  cols : m.columns = s.columns
  rows : m.lines = s.lines
  marg : m.margins = none
  saved : m.savedColumns = s.savedColumns
  mode : m.mode DECSCNM = s.mode DECSCNM
  blank : ∀ y x, (l ≤ y ∨ c ≤ x ∨ s.lines ≤ y ∨ s.columns ≤ x) → m.cell y x = defaultCell s

theorem resize_mid {s : Screen} (h : Inv s) (l c : Nat) :
    ResizeMid s l c
      (let s1 : Screen := { s with margins := none }
       let s2 := if l < s1.lines then dropRowsFromTop s1 l else s1
       if c < s2.columns then cutColumns s2 c else s2) := by
  have h1 : Inv { s with margins := none } := { h with marg := by intro t b e; simp at e }
  simp only
  -- facts about s2
  have f2 : ∃ s2, s2 = (if l < s.lines then dropRowsFromTop { s with margins := none } l else { s with margins := none }) ∧
      s2.columns = s.columns ∧ s2.lines = s.lines ∧ s2.margins = none ∧ s2.savedColumns = s.savedColumns ∧
      s2.mode DECSCNM = s.mode DECSCNM ∧
      (∀ y x, (l ≤ y ∨ s.lines ≤ y ∨ s.columns ≤ x) → s2.cell y x = defaultCell s) := by
    refine ⟨_, rfl, ?_⟩
    split
    · rename_i hl
      obtain ⟨hi, a1, a2, a3, a4, a5, a6⟩ := dropRows_facts h1 rfl l hl
      refine ⟨a1, a2, a3, a4, a5, ?_⟩
      intro y x hy
      rcases hy with hy | hy | hy
      · exact a6 y x hy
      · exact a6 y x (by have : l < s.lines := hl; omega)
      · have := hi.outside y x (by rw [a1]; intro c; exact absurd c.2 (by simpa using hy))
        rw [this]
        exact defaultCell_congr a5
    · rename_i hl
      refine ⟨rfl, rfl, rfl, rfl, rfl, ?_⟩
      intro y x hy
      apply h.outside y x
      intro c
      rcases hy with hy | hy | hy <;> omega
  obtain ⟨s2, hs2, b1, b2, b3, b4, b5, b6⟩ := f2
  rw [← hs2]
  split
  · rename_i hc
    refine ⟨b1, b2, b3, b4, b5, ?_⟩
    intro y x hy
    show (if (decide (c ≤ x) && decide (x < s2.columns)) = true then defaultCell s2 else s2.cell y x) = defaultCell s
    have hd : defaultCell s2 = defaultCell s := defaultCell_congr b5
    split
    · exact hd
    · rename_i hx
      simp only [Bool.and_eq_true, decide_eq_true_eq, not_and, Nat.not_lt] at hx
      apply b6 y x
      rcases hy with hy | hy | hy | hy
      · exact Or.inl hy
      · exact Or.inr (Or.inr (by rw [← b1]; exact hx hy))
      · exact Or.inr (Or.inl hy)
      · exact Or.inr (Or.inr hy)
  · rename_i hc
    refine ⟨b1, b2, b3, b4, b5, ?_⟩
    intro y x hy
    apply b6 y x
    rcases hy with hy | hy | hy | hy
    · exact Or.inl hy
    · exact Or.inr (Or.inr (by rw [b1] at hc; omega))
    · exact Or.inr (Or.inl hy)
    · exact Or.inr (Or.inr hy)

theorem inv_resize {s : Screen} (h : Inv s) (lines columns : Option Nat)
    (hl : ∀ v, lines = some v → 1 ≤ v ∧ v < dimBound) (hc : ∀ v, columns = some v → 1 ≤ v ∧ v < dimBound) :
    Inv (resize s lines columns) := by
  unfold resize
  simp only
  split
  · exact h
  · have hL : 1 ≤ lines.getD s.lines ∧ lines.getD s.lines < dimBound := by
      cases lines with
      | none => exact ⟨h.rows, h.diml⟩
      | some v => exact hl v rfl
    have hC : 1 ≤ columns.getD s.columns ∧ columns.getD s.columns < dimBound := by
      cases columns with
      | none => exact ⟨h.cols, h.dimc⟩
      | some v => exact hc v rfl
    have mid := resize_mid h (lines.getD s.lines) (columns.getD s.columns)
    simp only at mid
    generalize (if columns.getD s.columns < (if lines.getD s.lines < s.lines then
        dropRowsFromTop { s with margins := none } (lines.getD s.lines) else { s with margins := none }).columns
      then cutColumns (if lines.getD s.lines < s.lines then
        dropRowsFromTop { s with margins := none } (lines.getD s.lines) else { s with margins := none })
        (columns.getD s.columns)
      else (if lines.getD s.lines < s.lines then
        dropRowsFromTop { s with margins := none } (lines.getD s.lines) else { s with margins := none })) = m at mid
    generalize lines.getD s.lines = l at *
    generalize columns.getD s.columns = c at *
    have hsm : setMargins { m with lines := l, columns := c, dirty := fun d => decide (d < l) } none none =
        { m with lines := l, columns := c, dirty := fun d => decide (d < l), margins := none } := by
      simp [setMargins]
    rw [hsm]
    refine ⟨hC.1, hL.1, hC.2, hL.2, ?_, ?_, ?_, ?_, ?_, ?_⟩
    · show min (max _ _) _ < l
      simp only [ensureHBounds, setCursorX]
      omega
    · show min _ (c - 1) ≤ c
      omega
    · intro t b e
      simp [ensureVBounds, ensureHBounds, setCursorX, setCursorY] at e
    · intro d e
      simpa [ensureVBounds, ensureHBounds, setCursorX, setCursorY] using e
    · intro y x e
      show m.cell y x = defaultCell _
      rw [mid.blank y x (by
        by_cases hy : y < l
        · right; left
          have : ¬ x < c := fun hx => e ⟨hy, hx⟩
          omega
        · left; omega)]
      exact (defaultCell_congr mid.mode).symm
    · intro v e
      have : m.savedColumns = some v := e
      rw [mid.saved] at this
      exact h.saved v this

/-! ### set_mode / reset_mode -/

theorem inv_colmSet {s : Screen} (h : Inv s) : Inv (colmSet s) := by
  unfold colmSet
  have h0 : Inv { s with savedColumns := some s.columns } := by
    refine { h with saved := ?_ }
    intro c e
    have e' : some s.columns = some c := e
    simp only [Option.some.injEq] at e'
    subst e'
    exact ⟨h.cols, h.dimc⟩
  exact inv_cursorPosition (inv_eraseInDisplay
    (inv_resize h0 none (some 132) (by intro v e; cases e) (by
      intro v e
      simp only [Option.some.injEq] at e
      subst e
      decide)) _) _ _

theorem inv_colmRestore {s : Screen} (h : Inv s) : Inv (colmRestore s) := by
  unfold colmRestore
  split
  · split
    · rename_i sc hsc
      have hr := inv_resize h none (some sc) (by intro v e; cases e) (by
        intro v e
        simp only [Option.some.injEq] at e
        subst e
        exact h.saved _ hsc)
      exact { hr with saved := by intro c e; simp at e }
    · exact h
  · exact h

theorem inv_colmReset {s : Screen} (h : Inv s) : Inv (colmReset s) := by
  unfold colmReset
  exact inv_cursorPosition (inv_eraseInDisplay (inv_colmRestore h) _) _ _

theorem inv_setMode {s : Screen} (h : Inv s) (ms : List Nat) (p : Bool) : Inv (setMode s ms p) := by
  unfold setMode
  simp only
  apply inv_hiddenIf
  apply inv_homeIf
  split
  · exact inv_colmSet (inv_applySetModes h _)
  · exact inv_applySetModes h _

theorem inv_resetMode {s : Screen} (h : Inv s) (ms : List Nat) (p : Bool) : Inv (resetMode s ms p) := by
  unfold resetMode
  simp only
  apply inv_hiddenIf
  apply inv_homeIf
  split
  · exact inv_colmReset (inv_applyResetModes h _)
  · exact inv_applyResetModes h _

/-! ### reset / new -/

theorem inv_reset {s : Screen} (h : Inv s) : Inv (reset s) := by
  unfold reset
  simp only
  apply inv_cursorPosition
  refine ⟨h.cols, h.rows, h.dimc, h.diml, h.rows, Nat.zero_le _, ?_, ?_, ?_, ?_⟩
  · intro t b e; simp at e
  · intro d e; simpa using e
  · intro y x _; rfl
  · intro c e; simp at e

/-- a new screen of any legal size is well-formed -/
theorem inv_init (columns lines : Nat) (hc : 1 ≤ columns) (hl : 1 ≤ lines)
    (hcb : columns < dimBound) (hlb : lines < dimBound) : Inv (init columns lines) := by
  unfold init reset
  simp only
  apply inv_cursorPosition
  refine ⟨hc, hl, hcb, hlb, hl, Nat.zero_le _, ?_, ?_, ?_, ?_⟩
  · intro t b e; simp at e
  · intro d e; simpa using e
  · intro y x _; rfl
  · intro c e; simp at e

/-! ### draw -/

theorem linefeed_frame (u : Screen) :
    (linefeed u).cursor.x = (if u.mode LNM then 0 else u.cursor.x) ∧ (linefeed u).columns = u.columns ∧
    (linefeed u).lines = u.lines := by
  unfold linefeed index
  simp only
  split <;> split <;> simp_all [cariageReturn, setCursorX, cursorDown, setCursorY, markAllDirty, markDirtyRange]

theorem inv_wrapStage {s : Screen} (h : Inv s) (w : Nat) (hw : w = 1 ∨ w = 2) :
    Inv (wrapStage s w) ∧ (wrapStage s w).cursor.x < (wrapStage s w).columns := by
  have hcx := h.cx
  have hcols := h.cols
  unfold wrapStage
  split
  · rename_i he
    have he' : s.cursor.x = s.columns := by simpa using he
    split
    · have hi := inv_linefeed (inv_cariageReturn (inv_markDirty h s.cursor.y h.cy))
      refine ⟨hi, ?_⟩
      obtain ⟨f1, f2, _⟩ := linefeed_frame (cariageReturn (markDirty s s.cursor.y))
      rw [f1, f2]
      show (if _ then 0 else 0) < s.columns
      split <;> omega
    · refine ⟨inv_setCursorX h _ (by omega), ?_⟩
      show s.cursor.x - w < s.columns
      rcases hw with hw | hw <;> omega
  · rename_i he
    have he' : s.cursor.x ≠ s.columns := by simpa using he
    exact ⟨h, by omega⟩

theorem inv_irmStage {s : Screen} (h : Inv s) (w : Nat) :
    Inv (irmStage s w) ∧ (irmStage s w).cursor = s.cursor ∧ (irmStage s w).columns = s.columns := by
  unfold irmStage
  split
  · exact ⟨inv_insertCharacters h _, rfl, rfl⟩
  · exact ⟨h, rfl, rfl⟩

theorem inv_putChar {s : Screen} (h : Inv s) (c w : Nat) (hx : s.cursor.x < s.columns) : Inv (putChar s c w) := by
  unfold putChar
  simp only
  have h1 := inv_setCell h s.cursor.y s.cursor.x { data := [c], attr := s.cursor.attr } h.cy hx
  have h2 : Inv (if (w == 2 && decide ((setCell s s.cursor.y s.cursor.x { data := [c], attr := s.cursor.attr }).cursor.x + 1 <
        (setCell s s.cursor.y s.cursor.x { data := [c], attr := s.cursor.attr }).columns)) = true then
      setCell (setCell s s.cursor.y s.cursor.x { data := [c], attr := s.cursor.attr })
        (setCell s s.cursor.y s.cursor.x { data := [c], attr := s.cursor.attr }).cursor.y
        ((setCell s s.cursor.y s.cursor.x { data := [c], attr := s.cursor.attr }).cursor.x + 1)
        { data := [], attr := (setCell s s.cursor.y s.cursor.x { data := [c], attr := s.cursor.attr }).cursor.attr }
      else setCell s s.cursor.y s.cursor.x { data := [c], attr := s.cursor.attr }) := by
    split
    · rename_i hc
      simp only [Bool.and_eq_true, decide_eq_true_eq] at hc
      exact inv_setCell h1 _ _ _ h1.cy hc.2
    · exact h1
  exact inv_setCursorX h2 _ (Nat.min_le_right _ _)

theorem inv_combine (env : Env) {s : Screen} (h : Inv s) (c : Nat) : Inv (combine env s c) := by
  unfold combine
  split
  · rename_i hx
    have hcx := h.cx
    exact inv_setCell h _ _ _ h.cy (by omega)
  · split
    · rename_i hy
      have hcy := h.cy
      have hcols := h.cols
      exact inv_markDirty (inv_setCell h _ _ _ (by omega) (by omega)) _ (by
        show s.cursor.y - 1 < s.lines
        omega)
    · exact h

theorem inv_drawChar (env : Env) {s : Screen} (h : Inv s) (c : Nat) : Inv (drawChar env s c) := by
  unfold drawChar
  simp only
  split
  · rename_i hp
    have hw : env.W c = 1 ∨ env.W c = 2 := by simpa using hp
    obtain ⟨h1, hx1⟩ := inv_wrapStage h (env.W c) hw
    obtain ⟨h2, hc2, hcol2⟩ := inv_irmStage h1 (env.W c)
    exact inv_putChar h2 c (env.W c) (by rw [hc2, hcol2]; exact hx1)
  · split
    · exact inv_combine env h c
    · exact h

theorem inv_foldl_drawChar (env : Env) (cs : List Nat) {s : Screen} (h : Inv s) :
    Inv (cs.foldl (drawChar env) s) := by
  induction cs generalizing s with
  | nil => exact h
  | cons c cs ih => exact ih (inv_drawChar env h c)

theorem inv_draw (env : Env) {s : Screen} (h : Inv s) (t : List Nat) : Inv (draw env s t) := by
  unfold draw
  simp only
  have h1 := inv_foldl_drawChar env (t.map (translate s)) h
  exact inv_markDirty h1 _ h1.cy

/-! ### B1: every operation preserves the invariant -/

theorem inv_step (env : Env) {s : Screen} (h : Inv s) (c : Call) (ha : c.argOk = true) : Inv (step env s c) := by
  cases c with
  | alignmentDisplay => exact inv_alignmentDisplay h
  | defineCharset code mode => exact inv_defineCharset h code mode
  | reset => exact inv_reset h
  | index => exact inv_index h
  | linefeed => exact inv_linefeed h
  | reverseIndex => exact inv_reverseIndex h
  | setTabStop => exact inv_setTabStop h
  | saveCursor => exact inv_saveCursor h
  | restoreCursor => exact inv_restoreCursor h
  | shiftOut => exact h.of_same_geom rfl rfl rfl rfl rfl h.cy h.cx h.dirty (fun y x e => h.outside y x e)
  | shiftIn => exact h.of_same_geom rfl rfl rfl rfl rfl h.cy h.cx h.dirty (fun y x e => h.outside y x e)
  | bell => exact h
  | backspace => exact C05.inv_preserved env s .backspace _ _ h rfl
  | tab => exact inv_tab h
  | cariageReturn => exact inv_cariageReturn h
  | draw t => exact inv_draw env h t
  | insertCharacters n => exact inv_insertCharacters h n
  | cursorUp n => exact inv_cursorUp h n
  | cursorDown n => exact inv_cursorDown h n
  | cursorForward n => exact C05.inv_preserved env s (.cursorForward n) _ _ h rfl
  | cursorBack n => exact C05.inv_preserved env s (.cursorBack n) _ _ h rfl
  | cursorDown1 n => exact C05.inv_preserved env s (.cursorDown1 n) _ _ h rfl
  | cursorUp1 n => exact C05.inv_preserved env s (.cursorUp1 n) _ _ h rfl
  | cursorToColumn n => exact C05.inv_preserved env s (.cursorToColumn n) _ _ h rfl
  | cursorPosition l c => exact inv_cursorPosition h l c
  | eraseInDisplay hw => exact inv_eraseInDisplay h hw
  | eraseInLine hw => exact inv_eraseInLine h hw
  | insertLines n => exact inv_insertLines h n
  | deleteLines n => exact inv_deleteLines h n
  | deleteCharacters n => exact inv_deleteCharacters h n
  | eraseCharacters n => exact inv_eraseCharacters h n
  | reportDeviceAttributes _ => exact h
  | cursorToLine n => exact inv_cursorToLine h n
  | clearTabStop hw => exact inv_clearTabStop h hw
  | setMode ms p => exact inv_setMode h ms p
  | resetMode ms p => exact inv_resetMode h ms p
  | sgr a => exact inv_sgr h a
  | setTitle t => exact h.of_same_geom rfl rfl rfl rfl rfl h.cy h.cx h.dirty (fun y x e => h.outside y x e)
  | setIconName t => exact h.of_same_geom rfl rfl rfl rfl rfl h.cy h.cx h.dirty (fun y x e => h.outside y x e)
  | setMargins t b => exact inv_setMargins h t b
  | resize l c =>
    simp only [Call.argOk, Bool.and_eq_true] at ha
    apply inv_resize h l c
    · intro v e; subst e
      have := ha.1
      simp only [dimOk, Bool.and_eq_true, decide_eq_true_eq] at this
      exact ⟨this.1, this.2⟩
    · intro v e; subst e
      have := ha.2
      simp only [dimOk, Bool.and_eq_true, decide_eq_true_eq] at this
      exact ⟨this.1, this.2⟩
  | display => exact h
  | clearDirty => exact h.of_same_geom rfl rfl rfl rfl rfl h.cy h.cx (by intro d e; exact Bool.noConfusion e) (fun y x e => h.outside y x e)

/-- every state reachable from a well-formed one through calls with legal arguments is well-formed -/
theorem inv_run (env : Env) (cs : List Call) {s : Screen} (h : Inv s) (ha : ∀ c ∈ cs, c.argOk = true) :
    Inv (run env s cs) := by
  induction cs generalizing s with
  | nil => exact h
  | cons c cs ih =>
    exact ih (inv_step env h c (ha c (List.mem_cons_self ..))) (fun c' hc' => ha c' (List.mem_cons_of_mem _ hc'))

end Memterm
