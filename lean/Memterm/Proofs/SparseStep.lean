import Memterm.Proofs.SparseRefine
import Memterm.Proofs.InvStep
import Memterm.Proofs.StackExt

namespace Memterm
namespace Sparse

open Gen

/-- `s` with another cell store -/
@[reducible] def wc (s : Screen) (c : Nat → Nat → Cell) : Screen := { s with cell := c }

/-- an operation that neither reads nor writes the cell store -/
def Agnostic (f : Screen → Screen) : Prop := ∀ s c, f (wc s c) = wc (f s) c

theorem abs_lift (f : Screen → Screen) (hf : Agnostic f) (hm : ∀ s, (f s).mode DECSCNM = s.mode DECSCNM)
    (ss : SScreen) : abs (lift f ss) = f (abs ss) := by
  have e : abs ss = wc ss.s (read ss) := rfl
  rw [e, hf]
  unfold abs lift wc
  have hd : defaultCell (f ss.s) = defaultCell ss.s := by simp [defaultCell, defaultAttr, hm]
  have : read { s := f ss.s, buf := ss.buf } = read ss := by
    funext y x; unfold read; simp only [hd]
  simp only [this]

theorem ite_wc {c c' : Prop} [Decidable c] [Decidable c'] (hc : c ↔ c') {a a' b b' : Screen} {cl}
    (ha : a = wc a' cl) (hb : b = wc b' cl) : (if c then a else b) = wc (if c' then a' else b') cl := by
  by_cases h : c
  · rw [if_pos h, if_pos (hc.1 h)]; exact ha
  · rw [if_neg h, if_neg (fun h' => h (hc.2 h'))]; exact hb

theorem ag_comp {f g : Screen → Screen} (hf : Agnostic f) (hg : Agnostic g) : Agnostic (fun s => g (f s)) := by
  intro s c; simp only [hf s c, hg (f s) c]

theorem ag_cursorUp (n) : Agnostic (fun s => cursorUp s n) := fun _ _ => rfl
theorem ag_cursorDown (n) : Agnostic (fun s => cursorDown s n) := fun _ _ => rfl
theorem ag_cursorUp1 (n) : Agnostic (fun s => cursorUp1 s n) := fun _ _ => rfl
theorem ag_cursorDown1 (n) : Agnostic (fun s => cursorDown1 s n) := fun _ _ => rfl
theorem ag_cursorForward (n) : Agnostic (fun s => cursorForward s n) := fun _ _ => rfl
theorem ag_cursorBack (n) : Agnostic (fun s => cursorBack s n) := fun _ _ => rfl
theorem ag_backspace : Agnostic backspace := fun _ _ => rfl
theorem ag_cariageReturn : Agnostic cariageReturn := fun _ _ => rfl
theorem ag_cursorToColumn (n) : Agnostic (fun s => cursorToColumn s n) := fun _ _ => rfl
theorem ag_cursorToLine (n) : Agnostic (fun s => cursorToLine s n) := fun _ _ => rfl
theorem ag_setTabStop : Agnostic setTabStop := fun _ _ => rfl
theorem ag_clearTabStop (h) : Agnostic (fun s => clearTabStop s h) := fun _ _ => rfl
theorem ag_shiftOut : Agnostic shiftOut := fun _ _ => rfl
theorem ag_shiftIn : Agnostic shiftIn := fun _ _ => rfl
theorem ag_setTitle (t) : Agnostic (fun s => setTitle s t) := fun _ _ => rfl
theorem ag_setIconName (t) : Agnostic (fun s => setIconName s t) := fun _ _ => rfl
theorem ag_saveCursor : Agnostic saveCursor := fun _ _ => rfl
theorem ag_markDirty (y) : Agnostic (fun s => markDirty s y) := fun _ _ => rfl
theorem ag_setCursorX (x) : Agnostic (fun s => setCursorX s x) := fun _ _ => rfl
theorem ag_ensureHBounds : Agnostic ensureHBounds := fun _ _ => rfl
theorem ag_ensureVBounds (u) : Agnostic (fun s => ensureVBounds s u) := fun _ _ => rfl
theorem ag_addModes (ml) : Agnostic (fun s => addModes s ml) := fun _ _ => rfl
theorem ag_removeModes (ml) : Agnostic (fun s => removeModes s ml) := fun _ _ => rfl

theorem ag_cursorPosition (l c) : Agnostic (fun s => cursorPosition s l c) := by
  intro s cl
  obtain ⟨_, _, _, _ | ⟨_, _⟩, _, _, _, _, _, _, _, _, _, _, _⟩ := s <;>
    simp only [cursorPosition, ensureVBounds, ensureHBounds, setCursorX, setCursorY, wc] <;>
    (first | rfl | (split <;> first | rfl | (split <;> rfl)))

theorem ag_tab : Agnostic tab := by
  intro s cl
  show tab (wc s cl) = wc (tab s) cl
  unfold tab
  cases h : firstStopFrom s.tabstops (s.cursor.x + 1) (s.columns - (s.cursor.x + 1)) with
  | none =>
    have : firstStopFrom (wc s cl).tabstops ((wc s cl).cursor.x + 1) ((wc s cl).columns - ((wc s cl).cursor.x + 1)) = none := h
    simp only [this]; rfl
  | some c =>
    have : firstStopFrom (wc s cl).tabstops ((wc s cl).cursor.x + 1) ((wc s cl).columns - ((wc s cl).cursor.x + 1)) = some c := h
    simp only [this]; rfl

theorem ag_setMargins (t b) : Agnostic (fun s => setMargins s t b) := by
  intro s cl
  show setMargins (wc s cl) t b = wc (setMargins s t b) cl
  unfold setMargins
  split
  · rfl
  · have hc : ∀ i o, clampMargin (wc s cl) i o = clampMargin s i o := fun _ _ => rfl
    show (if clampMargin (wc s cl) (s.margins.getD (0, s.lines - 1)).1 t + 1 ≤
        clampMargin (wc s cl) (s.margins.getD (0, s.lines - 1)).2 b then _ else _) = _
    simp only [hc]
    split
    · exact ag_cursorPosition none none { s with margins := some (_, _) } cl
    · rfl

theorem ag_sgr (a) : Agnostic (fun s => selectGraphicRendition s a) := by
  intro s cl
  show selectGraphicRendition (wc s cl) a = wc (selectGraphicRendition s a) cl
  unfold selectGraphicRendition
  split <;> rfl

theorem ag_defineCharset (c m) : Agnostic (fun s => defineCharset s c m) := by
  intro s cl
  show defineCharset (wc s cl) c m = wc (defineCharset s c m) cl
  unfold defineCharset
  split
  · split
    · rfl
    · split <;> rfl
  · rfl

theorem ag_homeIf (b) : Agnostic (homeIf b) := by
  intro s cl
  cases b
  · rfl
  · exact ag_cursorPosition none none s cl

theorem ag_hiddenIf (b v) : Agnostic (hiddenIf b v) := by
  intro s cl
  cases b <;> rfl


/-! ### draw -/

theorem lookup_touchRow (y : Nat) (b : Buf) (k : Nat) :
    (lookup k (touchRow y b)).getD [] = (lookup k b).getD [] := by
  unfold touchRow
  cases h : lookup y b with
  | some _ => rfl
  | none =>
    simp only [lookup_insert]
    by_cases e : y = k
    · subst e; simp [h]
    · simp [e]

theorem read_touchRow (ss : SScreen) (y0 y x : Nat) :
    read { ss with buf := touchRow y0 ss.buf } y x = read ss y x := by
  have h := lookup_touchRow y0 ss.buf y
  unfold read
  simp only
  cases h1 : lookup y (touchRow y0 ss.buf) <;> cases h2 : lookup y ss.buf <;> simp_all [lookup]

theorem abs_touchRow (ss : SScreen) (y0 : Nat) : abs { ss with buf := touchRow y0 ss.buf } = abs ss := by
  refine abs_eq rfl (fun y x => ?_)
  exact read_touchRow ss y0 y x

theorem abs_putChar (ss : SScreen) (c w : Nat) : abs (putChar ss c w) = Memterm.putChar (abs ss) c w := by
  have hr : ∀ x', (lookup x' (rowOf ss.buf ss.s.cursor.y)).getD (defaultCell ss.s) = read ss ss.s.cursor.y x' :=
    fun x' => read_rowOf ss _ x'
  by_cases hw : (w == 2 && decide (ss.s.cursor.x + 1 < ss.s.columns)) = true
  · have hd : Memterm.putChar (abs ss) c w =
        setCursorX (setCell (setCell (abs ss) ss.s.cursor.y ss.s.cursor.x { data := [c], attr := ss.s.cursor.attr })
          ss.s.cursor.y (ss.s.cursor.x + 1) { data := [], attr := ss.s.cursor.attr }) (min (ss.s.cursor.x + w) ss.s.columns) := by
      unfold Memterm.putChar
      have : (w == 2 && decide ((setCell (abs ss) (abs ss).cursor.y (abs ss).cursor.x
          { data := [c], attr := (abs ss).cursor.attr }).cursor.x + 1 <
          (setCell (abs ss) (abs ss).cursor.y (abs ss).cursor.x { data := [c], attr := (abs ss).cursor.attr }).columns)) = true := hw
      simp only [this, if_true]
      rfl
    have hs : putChar ss c w =
        { s := setCursorX ss.s (min (ss.s.cursor.x + w) ss.s.columns),
          buf := insert ss.s.cursor.y (insert (ss.s.cursor.x + 1) { data := [], attr := ss.s.cursor.attr }
            (insert ss.s.cursor.x { data := [c], attr := ss.s.cursor.attr } (rowOf ss.buf ss.s.cursor.y))) ss.buf } := by
      unfold putChar; simp only [hw, if_true]
    rw [hd, hs]
    refine abs_eq rfl (fun y x => ?_)
    rw [read_insert_row ss (setCursorX ss.s (min (ss.s.cursor.x + w) ss.s.columns)) _ _ _ _ rfl]
    simp only [setCell, setCursorX, abs, lookup_insert]
    by_cases hy : y = ss.s.cursor.y
    · subst hy
      by_cases h1 : ss.s.cursor.x + 1 = x
      · subst h1; simp
      · by_cases h2 : ss.s.cursor.x = x
        · subst h2; simp
        · have a1 : ¬ x = ss.s.cursor.x + 1 := fun e => h1 e.symm
          have a2 : ¬ x = ss.s.cursor.x := fun e => h2 e.symm
          simp [h1, h2, a1, a2, hr]
    · have : (y == ss.s.cursor.y) = false := by simpa using hy
      simp [hy, this]
  · have hd : Memterm.putChar (abs ss) c w =
        setCursorX (setCell (abs ss) ss.s.cursor.y ss.s.cursor.x { data := [c], attr := ss.s.cursor.attr })
          (min (ss.s.cursor.x + w) ss.s.columns) := by
      unfold Memterm.putChar
      have : ¬ (w == 2 && decide ((setCell (abs ss) (abs ss).cursor.y (abs ss).cursor.x
          { data := [c], attr := (abs ss).cursor.attr }).cursor.x + 1 <
          (setCell (abs ss) (abs ss).cursor.y (abs ss).cursor.x { data := [c], attr := (abs ss).cursor.attr }).columns)) = true := hw
      simp only [this, if_false]
      rfl
    have hs : putChar ss c w =
        { s := setCursorX ss.s (min (ss.s.cursor.x + w) ss.s.columns),
          buf := insert ss.s.cursor.y
            (insert ss.s.cursor.x { data := [c], attr := ss.s.cursor.attr } (rowOf ss.buf ss.s.cursor.y)) ss.buf } := by
      unfold putChar; simp only [hw, if_false, Bool.false_eq_true]
    rw [hd, hs]
    refine abs_eq rfl (fun y x => ?_)
    rw [read_insert_row ss (setCursorX ss.s (min (ss.s.cursor.x + w) ss.s.columns)) _ _ _ _ rfl]
    simp only [setCell, setCursorX, abs, lookup_insert]
    by_cases hy : y = ss.s.cursor.y
    · subst hy
      by_cases h2 : ss.s.cursor.x = x
      · subst h2; simp
      · have a2 : ¬ x = ss.s.cursor.x := fun e => h2 e.symm
        simp [h2, a2, hr]
    · have : (y == ss.s.cursor.y) = false := by simpa using hy
      simp [hy, this]

theorem read_combineAt (env : Env) (ss : SScreen) (s' : Screen) (y0 x0 c : Nat) (b : Buf) (y x : Nat)
    (hm : s'.mode DECSCNM = ss.s.mode DECSCNM)
    (hb : ∀ y x, read { ss with buf := b } y x = read ss y x) :
    read { s := s', buf := combineAt env (defaultCell ss.s) y0 x0 c b } y x =
      if y = y0 ∧ x = x0 then { (read ss y0 x0) with data := env.NFC (read ss y0 x0).data ++ [c] }
      else read ss y x := by
  have h1 := read_insert_row { ss with buf := b } s' y0
    (insert x0 { ((lookup x0 (rowOf b y0)).getD (defaultCell ss.s)) with
      data := env.NFC ((lookup x0 (rowOf b y0)).getD (defaultCell ss.s)).data ++ [c] } (rowOf b y0)) y x hm
  unfold combineAt
  simp only at h1 ⊢
  rw [h1]
  have hr : ∀ x', (lookup x' (rowOf b y0)).getD (defaultCell ss.s) = read ss y0 x' := by
    intro x'
    rw [← hb y0 x']
    exact read_rowOf { ss with buf := b } y0 x'
  by_cases hy : y = y0
  · subst hy
    simp only [if_true, lookup_insert, true_and]
    by_cases hx : x0 = x
    · subst hx; simp [hr]
    · have : ¬ x = x0 := fun e => hx e.symm
      simp [hx, this, hr]
  · simp [hy, hb]

theorem abs_combine (env : Env) (ss : SScreen) (c : Nat) : abs (combine env ss c) = Memterm.combine env (abs ss) c := by
  unfold combine Memterm.combine
  have e3 : (abs ss).cursor = ss.s.cursor := rfl
  have e4 : (abs ss).columns = ss.s.columns := rfl
  simp only [e3, e4]
  have hb : ∀ y x, read { ss with buf := touchRow ss.s.cursor.y ss.buf } y x = read ss y x :=
    fun y x => read_touchRow ss _ y x
  split
  · refine abs_eq rfl (fun y x => ?_)
    rw [read_combineAt env ss ss.s _ _ _ _ _ _ rfl hb]
    simp only [setCell, abs]
    by_cases h : y = ss.s.cursor.y ∧ x = ss.s.cursor.x - 1
    · simp [h.1, h.2]
    · have : (y == ss.s.cursor.y && x == ss.s.cursor.x - 1) = false := by
        simp only [Bool.and_eq_false_iff, beq_eq_false_iff_ne]
        by_cases a : y = ss.s.cursor.y
        · right; exact fun b => h ⟨a, b⟩
        · left; exact a
      simp [h, this]
  · split
    · refine abs_eq rfl (fun y x => ?_)
      rw [read_combineAt env ss (markDirty ss.s (ss.s.cursor.y - 1)) _ _ _ _ _ _ rfl hb]
      simp only [setCell, markDirty, abs]
      by_cases h : y = ss.s.cursor.y - 1 ∧ x = ss.s.columns - 1
      · simp [h.1, h.2]
      · have : (y == ss.s.cursor.y - 1 && x == ss.s.columns - 1) = false := by
          simp only [Bool.and_eq_false_iff, beq_eq_false_iff_ne]
          by_cases a : y = ss.s.cursor.y - 1
          · right; exact fun b => h ⟨a, b⟩
          · left; exact a
        simp [h, this]
    · exact abs_touchRow ss _

theorem abs_wrapStage (ss : SScreen) (w : Nat) (h : Inv (abs ss)) :
    abs (wrapStage ss w) = Memterm.wrapStage (abs ss) w := by
  unfold wrapStage Memterm.wrapStage
  have e3 : (abs ss).cursor = ss.s.cursor := rfl
  have e4 : (abs ss).columns = ss.s.columns := rfl
  have e5 : (abs ss).mode = ss.s.mode := rfl
  simp only [e3, e4, e5]
  split
  · split
    · have hu : abs { ss with s := cariageReturn (markDirty ss.s ss.s.cursor.y) } =
          cariageReturn (markDirty (abs ss) ss.s.cursor.y) := rfl
      rw [abs_linefeed _ (by rw [hu]; exact inv_cariageReturn (inv_markDirty h _ h.cy)), hu]
    · rfl
  · rfl

theorem abs_irmStage (ss : SScreen) (w : Nat) (h : Inv (abs ss)) :
    abs (irmStage ss w) = Memterm.irmStage (abs ss) w := by
  unfold irmStage Memterm.irmStage
  have e5 : (abs ss).mode = ss.s.mode := rfl
  simp only [e5]
  split
  · exact abs_insertCharacters ss _ h.cx
  · rfl

theorem abs_drawChar (env : Env) (ss : SScreen) (c : Nat) (h : Inv (abs ss)) :
    abs (drawChar env ss c) = Memterm.drawChar env (abs ss) c := by
  unfold drawChar Memterm.drawChar
  simp only
  split
  · rename_i hw
    have hw' : env.W c = 1 ∨ env.W c = 2 := by simpa using hw
    have h1 := abs_wrapStage ss (env.W c) h
    have i1 : Inv (abs (wrapStage ss (env.W c))) := by rw [h1]; exact (inv_wrapStage h _ hw').1
    rw [abs_putChar, abs_irmStage _ _ i1, h1]
  · split
    · exact abs_combine env ss c
    · exact abs_touchRow ss _

theorem abs_foldl_drawChar (env : Env) (cs : List Nat) (ss : SScreen) (h : Inv (abs ss)) :
    abs (cs.foldl (drawChar env) ss) = cs.foldl (Memterm.drawChar env) (abs ss) := by
  induction cs generalizing ss with
  | nil => rfl
  | cons c cs ih =>
    simp only [List.foldl_cons]
    rw [ih _ (by rw [abs_drawChar env ss c h]; exact inv_drawChar env h c), abs_drawChar env ss c h]

theorem abs_draw (env : Env) (ss : SScreen) (t : List Nat) (h : Inv (abs ss)) :
    abs (draw env ss t) = Memterm.draw env (abs ss) t := by
  unfold draw Memterm.draw
  have e : translate (abs ss) = translate ss.s := rfl
  simp only [e]
  rw [← abs_foldl_drawChar env _ ss h]
  rfl


/-! ### alignment display -/

theorem alignRow_spec (dflt : Cell) : ∀ f lo row k,
    lookup k (alignRow dflt (upToF lo f) row) =
      if lo ≤ k ∧ k < lo + f then some { ((lookup k row).getD dflt) with data := [69] } else lookup k row := by
  intro f
  induction f with
  | zero =>
    intro lo row k
    have : ¬ (lo ≤ k ∧ k < lo + 0) := by omega
    simp only [upToF, alignRow]
    rw [if_neg this]
  | succ f ih =>
    intro lo row k
    simp only [upToF, alignRow, ih, lookup_insert]
    by_cases h1 : lo + 1 ≤ k ∧ k < lo + 1 + f
    · have h2 : lo ≤ k ∧ k < lo + (f + 1) := by omega
      have h3 : ¬ lo = k := by omega
      simp [h1, h2, h3]
    · by_cases h3 : lo = k
      · subst h3
        have h2 : lo ≤ lo ∧ lo < lo + (f + 1) := by omega
        simp [h1, h2]
      · have h2 : ¬ (lo ≤ k ∧ k < lo + (f + 1)) := by omega
        simp [h1, h2, h3]

theorem alignLoop_spec (dflt : Cell) (cols : Nat) : ∀ f lo b y,
    lookup y (alignLoop dflt cols (upToF lo f) b) =
      if lo ≤ y ∧ y < lo + f then some (alignRow dflt (upTo 0 cols) (rowOf b y)) else lookup y b := by
  intro f
  induction f with
  | zero =>
    intro lo b y
    have : ¬ (lo ≤ y ∧ y < lo + 0) := by omega
    simp only [upToF, alignLoop]
    rw [if_neg this]
  | succ f ih =>
    intro lo b y
    simp only [upToF, alignLoop, ih, lookup_insert, rowOf_insert]
    by_cases h1 : lo + 1 ≤ y ∧ y < lo + 1 + f
    · have h2 : lo ≤ y ∧ y < lo + (f + 1) := by omega
      have h3 : ¬ lo = y := by omega
      simp [h1, h2, h3]
    · by_cases h3 : lo = y
      · subst h3
        have h2 : lo ≤ lo ∧ lo < lo + (f + 1) := by omega
        simp [h1, h2]
      · have h2 : ¬ (lo ≤ y ∧ y < lo + (f + 1)) := by omega
        simp [h1, h2, h3]

theorem abs_alignmentDisplay (ss : SScreen) : abs (alignmentDisplay ss) = Memterm.alignmentDisplay (abs ss) := by
  refine abs_eq rfl (fun y x => ?_)
  show read { s := markAllDirty ss.s, buf := _ } y x =
    if (decide (y < ss.s.lines) && decide (x < ss.s.columns)) = true then { (read ss y x) with data := [69] } else read ss y x
  have hd : defaultCell (markAllDirty ss.s) = defaultCell ss.s := rfl
  unfold read
  simp only [hd, upTo, alignLoop_spec, Nat.sub_zero, Nat.zero_add, Nat.zero_le, true_and]
  by_cases hy : y < ss.s.lines
  · simp only [hy, if_true, alignRow_spec, Nat.zero_le, true_and, Nat.zero_add]
    have hr : (lookup x (rowOf ss.buf y)).getD (defaultCell ss.s) =
        match lookup y ss.buf with | none => defaultCell ss.s | some row => (lookup x row).getD (defaultCell ss.s) :=
      read_rowOf ss y x
    by_cases hx : x < ss.s.columns
    · simp only [hx, if_true, Option.getD_some, decide_true, Bool.and_self]
      rw [hr]
      rfl
    · simp only [hx, if_false, decide_false, Bool.and_false, Bool.false_eq_true]
      exact hr
  · simp [hy]

/-! ### reverse video -/

theorem lookup_map {α β : Type} (g : α → β) (m : List (Nat × α)) (k : Nat) :
    lookup k (m.map fun p => (p.1, g p.2)) = (lookup k m).map g := by
  induction m with
  | nil => rfl
  | cons p r ih =>
    obtain ⟨a, v⟩ := p
    simp only [List.map_cons, lookup]
    split <;> simp [ih]

def flipCell (v : Bool) (c : Cell) : Cell := { c with attr := { c.attr with reverse := v } }

theorem read_flipAll (ss : SScreen) (s' : Screen) (v : Bool) (y x : Nat)
    (hm : s'.mode DECSCNM = v) :
    read { s := s', buf := flipAll v ss.buf } y x = flipCell v (read ss y x) := by
  have e : flipAll v ss.buf = ss.buf.map fun p => (p.1, p.2.map fun q => (q.1, flipCell v q.2)) := rfl
  unfold read
  simp only [e, lookup_map]
  have hd : defaultCell s' = flipCell v (defaultCell ss.s) := by
    simp [defaultCell, defaultAttr, flipCell, hm]
  cases lookup y ss.buf with
  | none => simp [hd]
  | some row =>
    simp only [Option.map_some, lookup_map]
    cases lookup x row <;> simp [hd]

theorem abs_applySetModes (ss : SScreen) (ml : List Nat) :
    abs (applySetModes ss ml) = Memterm.applySetModes (abs ss) ml := by
  unfold applySetModes Memterm.applySetModes
  split
  · rename_i hc
    refine abs_eq rfl (fun y x => ?_)
    rw [read_flipAll ss _ true y x (by
      show (selectGraphicRendition (addModes (markAllDirty ss.s) ml) [7]).mode DECSCNM = true
      have : (selectGraphicRendition (addModes (markAllDirty ss.s) ml) [7]).mode = (addModes (markAllDirty ss.s) ml).mode := by
        unfold selectGraphicRendition; split <;> rfl
      rw [this]
      show (ml.contains DECSCNM || _) = true
      rw [hc]; rfl)]
    have : (selectGraphicRendition (setAllReverse (addModes (markAllDirty (abs ss)) ml) true) [7]).cell =
        (setAllReverse (addModes (markAllDirty (abs ss)) ml) true).cell := by
      unfold selectGraphicRendition; split <;> rfl
    rw [this]
    rfl
  · exact abs_lift _ (ag_addModes ml) (fun s => by
      rename_i hc
      have : ml.contains DECSCNM = false := by simpa using hc
      show (ml.contains DECSCNM || s.mode DECSCNM) = s.mode DECSCNM
      rw [this]; rfl) ss

theorem abs_applyResetModes (ss : SScreen) (ml : List Nat) :
    abs (applyResetModes ss ml) = Memterm.applyResetModes (abs ss) ml := by
  unfold applyResetModes Memterm.applyResetModes
  split
  · rename_i hc
    refine abs_eq rfl (fun y x => ?_)
    rw [read_flipAll ss _ false y x (by
      show (selectGraphicRendition (removeModes (markAllDirty ss.s) ml) [27]).mode DECSCNM = false
      have : (selectGraphicRendition (removeModes (markAllDirty ss.s) ml) [27]).mode = (removeModes (markAllDirty ss.s) ml).mode := by
        unfold selectGraphicRendition; split <;> rfl
      rw [this]
      show (!ml.contains DECSCNM && _) = false
      rw [hc]; rfl)]
    have : (selectGraphicRendition (setAllReverse (removeModes (markAllDirty (abs ss)) ml) false) [27]).cell =
        (setAllReverse (removeModes (markAllDirty (abs ss)) ml) false).cell := by
      unfold selectGraphicRendition; split <;> rfl
    rw [this]
    rfl
  · exact abs_lift _ (ag_removeModes ml) (fun s => by
      rename_i hc
      have : ml.contains DECSCNM = false := by simpa using hc
      show (!ml.contains DECSCNM && s.mode DECSCNM) = s.mode DECSCNM
      rw [this]; rfl) ss


/-! ### resize, reset -/

theorem lookup_filter_key {α : Type} (p : Nat → Bool) (m : List (Nat × α)) (k : Nat) :
    lookup k (m.filter fun q => p q.1) = if p k then lookup k m else none := by
  induction m with
  | nil => simp [lookup]
  | cons q r ih =>
    obtain ⟨a, v⟩ := q
    simp only [List.filter_cons]
    by_cases hp : p a = true
    · simp only [hp, if_true, lookup]
      by_cases e : a = k
      · subst e; simp [hp]
      · have : (a == k) = false := by simpa using e
        simp [this, ih]
    · have hp' : p a = false := by simpa using hp
      simp only [hp', Bool.false_eq_true, if_false, ih, lookup]
      by_cases e : a = k
      · subst e; simp [hp']
      · have : (a == k) = false := by simpa using e
        simp [this]

theorem lookup_cut (c cols : Nat) (row : Row) (k : Nat) :
    lookup k (row.filter fun q => !(decide (c ≤ q.1) && decide (q.1 < cols))) =
      if c ≤ k ∧ k < cols then none else lookup k row := by
  have := lookup_filter_key (fun x => !(decide (c ≤ x) && decide (x < cols))) row k
  rw [this]
  by_cases h : c ≤ k ∧ k < cols
  · simp [h.1, h.2]
  · have : (decide (c ≤ k) && decide (k < cols)) = false := by
      simp only [Bool.and_eq_false_iff, decide_eq_false_iff_not]
      by_cases q : c ≤ k
      · right; exact fun q2 => h ⟨q, q2⟩
      · left; exact q
    simp [h, this]

theorem abs_cutColumns (ss : SScreen) (c : Nat) :
    abs { ss with buf := cutColumns c ss.s.columns ss.buf } = Memterm.cutColumns (abs ss) c := by
  refine abs_eq rfl (fun y x => ?_)
  show _ = if (decide (c ≤ x) && decide (x < ss.s.columns)) = true then defaultCell (abs ss) else read ss y x
  have hdc : defaultCell (abs ss) = defaultCell ss.s := rfl
  have e : cutColumns c ss.s.columns ss.buf =
      ss.buf.map fun p => (p.1, (fun row : Row => row.filter fun q => !(decide (c ≤ q.1) && decide (q.1 < ss.s.columns))) p.2) := rfl
  unfold read
  rw [hdc]
  show (match lookup y (cutColumns c ss.s.columns ss.buf) with
    | none => defaultCell ss.s
    | some row => (lookup x row).getD (defaultCell ss.s)) = _
  rw [e, lookup_map]
  cases lookup y ss.buf with
  | none =>
    show defaultCell ss.s = _
    split <;> rfl
  | some row =>
    show (lookup x (row.filter fun q => !(decide (c ≤ q.1) && decide (q.1 < ss.s.columns)))).getD (defaultCell ss.s) = _
    rw [lookup_cut]
    by_cases h : c ≤ x ∧ x < ss.s.columns
    · simp [h.1, h.2]
    · have : (decide (c ≤ x) && decide (x < ss.s.columns)) = false := by
        simp only [Bool.and_eq_false_iff, decide_eq_false_iff_not]
        by_cases q : c ≤ x
        · right; exact fun q2 => h ⟨q, q2⟩
        · left; exact q
      simp [h, this]

theorem cursorPosition_wc (s : Screen) (c) (l k) : cursorPosition (wc s c) l k = wc (cursorPosition s l k) c :=
  ag_cursorPosition l k s c
theorem homeIf_wc (b : Bool) (s : Screen) (c) : homeIf b (wc s c) = wc (homeIf b s) c := ag_homeIf b s c
theorem hiddenIf_wc (b v : Bool) (s : Screen) (c) : hiddenIf b v (wc s c) = wc (hiddenIf b v s) c := ag_hiddenIf b v s c

theorem setModeNoColm_wc (ml : List Nat) (hn : ml.contains DECSCNM = false) (s : Screen) (c) :
    setModeNoColm (wc s c) ml = wc (setModeNoColm s ml) c := by
  unfold setModeNoColm Memterm.applySetModes
  simp only [hn, Bool.false_eq_true, if_false]
  have : addModes (wc s c) ml = wc (addModes s ml) c := rfl
  rw [this, homeIf_wc, hiddenIf_wc]

theorem resetModeNoColm_wc (ml : List Nat) (hn : ml.contains DECSCNM = false) (s : Screen) (c) :
    resetModeNoColm (wc s c) ml = wc (resetModeNoColm s ml) c := by
  unfold resetModeNoColm Memterm.applyResetModes
  simp only [hn, Bool.false_eq_true, if_false]
  have : removeModes (wc s c) ml = wc (removeModes s ml) c := rfl
  rw [this, homeIf_wc, hiddenIf_wc]

theorem ag_restoreCursor : Agnostic restoreCursor := by
  intro s c
  show restoreCursor (wc s c) = wc (restoreCursor s) c
  unfold restoreCursor
  cases hsp : s.savepoints with
  | nil =>
    simp only
    rw [resetModeNoColm_wc [DECOM] (by decide), cursorPosition_wc]
  | cons sp rest =>
    simp only
    have e0 : ({ wc s c with savepoints := rest, g0 := sp.g0, g1 := sp.g1, g1Active := sp.g1Active } : Screen)
        = wc { s with savepoints := rest, g0 := sp.g0, g1 := sp.g1, g1Active := sp.g1Active } c := rfl
    rw [e0]
    have n1 : ([DECOM].contains DECSCNM) = false := by decide
    have n2 : ([DECAWM].contains DECSCNM) = false := by decide
    have d1 := setModeNoColm_wc [DECOM] n1
    have d2 := setModeNoColm_wc [DECAWM] n2
    cases sp.origin <;> cases sp.wrap
    · rfl
    · simp only [Bool.false_eq_true, if_false, if_true]; rw [d2]; rfl
    · simp only [Bool.false_eq_true, if_false, if_true]; rw [d1]; rfl
    · simp only [if_true]; rw [d1, d2]; rfl

theorem mode_cursorPosition (s : Screen) (l c) : (cursorPosition s l c).mode = s.mode := by
  unfold cursorPosition
  simp only [ensureVBounds, ensureHBounds, setCursorX, setCursorY]
  split
  · split
    · split <;> rfl
    · rfl
  · rfl

theorem mode_sgr (s : Screen) (a) : (selectGraphicRendition s a).mode = s.mode := by
  unfold selectGraphicRendition; split <;> rfl

theorem mode_homeIf (b : Bool) (s : Screen) : (homeIf b s).mode = s.mode := by
  cases b
  · rfl
  · exact mode_cursorPosition s none none

theorem mode_hiddenIf (b v : Bool) (s : Screen) : (hiddenIf b v s).mode = s.mode := by
  cases b <;> rfl

theorem mode_setModeNoColm (t : Screen) (ml : List Nat) (m : Nat) (hn : ml.contains m = false) :
    (setModeNoColm t ml).mode m = t.mode m := by
  unfold setModeNoColm Memterm.applySetModes
  rw [mode_hiddenIf, mode_homeIf]
  split
  · rw [mode_sgr]
    show (ml.contains m || t.mode m) = t.mode m
    rw [hn]; rfl
  · show (ml.contains m || t.mode m) = t.mode m
    rw [hn]; rfl

theorem mode_resetModeNoColm (t : Screen) (ml : List Nat) (m : Nat) (hn : ml.contains m = false) :
    (resetModeNoColm t ml).mode m = t.mode m := by
  unfold resetModeNoColm Memterm.applyResetModes
  rw [mode_hiddenIf, mode_homeIf]
  split
  · rw [mode_sgr]
    show (!ml.contains m && t.mode m) = t.mode m
    rw [hn]; rfl
  · show (!ml.contains m && t.mode m) = t.mode m
    rw [hn]; rfl

theorem mode_restoreCursor (s : Screen) : (restoreCursor s).mode DECSCNM = s.mode DECSCNM := by
  unfold restoreCursor
  cases s.savepoints with
  | nil =>
    simp only
    rw [mode_cursorPosition, mode_resetModeNoColm _ _ _ (by decide)]
  | cons sp rest =>
    simp only [ensureVBounds, ensureHBounds, setCursorX, setCursorY]
    cases sp.origin <;> cases sp.wrap <;>
      simp only [Bool.false_eq_true, if_false, if_true] <;>
      (try rw [mode_setModeNoColm _ _ _ (by decide)]) <;> (try rw [mode_setModeNoColm _ _ _ (by decide)])

theorem abs_dropRowsFromTop (ss : SScreen) (l : Nat) :
    abs (dropRowsFromTop ss l) = Memterm.dropRowsFromTop (abs ss) l := by
  unfold dropRowsFromTop Memterm.dropRowsFromTop
  rw [abs_lift restoreCursor ag_restoreCursor mode_restoreCursor]
  have h1 : abs (lift (fun s => cursorPosition (saveCursor s) (some 0) (some 0)) ss) =
      cursorPosition (saveCursor (abs ss)) (some 0) (some 0) :=
    abs_lift _ (ag_comp ag_saveCursor (ag_cursorPosition _ _)) (fun s => by rw [mode_cursorPosition]; rfl) ss
  rw [abs_deleteLines, h1]
  rfl


theorem mode_setMargins (s : Screen) (t b) : (setMargins s t b).mode = s.mode := by
  unfold setMargins
  split
  · rfl
  · simp only
    split
    · rw [mode_cursorPosition]
    · rfl

def srz1 (ss : SScreen) : SScreen := lift (fun s => { s with margins := none }) ss
def srz2 (L : Nat) (ss1 : SScreen) : SScreen := if L < ss1.s.lines then dropRowsFromTop ss1 L else ss1
def srz3 (C : Nat) (ss2 : SScreen) : SScreen :=
  if C < ss2.s.columns then { ss2 with buf := cutColumns C ss2.s.columns ss2.buf } else ss2
def srz4 (L C : Nat) (ss3 : SScreen) : SScreen :=
  lift (fun s3 => ensureVBounds (ensureHBounds (setMargins { s3 with lines := L, columns := C, dirty := fun d => d < L } none none)) false) ss3

theorem sresize_eq_body (ss : SScreen) (l c : Option Nat) :
    resize ss l c = if l.getD ss.s.lines == ss.s.lines && c.getD ss.s.columns == ss.s.columns then ss
      else srz4 (l.getD ss.s.lines) (c.getD ss.s.columns) (srz3 (c.getD ss.s.columns) (srz2 (l.getD ss.s.lines) (srz1 ss))) := rfl

theorem abs_srz1 (ss : SScreen) : abs (srz1 ss) = rz1 (abs ss) := rfl

theorem abs_srz2 (L : Nat) (ss : SScreen) : abs (srz2 L ss) = rz2 L (abs ss) := by
  unfold srz2 rz2
  show abs (if L < ss.s.lines then _ else _) = if L < ss.s.lines then _ else _
  split
  · exact abs_dropRowsFromTop ss L
  · rfl

theorem abs_srz3 (C : Nat) (ss : SScreen) : abs (srz3 C ss) = rz3 C (abs ss) := by
  unfold srz3 rz3
  show abs (if C < ss.s.columns then _ else _) = if C < ss.s.columns then _ else _
  split
  · exact abs_cutColumns ss C
  · rfl

theorem abs_srz4 (L C : Nat) (ss : SScreen) :
    abs (srz4 L C ss) = ensureVBounds (ensureHBounds (setMargins (rz4 L C (abs ss)) none none)) false := by
  unfold srz4
  exact abs_lift
    (fun s3 => ensureVBounds (ensureHBounds (setMargins
      { s3 with lines := L, columns := C, dirty := fun d => d < L } none none)) false)
    (fun s cl => by
      show ensureVBounds (ensureHBounds (setMargins
        (wc { s with lines := L, columns := C, dirty := fun d => d < L } cl) none none)) false = _
      have hm : setMargins (wc { s with lines := L, columns := C, dirty := fun d => d < L } cl) none none =
          wc (setMargins { s with lines := L, columns := C, dirty := fun d => d < L } none none) cl :=
        ag_setMargins none none _ cl
      rw [hm]
      rfl)
    (fun s => by
      show (ensureVBounds (ensureHBounds (setMargins _ none none)) false).mode DECSCNM = s.mode DECSCNM
      have : (ensureVBounds (ensureHBounds (setMargins
        { s with lines := L, columns := C, dirty := fun d => d < L } none none)) false).mode =
        (setMargins { s with lines := L, columns := C, dirty := fun d => d < L } none none).mode := rfl
      rw [this, mode_setMargins])
    ss

theorem abs_resize (ss : SScreen) (l c : Option Nat) : abs (resize ss l c) = Memterm.resize (abs ss) l c := by
  rw [sresize_eq_body, resize_eq_body]
  show abs (if l.getD ss.s.lines == ss.s.lines && c.getD ss.s.columns == ss.s.columns then _ else _) =
    if l.getD ss.s.lines == ss.s.lines && c.getD ss.s.columns == ss.s.columns then _ else _
  split
  · rfl
  · rw [abs_srz4, abs_srz3, abs_srz2, abs_srz1]
    rfl

theorem abs_reset (ss : SScreen) : abs (reset ss) = Memterm.reset (abs ss) := by
  have e : Memterm.reset (abs ss) = Memterm.reset ss.s := by
    unfold Memterm.reset
    rfl
  rw [e]
  refine abs_eq rfl (fun y x => ?_)
  show read { s := Memterm.reset ss.s, buf := [] } y x = (Memterm.reset ss.s).cell y x
  have h1 : read { s := Memterm.reset ss.s, buf := [] } y x = defaultCell (Memterm.reset ss.s) := rfl
  rw [h1]
  unfold Memterm.reset
  simp only [mode_cursorPosition, defaultCell, defaultAttr]
  have : ∀ (s2 : Screen) l k, (cursorPosition s2 l k).cell = s2.cell := by
    intro s2 l k
    unfold cursorPosition
    simp only [ensureVBounds, ensureHBounds, setCursorX, setCursorY]
    split
    · split
      · split <;> rfl
      · rfl
    · rfl
  rw [this]


/-! ### DECCOLM, SM / RM -/

theorem abs_home (ss : SScreen) : abs (lift (fun s => cursorPosition s none none) ss) = cursorPosition (abs ss) none none :=
  abs_lift _ (ag_cursorPosition none none) (fun s => by rw [mode_cursorPosition]) ss

theorem abs_colmSet (ss : SScreen) : abs (colmSet ss) = Memterm.colmSet (abs ss) := by
  unfold colmSet Memterm.colmSet
  rw [abs_home, abs_eraseInDisplay, abs_resize]
  rfl

theorem abs_colmRestore (ss : SScreen) : abs (colmRestore ss) = Memterm.colmRestore (abs ss) := by
  unfold colmRestore Memterm.colmRestore
  show abs (if ss.s.columns == 132 then _ else _) = if ss.s.columns == 132 then _ else _
  split
  · show abs (match ss.s.savedColumns with | some sc => _ | none => _) =
      match ss.s.savedColumns with | some sc => _ | none => _
    cases ss.s.savedColumns with
    | none => rfl
    | some sc =>
      show abs (lift (fun s => { s with savedColumns := none }) (resize ss none (some sc))) = _
      have : abs (lift (fun s => { s with savedColumns := none }) (resize ss none (some sc))) =
          { abs (resize ss none (some sc)) with savedColumns := none } := rfl
      rw [this, abs_resize]
  · rfl

theorem abs_colmReset (ss : SScreen) : abs (colmReset ss) = Memterm.colmReset (abs ss) := by
  unfold colmReset Memterm.colmReset
  rw [abs_home, abs_eraseInDisplay, abs_colmRestore]

theorem abs_tail (b1 b2 v : Bool) (ss : SScreen) :
    abs (lift (fun s => hiddenIf b1 v (homeIf b2 s)) ss) = hiddenIf b1 v (homeIf b2 (abs ss)) :=
  abs_lift _ (ag_comp (ag_homeIf b2) (ag_hiddenIf b1 v)) (fun s => by rw [mode_hiddenIf, mode_homeIf]) ss

theorem abs_setMode (ss : SScreen) (ms : List Nat) (p : Bool) :
    abs (setMode ss ms p) = Memterm.setMode (abs ss) ms p := by
  unfold setMode Memterm.setMode
  simp only
  rw [abs_tail]
  split
  · rw [abs_colmSet, abs_applySetModes]
  · rw [abs_applySetModes]

theorem abs_resetMode (ss : SScreen) (ms : List Nat) (p : Bool) :
    abs (resetMode ss ms p) = Memterm.resetMode (abs ss) ms p := by
  unfold resetMode Memterm.resetMode
  simp only
  rw [abs_tail]
  split
  · rw [abs_colmReset, abs_applyResetModes]
  · rw [abs_applyResetModes]

/-! ### display: the rendering is the dense one, the materialisation is unobservable -/

theorem getD_orInsert (x : Nat) (dflt : Cell) (row : Row) (k : Nat) :
    (lookup k (orInsert x dflt row)).getD dflt = (lookup k row).getD dflt := by
  unfold orInsert
  cases hl : lookup x row with
  | some _ => rfl
  | none =>
    simp only [lookup_insert]
    by_cases e : x = k
    · subst e; simp [hl]
    · simp [e]

theorem renderRow_spec (env : Env) (dflt : Cell) (cols : Nat) :
    ∀ fuel x skip row,
      (∀ k, (lookup k (renderRow env dflt cols fuel x skip row).1).getD dflt = (lookup k row).getD dflt) ∧
      (∀ (s : Screen) (y : Nat), s.columns = cols → (∀ k, s.cell y k = (lookup k row).getD dflt) →
        (renderRow env dflt cols fuel x skip row).2 = Memterm.renderRow env s y fuel x skip) := by
  intro fuel
  induction fuel with
  | zero => intro x skip row; exact ⟨fun _ => rfl, fun _ _ _ _ => rfl⟩
  | succ f ih =>
    intro x skip row
    by_cases hx : x < cols
    · cases skip with
      | true =>
        have e : renderRow env dflt cols (f + 1) x true row = renderRow env dflt cols f (x + 1) false row := by
          simp [renderRow, hx]
        rw [e]
        refine ⟨(ih (x + 1) false row).1, fun s y hc hcell => ?_⟩
        have e2 : Memterm.renderRow env s y (f + 1) x true = Memterm.renderRow env s y f (x + 1) false := by
          simp [Memterm.renderRow, hc, hx]
        rw [e2]
        exact (ih (x + 1) false row).2 s y hc hcell
      | false =>
        have e : renderRow env dflt cols (f + 1) x false row =
            ((renderRow env dflt cols f (x + 1) (wideText env.W ((lookup x row).getD dflt).data) (orInsert x dflt row)).1,
             ((lookup x row).getD dflt).data ++
               (renderRow env dflt cols f (x + 1) (wideText env.W ((lookup x row).getD dflt).data) (orInsert x dflt row)).2) := by
          simp [renderRow, hx]
        rw [e]
        have ih' := ih (x + 1) (wideText env.W ((lookup x row).getD dflt).data) (orInsert x dflt row)
        refine ⟨fun k => ?_, fun s y hc hcell => ?_⟩
        · show (lookup k (renderRow env dflt cols f (x + 1) _ (orInsert x dflt row)).1).getD dflt = _
          rw [ih'.1 k, getD_orInsert]
        · have e2 : Memterm.renderRow env s y (f + 1) x false =
              (s.cell y x).data ++ Memterm.renderRow env s y f (x + 1) (wideText env.W (s.cell y x).data) := by
            simp [Memterm.renderRow, hc, hx]
          rw [e2, hcell x]
          show _ ++ _ = _ ++ _
          congr 1
          exact ih'.2 s y hc (fun k => by rw [hcell k, getD_orInsert])
    · have e : renderRow env dflt cols (f + 1) x skip row = (row, []) := by simp [renderRow, hx]
      rw [e]
      refine ⟨fun _ => rfl, fun s y hc _ => ?_⟩
      simp [Memterm.renderRow, hc, hx]



theorem upToF_eq_range (lo f : Nat) : upToF lo f = (List.range f).map (· + lo) := by
  induction f generalizing lo with
  | zero => rfl
  | succ f ih =>
    rw [upToF, ih, List.range_succ_eq_map]
    simp only [List.map_cons, List.map_map, Nat.zero_add]
    congr 1
    apply List.map_congr_left
    intro a _
    simp only [Function.comp]
    omega

theorem displayLoop_spec (env : Env) (dflt : Cell) (cols : Nat) (s : Screen) (hc : s.columns = cols) :
    ∀ f lo b, (∀ y k, s.cell y k = (lookup k (rowOf b y)).getD dflt) →
      (∀ y k, (lookup k (rowOf (displayLoop env dflt cols (upToF lo f) b).1 y)).getD dflt = (lookup k (rowOf b y)).getD dflt) ∧
      (displayLoop env dflt cols (upToF lo f) b).2 = (upToF lo f).map (fun y => Memterm.renderRow env s y cols 0 false) := by
  intro f
  induction f with
  | zero => intro lo b _; exact ⟨fun _ _ => rfl, rfl⟩
  | succ f ih =>
    intro lo b hcell
    simp only [upToF, displayLoop, List.map_cons]
    have hr := renderRow_spec env dflt cols cols 0 false (rowOf b lo)
    have hb1 : ∀ y k, (lookup k (rowOf (insert lo (renderRow env dflt cols cols 0 false (rowOf b lo)).1 b) y)).getD dflt =
        (lookup k (rowOf b y)).getD dflt := by
      intro y k
      rw [rowOf_insert]
      by_cases e : lo = y
      · subst e; simp [hr.1 k]
      · simp [e]
    have ih' := ih (lo + 1) (insert lo (renderRow env dflt cols cols 0 false (rowOf b lo)).1 b)
      (fun y k => by rw [hcell y k, hb1 y k])
    refine ⟨fun y k => by rw [ih'.1 y k, hb1 y k], ?_⟩
    rw [ih'.2, hr.2 s lo hc (fun k => hcell lo k)]

/-- DISPLAY PURITY: `display()` materialises rows and cells in the buffer, but no observation
    changes - the dense state before and after is the same ... -/
theorem abs_display (env : Env) (ss : SScreen) : abs (display env ss).1 = abs ss := by
  refine abs_eq rfl (fun y x => ?_)
  have h := (displayLoop_spec env (defaultCell ss.s) ss.s.columns (abs ss) rfl ss.s.lines 0 ss.buf
    (fun y k => (read_rowOf ss y k).symm)).1 y x
  show read { ss with buf := (displayLoop env (defaultCell ss.s) ss.s.columns (upTo 0 ss.s.lines) ss.buf).1 } y x = read ss y x
  rw [← read_rowOf ss y x, ← h]
  exact (read_rowOf { ss with buf := (displayLoop env (defaultCell ss.s) ss.s.columns (upTo 0 ss.s.lines) ss.buf).1 } y x).symm

/-- ... and what it returns is the dense rendering of the observation -/
theorem display_eq (env : Env) (ss : SScreen) : (display env ss).2 = Memterm.display env (abs ss) := by
  have h := (displayLoop_spec env (defaultCell ss.s) ss.s.columns (abs ss) rfl ss.s.lines 0 ss.buf
    (fun y k => (read_rowOf ss y k).symm)).2
  show (displayLoop env (defaultCell ss.s) ss.s.columns (upTo 0 ss.s.lines) ss.buf).2 = _
  unfold upTo
  rw [Nat.sub_zero, h, upToF_eq_range]
  unfold Memterm.display
  simp only [List.map_map]
  apply List.map_congr_left
  intro a _
  simp [Function.comp]
  rfl

/-! ### THE REFINEMENT THEOREM -/

theorem mode_defineCharset (s : Screen) (c m) : (defineCharset s c m).mode = s.mode := by
  unfold defineCharset
  split
  · split
    · rfl
    · split <;> rfl
  · rfl

theorem mode_tab (s : Screen) : (tab s).mode = s.mode := by
  unfold tab; split <;> rfl

/-- REFINEMENT.  For every operation, from every sparse state whose observation is well-formed:
    observing the result of the sparse operation (the model of what `src/screen.rs` does to its
    `HashMap` buffer) is the same as applying the dense operation to the observation. -/
theorem abs_step (env : Env) (ss : SScreen) (c : Call) (h : Inv (abs ss)) :
    abs (step env ss c) = Memterm.step env (abs ss) c := by
  cases c with
  | alignmentDisplay => exact abs_alignmentDisplay ss
  | reset => exact abs_reset ss
  | index => exact abs_index ss h
  | linefeed => exact abs_linefeed ss h
  | reverseIndex => exact abs_reverseIndex ss h
  | draw t => exact abs_draw env ss t h
  | insertCharacters n => exact abs_insertCharacters ss n h.cx
  | eraseInDisplay k => exact abs_eraseInDisplay ss k
  | eraseInLine k => exact abs_eraseInLine ss k
  | insertLines n => exact abs_insertLines ss n
  | deleteLines n => exact abs_deleteLines ss n
  | deleteCharacters n => exact abs_deleteCharacters ss n h.cx
  | eraseCharacters n => exact abs_eraseCharacters ss n
  | setMode ms p => exact abs_setMode ss ms p
  | resetMode ms p => exact abs_resetMode ss ms p
  | resize l k => exact abs_resize ss l k
  | display => exact abs_display env ss
  | defineCharset a b =>
    exact abs_lift (fun s => Memterm.step env s (.defineCharset a b)) (ag_defineCharset a b)
      (fun s => by show (defineCharset s a b).mode DECSCNM = _; rw [mode_defineCharset]) ss
  | restoreCursor =>
    exact abs_lift (fun s => Memterm.step env s .restoreCursor) ag_restoreCursor mode_restoreCursor ss
  | tab =>
    exact abs_lift (fun s => Memterm.step env s .tab) ag_tab (fun s => by show (tab s).mode DECSCNM = _; rw [mode_tab]) ss
  | cursorPosition l k =>
    exact abs_lift (fun s => Memterm.step env s (.cursorPosition l k)) (ag_cursorPosition l k)
      (fun s => by show (cursorPosition s l k).mode DECSCNM = _; rw [mode_cursorPosition]) ss
  | sgr a =>
    exact abs_lift (fun s => Memterm.step env s (.sgr a)) (ag_sgr a)
      (fun s => by show (selectGraphicRendition s a).mode DECSCNM = _; rw [mode_sgr]) ss
  | setMargins t b =>
    exact abs_lift (fun s => Memterm.step env s (.setMargins t b)) (ag_setMargins t b)
      (fun s => by show (setMargins s t b).mode DECSCNM = _; rw [mode_setMargins]) ss
  | setTabStop => exact abs_lift (fun s => Memterm.step env s .setTabStop) (fun _ _ => rfl) (fun _ => rfl) ss
  | saveCursor => exact abs_lift (fun s => Memterm.step env s .saveCursor) (fun _ _ => rfl) (fun _ => rfl) ss
  | shiftOut => exact abs_lift (fun s => Memterm.step env s .shiftOut) (fun _ _ => rfl) (fun _ => rfl) ss
  | shiftIn => exact abs_lift (fun s => Memterm.step env s .shiftIn) (fun _ _ => rfl) (fun _ => rfl) ss
  | bell => exact abs_lift (fun s => Memterm.step env s .bell) (fun _ _ => rfl) (fun _ => rfl) ss
  | backspace => exact abs_lift (fun s => Memterm.step env s .backspace) (fun _ _ => rfl) (fun _ => rfl) ss
  | cariageReturn => exact abs_lift (fun s => Memterm.step env s .cariageReturn) (fun _ _ => rfl) (fun _ => rfl) ss
  | cursorUp n => exact abs_lift (fun s => Memterm.step env s (.cursorUp n)) (fun _ _ => rfl) (fun _ => rfl) ss
  | cursorDown n => exact abs_lift (fun s => Memterm.step env s (.cursorDown n)) (fun _ _ => rfl) (fun _ => rfl) ss
  | cursorForward n => exact abs_lift (fun s => Memterm.step env s (.cursorForward n)) (fun _ _ => rfl) (fun _ => rfl) ss
  | cursorBack n => exact abs_lift (fun s => Memterm.step env s (.cursorBack n)) (fun _ _ => rfl) (fun _ => rfl) ss
  | cursorDown1 n => exact abs_lift (fun s => Memterm.step env s (.cursorDown1 n)) (fun _ _ => rfl) (fun _ => rfl) ss
  | cursorUp1 n => exact abs_lift (fun s => Memterm.step env s (.cursorUp1 n)) (fun _ _ => rfl) (fun _ => rfl) ss
  | cursorToColumn n => exact abs_lift (fun s => Memterm.step env s (.cursorToColumn n)) (fun _ _ => rfl) (fun _ => rfl) ss
  | reportDeviceAttributes n =>
    exact abs_lift (fun s => Memterm.step env s (.reportDeviceAttributes n)) (fun _ _ => rfl) (fun _ => rfl) ss
  | cursorToLine n => exact abs_lift (fun s => Memterm.step env s (.cursorToLine n)) (fun _ _ => rfl) (fun _ => rfl) ss
  | clearTabStop k => exact abs_lift (fun s => Memterm.step env s (.clearTabStop k)) (fun _ _ => rfl) (fun _ => rfl) ss
  | setTitle t => exact abs_lift (fun s => Memterm.step env s (.setTitle t)) (fun _ _ => rfl) (fun _ => rfl) ss
  | setIconName t => exact abs_lift (fun s => Memterm.step env s (.setIconName t)) (fun _ _ => rfl) (fun _ => rfl) ss
  | clearDirty => exact abs_lift (fun s => Memterm.step env s .clearDirty) (fun _ _ => rfl) (fun _ => rfl) ss

theorem cell_cursorPosition (s2 : Screen) (l k) : (cursorPosition s2 l k).cell = s2.cell := by
  unfold cursorPosition
  simp only [ensureVBounds, ensureHBounds, setCursorX, setCursorY]
  split
  · split
    · split <;> rfl
    · rfl
  · rfl

theorem reset_cell (s : Screen) (y x : Nat) : (Memterm.reset s).cell y x = defaultCell (Memterm.reset s) := by
  unfold Memterm.reset
  simp only [cell_cursorPosition, mode_cursorPosition, defaultCell, defaultAttr]

/-- a new sparse screen observes as a new dense screen -/
theorem abs_init (columns lines : Nat) : abs (init columns lines) = Memterm.init columns lines := by
  refine abs_eq rfl (fun y x => ?_)
  show defaultCell (Memterm.init columns lines) = (Memterm.init columns lines).cell y x
  unfold Memterm.init
  rw [reset_cell]

/-- every history: the sparse run observes as the dense run -/
theorem abs_run (env : Env) (cs : List Call) (ss : SScreen) (h : Inv (abs ss))
    (ha : ∀ c ∈ cs, c.argOk = true) :
    abs (cs.foldl (step env) ss) = run env (abs ss) cs := by
  induction cs generalizing ss with
  | nil => rfl
  | cons c cs ih =>
    simp only [List.foldl_cons, run]
    have hs := abs_step env ss c h
    have hi : Inv (abs (step env ss c)) := by
      rw [hs]; exact inv_step env h c (ha c (List.mem_cons_self ..))
    rw [ih _ hi (fun c' hc' => ha c' (List.mem_cons_of_mem _ hc')), hs]
    rfl


end Sparse
end Memterm
