import Memterm.Utf8

/-
  A declarative specification of "conforming streaming UTF-8 decoding with U+FFFD per
  maximal subpart" (Unicode 3.9, D93b and Table 3-7; WHATWG Encoding), written without
  reference to the decoder state machine, and the proof that the state machine of
  `Memterm/Utf8.lean` (the model of what `ByteParser::feed` hands to the recogniser)
  computes exactly it, for every byte string, from every reachable decoder state.
-/
namespace Memterm
namespace Utf8Spec

def inR (lo hi b : Nat) : Bool := lo ≤ b && b ≤ hi

/-- continuation byte -/
def cont (b : Nat) : Bool := inR 0x80 0xBF b

/-- allowed range of the SECOND byte after lead `b0` (Table 3-7) -/
def second (b0 b1 : Nat) : Bool :=
  if b0 == 0xE0 then inR 0xA0 0xBF b1
  else if b0 == 0xED then inR 0x80 0x9F b1
  else if b0 == 0xF0 then inR 0x90 0xBF b1
  else if b0 == 0xF4 then inR 0x80 0x8F b1
  else cont b1

/-- Table 3-7: the well-formed UTF-8 byte sequences and the scalar value each denotes -/
def wfSeq : List Nat → Option Nat
  | [b0] => if b0 ≤ 0x7F then some b0 else none
  | [b0, b1] =>
    if inR 0xC2 0xDF b0 && cont b1 then some ((b0 - 0xC0) * 64 + (b1 - 0x80)) else none
  | [b0, b1, b2] =>
    if inR 0xE0 0xEF b0 && second b0 b1 && cont b2 then
      some (((b0 - 0xE0) * 64 + (b1 - 0x80)) * 64 + (b2 - 0x80)) else none
  | [b0, b1, b2, b3] =>
    if inR 0xF0 0xF4 b0 && second b0 b1 && cont b2 && cont b3 then
      some ((((b0 - 0xF0) * 64 + (b1 - 0x80)) * 64 + (b2 - 0x80)) * 64 + (b3 - 0x80)) else none
  | _ => none

/-- non-empty proper prefixes of well-formed sequences: what a streaming decoder must hold -/
def properPrefix : List Nat → Bool
  | [b0] => inR 0xC2 0xF4 b0
  | [b0, b1] => inR 0xE0 0xF4 b0 && second b0 b1
  | [b0, b1, b2] => inR 0xF0 0xF4 b0 && second b0 b1 && cont b2
  | _ => false

/-- `q ++ [b]` is still (a prefix of) a well-formed sequence -/
def extendsBy (q : List Nat) (b : Nat) : Bool := properPrefix (q ++ [b]) || (wfSeq (q ++ [b])).isSome

/-- a byte that cannot start a well-formed sequence -/
def cannotStart (b : Nat) : Bool := !(b ≤ 0x7F) && !properPrefix [b]

/-- `Decodes bytes out pending`: the conforming decoding of `bytes`.
    * each well-formed sequence yields its scalar value once (`char`);
    * a byte that cannot start a sequence is a maximal subpart of length one (`stray`) and a
      proper prefix `q` followed by a byte that does not extend it is a maximal subpart (`trunc`):
      each yields one U+FFFD, and decoding resumes AT the offending byte - nothing is dropped;
    * an incomplete trailing sequence is held, producing nothing (`held`). -/
inductive Decodes : List Nat → List Nat → List Nat → Prop
  | done : Decodes [] [] []
  | held (p : List Nat) : properPrefix p = true → Decodes p [] p
  | char (seq : List Nat) (cp : Nat) (rest out p : List Nat) :
      wfSeq seq = some cp → Decodes rest out p → Decodes (seq ++ rest) (cp :: out) p
  | stray (b : Nat) (rest out p : List Nat) :
      cannotStart b = true → Decodes rest out p → Decodes (b :: rest) (0xFFFD :: out) p
  | trunc (q : List Nat) (b : Nat) (rest out p : List Nat) :
      properPrefix q = true → extendsBy q b = false → Decodes (b :: rest) out p →
      Decodes (q ++ b :: rest) (0xFFFD :: out) p

/-- the decoder state that holds the pending bytes `p` -/
def stateOf : List Nat → DState
  | [b0] =>
    if b0 ≤ 0xDF then { needed := 1, cp := b0 - 0xC0, lo := 0x80, hi := 0xBF }
    else if b0 ≤ 0xEF then
      { needed := 2, cp := b0 - 0xE0, lo := if b0 == 0xE0 then 0xA0 else 0x80, hi := if b0 == 0xED then 0x9F else 0xBF }
    else
      { needed := 3, cp := b0 - 0xF0, lo := if b0 == 0xF0 then 0x90 else 0x80, hi := if b0 == 0xF4 then 0x8F else 0xBF }
  | [b0, b1] =>
    if b0 ≤ 0xEF then { needed := 1, cp := (b0 - 0xE0) * 64 + (b1 - 0x80), lo := 0x80, hi := 0xBF }
    else { needed := 2, cp := (b0 - 0xF0) * 64 + (b1 - 0x80), lo := 0x80, hi := 0xBF }
  | [b0, b1, b2] =>
    { needed := 1, cp := ((b0 - 0xF0) * 64 + (b1 - 0x80)) * 64 + (b2 - 0x80), lo := 0x80, hi := 0xBF }
  | _ => DState.init

/-- `d` is the decoder state after the pending bytes `p` (none, or a proper prefix) -/
def Holds (p : List Nat) (d : DState) : Prop :=
  (p = [] ∧ d = DState.init) ∨ (properPrefix p = true ∧ d = stateOf p)

end Utf8Spec
end Memterm

namespace Memterm
namespace Utf8Spec

theorem cont_in (d : DState) (b : Nat) (hn : d.needed ≠ 0) (hr : d.lo ≤ b ∧ b ≤ d.hi) :
    utf8Step d b = if d.needed == 1 then (DState.init, [d.cp * 64 + (b - 0x80)])
      else ({ needed := d.needed - 1, cp := d.cp * 64 + (b - 0x80), lo := 0x80, hi := 0xBF }, []) := by
  have n0 : (d.needed == 0) = false := by simpa using hn
  simp [utf8Step, n0, hr.1, hr.2]

theorem cont_out (d : DState) (b : Nat) (hn : d.needed ≠ 0) (hr : ¬ (d.lo ≤ b ∧ b ≤ d.hi)) :
    utf8Step d b = ((utf8Step DState.init b).1, 0xFFFD :: (utf8Step DState.init b).2) := by
  have n0 : (d.needed == 0) = false := by simpa using hn
  have n2 : (decide (d.lo ≤ b) && decide (b ≤ d.hi)) = false := by
    simp only [Bool.and_eq_false_iff, decide_eq_false_iff_not]
    by_cases q : d.lo ≤ b
    · right; exact fun q2 => hr ⟨q, q2⟩
    · left; exact q
  simp only [utf8Step, n0, n2, Bool.false_eq_true, if_false, DState.init, beq_self_eq_true, if_true]

/-- a byte arriving with nothing pending -/
theorem start_sound (b : Nat) :
    ∃ p1, Holds p1 (utf8Step DState.init b).1 ∧
      ∀ rest out' p', Decodes (p1 ++ rest) out' p' →
        Decodes (b :: rest) ((utf8Step DState.init b).2 ++ out') p' := by
  by_cases h1 : b ≤ 0x7F
  · refine ⟨[], Or.inl ⟨rfl, ?_⟩, ?_⟩
    · simp [utf8Step, DState.init, h1]
    · intro rest out' p' hd
      have : (utf8Step DState.init b).2 = [b] := by simp [utf8Step, DState.init, h1]
      rw [this]
      exact Decodes.char [b] b rest out' p' (by simp [wfSeq, h1]) hd
  · by_cases h2 : 0xC2 ≤ b ∧ b ≤ 0xF4
    · refine ⟨[b], Or.inr ⟨by simp [properPrefix, inR, h2.1, h2.2], ?_⟩, ?_⟩
      · unfold utf8Step stateOf
        simp only [DState.init, beq_self_eq_true, if_true, h1, if_false]
        by_cases c1 : b ≤ 0xDF
        · have : 0xC2 ≤ b := h2.1
          simp [c1, this]
        · by_cases c2 : b ≤ 0xEF
          · have a : 0xE0 ≤ b := by omega
            simp [c1, c2, a]
          · have a : 0xF0 ≤ b := by omega
            have a' : ¬ (0xE0 ≤ b ∧ b ≤ 0xEF) := by omega
            simp [c1, c2, a, h2.2]
      · intro rest out' p' hd
        have : (utf8Step DState.init b).2 = [] := by
          unfold utf8Step
          simp only [DState.init, beq_self_eq_true, if_true, h1, if_false]
          by_cases c1 : b ≤ 0xDF
          · simp [c1, h2.1]
          · by_cases c2 : b ≤ 0xEF
            · have a : 0xE0 ≤ b := by omega
              simp [c1, c2, a]
            · have a : 0xF0 ≤ b := by omega
              simp [c1, c2, a, h2.2]
        rw [this]
        exact hd
    · refine ⟨[], Or.inl ⟨rfl, ?_⟩, ?_⟩
      · have a2 : (decide (0xC2 ≤ b) && decide (b ≤ 0xDF)) = false := by
          simp only [Bool.and_eq_false_iff, decide_eq_false_iff_not]; omega
        have a3 : (decide (0xE0 ≤ b) && decide (b ≤ 0xEF)) = false := by
          simp only [Bool.and_eq_false_iff, decide_eq_false_iff_not]; omega
        have a4 : (decide (0xF0 ≤ b) && decide (b ≤ 0xF4)) = false := by
          simp only [Bool.and_eq_false_iff, decide_eq_false_iff_not]; omega
        simp [utf8Step, DState.init, h1, a2, a3, a4]
      · intro rest out' p' hd
        have a2 : (decide (0xC2 ≤ b) && decide (b ≤ 0xDF)) = false := by
          simp only [Bool.and_eq_false_iff, decide_eq_false_iff_not]; omega
        have a3 : (decide (0xE0 ≤ b) && decide (b ≤ 0xEF)) = false := by
          simp only [Bool.and_eq_false_iff, decide_eq_false_iff_not]; omega
        have a4 : (decide (0xF0 ≤ b) && decide (b ≤ 0xF4)) = false := by
          simp only [Bool.and_eq_false_iff, decide_eq_false_iff_not]; omega
        have : (utf8Step DState.init b).2 = [0xFFFD] := by simp [utf8Step, DState.init, h1, a2, a3, a4]
        rw [this]
        refine Decodes.stray b rest out' p' ?_ hd
        have : ¬ (0xC2 ≤ b ∧ b ≤ 0xF4) := h2
        simp only [cannotStart, properPrefix, inR, Bool.and_eq_true, Bool.not_eq_true', decide_eq_false_iff_not,
          Bool.and_eq_false_iff]
        constructor
        · exact h1
        · omega


/-- with `q` pending and a byte that does not extend it: one U+FFFD for the maximal subpart `q`,
    then the byte is processed as the start of the next sequence -/
theorem trunc_sound (q : List Nat) (b : Nat) (hq : properPrefix q = true) (he : extendsBy q b = false)
    (hn : (stateOf q).needed ≠ 0) (hr : ¬ ((stateOf q).lo ≤ b ∧ b ≤ (stateOf q).hi)) :
    ∃ p1, Holds p1 (utf8Step (stateOf q) b).1 ∧
      ∀ rest out' p', Decodes (p1 ++ rest) out' p' →
        Decodes (q ++ b :: rest) ((utf8Step (stateOf q) b).2 ++ out') p' := by
  obtain ⟨p1, h1, h2⟩ := start_sound b
  refine ⟨p1, ?_, ?_⟩
  · rw [cont_out _ _ hn hr]; exact h1
  · intro rest out' p' hd
    rw [cont_out _ _ hn hr]
    exact Decodes.trunc q b rest _ p' hq he (h2 rest out' p' hd)

/-- the byte completes the pending sequence -/
theorem complete_sound (q : List Nat) (b : Nat) (hn : (stateOf q).needed = 1)
    (hr : (stateOf q).lo ≤ b ∧ b ≤ (stateOf q).hi)
    (hw : wfSeq (q ++ [b]) = some ((stateOf q).cp * 64 + (b - 0x80))) :
    ∃ p1, Holds p1 (utf8Step (stateOf q) b).1 ∧
      ∀ rest out' p', Decodes (p1 ++ rest) out' p' →
        Decodes (q ++ b :: rest) ((utf8Step (stateOf q) b).2 ++ out') p' := by
  have hn0 : (stateOf q).needed ≠ 0 := by rw [hn]; simp
  refine ⟨[], Or.inl ⟨rfl, ?_⟩, ?_⟩
  · rw [cont_in _ _ hn0 hr, hn]; rfl
  · intro rest out' p' hd
    rw [cont_in _ _ hn0 hr, hn]
    have := Decodes.char (q ++ [b]) _ rest out' p' hw hd
    simpa using this

/-- the byte extends the pending sequence without completing it -/
theorem more_sound (q : List Nat) (b : Nat) (hn : 2 ≤ (stateOf q).needed)
    (hr : (stateOf q).lo ≤ b ∧ b ≤ (stateOf q).hi)
    (hp' : properPrefix (q ++ [b]) = true)
    (hs : stateOf (q ++ [b]) =
      { needed := (stateOf q).needed - 1, cp := (stateOf q).cp * 64 + (b - 0x80), lo := 0x80, hi := 0xBF }) :
    ∃ p1, Holds p1 (utf8Step (stateOf q) b).1 ∧
      ∀ rest out' p', Decodes (p1 ++ rest) out' p' →
        Decodes (q ++ b :: rest) ((utf8Step (stateOf q) b).2 ++ out') p' := by
  have hn0 : (stateOf q).needed ≠ 0 := by omega
  have hn1 : ((stateOf q).needed == 1) = false := by simp; omega
  refine ⟨q ++ [b], Or.inr ⟨hp', ?_⟩, ?_⟩
  · rw [cont_in _ _ hn0 hr, hn1, hs]; rfl
  · intro rest out' p' hd
    rw [cont_in _ _ hn0 hr, hn1]
    simpa using hd

theorem second_E (b0 b : Nat) (h : 0xE0 ≤ b0 ∧ b0 ≤ 0xEF) :
    second b0 b = true ↔ (if b0 == 0xE0 then 0xA0 else 0x80) ≤ b ∧ b ≤ (if b0 == 0xED then 0x9F else 0xBF) := by
  unfold second cont inR
  by_cases e0 : b0 = 0xE0
  · subst e0; simp
  · by_cases ed : b0 = 0xED
    · subst ed; simp
    · have f0 : ¬ b0 = 0xF0 := by omega
      have f4 : ¬ b0 = 0xF4 := by omega
      simp [e0, ed, f0, f4]

theorem second_F (b0 b : Nat) (h : 0xF0 ≤ b0 ∧ b0 ≤ 0xF4) :
    second b0 b = true ↔ (if b0 == 0xF0 then 0x90 else 0x80) ≤ b ∧ b ≤ (if b0 == 0xF4 then 0x8F else 0xBF) := by
  unfold second cont inR
  have e0 : ¬ b0 = 0xE0 := by omega
  have ed : ¬ b0 = 0xED := by omega
  by_cases f0 : b0 = 0xF0
  · subst f0; simp
  · by_cases f4 : b0 = 0xF4
    · subst f4; simp
    · simp [e0, ed, f0, f4]

/-- in range of the pending state -/
def InRange (q : List Nat) (b : Nat) : Prop := (stateOf q).lo ≤ b ∧ b ≤ (stateOf q).hi

/-- The case analysis behind everything: with `q` pending, a byte either
    * is in the expected range and completes a well-formed sequence, or
    * is in the expected range and gives a longer proper prefix, or
    * is outside the range, and then `q ++ [b]` is not (a prefix of) a well-formed sequence. -/
theorem classify (q : List Nat) (b : Nat) (hq : properPrefix q = true) :
    (stateOf q).needed ≠ 0 ∧
    ((InRange q b ∧ (stateOf q).needed = 1 ∧
        wfSeq (q ++ [b]) = some ((stateOf q).cp * 64 + (b - 0x80)) ∧ properPrefix (q ++ [b]) = false) ∨
     (InRange q b ∧ 2 ≤ (stateOf q).needed ∧ properPrefix (q ++ [b]) = true ∧ wfSeq (q ++ [b]) = none ∧
        stateOf (q ++ [b]) =
          { needed := (stateOf q).needed - 1, cp := (stateOf q).cp * 64 + (b - 0x80), lo := 0x80, hi := 0xBF }) ∨
     (¬ InRange q b ∧ extendsBy q b = false)) := by
  unfold InRange
  match q, hq with
  | [b0], hp =>
    simp only [properPrefix, inR, Bool.and_eq_true, decide_eq_true_eq] at hp
    by_cases c1 : b0 ≤ 0xDF
    · have hs : stateOf [b0] = { needed := 1, cp := b0 - 0xC0, lo := 0x80, hi := 0xBF } := by simp [stateOf, c1]
      have ne : ¬ (0xE0 ≤ b0) := by omega
      refine ⟨by rw [hs]; simp, ?_⟩
      by_cases hr : 0x80 ≤ b ∧ b ≤ 0xBF
      · refine Or.inl ⟨by rw [hs]; exact hr, by rw [hs], ?_, ?_⟩
        · rw [hs]; simp [wfSeq, inR, cont, hp.1, c1, hr.1, hr.2]
        · simp [properPrefix, inR, ne]
      · refine Or.inr (Or.inr ⟨by rw [hs]; exact hr, ?_⟩)
        simp [extendsBy, properPrefix, wfSeq, inR, cont, ne]
        intros; omega
    · by_cases c2 : b0 ≤ 0xEF
      · have hE : 0xE0 ≤ b0 ∧ b0 ≤ 0xEF := by omega
        have hs : stateOf [b0] = { needed := 2, cp := b0 - 0xE0, lo := (if b0 == 0xE0 then 0xA0 else 0x80), hi := (if b0 == 0xED then 0x9F else 0xBF) } := by simp [stateOf, c1, c2]
        have nc : ¬ (0xC2 ≤ b0 ∧ b0 ≤ 0xDF) := by omega
        refine ⟨by rw [hs]; simp, ?_⟩
        by_cases hr : second b0 b = true
        · refine Or.inr (Or.inl ⟨by rw [hs]; exact (second_E b0 b hE).1 hr, by rw [hs]; simp, ?_, ?_, ?_⟩)
          · simp [properPrefix, inR, hE.1, hp.2, hr]
          · simp [wfSeq, inR, nc]
          · rw [hs]; simp [stateOf, c2]
        · refine Or.inr (Or.inr ⟨by rw [hs]; exact fun h' => hr ((second_E b0 b hE).2 h'), ?_⟩)
          simp [extendsBy, properPrefix, wfSeq, inR, hr, nc]
      · have hF : 0xF0 ≤ b0 ∧ b0 ≤ 0xF4 := by omega
        have hs : stateOf [b0] = { needed := 3, cp := b0 - 0xF0, lo := (if b0 == 0xF0 then 0x90 else 0x80), hi := (if b0 == 0xF4 then 0x8F else 0xBF) } := by simp [stateOf, c1, c2]
        have nc : ¬ (0xC2 ≤ b0 ∧ b0 ≤ 0xDF) := by omega
        refine ⟨by rw [hs]; simp, ?_⟩
        by_cases hr : second b0 b = true
        · refine Or.inr (Or.inl ⟨by rw [hs]; exact (second_F b0 b hF).1 hr, by rw [hs]; simp, ?_, ?_, ?_⟩)
          · simp [properPrefix, inR, hp.2, hr]; omega
          · simp [wfSeq, inR, nc]
          · rw [hs]; simp [stateOf, c2]
        · refine Or.inr (Or.inr ⟨by rw [hs]; exact fun h' => hr ((second_F b0 b hF).2 h'), ?_⟩)
          simp [extendsBy, properPrefix, wfSeq, inR, hr, nc]
  | [b0, b1], hp =>
    simp only [properPrefix, inR, Bool.and_eq_true, decide_eq_true_eq] at hp
    by_cases c2 : b0 ≤ 0xEF
    · have hs : stateOf [b0, b1] = { needed := 1, cp := (b0 - 0xE0) * 64 + (b1 - 0x80), lo := 0x80, hi := 0xBF } := by
        simp [stateOf, c2]
      have nf : ¬ (0xF0 ≤ b0) := by omega
      refine ⟨by rw [hs]; simp, ?_⟩
      by_cases hr : 0x80 ≤ b ∧ b ≤ 0xBF
      · refine Or.inl ⟨by rw [hs]; exact hr, by rw [hs], ?_, ?_⟩
        · rw [hs]; simp [wfSeq, inR, cont, hp.1.1, c2, hp.2, hr.1, hr.2]
        · simp [properPrefix, inR, nf]
      · refine Or.inr (Or.inr ⟨by rw [hs]; exact hr, ?_⟩)
        simp [extendsBy, properPrefix, wfSeq, inR, cont, nf]
        intros; omega
    · have hF : 0xF0 ≤ b0 ∧ b0 ≤ 0xF4 := by omega
      have hs : stateOf [b0, b1] = { needed := 2, cp := (b0 - 0xF0) * 64 + (b1 - 0x80), lo := 0x80, hi := 0xBF } := by
        simp [stateOf, c2]
      have ne : ¬ (0xE0 ≤ b0 ∧ b0 ≤ 0xEF) := by omega
      refine ⟨by rw [hs]; simp, ?_⟩
      by_cases hr : 0x80 ≤ b ∧ b ≤ 0xBF
      · refine Or.inr (Or.inl ⟨by rw [hs]; exact hr, by rw [hs]; simp, ?_, ?_, ?_⟩)
        · simp [properPrefix, inR, cont, hF.1, hF.2, hp.2, hr.1, hr.2]
        · simp [wfSeq, inR, ne]
        · rw [hs]; simp [stateOf]
      · refine Or.inr (Or.inr ⟨by rw [hs]; exact hr, ?_⟩)
        simp [extendsBy, properPrefix, wfSeq, inR, cont, ne]
        omega
  | [b0, b1, b2], hp =>
    simp only [properPrefix, inR, cont, Bool.and_eq_true, decide_eq_true_eq] at hp
    have hs : stateOf [b0, b1, b2] =
        { needed := 1, cp := ((b0 - 0xF0) * 64 + (b1 - 0x80)) * 64 + (b2 - 0x80), lo := 0x80, hi := 0xBF } := by
      simp [stateOf]
    refine ⟨by rw [hs]; simp, ?_⟩
    by_cases hr : 0x80 ≤ b ∧ b ≤ 0xBF
    · refine Or.inl ⟨by rw [hs]; exact hr, by rw [hs], ?_, ?_⟩
      · rw [hs]; simp [wfSeq, inR, cont, hp.1.1.1, hp.1.1.2, hp.1.2, hp.2.1, hp.2.2, hr.1, hr.2]
      · simp [properPrefix]
    · refine Or.inr (Or.inr ⟨by rw [hs]; exact hr, ?_⟩)
      simp [extendsBy, properPrefix, wfSeq, inR, cont]
      intros; omega

/-- one byte, any reachable decoder state: the state machine's output extends a conforming decoding -/
theorem step_sound (p : List Nat) (d : DState) (b : Nat) (h : Holds p d) :
    ∃ p1, Holds p1 (utf8Step d b).1 ∧
      ∀ rest out' p', Decodes (p1 ++ rest) out' p' →
        Decodes (p ++ b :: rest) ((utf8Step d b).2 ++ out') p' := by
  rcases h with ⟨rfl, rfl⟩ | ⟨hp, rfl⟩
  · exact start_sound b
  · obtain ⟨hn, hc | hc | hc⟩ := classify p b hp
    · exact complete_sound p b hc.2.1 hc.1 hc.2.2.1
    · exact more_sound p b hc.2.1 hc.1 hc.2.2.1 hc.2.2.2.2
    · exact trunc_sound p b hp hc.2 hn hc.1

/-- SOUNDNESS, streaming form: from any reachable decoder state (holding the pending bytes `p`),
    the characters produced for `bs` are a conforming decoding of `p ++ bs`, and the new state
    holds exactly the incomplete trailing sequence -/
theorem decode_sound (bs : List Nat) (p : List Nat) (d : DState) (h : Holds p d) :
    ∃ p', Holds p' (utf8Decode d bs).1 ∧ Decodes (p ++ bs) (utf8Decode d bs).2 p' := by
  induction bs generalizing p d with
  | nil =>
    refine ⟨p, h, ?_⟩
    simp only [utf8Decode, List.append_nil]
    rcases h with ⟨rfl, _⟩ | ⟨hp, _⟩
    · exact Decodes.done
    · exact Decodes.held p hp
  | cons b bs ih =>
    obtain ⟨p1, h1, h2⟩ := step_sound p d b h
    obtain ⟨p', h3, h4⟩ := ih p1 _ h1
    exact ⟨p', h3, h2 bs _ p' h4⟩


/-! ### completeness: every conforming decoding is what the state machine computes -/

theorem utf8Decode_append (d : DState) (a b : List Nat) :
    utf8Decode d (a ++ b) =
      ((utf8Decode (utf8Decode d a).1 b).1, (utf8Decode d a).2 ++ (utf8Decode (utf8Decode d a).1 b).2) := by
  induction a generalizing d with
  | nil => simp [utf8Decode]
  | cons c cs ih =>
    simp only [List.cons_append, utf8Decode]
    rw [ih]
    simp [List.append_assoc]

theorem start_ascii (b : Nat) (h : b ≤ 0x7F) : utf8Step DState.init b = (DState.init, [b]) := by
  simp [utf8Step, DState.init, h]

theorem start_prefix (b : Nat) (h : properPrefix [b] = true) : utf8Step DState.init b = (stateOf [b], []) := by
  simp only [properPrefix, inR, Bool.and_eq_true, decide_eq_true_eq] at h
  have h1 : ¬ b ≤ 0x7F := by omega
  unfold utf8Step stateOf
  simp only [DState.init, beq_self_eq_true, if_true, h1, if_false]
  by_cases c1 : b ≤ 0xDF
  · simp [c1, h.1]
  · by_cases c2 : b ≤ 0xEF
    · have a : 0xE0 ≤ b := by omega
      simp [c1, c2, a]
    · have a : 0xF0 ≤ b := by omega
      simp [c1, c2, a, h.2]

theorem start_stray (b : Nat) (h : cannotStart b = true) : utf8Step DState.init b = (DState.init, [0xFFFD]) := by
  simp only [cannotStart, properPrefix, inR, Bool.and_eq_true, Bool.not_eq_true', decide_eq_false_iff_not,
    Bool.and_eq_false_iff] at h
  have h1 : ¬ b ≤ 0x7F := h.1
  have a2 : (decide (0xC2 ≤ b) && decide (b ≤ 0xDF)) = false := by
    simp only [Bool.and_eq_false_iff, decide_eq_false_iff_not]; omega
  have a3 : (decide (0xE0 ≤ b) && decide (b ≤ 0xEF)) = false := by
    simp only [Bool.and_eq_false_iff, decide_eq_false_iff_not]; omega
  have a4 : (decide (0xF0 ≤ b) && decide (b ≤ 0xF4)) = false := by
    simp only [Bool.and_eq_false_iff, decide_eq_false_iff_not]; omega
  simp [utf8Step, DState.init, h1, a2, a3, a4]

theorem snoc_prefix (q : List Nat) (b : Nat) (hq : properPrefix q = true) (hqb : properPrefix (q ++ [b]) = true) :
    utf8Step (stateOf q) b = (stateOf (q ++ [b]), []) := by
  obtain ⟨hn, hc | hc | hc⟩ := classify q b hq
  · rw [hc.2.2.2] at hqb; cases hqb
  · have hn1 : ((stateOf q).needed == 1) = false := by simp; omega
    rw [cont_in _ _ hn hc.1, hn1, hc.2.2.2.2]; rfl
  · have := hc.2
    simp [extendsBy, hqb] at this

theorem snoc_wf (q : List Nat) (b cp : Nat) (hq : properPrefix q = true) (hw : wfSeq (q ++ [b]) = some cp) :
    utf8Step (stateOf q) b = (DState.init, [cp]) := by
  obtain ⟨hn, hc | hc | hc⟩ := classify q b hq
  · rw [cont_in _ _ hn hc.1, hc.2.1]
    have : some cp = some ((stateOf q).cp * 64 + (b - 0x80)) := by rw [← hw, hc.2.2.1]
    simp only [Option.some.injEq] at this
    rw [this]; rfl
  · rw [hc.2.2.2.1] at hw; cases hw
  · have := hc.2
    simp [extendsBy, hw] at this

theorem snoc_bad (q : List Nat) (b : Nat) (hq : properPrefix q = true) (he : extendsBy q b = false) :
    utf8Step (stateOf q) b = ((utf8Step DState.init b).1, 0xFFFD :: (utf8Step DState.init b).2) := by
  obtain ⟨hn, hc | hc | hc⟩ := classify q b hq
  · simp [extendsBy, hc.2.2.1] at he
  · simp [extendsBy, hc.2.2.1] at he
  · exact cont_out _ _ hn hc.1

/-- proper prefixes are prefix-closed -/
theorem prefix_init2 (b0 b1 : Nat) (h : properPrefix [b0, b1] = true) : properPrefix [b0] = true := by
  simp only [properPrefix, inR, Bool.and_eq_true, decide_eq_true_eq] at h ⊢
  omega

theorem prefix_init3 (b0 b1 b2 : Nat) (h : properPrefix [b0, b1, b2] = true) : properPrefix [b0, b1] = true := by
  simp only [properPrefix, inR, Bool.and_eq_true, decide_eq_true_eq] at h ⊢
  exact ⟨by omega, h.1.2⟩

/-- the state machine holds a pending proper prefix silently -/
theorem run_prefix (p : List Nat) (hp : properPrefix p = true) : utf8Decode DState.init p = (stateOf p, []) := by
  match p, hp with
  | [b0], hp => simp [utf8Decode, start_prefix b0 hp]
  | [b0, b1], hp =>
    have h1 := prefix_init2 b0 b1 hp
    simp [utf8Decode, start_prefix b0 h1, snoc_prefix [b0] b1 h1 hp]
  | [b0, b1, b2], hp =>
    have h2 := prefix_init3 b0 b1 b2 hp
    have h1 := prefix_init2 b0 b1 h2
    simp [utf8Decode, start_prefix b0 h1, snoc_prefix [b0] b1 h1 h2, snoc_prefix [b0, b1] b2 h2 hp]

/-- a well-formed sequence yields its scalar value once and leaves the decoder idle -/
theorem run_wf (seq : List Nat) (cp : Nat) (hw : wfSeq seq = some cp) :
    utf8Decode DState.init seq = (DState.init, [cp]) := by
  match seq, hw with
  | [b0], hw =>
    simp only [wfSeq] at hw
    split at hw
    · rename_i h; cases hw; simp [utf8Decode, start_ascii _ h]
    · cases hw
  | [b0, b1], hw =>
    have h1 : properPrefix [b0] = true := by
      simp only [wfSeq] at hw
      split at hw
      · rename_i h
        simp only [inR, Bool.and_eq_true, decide_eq_true_eq] at h
        simp only [properPrefix, inR, Bool.and_eq_true, decide_eq_true_eq]; omega
      · cases hw
    simp [utf8Decode, start_prefix b0 h1, snoc_wf [b0] b1 cp h1 hw]
  | [b0, b1, b2], hw =>
    have h2 : properPrefix [b0, b1] = true := by
      simp only [wfSeq] at hw
      split at hw
      · rename_i h
        simp only [inR, Bool.and_eq_true, decide_eq_true_eq] at h
        simp only [properPrefix, inR, Bool.and_eq_true, decide_eq_true_eq]
        exact ⟨by omega, h.1.2⟩
      · cases hw
    have h1 := prefix_init2 b0 b1 h2
    simp [utf8Decode, start_prefix b0 h1, snoc_prefix [b0] b1 h1 h2, snoc_wf [b0, b1] b2 cp h2 hw]
  | [b0, b1, b2, b3], hw =>
    have h3 : properPrefix [b0, b1, b2] = true := by
      simp only [wfSeq] at hw
      split at hw
      · rename_i h
        simp only [Bool.and_eq_true] at h
        simp only [properPrefix, Bool.and_eq_true]
        exact ⟨⟨h.1.1.1, h.1.1.2⟩, h.1.2⟩
      · cases hw
    have h2 := prefix_init3 b0 b1 b2 h3
    have h1 := prefix_init2 b0 b1 h2
    simp [utf8Decode, start_prefix b0 h1, snoc_prefix [b0] b1 h1 h2, snoc_prefix [b0, b1] b2 h2 h3,
      snoc_wf [b0, b1, b2] b3 cp h3 hw]
  | [], hw => cases hw
  | _ :: _ :: _ :: _ :: _ :: _, hw => cases hw

/-- the state that holds `p` (idle for none) -/
def stateFor (p : List Nat) : DState := if p = [] then DState.init else stateOf p

/-- COMPLETENESS: every conforming decoding of `bs` is the one the state machine computes -/
theorem decode_complete (bs out p : List Nat) (h : Decodes bs out p) :
    utf8Decode DState.init bs = (stateFor p, out) := by
  induction h with
  | done => rfl
  | held p hp =>
    have : p ≠ [] := by intro e; subst e; simp [properPrefix] at hp
    simp [stateFor, this, run_prefix p hp]
  | char seq cp rest out p hw _ ih =>
    rw [utf8Decode_append, run_wf seq cp hw, ih]; rfl
  | stray b rest out p hb _ ih =>
    simp only [utf8Decode, start_stray b hb, ih]; rfl
  | trunc q b rest out p hq he _ ih =>
    rw [utf8Decode_append, run_prefix q hq]
    simp only [utf8Decode] at ih ⊢
    rw [snoc_bad q b hq he]
    simp only [List.nil_append, List.cons_append]
    rw [Prod.mk.injEq] at ih ⊢
    exact ⟨ih.1, by rw [← ih.2]⟩


/-- THE CHARACTERISATION.  For every byte string: `out` and `p` are a conforming decoding of `bs`
    (scalar value per well-formed sequence, U+FFFD per maximal subpart, incomplete tail held)
    if and only if they are what the decoder state machine produces and holds. -/
theorem decode_spec (bs out : List Nat) :
    (∃ p, Decodes bs out p) ↔ (utf8Decode DState.init bs).2 = out := by
  constructor
  · rintro ⟨p, h⟩
    rw [decode_complete bs out p h]
  · intro h
    obtain ⟨p', _, hd⟩ := decode_sound bs [] DState.init (Or.inl ⟨rfl, rfl⟩)
    rw [← h]
    exact ⟨p', by simpa using hd⟩

/-- the conforming decoding is unique: nothing dropped, duplicated or reordered -/
theorem decodes_unique (bs out out' p p' : List Nat) (h : Decodes bs out p) (h' : Decodes bs out' p') :
    out = out' ∧ stateFor p = stateFor p' := by
  have a := decode_complete bs out p h
  have b := decode_complete bs out' p' h'
  rw [a] at b
  simp only [Prod.mk.injEq] at b
  exact ⟨b.2, b.1⟩

/-- what is held is a suffix of the input: held bytes are never consumed or altered -/
theorem held_is_suffix (bs out p : List Nat) (h : Decodes bs out p) : ∃ pre, bs = pre ++ p := by
  induction h with
  | done => exact ⟨[], rfl⟩
  | held p _ => exact ⟨[], rfl⟩
  | char seq cp rest out p _ _ ih => obtain ⟨pre, e⟩ := ih; exact ⟨seq ++ pre, by rw [e, List.append_assoc]⟩
  | stray b rest out p _ _ ih => obtain ⟨pre, e⟩ := ih; exact ⟨b :: pre, by rw [e]; rfl⟩
  | trunc q b rest out p _ _ _ ih => obtain ⟨pre, e⟩ := ih; exact ⟨q ++ pre, by rw [e, List.append_assoc]⟩

/-- streaming: feeding `a` and then `b` decodes `a ++ b` -/
theorem decode_streaming (a b : List Nat) :
    ∃ p', Decodes (a ++ b) ((utf8Decode DState.init a).2 ++ (utf8Decode (utf8Decode DState.init a).1 b).2) p' ∧
      Holds p' (utf8Decode (utf8Decode DState.init a).1 b).1 := by
  obtain ⟨p', hh, hd⟩ := decode_sound (a ++ b) [] DState.init (Or.inl ⟨rfl, rfl⟩)
  rw [utf8Decode_append] at hh hd
  exact ⟨p', by simpa using hd, hh⟩

/-- non-vacuity: "é", a truncated 3-byte sequence cut by "(", a surrogate encoding, an incomplete tail -/
example : Decodes [0xC3, 0xA9, 0xE2, 0x9E, 0x28, 0xED, 0xA0, 0xF0, 0x9F] [0xE9, 0xFFFD, 0x28, 0xFFFD, 0xFFFD] [0xF0, 0x9F] :=
  Decodes.char [0xC3, 0xA9] 0xE9 _ _ _ (by decide)
    (Decodes.trunc [0xE2, 0x9E] 0x28 _ _ _ (by decide) (by decide)
      (Decodes.char [0x28] 0x28 _ _ _ (by decide)
        (Decodes.trunc [0xED] 0xA0 _ _ _ (by decide) (by decide)
          (Decodes.stray 0xA0 _ _ _ (by decide) (Decodes.held [0xF0, 0x9F] (by decide))))))

end Utf8Spec
end Memterm
