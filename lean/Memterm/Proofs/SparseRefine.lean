import Memterm.Sparse
import Memterm.Inv

namespace Memterm
namespace Sparse

/-! ### map lemmas -/

theorem lookup_erase {α : Type} (k k' : Nat) (m : List (Nat × α)) :
    lookup k' (erase k m) = if k = k' then none else lookup k' m := by
  induction m with
  | nil => simp [erase, lookup]
  | cons p r ih =>
    obtain ⟨a, v⟩ := p
    unfold erase at ih ⊢
    simp only [List.filter_cons]
    by_cases h1 : a = k
    · subst h1
      simp only [bne_self_eq_false, Bool.false_eq_true, if_false, ih]
      by_cases h2 : a = k'
      · simp [h2]
      · have : (a == k') = false := by simpa using h2
        simp [h2, lookup, this]
    · have hne : (a != k) = true := by simpa using h1
      simp only [hne, if_true, lookup]
      by_cases h2 : a = k'
      · subst h2
        have : ¬ k = a := fun e => h1 e.symm
        simp [this]
      · have : (a == k') = false := by simpa using h2
        simp only [this, Bool.false_eq_true, if_false, ih]

theorem lookup_insert {α : Type} (k k' : Nat) (v : α) (m : List (Nat × α)) :
    lookup k' (insert k v m) = if k = k' then some v else lookup k' m := by
  unfold insert
  simp only [lookup]
  by_cases h : k = k'
  · simp [h]
  · have : (k == k') = false := by simpa using h
    simp [this, h, lookup_erase]

theorem mem_upToF (lo f k : Nat) : k ∈ upToF lo f ↔ lo ≤ k ∧ k < lo + f := by
  induction f generalizing lo with
  | zero => simp [upToF] <;> omega
  | succ f ih =>
    simp only [upToF, List.mem_cons, ih]
    omega

theorem mem_upTo (lo hi k : Nat) : k ∈ upTo lo hi ↔ lo ≤ k ∧ k < hi := by
  unfold upTo
  rw [mem_upToF]
  omega

theorem lookup_fillLoop (v : Cell) (xs : List Nat) (line : Row) (k : Nat) :
    lookup k (fillLoop v xs line) = if k ∈ xs then some v else lookup k line := by
  induction xs generalizing line with
  | nil => simp [fillLoop]
  | cons x xs ih =>
    simp only [fillLoop, ih, lookup_insert, List.mem_cons]
    by_cases h1 : k ∈ xs
    · simp [h1]
    · by_cases h2 : x = k
      · simp [h2]
      · have : ¬ k = x := fun e => h2 e.symm
        simp [h1, h2, this]

/-- reading through a replaced row -/
theorem read_insert_row (ss : SScreen) (s' : Screen) (y0 : Nat) (row : Row) (y x : Nat)
    (hm : s'.mode Gen.DECSCNM = ss.s.mode Gen.DECSCNM) :
    read { s := s', buf := insert y0 row ss.buf } y x =
      if y = y0 then (lookup x row).getD (defaultCell ss.s) else read ss y x := by
  have hd : defaultCell s' = defaultCell ss.s := by simp [defaultCell, defaultAttr, hm]
  unfold read
  simp only [lookup_insert, hd]
  by_cases h : y0 = y
  · simp [h]
  · have : ¬ y = y0 := fun e => h e.symm
    simp [h, this]

theorem read_rowOf (ss : SScreen) (y x : Nat) :
    (lookup x (rowOf ss.buf y)).getD (defaultCell ss.s) = read ss y x := by
  unfold read rowOf
  cases lookup y ss.buf <;> simp [lookup]

/-- to show `abs ss' = d`: the non-cell fields agree and every cell reads as in `d` -/
theorem abs_eq {ss' : SScreen} {d : Screen} (hs : { ss'.s with cell := d.cell } = d)
    (hc : ∀ y x, read ss' y x = d.cell y x) : abs ss' = d := by
  have hf : read ss' = d.cell := by funext y x; exact hc y x
  unfold abs
  rw [hf]
  exact hs

theorem and3_false {a b c : Bool} (h : ¬ (b = true ∧ c = true)) : (a && b && c) = true ↔ False := by
  cases a <;> cases b <;> cases c <;> simp_all

/-! ### erase_characters -/

theorem abs_eraseCharacters (ss : SScreen) (n : Option Nat) :
    abs (eraseCharacters ss n) = Memterm.eraseCharacters (abs ss) n := by
  refine abs_eq rfl (fun y x => ?_)
  show read { s := markDirty ss.s ss.s.cursor.y, buf := _ } y x = _
  rw [read_insert_row ss (markDirty ss.s ss.s.cursor.y) _ _ _ _ rfl]
  show _ = if (y == ss.s.cursor.y && decide (ss.s.cursor.x ≤ x) && decide (x < min (ss.s.cursor.x + nz n) ss.s.columns)) = true
    then cursorCell ss.s else read ss y x
  by_cases hy : y = ss.s.cursor.y
  · subst hy
    simp only [if_true, lookup_fillLoop, mem_upTo, beq_self_eq_true, Bool.true_and, Bool.and_eq_true, decide_eq_true_eq]
    by_cases hx : ss.s.cursor.x ≤ x ∧ x < min (ss.s.cursor.x + nz n) ss.s.columns
    · simp [hx]
    · simp only [hx, if_false]
      exact read_rowOf ss _ x
  · have : (y == ss.s.cursor.y) = false := by simpa using hy
    simp [hy, this]


/-! ### insert_characters: the shifting loop -/

/-- a row read with a default -/
def getR (d : Cell) (m : Row) (k : Nat) : Cell := (lookup k m).getD d

theorem getR_insert (d : Cell) (m : Row) (k k' : Nat) (v : Cell) :
    getR d (insert k v m) k' = if k = k' then v else getR d m k' := by
  unfold getR; rw [lookup_insert]; split <;> simp

theorem getR_erase (d : Cell) (m : Row) (k k' : Nat) :
    getR d (erase k m) k' = if k = k' then d else getR d m k' := by
  unfold getR; rw [lookup_erase]; split <;> simp

/-- the state of the row when columns `hi..cols` have been processed -/
def IchInv (d : Cell) (n cols : Nat) (line0 : Row) (hi : Nat) (line : Row) : Prop :=
  ∀ k, getR d line k =
    if hi ≤ k ∧ k < cols then (if k < hi + n then d else getR d line0 (k - n)) else getR d line0 k

theorem ich_step (d : Cell) (n cols : Nat) (line0 line : Row) (h : Nat) (hn : 1 ≤ n) (hh : h < cols)
    (hP : IchInv d n cols line0 (h + 1) line) :
    IchInv d n cols line0 h
      (insert h d (if h + n < cols then insert (h + n) ((lookup h line).getD d) line else line)) := by
  intro k
  have hget : (lookup h line).getD d = getR d line0 h := by
    have := hP h
    have c : ¬ (h + 1 ≤ h ∧ h < cols) := by omega
    simpa [getR, c] using this
  rw [getR_insert]
  by_cases hk : h = k
  · subst hk
    have : h ≤ h ∧ h < cols := ⟨Nat.le_refl _, hh⟩
    have c2 : h < h + n := by omega
    simp [this, c2]
  · simp only [hk, if_false]
    by_cases hmove : h + n < cols
    · simp only [hmove, if_true, getR_insert, hget]
      by_cases hk2 : h + n = k
      · subst hk2
        have a1 : h ≤ h + n ∧ h + n < cols := ⟨by omega, hmove⟩
        have a2 : ¬ (h + n < h + n) := by omega
        simp [a1, a2]
      · simp only [hk2, if_false, hP k]
        by_cases r1 : h + 1 ≤ k ∧ k < cols
        · have r2 : h ≤ k ∧ k < cols := ⟨by omega, r1.2⟩
          simp only [r1, r2, and_self, if_true]
          by_cases r3 : k < h + 1 + n
          · have : k < h + n := by omega
            simp [r3, this]
          · have : ¬ k < h + n := by omega
            simp [r3, this]
        · have r2 : ¬ (h ≤ k ∧ k < cols) := by omega
          simp [r1, r2]
    · simp only [hmove, if_false, hP k]
      by_cases r1 : h + 1 ≤ k ∧ k < cols
      · have r2 : h ≤ k ∧ k < cols := ⟨by omega, r1.2⟩
        have r3 : k < h + 1 + n := by omega
        have r4 : k < h + n := by omega
        simp [r1, r2, r3, r4]
      · have r2 : ¬ (h ≤ k ∧ k < cols) := by omega
        simp [r1, r2]

theorem ich_loop (d : Cell) (n cols lo : Nat) (line0 : Row) (hn : 1 ≤ n) :
    ∀ hi, lo ≤ hi → hi ≤ cols → ∀ line, IchInv d n cols line0 hi line →
      IchInv d n cols line0 lo (ichLoop d n cols (downFrom lo hi) line) := by
  intro hi
  induction hi with
  | zero =>
    intro hlo _ line hP
    have : lo = 0 := by omega
    subst this
    simpa [downFrom, ichLoop] using hP
  | succ h ih =>
    intro hlo hhi line hP
    by_cases hl : lo ≤ h
    · simp only [downFrom, hl, if_true, ichLoop]
      exact ih hl (by omega) _ (ich_step d n cols line0 line h hn (by omega) hP)
    · have : lo = h + 1 := by omega
      subst this
      simpa [downFrom, hl, ichLoop] using hP

theorem abs_insertCharacters (ss : SScreen) (n : Option Nat) (hx : ss.s.cursor.x ≤ ss.s.columns) :
    abs (insertCharacters ss n) = Memterm.insertCharacters (abs ss) n := by
  refine abs_eq rfl (fun y x => ?_)
  show read { s := markDirty ss.s ss.s.cursor.y, buf := _ } y x = _
  rw [read_insert_row ss (markDirty ss.s ss.s.cursor.y) _ _ _ _ rfl]
  show _ = if (y == ss.s.cursor.y && decide (ss.s.cursor.x ≤ x) && decide (x < ss.s.columns)) = true
    then (if x < ss.s.cursor.x + nz n then defaultCell ss.s else read ss y (x - nz n)) else read ss y x
  by_cases hy : y = ss.s.cursor.y
  · subst hy
    have hn : 1 ≤ nz n := by cases n with | none => decide | some k => cases k <;> simp [nz]
    have h0 : IchInv (defaultCell ss.s) (nz n) ss.s.columns (rowOf ss.buf ss.s.cursor.y) ss.s.columns
        (rowOf ss.buf ss.s.cursor.y) := by
      intro k
      have : ¬ (ss.s.columns ≤ k ∧ k < ss.s.columns) := by omega
      simp [this]
    have := ich_loop (defaultCell ss.s) (nz n) ss.s.columns ss.s.cursor.x (rowOf ss.buf ss.s.cursor.y) hn
      ss.s.columns hx (Nat.le_refl _) _ h0 x
    simp only [getR] at this
    simp only [if_true, this, beq_self_eq_true, Bool.true_and, Bool.and_eq_true, decide_eq_true_eq, read_rowOf]
  · have : (y == ss.s.cursor.y) = false := by simpa using hy
    simp [hy, this]


/-! ### delete_characters: the forward loop -/

def DchInv (d : Cell) (n cols cx : Nat) (line0 : Row) (j : Nat) (line : Row) : Prop :=
  ∀ k, getR d line k =
    if cx ≤ k ∧ k < j then (if k + n < cols then getR d line0 (k + n) else d)
    else if j ≤ k ∧ cx + n ≤ k ∧ k < j + n ∧ k < cols then d
    else getR d line0 k

theorem dch_step (d : Cell) (n cols cx : Nat) (line0 line : Row) (j : Nat) (hn : 1 ≤ n) (hj : cx ≤ j)
    (hP : DchInv d n cols cx line0 j line) :
    DchInv d n cols cx line0 (j + 1)
      (if j + n < cols then
        match lookup (j + n) line with
        | some c => insert j c (erase (j + n) line)
        | none => insert j d line
       else erase j line) := by
  intro k
  have hsrc : getR d line (j + n) = if j + n < cols then getR d line0 (j + n) else getR d line0 (j + n) := by
    have := hP (j + n)
    have c1 : ¬ (cx ≤ j + n ∧ j + n < j) := by omega
    have c2 : ¬ (j ≤ j + n ∧ cx + n ≤ j + n ∧ j + n < j + n ∧ j + n < cols) := by omega
    simpa [c1, c2] using this
  by_cases hmove : j + n < cols
  · simp only [hmove, if_true]
    -- both arms of the match read as: position j := source, position j+n := default
    have key : ∀ k, getR d (match lookup (j + n) line with
        | some c => insert j c (erase (j + n) line)
        | none => insert j d line) k =
        if j = k then getR d line (j + n) else if j + n = k then d else getR d line k := by
      intro k
      cases hl : lookup (j + n) line with
      | some c =>
        simp only [getR_insert, getR_erase]
        have : getR d line (j + n) = c := by simp [getR, hl]
        rw [this]
      | none =>
        simp only [getR_insert]
        have h1 : getR d line (j + n) = d := by simp [getR, hl]
        rw [h1]
        by_cases a : j = k
        · simp [a]
        · simp only [a, if_false]
          by_cases b : j + n = k
          · subst b; simp [h1]
          · simp [b]
    rw [key k]
    by_cases a : j = k
    · subst a
      have r1 : cx ≤ j ∧ j < j + 1 := ⟨hj, by omega⟩
      simp [r1, hmove, hsrc]
    · simp only [a, if_false]
      by_cases b : j + n = k
      · subst b
        have r1 : ¬ (cx ≤ j + n ∧ j + n < j + 1) := by omega
        have r2 : j + 1 ≤ j + n ∧ cx + n ≤ j + n ∧ j + n < j + 1 + n ∧ j + n < cols := by omega
        rw [if_neg r1, if_pos r2]
        simp
      · simp only [b, if_false, hP k]
        by_cases q1 : cx ≤ k ∧ k < j
        · have q2 : cx ≤ k ∧ k < j + 1 := by omega
          simp [q1, q2]
        · have q2 : ¬ (cx ≤ k ∧ k < j + 1) := by omega
          simp only [q1, q2, if_false]
          by_cases q3 : j ≤ k ∧ cx + n ≤ k ∧ k < j + n ∧ k < cols
          · have q4 : j + 1 ≤ k ∧ cx + n ≤ k ∧ k < j + 1 + n ∧ k < cols := by omega
            simp [q3, q4]
          · have q4 : ¬ (j + 1 ≤ k ∧ cx + n ≤ k ∧ k < j + 1 + n ∧ k < cols) := by omega
            simp [q3, q4]
  · simp only [hmove, if_false, getR_erase]
    by_cases a : j = k
    · subst a
      have r1 : cx ≤ j ∧ j < j + 1 := ⟨hj, by omega⟩
      simp [r1, hmove]
    · simp only [a, if_false, hP k]
      by_cases q1 : cx ≤ k ∧ k < j
      · have q2 : cx ≤ k ∧ k < j + 1 := by omega
        simp [q1, q2]
      · have q2 : ¬ (cx ≤ k ∧ k < j + 1) := by omega
        simp only [q1, q2, if_false]
        by_cases q3 : j ≤ k ∧ cx + n ≤ k ∧ k < j + n ∧ k < cols
        · have q4 : j + 1 ≤ k ∧ cx + n ≤ k ∧ k < j + 1 + n ∧ k < cols := by omega
          simp [q3, q4]
        · have q4 : ¬ (j + 1 ≤ k ∧ cx + n ≤ k ∧ k < j + 1 + n ∧ k < cols) := by omega
          simp [q3, q4]

theorem dch_loop (d : Cell) (n cols cx : Nat) (line0 : Row) (hn : 1 ≤ n) :
    ∀ f j line, cx ≤ j → DchInv d n cols cx line0 j line →
      DchInv d n cols cx line0 (j + f) (dchLoop d n cols (upToF j f) line) := by
  intro f
  induction f with
  | zero => intro j line _ hP; simpa [upToF, dchLoop] using hP
  | succ f ih =>
    intro j line hj hP
    simp only [upToF, dchLoop]
    have := ih (j + 1) _ (by omega) (dch_step d n cols cx line0 line j hn hj hP)
    have e : j + 1 + f = j + (f + 1) := by omega
    rw [e] at this
    exact this

theorem abs_deleteCharacters (ss : SScreen) (n : Option Nat) (hx : ss.s.cursor.x ≤ ss.s.columns) :
    abs (deleteCharacters ss n) = Memterm.deleteCharacters (abs ss) n := by
  refine abs_eq rfl (fun y x => ?_)
  show read { s := markDirty ss.s ss.s.cursor.y, buf := _ } y x = _
  rw [read_insert_row ss (markDirty ss.s ss.s.cursor.y) _ _ _ _ rfl]
  show _ = if (y == ss.s.cursor.y && decide (ss.s.cursor.x ≤ x) && decide (x < ss.s.columns)) = true
    then (if x + nz n < ss.s.columns then read ss y (x + nz n) else defaultCell ss.s) else read ss y x
  by_cases hy : y = ss.s.cursor.y
  · subst hy
    have hn : 1 ≤ nz n := by cases n with | none => decide | some k => cases k <;> simp [nz]
    have h0 : DchInv (defaultCell ss.s) (nz n) ss.s.columns ss.s.cursor.x (rowOf ss.buf ss.s.cursor.y) ss.s.cursor.x
        (rowOf ss.buf ss.s.cursor.y) := by
      intro k
      have c1 : ¬ (ss.s.cursor.x ≤ k ∧ k < ss.s.cursor.x) := by omega
      have c2 : ¬ (ss.s.cursor.x ≤ k ∧ ss.s.cursor.x + nz n ≤ k ∧ k < ss.s.cursor.x + nz n ∧ k < ss.s.columns) := by omega
      simp [c1, c2]
    have := dch_loop (defaultCell ss.s) (nz n) ss.s.columns ss.s.cursor.x (rowOf ss.buf ss.s.cursor.y) hn
      (ss.s.columns - ss.s.cursor.x) ss.s.cursor.x _ (Nat.le_refl _) h0 x
    have e : ss.s.cursor.x + (ss.s.columns - ss.s.cursor.x) = ss.s.columns := by omega
    rw [e] at this
    simp only [getR] at this
    simp only [upTo, if_true, this, beq_self_eq_true, Bool.true_and, Bool.and_eq_true, decide_eq_true_eq, read_rowOf]
    by_cases q : ss.s.cursor.x ≤ x ∧ x < ss.s.columns
    · simp [q]
    · have q2 : ¬ (ss.s.columns ≤ x ∧ ss.s.cursor.x + nz n ≤ x ∧ x < ss.s.columns + nz n ∧ x < ss.s.columns) := by omega
      simp [q, q2]
  · have : (y == ss.s.cursor.y) = false := by simpa using hy
    simp [hy, this]


/-! ### erase_in_line, erase_in_display -/

theorem elList_mem (s : Screen) (h : Nat) :
    match elList s h, elRange s h with
    | some xs, some p => ∀ x, x ∈ xs ↔ p x = true
    | none, none => True
    | _, _ => False := by
  unfold elList elRange
  match h with
  | 0 => simp [mem_upTo]
  | 1 => simp [mem_upTo]; intro x; omega
  | 2 => simp [mem_upTo]
  | _ + 3 => simp

theorem abs_eraseInLine (ss : SScreen) (how : Option Nat) :
    abs (eraseInLine ss how) = Memterm.eraseInLine (abs ss) how := by
  have hm := elList_mem ss.s (how.getD 0)
  have e1 : elRange (abs ss) (how.getD 0) = elRange ss.s (how.getD 0) := rfl
  unfold eraseInLine Memterm.eraseInLine
  simp only [e1]
  cases hl : elList ss.s (how.getD 0) with
  | none =>
    cases hr : elRange ss.s (how.getD 0) with
    | none => rfl
    | some p => rw [hl, hr] at hm; exact absurd hm (by simp)
  | some xs =>
    cases hr : elRange ss.s (how.getD 0) with
    | none => rw [hl, hr] at hm; exact absurd hm (by simp)
    | some p =>
      rw [hl, hr] at hm
      simp only at hm
      refine abs_eq rfl (fun y x => ?_)
      show read { s := markDirty ss.s ss.s.cursor.y, buf := _ } y x = _
      rw [read_insert_row ss (markDirty ss.s ss.s.cursor.y) _ _ _ _ rfl]
      show _ = if (y == ss.s.cursor.y && p x) = true then cursorCell ss.s else read ss y x
      by_cases hy : y = ss.s.cursor.y
      · subst hy
        simp only [if_true, lookup_fillLoop, beq_self_eq_true, Bool.true_and]
        by_cases hx : p x = true
        · simp [hx, (hm x).2 hx]
        · have : x ∉ xs := fun h => hx ((hm x).1 h)
          simp only [this, if_false, hx]
          exact read_rowOf ss _ x
      · have : (y == ss.s.cursor.y) = false := by simpa using hy
        simp [hy, this]

theorem rowOf_insert (b : Buf) (y0 : Nat) (row : Row) (y : Nat) :
    rowOf (insert y0 row b) y = if y0 = y then row else rowOf b y := by
  unfold rowOf
  rw [lookup_insert]
  split <;> simp

/-- rows visited by the ED loop are filled in every column of the grid, others untouched -/
theorem edLoop_spec (v : Cell) (cols : Nat) (ys : List Nat) (b : Buf) (y : Nat) :
    (y ∈ ys → ∃ row, lookup y (edLoop v cols ys b) = some row ∧
        ∀ x, lookup x row = if x < cols then some v else lookup x (rowOf b y)) ∧
    (y ∉ ys → lookup y (edLoop v cols ys b) = lookup y b) := by
  induction ys generalizing b with
  | nil => simp [edLoop]
  | cons y0 ys ih =>
    simp only [edLoop]
    have ih' := ih (insert y0 (fillLoop v (upTo 0 cols) (rowOf b y0)) b)
    constructor
    · intro hy
      by_cases hin : y ∈ ys
      · obtain ⟨row, h1, h2⟩ := ih'.1 hin
        refine ⟨row, h1, fun x => ?_⟩
        rw [h2 x]
        by_cases hx : x < cols
        · simp [hx]
        · simp only [hx, if_false, rowOf_insert]
          by_cases e : y0 = y
          · subst e
            have : ¬ (0 ≤ x ∧ x < cols) := by omega
            simp only [if_true, lookup_fillLoop, mem_upTo, this, if_false]
          · simp [e]
      · have e : y = y0 := by
          cases List.mem_cons.1 hy with
          | inl h => exact h
          | inr h => exact absurd h hin
        subst e
        refine ⟨fillLoop v (upTo 0 cols) (rowOf b y), ?_, fun x => ?_⟩
        · rw [ih'.2 hin, lookup_insert]; simp
        · simp only [lookup_fillLoop, mem_upTo]
          by_cases hx : x < cols
          · simp [hx]
          · have : ¬ (0 ≤ x ∧ x < cols) := by omega
            simp [hx, this]
    · intro hy
      have h1 : y ∉ ys := fun h => hy (List.mem_cons_of_mem _ h)
      have h2 : ¬ y0 = y := fun e => hy (by rw [e]; exact List.mem_cons_self ..)
      rw [ih'.2 h1, lookup_insert]
      simp [h2]

theorem abs_edFill (ss : SScreen) (lo hi : Nat) :
    abs { s := markDirtyRange ss.s lo hi, buf := edLoop (cursorCell ss.s) ss.s.columns (upTo lo hi) ss.buf } =
      edFill (abs ss) lo hi := by
  refine abs_eq rfl (fun y x => ?_)
  show _ = if (decide (lo ≤ y) && decide (y < hi) && decide (x < ss.s.columns)) = true then cursorCell ss.s
    else read ss y x
  have hs := edLoop_spec (cursorCell ss.s) ss.s.columns (upTo lo hi) ss.buf y
  have hd : defaultCell (markDirtyRange ss.s lo hi) = defaultCell ss.s := rfl
  unfold read
  simp only [hd]
  by_cases hy : lo ≤ y ∧ y < hi
  · obtain ⟨row, h1, h2⟩ := hs.1 ((mem_upTo lo hi y).2 hy)
    simp only [h1, h2]
    by_cases hx : x < ss.s.columns
    · simp [hy.1, hy.2, hx]
    · have : (decide (lo ≤ y) && decide (y < hi) && decide (x < ss.s.columns)) = false := by simp [hx]
      simp only [hx, if_false, this, Bool.false_eq_true]
      unfold rowOf
      cases lookup y ss.buf <;> simp [lookup]
  · have hn : y ∉ upTo lo hi := fun h => hy ((mem_upTo lo hi y).1 h)
    rw [hs.2 hn]
    have : (decide (lo ≤ y) && decide (y < hi) && decide (x < ss.s.columns)) = false := by
      simp only [Bool.and_eq_false_iff, decide_eq_false_iff_not]
      by_cases q : lo ≤ y
      · left; right; exact fun q2 => hy ⟨q, q2⟩
      · left; left; exact q
    simp [this]

theorem abs_eraseInDisplay (ss : SScreen) (how : Option Nat) :
    abs (eraseInDisplay ss how) = Memterm.eraseInDisplay (abs ss) how := by
  unfold eraseInDisplay Memterm.eraseInDisplay
  have e1 : edRows (abs ss) (how.getD 0) = edRows ss.s (how.getD 0) := rfl
  simp only [e1]
  split
  · rw [abs_eraseInLine, abs_edFill]
  · exact abs_edFill ss _ _


/-! ### index / reverse_index: the rebuilt row map -/

theorem lookup_append {α : Type} (k : Nat) (a b : List (Nat × α)) :
    lookup k (a ++ b) = match lookup k a with | some v => some v | none => lookup k b := by
  induction a with
  | nil => rfl
  | cons p r ih =>
    obtain ⟨k', v⟩ := p
    simp only [List.cons_append, lookup]
    split <;> simp [ih]

theorem lookup_map_range {α : Type} (n k : Nat) (f : Nat → α) :
    lookup k ((List.range n).map fun y => (y, f y)) = if k < n then some (f k) else none := by
  induction n with
  | zero => simp [lookup]
  | succ n ih =>
    rw [List.range_succ, List.map_append, lookup_append, ih]
    by_cases h : k < n
    · have : k < n + 1 := by omega
      simp [h, this]
    · simp only [h, if_false, List.map_cons, List.map_nil, lookup]
      by_cases e : n = k
      · subst e; simp
      · have h1 : (n == k) = false := by simpa using e
        have h2 : ¬ k < n + 1 := by omega
        simp [h1, h2]

theorem read_rebuild (ss : SScreen) (s' : Screen) (src : Nat → Option Nat) (y x : Nat)
    (hm : s'.mode Gen.DECSCNM = ss.s.mode Gen.DECSCNM) (hl : ss.s.lines = n) :
    read { s := s', buf := rebuild n src ss.buf } y x =
      if y < n then (match src y with | some y' => read ss y' x | none => defaultCell ss.s) else defaultCell ss.s := by
  have hd : defaultCell s' = defaultCell ss.s := by simp [defaultCell, defaultAttr, hm]
  unfold read rebuild
  simp only [lookup_map_range, hd]
  by_cases h : y < n
  · simp only [h, if_true]
    cases src y with
    | none => simp [lookup]
    | some y' => exact read_rowOf ss y' x
  · simp [h]

theorem abs_index (ss : SScreen) (h : Inv (abs ss)) : abs (index ss) = Memterm.index (abs ss) := by
  unfold index Memterm.index
  have e1 : topMargin (abs ss) = topMargin ss.s := rfl
  have e2 : bottomMargin (abs ss) = bottomMargin ss.s := rfl
  have e3 : (abs ss).cursor = ss.s.cursor := rfl
  simp only [e1, e2, e3]
  split
  · refine abs_eq rfl (fun y x => ?_)
    rw [read_rebuild ss (markAllDirty ss.s) _ _ _ rfl rfl]
    show _ = if (decide (topMargin ss.s ≤ y) && decide (y < bottomMargin ss.s)) = true then read ss (y + 1) x
      else if (y == bottomMargin ss.s) = true then defaultCell (abs ss) else read ss y x
    have hdc : defaultCell (abs ss) = defaultCell ss.s := rfl
    rw [hdc]
    by_cases hy : y < ss.s.lines
    · simp only [hy, if_true]
      by_cases c1 : (decide (topMargin ss.s ≤ y) && decide (y < bottomMargin ss.s)) = true
      · simp [c1]
      · simp only [c1, if_false, Bool.false_eq_true]
        by_cases c2 : (y == bottomMargin ss.s) = true
        · simp [c2]
        · simp [c2]
    · have hb : bottomMargin ss.s < ss.s.lines := bottomMargin_lt (s := abs ss) h
      have c1 : ¬ (decide (topMargin ss.s ≤ y) && decide (y < bottomMargin ss.s)) = true := by
        simp only [Bool.and_eq_true, decide_eq_true_eq]; omega
      have c2 : ¬ (y == bottomMargin ss.s) = true := by simp; omega
      simp only [hy, if_false, c1, c2]
      exact (h.outside y x (by show ¬ (y < ss.s.lines ∧ x < ss.s.columns); omega)).symm
  · rfl

theorem abs_linefeed (ss : SScreen) (h : Inv (abs ss)) : abs (linefeed ss) = Memterm.linefeed (abs ss) := by
  unfold linefeed Memterm.linefeed
  simp only
  rw [← abs_index ss h]
  have : (abs (index ss)).mode Gen.LNM = (index ss).s.mode Gen.LNM := rfl
  rw [this]
  split
  · rfl
  · rfl

theorem abs_reverseIndex (ss : SScreen) (h : Inv (abs ss)) : abs (reverseIndex ss) = Memterm.reverseIndex (abs ss) := by
  unfold reverseIndex Memterm.reverseIndex
  have e1 : topMargin (abs ss) = topMargin ss.s := rfl
  have e2 : bottomMargin (abs ss) = bottomMargin ss.s := rfl
  have e3 : (abs ss).cursor = ss.s.cursor := rfl
  simp only [e1, e2, e3]
  split
  · refine abs_eq rfl (fun y x => ?_)
    rw [read_rebuild ss (markAllDirty ss.s) _ _ _ rfl rfl]
    show _ = if (decide (topMargin ss.s < y) && decide (y ≤ bottomMargin ss.s)) = true then read ss (y - 1) x
      else if (y == topMargin ss.s) = true then defaultCell (abs ss) else read ss y x
    have hdc : defaultCell (abs ss) = defaultCell ss.s := rfl
    rw [hdc]
    by_cases hy : y < ss.s.lines
    · simp only [hy, if_true]
      by_cases c1 : (decide (topMargin ss.s < y) && decide (y ≤ bottomMargin ss.s)) = true
      · simp [c1]
      · simp only [c1, if_false, Bool.false_eq_true]
        by_cases c2 : (y == topMargin ss.s) = true
        · simp [c2]
        · simp [c2]
    · have hb : bottomMargin ss.s < ss.s.lines := bottomMargin_lt (s := abs ss) h
      have ht : topMargin ss.s < ss.s.lines := topMargin_lt (s := abs ss) h
      have c1 : ¬ (decide (topMargin ss.s < y) && decide (y ≤ bottomMargin ss.s)) = true := by
        simp only [Bool.and_eq_true, decide_eq_true_eq]; omega
      have c2 : ¬ (y == topMargin ss.s) = true := by simp; omega
      simp only [hy, if_false, c1, c2]
      exact (h.outside y x (by show ¬ (y < ss.s.lines ∧ x < ss.s.columns); omega)).symm
  · rfl


/-! ### insert_lines / delete_lines: the same two loops one level up (rows instead of cells) -/

def getM {α : Type} (d : α) (m : List (Nat × α)) (k : Nat) : α := (lookup k m).getD d

theorem getM_insert {α : Type} (d : α) (m : List (Nat × α)) (k k' : Nat) (v : α) :
    getM d (insert k v m) k' = if k = k' then v else getM d m k' := by
  unfold getM; rw [lookup_insert]; split <;> simp

theorem getM_erase {α : Type} (d : α) (m : List (Nat × α)) (k k' : Nat) :
    getM d (erase k m) k' = if k = k' then d else getM d m k' := by
  unfold getM; rw [lookup_erase]; split <;> simp

/-- rows `hi..=bottom` have been processed by the IL loop -/
def IlInv (n bottom : Nat) (b0 : Buf) (hi : Nat) (b : Buf) : Prop :=
  ∀ k, getM [] b k =
    if hi ≤ k ∧ k ≤ bottom then (if k < hi + n then [] else getM [] b0 (k - n)) else getM [] b0 k

theorem il_step (n bottom : Nat) (b0 b : Buf) (y : Nat) (hn : 1 ≤ n) (hy : y ≤ bottom)
    (hP : IlInv n bottom b0 (y + 1) b) :
    IlInv n bottom b0 y
      (if y + n ≤ bottom then
        match lookup y b with
        | some line => insert (y + n) line (erase y b)
        | none => b
       else erase y b) := by
  intro k
  have hsrc : getM [] b y = getM [] b0 y := by
    have := hP y
    have c : ¬ (y + 1 ≤ y ∧ y ≤ bottom) := by omega
    simpa [c] using this
  by_cases hmove : y + n ≤ bottom
  · simp only [hmove, if_true]
    have key : ∀ k, getM ([] : Row) (match lookup y b with
        | some line => insert (y + n) line (erase y b)
        | none => b) k =
        if y + n = k then getM [] b y else if y = k then [] else getM [] b k := by
      intro k
      cases hl : lookup y b with
      | some line =>
        simp only [getM_insert, getM_erase]
        have : getM [] b y = line := by simp [getM, hl]
        rw [this]
      | none =>
        have h1 : getM ([] : Row) b y = [] := by simp [getM, hl]
        have h2 : getM ([] : Row) b (y + n) = [] := by
          have := hP (y + n)
          have c1 : y + 1 ≤ y + n ∧ y + n ≤ bottom := by omega
          have c2 : y + n < y + 1 + n := by omega
          simpa [c1, c2] using this
        simp only [h1]
        by_cases a : y + n = k
        · subst a; simp [h2]
        · by_cases c : y = k
          · subst c; simp [a, h1]
          · simp [a, c]
    rw [key k, hsrc]
    by_cases a : y + n = k
    · subst a
      have r1 : y ≤ y + n ∧ y + n ≤ bottom := by omega
      have r2 : ¬ (y + n < y + n) := by omega
      simp [r1, r2]
    · simp only [a, if_false]
      by_cases c : y = k
      · subst c
        have r1 : y ≤ y ∧ y ≤ bottom := ⟨Nat.le_refl _, hy⟩
        have r2 : y < y + n := by omega
        simp [r1, r2]
      · simp only [c, if_false, hP k]
        by_cases q1 : y + 1 ≤ k ∧ k ≤ bottom
        · have q2 : y ≤ k ∧ k ≤ bottom := by omega
          simp only [q1, q2, and_self, if_true]
          by_cases q3 : k < y + 1 + n
          · have : k < y + n := by omega
            simp [q3, this]
          · have : ¬ k < y + n := by omega
            simp [q3, this]
        · have q2 : ¬ (y ≤ k ∧ k ≤ bottom) := by omega
          simp [q1, q2]
  · simp only [hmove, if_false, getM_erase]
    by_cases c : y = k
    · subst c
      have r1 : y ≤ y ∧ y ≤ bottom := ⟨Nat.le_refl _, hy⟩
      have r2 : y < y + n := by omega
      simp [r1, r2]
    · simp only [c, if_false, hP k]
      by_cases q1 : y + 1 ≤ k ∧ k ≤ bottom
      · have q2 : y ≤ k ∧ k ≤ bottom := by omega
        have q3 : k < y + 1 + n := by omega
        have q4 : k < y + n := by omega
        simp [q1, q2, q3, q4]
      · have q2 : ¬ (y ≤ k ∧ k ≤ bottom) := by omega
        simp [q1, q2]

theorem il_loop (n bottom lo : Nat) (b0 : Buf) (hn : 1 ≤ n) :
    ∀ hi, lo ≤ hi → hi ≤ bottom + 1 → ∀ b, IlInv n bottom b0 hi b →
      IlInv n bottom b0 lo (ilLoop n bottom (downFrom lo hi) b) := by
  intro hi
  induction hi with
  | zero =>
    intro hlo _ b hP
    have : lo = 0 := by omega
    subst this
    simpa [downFrom, ilLoop] using hP
  | succ h ih =>
    intro hlo hhi b hP
    by_cases hl : lo ≤ h
    · simp only [downFrom, hl, if_true, ilLoop]
      exact ih hl (by omega) _ (il_step n bottom b0 b h hn (by omega) hP)
    · have : lo = h + 1 := by omega
      subst this
      simpa [downFrom, hl, ilLoop] using hP

theorem read_getM (ss : SScreen) (b : Buf) (s' : Screen) (y x : Nat)
    (hm : s'.mode Gen.DECSCNM = ss.s.mode Gen.DECSCNM) :
    read { s := s', buf := b } y x = (lookup x (getM [] b y)).getD (defaultCell ss.s) := by
  have hd : defaultCell s' = defaultCell ss.s := by simp [defaultCell, defaultAttr, hm]
  unfold read getM
  simp only [hd]
  cases lookup y b <;> simp [lookup]

theorem nz_pos (n : Option Nat) : 1 ≤ nz n := by
  cases n with
  | none => decide
  | some k => cases k <;> simp [nz]

theorem abs_insertLines (ss : SScreen) (n : Option Nat) :
    abs (insertLines ss n) = Memterm.insertLines (abs ss) n := by
  unfold insertLines Memterm.insertLines
  have e1 : topMargin (abs ss) = topMargin ss.s := rfl
  have e2 : bottomMargin (abs ss) = bottomMargin ss.s := rfl
  have e3 : (abs ss).cursor = ss.s.cursor := rfl
  simp only [e1, e2, e3]
  split
  · rename_i hin
    simp only [Bool.and_eq_true, decide_eq_true_eq] at hin
    refine abs_eq rfl (fun y x => ?_)
    rw [read_getM ss _ (cariageReturn (markDirtyRange ss.s ss.s.cursor.y ss.s.lines)) _ _ rfl]
    show _ = if (decide (ss.s.cursor.y ≤ y) && decide (y ≤ bottomMargin ss.s)) = true then
      (if y < ss.s.cursor.y + nz n then defaultCell (abs ss) else read ss (y - nz n) x) else read ss y x
    have hdc : defaultCell (abs ss) = defaultCell ss.s := rfl
    rw [hdc]
    have h0 : IlInv (nz n) (bottomMargin ss.s) ss.buf (bottomMargin ss.s + 1) ss.buf := by
      intro k
      have : ¬ (bottomMargin ss.s + 1 ≤ k ∧ k ≤ bottomMargin ss.s) := by omega
      simp [this]
    have := il_loop (nz n) (bottomMargin ss.s) ss.s.cursor.y ss.buf (nz_pos n) (bottomMargin ss.s + 1)
      (by omega) (Nat.le_refl _) _ h0 y
    rw [this]
    have hr : ∀ y', (lookup x (getM [] ss.buf y')).getD (defaultCell ss.s) = read ss y' x := by
      intro y'; exact read_rowOf ss y' x
    by_cases q : ss.s.cursor.y ≤ y ∧ y ≤ bottomMargin ss.s
    · simp only [q, and_self, if_true, decide_true, Bool.and_self]
      by_cases q2 : y < ss.s.cursor.y + nz n
      · simp [q2, lookup]
      · simp only [q2, if_false]; exact hr _
    · have : (decide (ss.s.cursor.y ≤ y) && decide (y ≤ bottomMargin ss.s)) = false := by
        simp only [Bool.and_eq_false_iff, decide_eq_false_iff_not]
        by_cases a : ss.s.cursor.y ≤ y
        · right; exact fun b => q ⟨a, b⟩
        · left; exact a
      simp only [q, if_false, this, Bool.false_eq_true]; exact hr _
  · rfl


def DlInv (n bottom cy : Nat) (b0 : Buf) (j : Nat) (b : Buf) : Prop :=
  ∀ k, getM [] b k =
    if cy ≤ k ∧ k < j then (if k + n ≤ bottom then getM [] b0 (k + n) else [])
    else if j ≤ k ∧ cy + n ≤ k ∧ k < j + n ∧ k ≤ bottom then []
    else getM [] b0 k

theorem dl_step (n bottom cy : Nat) (b0 b : Buf) (j : Nat) (hn : 1 ≤ n) (hj : cy ≤ j)
    (hP : DlInv n bottom cy b0 j b) :
    DlInv n bottom cy b0 (j + 1)
      (if j + n ≤ bottom then
        match lookup (j + n) b with
        | some line => insert j line (erase (j + n) b)
        | none => erase j b
       else erase j b) := by
  intro k
  have hsrc : getM [] b (j + n) = getM [] b0 (j + n) := by
    have := hP (j + n)
    have c1 : ¬ (cy ≤ j + n ∧ j + n < j) := by omega
    have c2 : ¬ (j ≤ j + n ∧ cy + n ≤ j + n ∧ j + n < j + n ∧ j + n ≤ bottom) := by omega
    simpa [c1, c2] using this
  by_cases hmove : j + n ≤ bottom
  · simp only [hmove, if_true]
    have key : ∀ k, getM ([] : Row) (match lookup (j + n) b with
        | some line => insert j line (erase (j + n) b)
        | none => erase j b) k =
        if j = k then getM [] b (j + n) else if j + n = k then [] else getM [] b k := by
      intro k
      cases hl : lookup (j + n) b with
      | some c =>
        simp only [getM_insert, getM_erase]
        have : getM [] b (j + n) = c := by simp [getM, hl]
        rw [this]
      | none =>
        simp only [getM_erase]
        have h1 : getM ([] : Row) b (j + n) = [] := by simp [getM, hl]
        rw [h1]
        by_cases a : j = k
        · simp [a]
        · simp only [a, if_false]
          by_cases c : j + n = k
          · subst c; simp [h1]
          · simp [c]
    rw [key k]
    by_cases a : j = k
    · subst a
      have r1 : cy ≤ j ∧ j < j + 1 := ⟨hj, by omega⟩
      simp [r1, hmove, hsrc]
    · simp only [a, if_false]
      by_cases c : j + n = k
      · subst c
        have r1 : ¬ (cy ≤ j + n ∧ j + n < j + 1) := by omega
        have r2 : j + 1 ≤ j + n ∧ cy + n ≤ j + n ∧ j + n < j + 1 + n ∧ j + n ≤ bottom := by omega
        rw [if_neg r1, if_pos r2]
        simp
      · simp only [c, if_false, hP k]
        by_cases q1 : cy ≤ k ∧ k < j
        · have q2 : cy ≤ k ∧ k < j + 1 := by omega
          simp [q1, q2]
        · have q2 : ¬ (cy ≤ k ∧ k < j + 1) := by omega
          simp only [q1, q2, if_false]
          by_cases q3 : j ≤ k ∧ cy + n ≤ k ∧ k < j + n ∧ k ≤ bottom
          · have q4 : j + 1 ≤ k ∧ cy + n ≤ k ∧ k < j + 1 + n ∧ k ≤ bottom := by omega
            simp [q3, q4]
          · have q4 : ¬ (j + 1 ≤ k ∧ cy + n ≤ k ∧ k < j + 1 + n ∧ k ≤ bottom) := by omega
            simp [q3, q4]
  · simp only [hmove, if_false, getM_erase]
    by_cases a : j = k
    · subst a
      have r1 : cy ≤ j ∧ j < j + 1 := ⟨hj, by omega⟩
      simp [r1, hmove]
    · simp only [a, if_false, hP k]
      by_cases q1 : cy ≤ k ∧ k < j
      · have q2 : cy ≤ k ∧ k < j + 1 := by omega
        simp [q1, q2]
      · have q2 : ¬ (cy ≤ k ∧ k < j + 1) := by omega
        simp only [q1, q2, if_false]
        by_cases q3 : j ≤ k ∧ cy + n ≤ k ∧ k < j + n ∧ k ≤ bottom
        · have q4 : j + 1 ≤ k ∧ cy + n ≤ k ∧ k < j + 1 + n ∧ k ≤ bottom := by omega
          simp [q3, q4]
        · have q4 : ¬ (j + 1 ≤ k ∧ cy + n ≤ k ∧ k < j + 1 + n ∧ k ≤ bottom) := by omega
          simp [q3, q4]

theorem dl_loop (n bottom cy : Nat) (b0 : Buf) (hn : 1 ≤ n) :
    ∀ f j b, cy ≤ j → DlInv n bottom cy b0 j b →
      DlInv n bottom cy b0 (j + f) (dlLoop n bottom (upToF j f) b) := by
  intro f
  induction f with
  | zero => intro j b _ hP; simpa [upToF, dlLoop] using hP
  | succ f ih =>
    intro j b hj hP
    simp only [upToF, dlLoop]
    have := ih (j + 1) _ (by omega) (dl_step n bottom cy b0 b j hn hj hP)
    have e : j + 1 + f = j + (f + 1) := by omega
    rw [e] at this
    exact this

theorem abs_deleteLines (ss : SScreen) (n : Option Nat) :
    abs (deleteLines ss n) = Memterm.deleteLines (abs ss) n := by
  unfold deleteLines Memterm.deleteLines
  have e1 : topMargin (abs ss) = topMargin ss.s := rfl
  have e2 : bottomMargin (abs ss) = bottomMargin ss.s := rfl
  have e3 : (abs ss).cursor = ss.s.cursor := rfl
  simp only [e1, e2, e3]
  split
  · rename_i hin
    simp only [Bool.and_eq_true, decide_eq_true_eq] at hin
    refine abs_eq rfl (fun y x => ?_)
    rw [read_getM ss _ (cariageReturn (markDirtyRange ss.s ss.s.cursor.y ss.s.lines)) _ _ rfl]
    show _ = if (decide (ss.s.cursor.y ≤ y) && decide (y ≤ bottomMargin ss.s)) = true then
      (if y + nz n ≤ bottomMargin ss.s then read ss (y + nz n) x else defaultCell (abs ss)) else read ss y x
    have hdc : defaultCell (abs ss) = defaultCell ss.s := rfl
    rw [hdc]
    have h0 : DlInv (nz n) (bottomMargin ss.s) ss.s.cursor.y ss.buf ss.s.cursor.y ss.buf := by
      intro k
      have c1 : ¬ (ss.s.cursor.y ≤ k ∧ k < ss.s.cursor.y) := by omega
      have c2 : ¬ (ss.s.cursor.y ≤ k ∧ ss.s.cursor.y + nz n ≤ k ∧ k < ss.s.cursor.y + nz n ∧ k ≤ bottomMargin ss.s) := by omega
      simp [c1, c2]
    have := dl_loop (nz n) (bottomMargin ss.s) ss.s.cursor.y ss.buf (nz_pos n)
      (bottomMargin ss.s + 1 - ss.s.cursor.y) ss.s.cursor.y _ (Nat.le_refl _) h0 y
    have e : ss.s.cursor.y + (bottomMargin ss.s + 1 - ss.s.cursor.y) = bottomMargin ss.s + 1 := by omega
    rw [e] at this
    unfold upTo
    rw [this]
    have hr : ∀ y', (lookup x (getM [] ss.buf y')).getD (defaultCell ss.s) = read ss y' x := by
      intro y'; exact read_rowOf ss y' x
    by_cases q : ss.s.cursor.y ≤ y ∧ y ≤ bottomMargin ss.s
    · have q' : ss.s.cursor.y ≤ y ∧ y < bottomMargin ss.s + 1 := by omega
      simp only [q, q', and_self, if_true, decide_true, Bool.and_self]
      by_cases q2 : y + nz n ≤ bottomMargin ss.s
      · simp only [q2, if_true]; exact hr _
      · simp [q2, lookup]
    · have q' : ¬ (ss.s.cursor.y ≤ y ∧ y < bottomMargin ss.s + 1) := by omega
      have q'' : ¬ (bottomMargin ss.s + 1 ≤ y ∧ ss.s.cursor.y + nz n ≤ y ∧ y < bottomMargin ss.s + 1 + nz n ∧ y ≤ bottomMargin ss.s) := by omega
      have : (decide (ss.s.cursor.y ≤ y) && decide (y ≤ bottomMargin ss.s)) = false := by
        simp only [Bool.and_eq_false_iff, decide_eq_false_iff_not]
        by_cases a : ss.s.cursor.y ≤ y
        · right; exact fun b => q ⟨a, b⟩
        · left; exact a
      simp only [q', q'', if_false, this, Bool.false_eq_true]; exact hr _
  · rfl

end Sparse
end Memterm
