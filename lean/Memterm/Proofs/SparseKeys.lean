import Memterm.Proofs.SparseStep

/-
  NOTHING HIDDEN, at the level of the HashMap: every row key of the buffer is a row of the screen
  and every cell key a column of it, in every reachable sparse state.  (The observable half of this,
  `Inv.outside`, is a clause of the dense invariant; this is the representation half: what
  `HIDDEN` checks on every dumped implementation state.)
-/
namespace Memterm
namespace Sparse

open Gen

/-- all keys of a finite map are below `n` -/
def Bounded {α : Type} (n : Nat) (m : List (Nat × α)) : Prop := ∀ k v, lookup k m = some v → k < n

theorem bounded_nil {α : Type} (n : Nat) : Bounded n ([] : List (Nat × α)) := by
  intro k v h; simp [lookup] at h

theorem bounded_insert {α : Type} {n : Nat} {m : List (Nat × α)} (k : Nat) (v : α) (hk : k < n)
    (h : Bounded n m) : Bounded n (insert k v m) := by
  intro k' v' hl
  rw [lookup_insert] at hl
  by_cases e : k = k'
  · subst e; exact hk
  · simp only [e, if_false] at hl; exact h k' v' hl

theorem bounded_erase {α : Type} {n : Nat} {m : List (Nat × α)} (k : Nat) (h : Bounded n m) :
    Bounded n (erase k m) := by
  intro k' v' hl
  rw [lookup_erase] at hl
  by_cases e : k = k'
  · simp [e] at hl
  · simp only [e, if_false] at hl; exact h k' v' hl

theorem bounded_mono {α : Type} {n n' : Nat} {m : List (Nat × α)} (hn : n ≤ n') (h : Bounded n m) :
    Bounded n' m := fun k v hl => Nat.lt_of_lt_of_le (h k v hl) hn

/-- every row key is a row, every cell key a column -/
structure KeysIn (ss : SScreen) : Prop where
  rows : Bounded ss.s.lines ss.buf
  cells : ∀ y row, lookup y ss.buf = some row → Bounded ss.s.columns row

theorem bounded_rowOf {b : Buf} {n : Nat} (h : ∀ y row, lookup y b = some row → Bounded n row) (y : Nat) :
    Bounded n (rowOf b y) := by
  unfold rowOf
  cases hl : lookup y b with
  | none => exact bounded_nil n
  | some row => exact h y row hl

theorem mem_downFrom (lo hi k : Nat) (h : k ∈ downFrom lo hi) : lo ≤ k ∧ k < hi := by
  induction hi with
  | zero => simp [downFrom] at h
  | succ n ih =>
    unfold downFrom at h
    split at h
    · cases List.mem_cons.1 h with
      | inl e => subst e; omega
      | inr e => have := ih e; omega
    · simp at h

/-! ### the loops keep the keys inside -/

theorem bounded_ichLoop (d : Cell) (n cols : Nat) (xs : List Nat) (hx : ∀ x ∈ xs, x < cols) (row : Row)
    (h : Bounded cols row) : Bounded cols (ichLoop d n cols xs row) := by
  induction xs generalizing row with
  | nil => exact h
  | cons x xs ih =>
    simp only [ichLoop]
    apply ih (fun x' hx' => hx x' (List.mem_cons_of_mem _ hx'))
    apply bounded_insert x d (hx x (List.mem_cons_self ..))
    split
    · rename_i hlt; exact bounded_insert _ _ hlt h
    · exact h

theorem bounded_dchLoop (d : Cell) (n cols : Nat) (xs : List Nat) (hx : ∀ x ∈ xs, x < cols) (row : Row)
    (h : Bounded cols row) : Bounded cols (dchLoop d n cols xs row) := by
  induction xs generalizing row with
  | nil => exact h
  | cons x xs ih =>
    simp only [dchLoop]
    apply ih (fun x' hx' => hx x' (List.mem_cons_of_mem _ hx'))
    have hxc := hx x (List.mem_cons_self ..)
    split
    · split
      · exact bounded_insert x _ hxc (bounded_erase _ h)
      · exact bounded_insert x d hxc h
    · exact bounded_erase _ h

theorem bounded_fillLoop (v : Cell) (cols : Nat) (xs : List Nat) (hx : ∀ x ∈ xs, x < cols) (row : Row)
    (h : Bounded cols row) : Bounded cols (fillLoop v xs row) := by
  induction xs generalizing row with
  | nil => exact h
  | cons x xs ih =>
    simp only [fillLoop]
    exact ih (fun x' hx' => hx x' (List.mem_cons_of_mem _ hx')) _
      (bounded_insert x v (hx x (List.mem_cons_self ..)) h)


theorem keysIn_of_eq {ss : SScreen} (h : KeysIn ss) (s' : Screen) (hl : s'.lines = ss.s.lines)
    (hc : s'.columns = ss.s.columns) : KeysIn { ss with s := s' } :=
  ⟨by rw [show ({ ss with s := s' } : SScreen).s.lines = ss.s.lines from hl]; exact h.rows,
   by intro y row hr; rw [show ({ ss with s := s' } : SScreen).s.columns = ss.s.columns from hc]; exact h.cells y row hr⟩

theorem keysIn_insertRow {ss : SScreen} (h : KeysIn ss) (s' : Screen) (hl : s'.lines = ss.s.lines)
    (hc : s'.columns = ss.s.columns) (y0 : Nat) (row : Row) (hy : y0 < ss.s.lines) (hr : Bounded ss.s.columns row) :
    KeysIn { s := s', buf := insert y0 row ss.buf } := by
  constructor
  · show Bounded s'.lines (insert y0 row ss.buf)
    rw [hl]; exact bounded_insert y0 row hy h.rows
  · intro y r hl'
    show Bounded s'.columns r
    rw [hc]
    rw [lookup_insert] at hl'
    by_cases e : y0 = y
    · simp only [e, if_true, Option.some.injEq] at hl'; rw [← hl']; exact hr
    · simp only [e, if_false] at hl'; exact h.cells y r hl'

theorem mem_upTo_lt (lo hi x : Nat) (h : x ∈ upTo lo hi) : x < hi := ((mem_upTo lo hi x).1 h).2

theorem keysIn_insertCharacters {ss : SScreen} (h : KeysIn ss) (hy : ss.s.cursor.y < ss.s.lines) (n : Option Nat) :
    KeysIn (insertCharacters ss n) := by
  unfold insertCharacters
  exact keysIn_insertRow h (markDirty ss.s ss.s.cursor.y) rfl rfl _ _ hy
    (bounded_ichLoop _ _ _ _ (fun x hx => (mem_downFrom _ _ _ hx).2) _ (bounded_rowOf h.cells _))

theorem keysIn_deleteCharacters {ss : SScreen} (h : KeysIn ss) (hy : ss.s.cursor.y < ss.s.lines) (n : Option Nat) :
    KeysIn (deleteCharacters ss n) := by
  unfold deleteCharacters
  exact keysIn_insertRow h (markDirty ss.s ss.s.cursor.y) rfl rfl _ _ hy
    (bounded_dchLoop _ _ _ _ (fun x hx => mem_upTo_lt _ _ _ hx) _ (bounded_rowOf h.cells _))

theorem keysIn_eraseCharacters {ss : SScreen} (h : KeysIn ss) (hy : ss.s.cursor.y < ss.s.lines) (n : Option Nat) :
    KeysIn (eraseCharacters ss n) := by
  unfold eraseCharacters
  refine keysIn_insertRow h (markDirty ss.s ss.s.cursor.y) rfl rfl _ _ hy
    (bounded_fillLoop _ _ _ (fun x hx => ?_) _ (bounded_rowOf h.cells _))
  have := mem_upTo_lt _ _ _ hx
  omega

theorem keysIn_eraseInLine {ss : SScreen} (h : KeysIn ss) (hy : ss.s.cursor.y < ss.s.lines)
    (hc : 1 ≤ ss.s.columns) (how : Option Nat) : KeysIn (eraseInLine ss how) := by
  unfold eraseInLine
  simp only
  cases hl : elList ss.s (how.getD 0) with
  | none => exact keysIn_of_eq h (markDirty ss.s ss.s.cursor.y) rfl rfl
  | some xs =>
    simp only
    refine keysIn_insertRow h (markDirty ss.s ss.s.cursor.y) rfl rfl _ _ hy
      (bounded_fillLoop _ _ _ (fun x hx => ?_) _ (bounded_rowOf h.cells _))
    unfold elList at hl
    split at hl
    · cases hl; exact mem_upTo_lt _ _ _ hx
    · cases hl; have := mem_upTo_lt _ _ _ hx; omega
    · cases hl; exact mem_upTo_lt _ _ _ hx
    · cases hl

theorem keysIn_edLoop (v : Cell) (s' : Screen) (ys : List Nat) :
    ∀ (ss : SScreen), KeysIn ss → s'.lines = ss.s.lines → s'.columns = ss.s.columns → (∀ y ∈ ys, y < ss.s.lines) →
      KeysIn { s := s', buf := edLoop v ss.s.columns ys ss.buf } := by
  induction ys with
  | nil => intro ss h hl hc _; exact keysIn_of_eq h s' hl hc
  | cons y ys ih =>
    intro ss h hl hc hy
    simp only [edLoop]
    have h1 : KeysIn { s := ss.s, buf := insert y (fillLoop v (upTo 0 ss.s.columns) (rowOf ss.buf y)) ss.buf } :=
      keysIn_insertRow h ss.s rfl rfl y _ (hy y (List.mem_cons_self ..))
        (bounded_fillLoop _ _ _ (fun x hx => mem_upTo_lt _ _ _ hx) _ (bounded_rowOf h.cells _))
    exact ih _ h1 hl hc (fun y' hy' => hy y' (List.mem_cons_of_mem _ hy'))

theorem edRows_le' (s : Screen) (hy : s.cursor.y < s.lines) (k : Nat) : (edRows s k).2 ≤ s.lines := by
  unfold edRows
  split <;> simp <;> omega

theorem keysIn_eraseInDisplay {ss : SScreen} (h : KeysIn ss) (hy : ss.s.cursor.y < ss.s.lines)
    (hc : 1 ≤ ss.s.columns) (how : Option Nat) : KeysIn (eraseInDisplay ss how) := by
  unfold eraseInDisplay
  simp only
  have h2 := keysIn_edLoop (cursorCell ss.s) (markDirtyRange ss.s (edRows ss.s (how.getD 0)).1 (edRows ss.s (how.getD 0)).2)
      (upTo (edRows ss.s (how.getD 0)).1 (edRows ss.s (how.getD 0)).2) ss h rfl rfl (fun y hy' => by
      have := mem_upTo_lt _ _ _ hy'
      have := edRows_le' ss.s hy (how.getD 0)
      omega)
  split
  · exact keysIn_eraseInLine h2 hy hc _
  · exact h2


/-! ### rows: index / reverse index / IL / DL -/

theorem keysIn_rebuild {ss : SScreen} (h : KeysIn ss) (s' : Screen) (hl : s'.lines = ss.s.lines)
    (hc : s'.columns = ss.s.columns) (src : Nat → Option Nat) :
    KeysIn { s := s', buf := rebuild ss.s.lines src ss.buf } := by
  constructor
  · intro k v hk
    show k < s'.lines
    rw [hl]
    unfold rebuild at hk
    rw [lookup_map_range] at hk
    by_cases q : k < ss.s.lines
    · exact q
    · simp [q] at hk
  · intro y row hr
    show Bounded s'.columns row
    rw [hc]
    unfold rebuild at hr
    rw [lookup_map_range] at hr
    by_cases q : y < ss.s.lines
    · simp only [q, if_true, Option.some.injEq] at hr
      rw [← hr]
      cases src y with
      | none => exact bounded_nil _
      | some y' => exact bounded_rowOf h.cells y'
    · simp [q] at hr

theorem keysIn_index {ss : SScreen} (h : KeysIn ss) : KeysIn (index ss) := by
  unfold index
  simp only
  split
  · exact keysIn_rebuild h (markAllDirty ss.s) rfl rfl _
  · exact keysIn_of_eq h _ rfl rfl

theorem keysIn_linefeed {ss : SScreen} (h : KeysIn ss) : KeysIn (linefeed ss) := by
  unfold linefeed
  simp only
  have h1 := keysIn_index h
  split
  · exact keysIn_of_eq h1 _ rfl rfl
  · exact h1

theorem keysIn_reverseIndex {ss : SScreen} (h : KeysIn ss) : KeysIn (reverseIndex ss) := by
  unfold reverseIndex
  simp only
  split
  · exact keysIn_rebuild h (markAllDirty ss.s) rfl rfl _
  · exact keysIn_of_eq h _ rfl rfl

/-- a buffer whose rows and cells are inside `lines x cols` -/
structure BufIn (lines cols : Nat) (b : Buf) : Prop where
  rows : Bounded lines b
  cells : ∀ y row, lookup y b = some row → Bounded cols row

theorem bufIn_insert {lines cols : Nat} {b : Buf} (h : BufIn lines cols b) (y : Nat) (row : Row)
    (hy : y < lines) (hr : Bounded cols row) : BufIn lines cols (insert y row b) := by
  constructor
  · exact bounded_insert y row hy h.rows
  · intro y' r hl
    rw [lookup_insert] at hl
    by_cases e : y = y'
    · simp only [e, if_true, Option.some.injEq] at hl; rw [← hl]; exact hr
    · simp only [e, if_false] at hl; exact h.cells y' r hl

theorem bufIn_erase {lines cols : Nat} {b : Buf} (h : BufIn lines cols b) (y : Nat) : BufIn lines cols (erase y b) := by
  constructor
  · exact bounded_erase y h.rows
  · intro y' r hl
    rw [lookup_erase] at hl
    by_cases e : y = y'
    · simp [e] at hl
    · simp only [e, if_false] at hl; exact h.cells y' r hl

theorem bufIn_ilLoop (lines cols n bottom : Nat) (hb : bottom < lines) (ys : List Nat) (b : Buf)
    (h : BufIn lines cols b) : BufIn lines cols (ilLoop n bottom ys b) := by
  induction ys generalizing b with
  | nil => exact h
  | cons y ys ih =>
    simp only [ilLoop]
    apply ih
    split
    · rename_i hle
      cases hl : lookup y b with
      | none => exact h
      | some line => exact bufIn_insert (bufIn_erase h y) _ line (by omega) (h.cells y line hl)
    · exact bufIn_erase h y

theorem keysIn_insertLines {ss : SScreen} (h : KeysIn ss) (hi : Inv (abs ss)) (n : Option Nat) :
    KeysIn (insertLines ss n) := by
  unfold insertLines
  simp only
  split
  · have hb : bottomMargin ss.s < ss.s.lines := bottomMargin_lt (s := abs ss) hi
    have := bufIn_ilLoop ss.s.lines ss.s.columns (nz n) (bottomMargin ss.s) hb
      (downFrom ss.s.cursor.y (bottomMargin ss.s + 1)) ss.buf ⟨h.rows, h.cells⟩
    exact ⟨this.rows, this.cells⟩
  · exact h

/-- the DL loop: rows stay inside, and every processed key that is still present has its source inside the region -/
theorem dlLoop_keys (lines cols n bottom : Nat) (hb : bottom < lines) :
    ∀ f j b, BufIn lines cols b → (∀ k v, lookup k b = some v → k < j → cy ≤ k → k + n ≤ bottom) →
      BufIn lines cols (dlLoop n bottom (upToF j f) b) ∧
      (∀ k v, lookup k (dlLoop n bottom (upToF j f) b) = some v → k < j + f → cy ≤ k → k + n ≤ bottom) := by
  intro f
  induction f with
  | zero => intro j b h hk; exact ⟨h, fun k v hl hlt hc => hk k v hl (by omega) hc⟩
  | succ f ih =>
    intro j b h hk
    simp only [upToF, dlLoop]
    have e : j + (f + 1) = j + 1 + f := by omega
    rw [e]
    apply ih (j + 1)
    · split
      · rename_i hle
        cases hl : lookup (j + n) b with
        | none => exact bufIn_erase h j
        | some line => exact bufIn_insert (bufIn_erase h _) j line (by omega) (h.cells _ line hl)
      · exact bufIn_erase h j
    · intro k v hl hlt hc
      by_cases ek : k = j
      · subst ek
        split at hl
        · rename_i hle; exact hle
        · rw [lookup_erase] at hl; simp at hl
      · have hkj : k < j := by omega
        apply hk k _ _ hkj hc
        · exact v
        · split at hl
          · cases hl2 : lookup (j + n) b with
            | none =>
              rw [hl2] at hl
              simp only at hl
              rw [lookup_erase] at hl
              have : ¬ j = k := fun e => ek e.symm
              simpa [this] using hl
            | some line =>
              rw [hl2] at hl
              simp only at hl
              rw [lookup_insert] at hl
              have : ¬ j = k := fun e => ek e.symm
              simp only [this, if_false] at hl
              rw [lookup_erase] at hl
              by_cases e2 : j + n = k
              · omega
              · simpa [e2] using hl
          · rw [lookup_erase] at hl
            have : ¬ j = k := fun e => ek e.symm
            simpa [this] using hl

theorem keysIn_deleteLines {ss : SScreen} (h : KeysIn ss) (hi : Inv (abs ss)) (n : Option Nat) :
    KeysIn (deleteLines ss n) := by
  unfold deleteLines
  simp only
  split
  · have hb : bottomMargin ss.s < ss.s.lines := bottomMargin_lt (s := abs ss) hi
    have := (dlLoop_keys (cy := ss.s.cursor.y) ss.s.lines ss.s.columns (nz n) (bottomMargin ss.s) hb
      (bottomMargin ss.s + 1 - ss.s.cursor.y) ss.s.cursor.y ss.buf ⟨h.rows, h.cells⟩
      (fun k v _ hlt hc => by omega)).1
    exact ⟨this.rows, this.cells⟩
  · exact h


/-! ### draw -/

theorem keysIn_touchRow {ss : SScreen} (h : KeysIn ss) (y : Nat) (hy : y < ss.s.lines) :
    KeysIn { ss with buf := touchRow y ss.buf } := by
  unfold touchRow
  cases hl : lookup y ss.buf with
  | some _ => exact h
  | none => exact keysIn_insertRow h ss.s rfl rfl y [] hy (bounded_nil _)

theorem keysIn_putChar {ss : SScreen} (h : KeysIn ss) (hy : ss.s.cursor.y < ss.s.lines)
    (hx : ss.s.cursor.x < ss.s.columns) (c w : Nat) : KeysIn (putChar ss c w) := by
  unfold putChar
  simp only
  refine keysIn_insertRow h (setCursorX ss.s (min (ss.s.cursor.x + w) ss.s.columns)) rfl rfl _ _ hy ?_
  have h1 : Bounded ss.s.columns (insert ss.s.cursor.x { data := [c], attr := ss.s.cursor.attr } (rowOf ss.buf ss.s.cursor.y)) :=
    bounded_insert _ _ hx (bounded_rowOf h.cells _)
  split
  · rename_i hw
    simp only [Bool.and_eq_true, decide_eq_true_eq] at hw
    exact bounded_insert _ _ hw.2 h1
  · exact h1

theorem keysIn_combineAt {ss : SScreen} (h : KeysIn ss) (env : Env) (s' : Screen) (hl : s'.lines = ss.s.lines)
    (hc : s'.columns = ss.s.columns) (d : Cell) (y x c : Nat) (hy : y < ss.s.lines) (hx : x < ss.s.columns) :
    KeysIn { s := s', buf := combineAt env d y x c ss.buf } := by
  unfold combineAt
  simp only
  exact keysIn_insertRow h s' hl hc y _ hy (bounded_insert _ _ hx (bounded_rowOf h.cells _))

theorem keysIn_combine {ss : SScreen} (h : KeysIn ss) (hi : Inv (abs ss)) (env : Env) (c : Nat) :
    KeysIn (combine env ss c) := by
  have hy : ss.s.cursor.y < ss.s.lines := hi.cy
  have hx : ss.s.cursor.x ≤ ss.s.columns := hi.cx
  have hc : 1 ≤ ss.s.columns := hi.cols
  have ht := keysIn_touchRow h _ hy
  unfold combine
  simp only
  split
  · exact keysIn_combineAt ht env ss.s rfl rfl _ _ _ c hy (show ss.s.cursor.x - 1 < ss.s.columns by omega)
  · split
    · exact keysIn_combineAt ht env (markDirty ss.s (ss.s.cursor.y - 1)) rfl rfl _ _ _ c
        (show ss.s.cursor.y - 1 < ss.s.lines by omega) (show ss.s.columns - 1 < ss.s.columns by omega)
    · exact ht

theorem keysIn_wrapStage {ss : SScreen} (h : KeysIn ss) (w : Nat) : KeysIn (wrapStage ss w) := by
  unfold wrapStage
  simp only
  split
  · split
    · exact keysIn_linefeed (keysIn_of_eq h _ rfl rfl)
    · exact keysIn_of_eq h _ rfl rfl
  · exact h

theorem keysIn_irmStage {ss : SScreen} (h : KeysIn ss) (hy : ss.s.cursor.y < ss.s.lines) (w : Nat) :
    KeysIn (irmStage ss w) := by
  unfold irmStage
  split
  · exact keysIn_insertCharacters h hy _
  · exact h

theorem keysIn_drawChar {ss : SScreen} (h : KeysIn ss) (hi : Inv (abs ss)) (env : Env) (c : Nat) :
    KeysIn (drawChar env ss c) := by
  unfold drawChar
  simp only
  split
  · rename_i hw
    have hw' : env.W c = 1 ∨ env.W c = 2 := by simpa using hw
    have h1 := abs_wrapStage ss (env.W c) hi
    have i1 := inv_wrapStage hi (env.W c) hw'
    rw [← h1] at i1
    have h2 := abs_irmStage (wrapStage ss (env.W c)) (env.W c) i1.1
    have i2 : Inv (abs (irmStage (wrapStage ss (env.W c)) (env.W c))) := by rw [h2]; exact (inv_irmStage i1.1 _).1
    have k1 := keysIn_wrapStage h (env.W c)
    have k2 := keysIn_irmStage k1 i1.1.cy (env.W c)
    refine keysIn_putChar k2 i2.cy ?_ c (env.W c)
    -- the cursor column after the wrap and insert stages is inside the row
    have e1 : (irmStage (wrapStage ss (env.W c)) (env.W c)).s.cursor.x = (wrapStage ss (env.W c)).s.cursor.x := by
      unfold irmStage insertCharacters; split <;> rfl
    have e2 : (irmStage (wrapStage ss (env.W c)) (env.W c)).s.columns = (wrapStage ss (env.W c)).s.columns := by
      unfold irmStage insertCharacters; split <;> rfl
    rw [e1, e2]
    exact i1.2
  · split
    · exact keysIn_combine h hi env c
    · exact keysIn_touchRow h _ hi.cy

theorem keysIn_foldl_drawChar (env : Env) (cs : List Nat) {ss : SScreen} (h : KeysIn ss) (hi : Inv (abs ss)) :
    KeysIn (cs.foldl (drawChar env) ss) := by
  induction cs generalizing ss with
  | nil => exact h
  | cons c cs ih =>
    simp only [List.foldl_cons]
    exact ih (keysIn_drawChar h hi env c) (by rw [abs_drawChar env ss c hi]; exact inv_drawChar env hi c)

theorem keysIn_draw {ss : SScreen} (h : KeysIn ss) (hi : Inv (abs ss)) (env : Env) (t : List Nat) :
    KeysIn (draw env ss t) := by
  unfold draw
  simp only
  exact keysIn_of_eq (keysIn_foldl_drawChar env _ h hi) _ rfl rfl


/-! ### alignment display, reverse video, display -/

theorem bounded_alignRow (d : Cell) (cols : Nat) (xs : List Nat) (hx : ∀ x ∈ xs, x < cols) (row : Row)
    (h : Bounded cols row) : Bounded cols (alignRow d xs row) := by
  induction xs generalizing row with
  | nil => exact h
  | cons x xs ih =>
    simp only [alignRow]
    exact ih (fun x' hx' => hx x' (List.mem_cons_of_mem _ hx')) _
      (bounded_insert x _ (hx x (List.mem_cons_self ..)) h)

theorem bufIn_alignLoop (d : Cell) (lines cols : Nat) (ys : List Nat) (hy : ∀ y ∈ ys, y < lines) (b : Buf)
    (h : BufIn lines cols b) : BufIn lines cols (alignLoop d cols ys b) := by
  induction ys generalizing b with
  | nil => exact h
  | cons y ys ih =>
    simp only [alignLoop]
    exact ih (fun y' hy' => hy y' (List.mem_cons_of_mem _ hy')) _
      (bufIn_insert h y _ (hy y (List.mem_cons_self ..))
        (bounded_alignRow d cols _ (fun x hx => mem_upTo_lt _ _ _ hx) _ (bounded_rowOf h.cells y)))

theorem keysIn_alignmentDisplay {ss : SScreen} (h : KeysIn ss) : KeysIn (alignmentDisplay ss) := by
  unfold alignmentDisplay
  simp only
  have := bufIn_alignLoop (defaultCell ss.s) ss.s.lines ss.s.columns (upTo 0 ss.s.lines)
    (fun y hy => mem_upTo_lt _ _ _ hy) ss.buf ⟨h.rows, h.cells⟩
  exact ⟨this.rows, this.cells⟩

theorem bufIn_flipAll {lines cols : Nat} {b : Buf} (v : Bool) (h : BufIn lines cols b) : BufIn lines cols (flipAll v b) := by
  have e : flipAll v b = b.map fun p => (p.1, p.2.map fun q => (q.1, flipCell v q.2)) := rfl
  constructor
  · intro k r hl
    rw [e, lookup_map] at hl
    cases hk : lookup k b with
    | none => simp [hk] at hl
    | some row => exact h.rows k row hk
  · intro y r hl
    rw [e, lookup_map] at hl
    cases hk : lookup y b with
    | none => simp [hk] at hl
    | some row =>
      simp only [hk, Option.map_some, Option.some.injEq] at hl
      intro x c hc
      rw [← hl, lookup_map] at hc
      cases hx : lookup x row with
      | none => simp [hx] at hc
      | some c0 => exact h.cells y row hk x c0 hx

theorem bounded_orInsert (x : Nat) (d : Cell) (cols : Nat) (hx : x < cols) (row : Row) (h : Bounded cols row) :
    Bounded cols (orInsert x d row) := by
  unfold orInsert
  split
  · exact h
  · exact bounded_insert x d hx h

theorem bounded_renderRow (env : Env) (d : Cell) (cols : Nat) :
    ∀ fuel x skip row, Bounded cols row → Bounded cols (renderRow env d cols fuel x skip row).1 := by
  intro fuel
  induction fuel with
  | zero => intro x skip row h; exact h
  | succ f ih =>
    intro x skip row h
    unfold renderRow
    split
    · rename_i hx
      split
      · exact ih _ _ _ h
      · exact ih _ _ _ (bounded_orInsert x d cols hx row h)
    · exact h

theorem bufIn_displayLoop (env : Env) (d : Cell) (lines cols : Nat) (ys : List Nat) (hy : ∀ y ∈ ys, y < lines) (b : Buf)
    (h : BufIn lines cols b) : BufIn lines cols (displayLoop env d cols ys b).1 := by
  induction ys generalizing b with
  | nil => exact h
  | cons y ys ih =>
    simp only [displayLoop]
    exact ih (fun y' hy' => hy y' (List.mem_cons_of_mem _ hy')) _
      (bufIn_insert h y _ (hy y (List.mem_cons_self ..))
        (bounded_renderRow env d cols _ _ _ _ (bounded_rowOf h.cells y)))

theorem keysIn_display {ss : SScreen} (h : KeysIn ss) (env : Env) : KeysIn (display env ss).1 := by
  unfold display
  simp only
  have := bufIn_displayLoop env (defaultCell ss.s) ss.s.lines ss.s.columns (upTo 0 ss.s.lines)
    (fun y hy => mem_upTo_lt _ _ _ hy) ss.buf ⟨h.rows, h.cells⟩
  exact ⟨this.rows, this.cells⟩


/-! ### resize, reset -/

theorem bufIn_cutColumns {lines cols : Nat} {b : Buf} (c : Nat) (h : BufIn lines cols b) :
    BufIn lines (min c cols) (cutColumns c cols b) := by
  have e : cutColumns c cols b =
      b.map fun p => (p.1, (fun row : Row => row.filter fun q => !(decide (c ≤ q.1) && decide (q.1 < cols))) p.2) := rfl
  constructor
  · intro k r hl
    rw [e, lookup_map] at hl
    cases hk : lookup k b with
    | none => simp [hk] at hl
    | some row => exact h.rows k row hk
  · intro y r hl
    rw [e, lookup_map] at hl
    cases hk : lookup y b with
    | none => simp [hk] at hl
    | some row =>
      simp only [hk, Option.map_some, Option.some.injEq] at hl
      intro x cl hc
      rw [← hl, lookup_cut] at hc
      by_cases q : c ≤ x ∧ x < cols
      · simp [q] at hc
      · simp only [q, if_false] at hc
        have := h.cells y row hk x cl hc
        omega

theorem cursorPosition_home_y (s : Screen) (hm : s.margins = none) (hl : 1 ≤ s.lines) :
    (cursorPosition s (some 0) (some 0)).cursor.y = 0 ∧ (cursorPosition s (some 0) (some 0)).margins = none ∧
    (cursorPosition s (some 0) (some 0)).lines = s.lines ∧ (cursorPosition s (some 0) (some 0)).columns = s.columns := by
  unfold cursorPosition
  simp only [hm, nz, ensureVBounds, ensureHBounds, setCursorX, setCursorY]
  refine ⟨?_, ?_, ?_, ?_⟩ <;> first | trivial | simp | exact hm

/-- after the row drop of `resize` every row key is below the new height -/
theorem bufIn_dropRowsFromTop {ss : SScreen} (h : KeysIn ss) (hm : ss.s.margins = none) (hl : 1 ≤ ss.s.lines)
    (L : Nat) (hL : L < ss.s.lines) : BufIn L ss.s.columns (dropRowsFromTop ss L).buf := by
  unfold dropRowsFromTop lift
  simp only
  -- the state delete_lines runs on
  have hc := cursorPosition_home_y (saveCursor ss.s) hm hl
  unfold deleteLines
  simp only
  have hb : bottomMargin (cursorPosition (saveCursor ss.s) (some 0) (some 0)) = ss.s.lines - 1 := by
    unfold bottomMargin; rw [hc.2.1]; simp [hc.2.2.1]; rfl
  have ht : topMargin (cursorPosition (saveCursor ss.s) (some 0) (some 0)) = 0 := by
    unfold topMargin; rw [hc.2.1]
  rw [ht, hb, hc.1]
  have hn : nz (some (ss.s.lines - L)) = ss.s.lines - L := by
    unfold nz
    have : ss.s.lines - L ≠ 0 := by omega
    split <;> simp_all
  simp only [Nat.zero_le, decide_true, Bool.true_and, if_true, hn]
  have key := dlLoop_keys (cy := 0) ss.s.lines ss.s.columns (ss.s.lines - L) (ss.s.lines - 1) (by omega)
    (ss.s.lines - 1 + 1 - 0) 0 ss.buf ⟨h.rows, h.cells⟩ (fun k v _ hlt _ => by omega)
  unfold upTo
  constructor
  · intro k v hk
    have h1 := key.1.rows k v hk
    have h2 := key.2 k v hk (by omega) (Nat.zero_le _)
    omega
  · exact key.1.cells

theorem inv_noMargins {s : Screen} (hi : Inv s) : Inv { s with margins := none } :=
  ⟨hi.cols, hi.rows, hi.dimc, hi.diml, hi.cy, hi.cx, (fun t b e => by simp at e), hi.dirty, hi.outside, hi.saved⟩

theorem keysIn_resize {ss : SScreen} (h : KeysIn ss) (hi : Inv (abs ss)) (l c : Option Nat) :
    KeysIn (resize ss l c) := by
  rw [sresize_eq_body]
  split
  · exact h
  · have hl : 1 ≤ ss.s.lines := hi.rows
    generalize hL : l.getD ss.s.lines = L
    generalize hC : c.getD ss.s.columns = C
    -- stage 1
    have k1 : KeysIn (srz1 ss) := keysIn_of_eq h _ rfl rfl
    have m1 : (srz1 ss).s.margins = none := rfl
    have i1 : Inv (abs (srz1 ss)) := inv_noMargins hi
    -- stage 2: rows below min L lines, columns unchanged
    have k2 : BufIn (min L ss.s.lines) ss.s.columns (srz2 L (srz1 ss)).buf ∧ (srz2 L (srz1 ss)).s.columns = ss.s.columns := by
      unfold srz2
      by_cases hlt : L < (srz1 ss).s.lines
      · rw [if_pos hlt]
        have hlt' : L < ss.s.lines := hlt
        have b := bufIn_dropRowsFromTop k1 m1 hl L hlt'
        refine ⟨⟨?_, b.cells⟩, ?_⟩
        · rw [Nat.min_eq_left (Nat.le_of_lt hlt')]; exact b.rows
        · have e1 : (dropRowsFromTop (srz1 ss) L).s.columns = (abs (dropRowsFromTop (srz1 ss) L)).columns := rfl
          rw [e1, abs_dropRowsFromTop]
          exact (dropRows_facts i1 rfl L hlt').2.1
      · rw [if_neg hlt]
        have hge : ss.s.lines ≤ L := Nat.le_of_not_lt hlt
        refine ⟨⟨?_, k1.cells⟩, rfl⟩
        rw [Nat.min_eq_right hge]; exact k1.rows
    -- stage 3: cells below min C columns
    have k3 : BufIn (min L ss.s.lines) (min C ss.s.columns) (srz3 C (srz2 L (srz1 ss))).buf := by
      unfold srz3
      rw [k2.2]
      by_cases hlt : C < ss.s.columns
      · rw [if_pos hlt]
        exact bufIn_cutColumns C k2.1
      · rw [if_neg hlt]
        rw [Nat.min_eq_right (Nat.le_of_not_lt hlt)]
        exact k2.1
    -- stage 4: the new dimensions
    constructor
    · show Bounded (srz4 L C (srz3 C (srz2 L (srz1 ss)))).s.lines _
      have e : (srz4 L C (srz3 C (srz2 L (srz1 ss)))).s.lines = L := by
        show (ensureVBounds (ensureHBounds (setMargins _ none none)) false).lines = L
        rfl
      rw [e]
      exact bounded_mono (Nat.min_le_left _ _) k3.rows
    · intro y row hr
      show Bounded (srz4 L C (srz3 C (srz2 L (srz1 ss)))).s.columns row
      have e : (srz4 L C (srz3 C (srz2 L (srz1 ss)))).s.columns = C := by
        show (ensureVBounds (ensureHBounds (setMargins _ none none)) false).columns = C
        rfl
      rw [e]
      exact bounded_mono (Nat.min_le_left _ _) (k3.cells y row hr)

theorem keysIn_reset (ss : SScreen) : KeysIn (reset ss) :=
  ⟨bounded_nil _, fun y row hr => by simp [reset, lookup] at hr⟩



/-! ### modes -/

theorem keysIn_applySetModes {ss : SScreen} (h : KeysIn ss) (ml : List Nat) : KeysIn (applySetModes ss ml) := by
  unfold applySetModes
  split
  · have b := bufIn_flipAll true (⟨h.rows, h.cells⟩ : BufIn ss.s.lines ss.s.columns ss.buf)
    have e1 : (selectGraphicRendition (addModes (markAllDirty ss.s) ml) [7]).lines = ss.s.lines := by
      unfold selectGraphicRendition; split <;> rfl
    have e2 : (selectGraphicRendition (addModes (markAllDirty ss.s) ml) [7]).columns = ss.s.columns := by
      unfold selectGraphicRendition; split <;> rfl
    exact ⟨by show Bounded (selectGraphicRendition _ [7]).lines _; rw [e1]; exact b.rows,
           fun y row hr => by show Bounded (selectGraphicRendition _ [7]).columns _; rw [e2]; exact b.cells y row hr⟩
  · exact keysIn_of_eq h _ rfl rfl

theorem keysIn_applyResetModes {ss : SScreen} (h : KeysIn ss) (ml : List Nat) : KeysIn (applyResetModes ss ml) := by
  unfold applyResetModes
  split
  · have b := bufIn_flipAll false (⟨h.rows, h.cells⟩ : BufIn ss.s.lines ss.s.columns ss.buf)
    have e1 : (selectGraphicRendition (removeModes (markAllDirty ss.s) ml) [27]).lines = ss.s.lines := by
      unfold selectGraphicRendition; split <;> rfl
    have e2 : (selectGraphicRendition (removeModes (markAllDirty ss.s) ml) [27]).columns = ss.s.columns := by
      unfold selectGraphicRendition; split <;> rfl
    exact ⟨by show Bounded (selectGraphicRendition _ [27]).lines _; rw [e1]; exact b.rows,
           fun y row hr => by show Bounded (selectGraphicRendition _ [27]).columns _; rw [e2]; exact b.cells y row hr⟩
  · exact keysIn_of_eq h _ rfl rfl

theorem geom_cursorPosition (s : Screen) (l c) :
    (cursorPosition s l c).lines = s.lines ∧ (cursorPosition s l c).columns = s.columns := by
  unfold cursorPosition
  simp only [ensureVBounds, ensureHBounds, setCursorX, setCursorY]
  split
  · split
    · split <;> exact ⟨rfl, rfl⟩
    · exact ⟨rfl, rfl⟩
  · exact ⟨rfl, rfl⟩

theorem keysIn_home {ss : SScreen} (h : KeysIn ss) : KeysIn (lift (fun s => cursorPosition s none none) ss) :=
  keysIn_of_eq h _ (geom_cursorPosition _ _ _).1 (geom_cursorPosition _ _ _).2

theorem keysIn_colmSet {ss : SScreen} (h : KeysIn ss) (hi : Inv (abs ss)) : KeysIn (colmSet ss) := by
  unfold colmSet
  have i0 : Inv (abs (lift (fun s => { s with savedColumns := some s.columns }) ss)) :=
    { hi with saved := by intro c e; simp only [abs, lift, Option.some.injEq] at e; subst e; exact ⟨hi.cols, hi.dimc⟩ }
  have k0 : KeysIn (lift (fun s => { s with savedColumns := some s.columns }) ss) := keysIn_of_eq h _ rfl rfl
  have k1 := keysIn_resize k0 i0 none (some 132)
  have i1 : Inv (abs (resize (lift (fun s => { s with savedColumns := some s.columns }) ss) none (some 132))) := by
    rw [abs_resize]
    exact inv_resize i0 none (some 132) (by intro v e; cases e) (by
      intro v e; simp only [Option.some.injEq] at e; subst e; exact ⟨by decide, by decide⟩)
  exact keysIn_home (keysIn_eraseInDisplay k1 i1.cy i1.cols _)

theorem keysIn_colmRestore {ss : SScreen} (h : KeysIn ss) (hi : Inv (abs ss)) : KeysIn (colmRestore ss) := by
  unfold colmRestore
  split
  · cases hs : ss.s.savedColumns with
    | none => exact h
    | some sc => exact keysIn_of_eq (keysIn_resize h hi none (some sc)) _ rfl rfl
  · exact h

theorem keysIn_colmReset {ss : SScreen} (h : KeysIn ss) (hi : Inv (abs ss)) : KeysIn (colmReset ss) := by
  unfold colmReset
  have k1 := keysIn_colmRestore h hi
  have i1 : Inv (abs (colmRestore ss)) := by rw [abs_colmRestore]; exact inv_colmRestore hi
  exact keysIn_home (keysIn_eraseInDisplay k1 i1.cy i1.cols _)

theorem geom_tail (b1 b2 v : Bool) (s : Screen) :
    (hiddenIf b1 v (homeIf b2 s)).lines = s.lines ∧ (hiddenIf b1 v (homeIf b2 s)).columns = s.columns := by
  cases b1 <;> cases b2 <;> first | exact ⟨rfl, rfl⟩ | exact geom_cursorPosition s none none

theorem keysIn_setMode {ss : SScreen} (h : KeysIn ss) (hi : Inv (abs ss)) (ms : List Nat) (p : Bool) :
    KeysIn (setMode ss ms p) := by
  unfold setMode
  simp only
  have k1 := keysIn_applySetModes h (shiftModes ms p)
  have i1 : Inv (abs (applySetModes ss (shiftModes ms p))) := by rw [abs_applySetModes]; exact inv_applySetModes hi _
  refine keysIn_of_eq ?_ _ (geom_tail _ _ _ _).1 (geom_tail _ _ _ _).2
  split
  · exact keysIn_colmSet k1 i1
  · exact k1

theorem keysIn_resetMode {ss : SScreen} (h : KeysIn ss) (hi : Inv (abs ss)) (ms : List Nat) (p : Bool) :
    KeysIn (resetMode ss ms p) := by
  unfold resetMode
  simp only
  have k1 := keysIn_applyResetModes h (shiftModes ms p)
  have i1 : Inv (abs (applyResetModes ss (shiftModes ms p))) := by rw [abs_applyResetModes]; exact inv_applyResetModes hi _
  refine keysIn_of_eq ?_ _ (geom_tail _ _ _ _).1 (geom_tail _ _ _ _).2
  split
  · exact keysIn_colmReset k1 i1
  · exact k1


/-! ### every operation, every history -/

theorem geom_restoreCursor (s : Screen) : (restoreCursor s).lines = s.lines ∧ (restoreCursor s).columns = s.columns := by
  cases hsp : s.savepoints with
  | nil =>
    unfold restoreCursor
    rw [hsp]
    simp only
    have g := geom_cursorPosition (resetModeNoColm s [DECOM]) none none
    have g2 : (resetModeNoColm s [DECOM]).lines = s.lines ∧ (resetModeNoColm s [DECOM]).columns = s.columns := by
      unfold resetModeNoColm Memterm.applyResetModes
      have : ([DECOM].contains DECSCNM) = false := by decide
      simp only [this, Bool.false_eq_true, if_false]
      exact geom_tail _ _ _ _
    exact ⟨g.1.trans g2.1, g.2.trans g2.2⟩
  | cons sp rest =>
    have g := geo_restoreCursor s sp rest hsp
    exact ⟨g.2.2.2.1, g.2.2.1⟩

theorem geom_setMargins (s : Screen) (t b) : (setMargins s t b).lines = s.lines ∧ (setMargins s t b).columns = s.columns := by
  unfold setMargins
  split
  · exact ⟨rfl, rfl⟩
  · simp only
    split
    · exact geom_cursorPosition _ _ _
    · exact ⟨rfl, rfl⟩

theorem geom_tab (s : Screen) : (tab s).lines = s.lines ∧ (tab s).columns = s.columns := by
  unfold tab; split <;> exact ⟨rfl, rfl⟩

theorem geom_sgr (s : Screen) (a) :
    (selectGraphicRendition s a).lines = s.lines ∧ (selectGraphicRendition s a).columns = s.columns := by
  unfold selectGraphicRendition; split <;> exact ⟨rfl, rfl⟩

theorem geom_defineCharset (s : Screen) (c m) :
    (defineCharset s c m).lines = s.lines ∧ (defineCharset s c m).columns = s.columns := by
  unfold defineCharset
  split
  · split
    · exact ⟨rfl, rfl⟩
    · split <;> exact ⟨rfl, rfl⟩
  · exact ⟨rfl, rfl⟩

/-- NOTHING HIDDEN, one step: every operation keeps every key of the buffer inside the grid -/
theorem keysIn_step (env : Env) {ss : SScreen} (h : KeysIn ss) (hi : Inv (abs ss)) (c : Call) :
    KeysIn (step env ss c) := by
  have hy : ss.s.cursor.y < ss.s.lines := hi.cy
  have hc : 1 ≤ ss.s.columns := hi.cols
  cases c with
  | alignmentDisplay => exact keysIn_alignmentDisplay h
  | reset => exact keysIn_reset ss
  | index => exact keysIn_index h
  | linefeed => exact keysIn_linefeed h
  | reverseIndex => exact keysIn_reverseIndex h
  | draw t => exact keysIn_draw h hi env t
  | insertCharacters n => exact keysIn_insertCharacters h hy n
  | eraseInDisplay k => exact keysIn_eraseInDisplay h hy hc k
  | eraseInLine k => exact keysIn_eraseInLine h hy hc k
  | insertLines n => exact keysIn_insertLines h hi n
  | deleteLines n => exact keysIn_deleteLines h hi n
  | deleteCharacters n => exact keysIn_deleteCharacters h hy n
  | eraseCharacters n => exact keysIn_eraseCharacters h hy n
  | setMode ms p => exact keysIn_setMode h hi ms p
  | resetMode ms p => exact keysIn_resetMode h hi ms p
  | resize l k => exact keysIn_resize h hi l k
  | display => exact keysIn_display h env
  | defineCharset a b => exact keysIn_of_eq h _ (geom_defineCharset _ _ _).1 (geom_defineCharset _ _ _).2
  | restoreCursor => exact keysIn_of_eq h _ (geom_restoreCursor _).1 (geom_restoreCursor _).2
  | tab => exact keysIn_of_eq h _ (geom_tab _).1 (geom_tab _).2
  | cursorPosition l k => exact keysIn_of_eq h _ (geom_cursorPosition _ _ _).1 (geom_cursorPosition _ _ _).2
  | sgr a => exact keysIn_of_eq h _ (geom_sgr _ _).1 (geom_sgr _ _).2
  | setMargins t b => exact keysIn_of_eq h _ (geom_setMargins _ _ _).1 (geom_setMargins _ _ _).2
  | setTabStop => exact keysIn_of_eq h _ rfl rfl
  | saveCursor => exact keysIn_of_eq h _ rfl rfl
  | shiftOut => exact keysIn_of_eq h _ rfl rfl
  | shiftIn => exact keysIn_of_eq h _ rfl rfl
  | bell => exact keysIn_of_eq h _ rfl rfl
  | backspace => exact keysIn_of_eq h _ rfl rfl
  | cariageReturn => exact keysIn_of_eq h _ rfl rfl
  | cursorUp n => exact keysIn_of_eq h _ rfl rfl
  | cursorDown n => exact keysIn_of_eq h _ rfl rfl
  | cursorForward n => exact keysIn_of_eq h _ rfl rfl
  | cursorBack n => exact keysIn_of_eq h _ rfl rfl
  | cursorDown1 n => exact keysIn_of_eq h _ rfl rfl
  | cursorUp1 n => exact keysIn_of_eq h _ rfl rfl
  | cursorToColumn n => exact keysIn_of_eq h _ rfl rfl
  | reportDeviceAttributes n => exact keysIn_of_eq h _ rfl rfl
  | cursorToLine n => exact keysIn_of_eq h _ rfl rfl
  | clearTabStop k => exact keysIn_of_eq h _ rfl rfl
  | setTitle t => exact keysIn_of_eq h _ rfl rfl
  | setIconName t => exact keysIn_of_eq h _ rfl rfl
  | clearDirty => exact keysIn_of_eq h _ rfl rfl

theorem keysIn_init (columns lines : Nat) : KeysIn (init columns lines) :=
  ⟨bounded_nil _, fun y row hr => by simp [init, lookup] at hr⟩

/-- NOTHING HIDDEN, every history: in every reachable state of the HashMap buffer model every row key is
    a row of the screen and every cell key a column of it -/
theorem keysIn_run (env : Env) (cs : List Call) {ss : SScreen} (h : KeysIn ss) (hi : Inv (abs ss))
    (ha : ∀ c ∈ cs, c.argOk = true) : KeysIn (cs.foldl (step env) ss) := by
  induction cs generalizing ss with
  | nil => exact h
  | cons c cs ih =>
    simp only [List.foldl_cons]
    refine ih (keysIn_step env h hi c) ?_ (fun c' hc' => ha c' (List.mem_cons_of_mem _ hc'))
    rw [abs_step env ss c hi]
    exact inv_step env hi c (ha c (List.mem_cons_self ..))

end Sparse
end Memterm
