import Memterm.Props.Frame

/-
  draw() changes nothing but cells, the cursor position and the dirty set.
-/
namespace Memterm

open Gen

theorem SameSettings.refl (s : Screen) : SameSettings s s :=
  ⟨rfl, rfl, rfl, rfl, rfl, rfl, rfl, rfl, rfl, rfl, rfl, rfl, rfl, rfl⟩

theorem SameSettings.trans {a b c : Screen} (h1 : SameSettings a b) (h2 : SameSettings b c) : SameSettings a c := by
  obtain ⟨s1, s2, s3, s4, s5, s6, s7, s8, s9, s10, s11, s12, s13, s14⟩ := h1
  obtain ⟨t1, t2, t3, t4, t5, t6, t7, t8, t9, t10, t11, t12, t13, t14⟩ := h2
  exact ⟨t1.trans s1, t2.trans s2, t3.trans s3, t4.trans s4, t5.trans s5, t6.trans s6,
    t7.trans s7, t8.trans s8, t9.trans s9, t10.trans s10, t11.trans s11, t12.trans s12, t13.trans s13,
    t14.trans s14⟩

theorem ss_linefeed (u : Screen) : SameSettings u (linefeed u) := by
  unfold linefeed index
  simp only
  split <;> split <;> exact ⟨rfl, rfl, rfl, rfl, rfl, rfl, rfl, rfl, rfl, rfl, rfl, rfl, rfl, rfl⟩

theorem ss_wrapStage (s : Screen) (w : Nat) : SameSettings s (wrapStage s w) := by
  unfold wrapStage
  split
  · split
    · exact SameSettings.trans (b := cariageReturn (markDirty s s.cursor.y))
        ⟨rfl, rfl, rfl, rfl, rfl, rfl, rfl, rfl, rfl, rfl, rfl, rfl, rfl, rfl⟩ (ss_linefeed _)
    · exact ⟨rfl, rfl, rfl, rfl, rfl, rfl, rfl, rfl, rfl, rfl, rfl, rfl, rfl, rfl⟩
  · exact SameSettings.refl s

theorem ss_irmStage (s : Screen) (w : Nat) : SameSettings s (irmStage s w) := by
  unfold irmStage
  split
  · exact ⟨rfl, rfl, rfl, rfl, rfl, rfl, rfl, rfl, rfl, rfl, rfl, rfl, rfl, rfl⟩
  · exact SameSettings.refl s

theorem ss_putChar (s : Screen) (c w : Nat) : SameSettings s (putChar s c w) := by
  unfold putChar
  simp only
  split <;> exact ⟨rfl, rfl, rfl, rfl, rfl, rfl, rfl, rfl, rfl, rfl, rfl, rfl, rfl, rfl⟩

theorem ss_combine (env : Env) (s : Screen) (c : Nat) : SameSettings s (combine env s c) := by
  unfold combine
  split
  · exact ⟨rfl, rfl, rfl, rfl, rfl, rfl, rfl, rfl, rfl, rfl, rfl, rfl, rfl, rfl⟩
  · split
    · exact ⟨rfl, rfl, rfl, rfl, rfl, rfl, rfl, rfl, rfl, rfl, rfl, rfl, rfl, rfl⟩
    · exact SameSettings.refl s

theorem ss_drawChar (env : Env) (s : Screen) (c : Nat) : SameSettings s (drawChar env s c) := by
  unfold drawChar
  simp only
  split
  · exact (ss_wrapStage s _).trans ((ss_irmStage _ _).trans (ss_putChar _ _ _))
  · split
    · exact ss_combine env s c
    · exact SameSettings.refl s

theorem ss_foldl_drawChar (env : Env) (cs : List Nat) (s : Screen) :
    SameSettings s (cs.foldl (drawChar env) s) := by
  induction cs generalizing s with
  | nil => exact SameSettings.refl s
  | cons c cs ih => exact (ss_drawChar env s c).trans (ih _)

/-- drawing text changes no mode, margin, tab stop, rendition, charset, title, saved cursor or
    geometry -/
theorem ss_draw (env : Env) (s : Screen) (t : List Nat) : SameSettings s (draw env s t) := by
  unfold draw
  simp only
  exact (ss_foldl_drawChar env _ s).trans ⟨rfl, rfl, rfl, rfl, rfl, rfl, rfl, rfl, rfl, rfl, rfl, rfl, rfl, rfl⟩

end Memterm
