import Memterm.Proofs.Sgr
import Memterm.Inv

/-
  `set_mode` / `reset_mode` in the ORDER OF THE SOURCE.  `Memterm/Screen.lean` applies the
  reverse-video block (mark all rows dirty, flip every cell, SGR 7 / 27) directly after the mode
  set is updated; `src/screen.rs` has it after the DECCOLM and DECOM blocks.  Here the functions
  are written in the source order (`setModeSrc`, `resetModeSrc`) and proved EQUAL to the model's,
  for every state and every mode list: the difference in order is not observable.
-/
namespace Memterm

open Gen

/-- `set_mode`, block by block as in src/screen.rs -/
def setModeSrc (s : Screen) (modes : List Nat) (priv : Bool) : Screen :=
  let ml := shiftModes modes priv
  let s0 := if ml.contains DECSCNM then markAllDirty s else s          -- dirty.extend(0..lines)
  let s1 := addModes s0 ml                                             -- mode.extend(mode_list)
  let s2 := if ml.contains DECCOLM then colmSet s1 else s1             -- saved_columns, resize, ED 2, home
  let s3 := homeIf (ml.contains DECOM) s2                              -- DECOM homes the cursor
  let s4 := if ml.contains DECSCNM then selectGraphicRendition (setAllReverse s3 true) [7] else s3
  hiddenIf (ml.contains DECTCEM) false s4

/-- `reset_mode`, block by block as in src/screen.rs -/
def resetModeSrc (s : Screen) (modes : List Nat) (priv : Bool) : Screen :=
  let ml := shiftModes modes priv
  let s0 := if ml.contains DECSCNM then markAllDirty s else s
  let s1 := removeModes s0 ml
  let s2 := if ml.contains DECCOLM then colmReset s1 else s1
  let s3 := homeIf (ml.contains DECOM) s2
  let s4 := if ml.contains DECSCNM then selectGraphicRendition (setAllReverse s3 false) [27] else s3
  hiddenIf (ml.contains DECTCEM) true s4

/-- every cell and the current rendition get reverse = `v` -/
def flipR (v : Bool) (t : Screen) : Screen :=
  { t with cell := fun y x => { t.cell y x with attr := { (t.cell y x).attr with reverse := v } },
           cursor := { t.cursor with attr := { t.cursor.attr with reverse := v } } }

theorem sgr7_attr (s : Screen) : sgrAttr s [7] = { s.cursor.attr with reverse := true } := by
  unfold sgrAttr selectGraphicRendition
  simp [sgrLoop, tableAct_7, Act.run, setFlag]

theorem sgr27_attr (s : Screen) : sgrAttr s [27] = { s.cursor.attr with reverse := false } := by
  unfold sgrAttr selectGraphicRendition
  simp [sgrLoop, tableAct_27, Act.run, setFlag]

theorem flip_true (t : Screen) : selectGraphicRendition (setAllReverse t true) [7] = flipR true t := by
  rw [sgr_frame, sgr7_attr]; rfl

theorem flip_false (t : Screen) : selectGraphicRendition (setAllReverse t false) [27] = flipR false t := by
  rw [sgr_frame, sgr27_attr]; rfl


/-! ### the flip commutes with the other blocks -/

theorem flip_ite (v : Bool) {c c' : Prop} [Decidable c] [Decidable c'] (hc : c ↔ c') {a a' b b' : Screen}
    (ha : flipR v a = a') (hb : flipR v b = b') : flipR v (if c then a else b) = if c' then a' else b' := by
  by_cases h : c
  · rw [if_pos h, if_pos (hc.1 h)]; exact ha
  · rw [if_neg h, if_neg (fun h' => h (hc.2 h'))]; exact hb

theorem flip_cursorPosition (v : Bool) (t : Screen) (l c : Option Nat) :
    flipR v (cursorPosition t l c) = cursorPosition (flipR v t) l c := by
  unfold cursorPosition
  have em : (flipR v t).margins = t.margins := rfl
  have emo : (flipR v t).mode = t.mode := rfl
  simp only [em, emo]
  cases t.margins with
  | none => rfl
  | some tb =>
    obtain ⟨tt, bb⟩ := tb
    simp only
    exact flip_ite v Iff.rfl (flip_ite v Iff.rfl rfl rfl) rfl

theorem flip_homeIf (v b : Bool) (t : Screen) : flipR v (homeIf b t) = homeIf b (flipR v t) := by
  cases b
  · rfl
  · exact flip_cursorPosition v t none none

theorem flip_hiddenIf (v b w : Bool) (t : Screen) : flipR v (hiddenIf b w t) = hiddenIf b w (flipR v t) := by
  cases b <;> rfl

/-- ED 2 writes the cursor's rendition: flipped afterwards, or written already flipped - the same -/
theorem flip_ed2 (v : Bool) (t : Screen) :
    flipR v (eraseInDisplay t (some 2)) = eraseInDisplay (flipR v t) (some 2) := by
  unfold eraseInDisplay
  simp only [Option.getD_some]
  have h2 : ((2 : Nat) == 0 || (2 : Nat) == 1) = false := by decide
  simp only [h2, Bool.false_eq_true, if_false]
  unfold edFill flipR markDirtyRange edRows cursorCell
  simp only
  congr 1
  funext y x
  split <;> rfl

/-- a change of width only (no rows dropped): cut cells become `default_char()`, whose reverse flag is the mode -/
theorem flip_resize_width (v : Bool) (t : Screen) (c : Nat) (hm : t.mode DECSCNM = v) :
    flipR v (resize t none (some c)) = resize (flipR v t) none (some c) := by
  unfold resize
  simp only [Option.getD_none, Option.getD_some, beq_self_eq_true, Bool.true_and, Nat.lt_irrefl, if_false]
  have e1 : (flipR v t).columns = t.columns := rfl
  have e2 : (flipR v t).lines = t.lines := rfl
  simp only [e1, e2]
  by_cases hc : (c == t.columns) = true
  · simp only [hc, if_true]
  · simp only [hc, if_false, Bool.false_eq_true]
    -- both sides: margins cleared, optional cut, new width, margins (none), clamp
    have hd : defaultCell (flipR v t) = defaultCell t := rfl
    by_cases hlt : c < t.columns
    · simp only [hlt, if_true]
      unfold cutColumns setMargins
      simp only [Option.getD_none, beq_self_eq_true, Option.isNone_none, Bool.and_self, if_true]
      unfold flipR ensureVBounds ensureHBounds setCursorX setCursorY
      simp only
      congr 1
      funext y x
      split
      · simp [defaultCell, defaultAttr, hm]
      · rfl
    · simp only [hlt, if_false]
      unfold setMargins
      simp only [Option.getD_none, beq_self_eq_true, Option.isNone_none, Bool.and_self, if_true]
      rfl


theorem mode_resize_width (t : Screen) (c : Nat) : (resize t none (some c)).mode = t.mode := by
  unfold resize
  simp only [Option.getD_none, Option.getD_some, beq_self_eq_true, Bool.true_and, Nat.lt_irrefl, if_false]
  split
  · rfl
  · unfold setMargins
    simp only [Option.getD_none, beq_self_eq_true, Option.isNone_none, Bool.and_self, if_true]
    split <;> rfl

theorem flip_colmSet (v : Bool) (t : Screen) (hm : t.mode DECSCNM = v) :
    flipR v (colmSet t) = colmSet (flipR v t) := by
  unfold colmSet
  have h1 := flip_resize_width v { t with savedColumns := some t.columns } 132 hm
  rw [flip_cursorPosition, flip_ed2, h1]
  rfl

theorem flip_colmRestore (v : Bool) (t : Screen) (hm : t.mode DECSCNM = v) :
    flipR v (colmRestore t) = colmRestore (flipR v t) := by
  unfold colmRestore
  have e1 : (flipR v t).columns = t.columns := rfl
  have e2 : (flipR v t).savedColumns = t.savedColumns := rfl
  simp only [e1, e2]
  refine flip_ite v Iff.rfl ?_ rfl
  cases t.savedColumns with
  | none => rfl
  | some sc =>
    simp only
    have : flipR v { resize t none (some sc) with savedColumns := none } =
        { flipR v (resize t none (some sc)) with savedColumns := none } := rfl
    rw [this, flip_resize_width v t sc hm]

theorem mode_colmRestore (t : Screen) : (colmRestore t).mode = t.mode := by
  unfold colmRestore
  split
  · split
    · exact mode_resize_width t _
    · rfl
  · rfl

theorem flip_colmReset (v : Bool) (t : Screen) (hm : t.mode DECSCNM = v) :
    flipR v (colmReset t) = colmReset (flipR v t) := by
  unfold colmReset
  rw [flip_cursorPosition, flip_ed2, flip_colmRestore v t hm]

/-- THE ORDER OF THE BLOCKS OF `set_mode` IS NOT OBSERVABLE: the function written in the order of
    src/screen.rs equals the model's, for every state, mode list and spelling. -/
theorem setModeSrc_eq (s : Screen) (modes : List Nat) (priv : Bool) :
    setModeSrc s modes priv = setMode s modes priv := by
  unfold setModeSrc setMode applySetModes
  simp only
  by_cases hs : (shiftModes modes priv).contains DECSCNM = true
  · simp only [hs, if_true]
    have hm : (addModes (markAllDirty s) (shiftModes modes priv)).mode DECSCNM = true := by
      show ((shiftModes modes priv).contains DECSCNM || _) = true
      rw [hs]; rfl
    generalize addModes (markAllDirty s) (shiftModes modes priv) = t at hm ⊢
    have hX : flipR true (if (shiftModes modes priv).contains DECCOLM = true then colmSet t else t) =
        if (shiftModes modes priv).contains DECCOLM = true then colmSet (flipR true t) else flipR true t :=
      flip_ite true Iff.rfl (flip_colmSet true t hm) rfl
    rw [flip_true, flip_true, flip_homeIf, hX]
  · simp only [hs, if_false, Bool.false_eq_true]

theorem resetModeSrc_eq (s : Screen) (modes : List Nat) (priv : Bool) :
    resetModeSrc s modes priv = resetMode s modes priv := by
  unfold resetModeSrc resetMode applyResetModes
  simp only
  by_cases hs : (shiftModes modes priv).contains DECSCNM = true
  · simp only [hs, if_true]
    have hm : (removeModes (markAllDirty s) (shiftModes modes priv)).mode DECSCNM = false := by
      show (!(shiftModes modes priv).contains DECSCNM && _) = false
      rw [hs]; rfl
    generalize removeModes (markAllDirty s) (shiftModes modes priv) = t at hm ⊢
    have hX : flipR false (if (shiftModes modes priv).contains DECCOLM = true then colmReset t else t) =
        if (shiftModes modes priv).contains DECCOLM = true then colmReset (flipR false t) else flipR false t :=
      flip_ite false Iff.rfl (flip_colmReset false t hm) rfl
    rw [flip_false, flip_false, flip_homeIf, hX]
  · simp only [hs, if_false, Bool.false_eq_true]

/-! ### `restore_cursor` with the calls the source makes -/

/-- `set_mode(&[m], false)` for a mode other than DECCOLM is the model's `setModeNoColm` -/
theorem setMode_noColm (s : Screen) (m : Nat) (h : ([m].contains DECCOLM) = false) :
    setMode s [m] false = setModeNoColm s [m] := by
  unfold setMode setModeNoColm shiftModes
  simp only [Bool.false_eq_true, if_false, h]

theorem resetMode_noColm (s : Screen) (m : Nat) (h : ([m].contains DECCOLM) = false) :
    resetMode s [m] false = resetModeNoColm s [m] := by
  unfold resetMode resetModeNoColm shiftModes
  simp only [Bool.false_eq_true, if_false, h]

/-- `restore_cursor` with the calls the source makes: `set_mode(&[DECOM], false)`, `set_mode(&[DECAWM], false)`,
    `reset_mode(&[DECOM], false)` -/
def restoreCursorSrc (s : Screen) : Screen :=
  match s.savepoints with
  | sp :: rest =>
    let s := { s with savepoints := rest, g0 := sp.g0, g1 := sp.g1, g1Active := sp.g1Active }
    let s := if sp.origin then setMode s [DECOM] false else s
    let s := if sp.wrap then setMode s [DECAWM] false else s
    ensureVBounds (ensureHBounds { s with cursor := sp.cursor }) true
  | [] => cursorPosition (resetMode s [DECOM] false) none none

/-- the model's `restoreCursor` (which avoids the circular definition through DECCOLM -> resize ->
    restore_cursor) is the source's -/
theorem restoreCursorSrc_eq (s : Screen) : restoreCursorSrc s = restoreCursor s := by
  have h1 : ([DECOM].contains DECCOLM) = false := by decide
  have h2 : ([DECAWM].contains DECCOLM) = false := by decide
  unfold restoreCursorSrc restoreCursor
  cases s.savepoints with
  | nil => simp only [resetMode_noColm _ _ h1]
  | cons sp rest => simp only [setMode_noColm _ _ h1, setMode_noColm _ _ h2]

end Memterm
