import Memterm.Props.C19

/-
  The documented escape-sequence grammar as a relation (`Unit`: a text character or one whole control
  sequence, and the listener events it stands for; `Pending`: an incomplete one), independent of the
  recogniser's states, and the lemmas that relate one step of the recogniser model to it.  The two
  headline theorems (`feed_decomposes`, `unit_sound`) are in Memterm/Props/Grammar/C03.lean.
-/

namespace Memterm
namespace Grammar

open Gen C03 C19

/-- digit strings separated by `;` -/
def splitSemi : List Nat → List (List Nat)
  | [] => [[]]
  | c :: cs =>
    if c = 59 then [] :: splitSemi cs
    else match splitSemi cs with
      | [] => [[c]]
      | p :: ps => (c :: p) :: ps

theorem splitSemi_ne_nil (l : List Nat) : splitSemi l ≠ [] := by
  cases l with
  | nil => simp [splitSemi]
  | cons c cs =>
    simp only [splitSemi]
    split
    · simp
    · split <;> simp

/-- a `;` closes the current digit string and opens an empty one -/
theorem splitSemi_snoc_semi (l : List Nat) : splitSemi (l ++ [59]) = splitSemi l ++ [[]] := by
  induction l with
  | nil => simp [splitSemi]
  | cons c cs ih =>
    simp only [List.cons_append, splitSemi]
    split
    · simp [ih]
    · rw [ih]
      cases h : splitSemi cs with
      | nil => exact absurd h (splitSemi_ne_nil cs)
      | cons p ps => simp

/-- a digit extends the last digit string -/
theorem splitSemi_snoc_digit (l : List Nat) (d : Nat) (hd : d ≠ 59) (done : List (List Nat)) (cur : List Nat)
    (h : splitSemi l = done ++ [cur]) : splitSemi (l ++ [d]) = done ++ [cur ++ [d]] := by
  induction l generalizing done cur with
  | nil =>
    simp only [splitSemi] at h
    have : done = [] ∧ cur = [] := by
      cases done with
      | nil => simpa using h.symm
      | cons a b => simp at h
    obtain ⟨rfl, rfl⟩ := this
    simp [splitSemi, hd]
  | cons c cs ih =>
    simp only [List.cons_append, splitSemi] at h ⊢
    split
    · rename_i hc
      simp only [hc, if_true] at h
      cases done with
      | nil =>
        simp at h
        exact absurd h.2 (splitSemi_ne_nil cs)
      | cons a b =>
        simp only [List.cons_append, List.cons.injEq] at h
        obtain ⟨rfl, h2⟩ := h
        rw [ih b cur h2]
        simp
    · rename_i hc
      simp only [hc, if_false] at h
      cases hcs : splitSemi cs with
      | nil => exact absurd hcs (splitSemi_ne_nil cs)
      | cons p ps =>
        rw [hcs] at h
        simp only at h
        cases done with
        | nil =>
          simp only [List.nil_append, List.cons.injEq] at h
          obtain ⟨rfl, rfl⟩ := h
          rw [ih [] p (by simpa using hcs)]
          simp
        | cons a b =>
          simp only [List.cons_append, List.cons.injEq] at h
          obtain ⟨rfl, h2⟩ := h
          rw [ih (p :: b) cur (by simp [hcs, h2])]
          simp


/-! #### the pieces of a CSI sequence -/

/-- characters that may stand between a CSI introducer and the final character -/
def csiInner (c : Nat) : Bool :=
  isDigit c || c == 59 || c == 63 || (decide (7 ≤ c) && decide (c ≤ 13)) || c == 32 || c == 62

/-- the digits and separators of a CSI body -/
def paramChars (body : List Nat) : List Nat := body.filter (fun c => isDigit c || c == 59)

/-- the numeric parameters: `;`-separated decimal strings, empty = 0, saturating at 9999 -/
def csiParams (body : List Nat) : List Nat := (splitSemi (paramChars body)).map paramValue

/-- `?` anywhere in the body marks the sequence private -/
def csiPrivate (body : List Nat) : Bool := body.contains 63

/-- BEL BS HT LF VT FF CR inside the body are executed at once -/
def embeddedOne (c : Nat) : List Call := if 7 ≤ c ∧ c ≤ 13 then basicDispatch c else []
def embedded (body : List Nat) : List Call := (body.map embeddedOne).flatten

theorem embedded_snoc (body : List Nat) (c : Nat) : embedded (body ++ [c]) = embedded body ++ embeddedOne c := by
  simp [embedded]

theorem csiPrivate_snoc (body : List Nat) (c : Nat) : csiPrivate (body ++ [c]) = (csiPrivate body || c == 63) := by
  simp only [csiPrivate, List.contains_append, List.contains_cons, List.contains_nil, Bool.or_false]
  congr 1
  by_cases h : c = 63
  · subst h; rfl
  · have h' : ¬ (63 = c) := fun e => h e.symm
    have e1 : (63 == c) = false := by simpa using h'
    have e2 : (c == 63) = false := by simpa using h
    rw [e1, e2]


theorem paramChars_snoc (body : List Nat) (c : Nat) :
    paramChars (body ++ [c]) = paramChars body ++ (if isDigit c || c == 59 then [c] else []) := by
  simp only [paramChars, List.filter_append, List.filter_cons, List.filter_nil]

def CsiIntro (i : List Nat) : Prop := i = [27, 91] ∨ i = [0x9b]
def OscIntro (i : List Nat) : Prop := i = [27, 93] ∨ i = [0x9d]
def OscTerm (t : List Nat) : Prop := t = [7] ∨ t = [0x9c] ∨ t = [27, 92]

/-- the first element of an OSC string decides its code: a plain character is the code itself; an
    `ESC x` pair makes ESC the code and x the first payload character (as the source does) -/
def OscHead (head : List Nat) (code : Nat) (pfx : List Nat) : Prop :=
  (head = [code] ∧ pfx = [] ∧ okChar code ∧ code ≠ 82) ∨
  (∃ x, head = [27, x] ∧ code = 27 ∧ pfx = [x] ∧ x ≠ 92)

/-- A complete unit of input - a text character or one whole control sequence - and the listener
    events it stands for.  This is the documented grammar; nothing here mentions recogniser states. -/
inductive Unit (utf8 : Bool) : List Nat → List Call → Prop
  | text (c : Nat) (h : isSpecial c = false) : Unit utf8 [c] [.draw [c]]
  | c0 (c : Nat) (h : 7 ≤ c ∧ c ≤ 15) :
      Unit utf8 [c] (if (c = 14 ∨ c = 15) ∧ utf8 = true then [] else basicDispatch c)
  | escFinal (c : Nat) (h : c ≠ 91 ∧ c ≠ 93 ∧ c ≠ 35 ∧ c ≠ 37 ∧ c ≠ 40 ∧ c ≠ 41) :
      Unit utf8 [27, c] (escapeDispatch c)
  | escHash (c : Nat) : Unit utf8 [27, 35, c] (if c = 56 then [.alignmentDisplay] else [])
  | escPercent (c : Nat) : Unit utf8 [27, 37, c] []
  | escCharset (m c : Nat) (h : m = 40 ∨ m = 41) :
      Unit utf8 [27, m, c] (if utf8 = true then [] else [.defineCharset [c] [m]])
  | csi (i body : List Nat) (f : Nat) (hi : CsiIntro i) (hb : ∀ c ∈ body, csiInner c = true) (hf : csiFinal f = true) :
      Unit utf8 (i ++ body ++ [f]) (embedded body ++ csiDispatch f (csiParams body) (csiPrivate body))
  | csiAbort (i body : List Nat) (c : Nat) (hi : CsiIntro i) (hb : ∀ c ∈ body, csiInner c = true) (hc : c = 24 ∨ c = 26) :
      Unit utf8 (i ++ body ++ [c]) (embedded body ++ [.draw [c]])
  | csiDollar (i body : List Nat) (c : Nat) (hi : CsiIntro i) (hb : ∀ c ∈ body, csiInner c = true) :
      Unit utf8 (i ++ body ++ [36, c]) (embedded body)
  | oscPalette (i : List Nat) (hi : OscIntro i) : Unit utf8 (i ++ [82]) []
  | oscEmpty (i t : List Nat) (hi : OscIntro i) (ht : OscTerm t) : Unit utf8 (i ++ t) []
  | osc (i head : List Nat) (code : Nat) (pfx : List Nat) (atoms : List Atom) (t : List Nat)
      (hi : OscIntro i) (hh : OscHead head code pfx) (ht : OscTerm t) :
      Unit utf8 (i ++ head ++ payloadOf atoms ++ t) (oscFinish code (pfx ++ payloadOf atoms))

/-- An incomplete unit: what has been read of it, the events it has already caused (only the
    controls embedded in a CSI do that), and the recogniser state that stands for it. -/
inductive Pending (utf8 : Bool) : List Nat → List Call → PState → Prop
  | esc : Pending utf8 [27] [] .esc
  | escHash : Pending utf8 [27, 35] [] .escHash
  | escPercent : Pending utf8 [27, 37] [] .escPercent
  | escCharset (m : Nat) (h : m = 40 ∨ m = 41) : Pending utf8 [27, m] [] (.escCharset m)
  | csi (i body : List Nat) (done : List (List Nat)) (cur : List Nat) (hi : CsiIntro i)
      (hb : ∀ c ∈ body, csiInner c = true) (hs : splitSemi (paramChars body) = done ++ [cur]) :
      Pending utf8 (i ++ body) (embedded body) (.csi (done.map paramValue) cur (csiPrivate body))
  | csiDollar (i body : List Nat) (hi : CsiIntro i) (hb : ∀ c ∈ body, csiInner c = true) :
      Pending utf8 (i ++ body ++ [36]) (embedded body) .csiDollar
  | oscCode (i : List Nat) (hi : OscIntro i) : Pending utf8 i [] .oscCode
  | oscFirstEsc (i : List Nat) (hi : OscIntro i) : Pending utf8 (i ++ [27]) [] .oscFirstEsc
  | oscParam (i head : List Nat) (code : Nat) (pfx : List Nat) (atoms : List Atom)
      (hi : OscIntro i) (hh : OscHead head code pfx) :
      Pending utf8 (i ++ head ++ payloadOf atoms) [] (.oscParam code (pfx ++ payloadOf atoms))
  | oscParamEsc (i head : List Nat) (code : Nat) (pfx : List Nat) (atoms : List Atom)
      (hi : OscIntro i) (hh : OscHead head code pfx) :
      Pending utf8 (i ++ head ++ payloadOf atoms ++ [27]) [] (.oscParamEsc code (pfx ++ payloadOf atoms))

theorem Pending.ne_ground {utf8 : Bool} {t : List Nat} {ev : List Call} {st : PState}
    (h : Pending utf8 t ev st) : st ≠ .ground := by
  cases h <;> simp

theorem payloadOf_snoc (atoms : List Atom) (a : Atom) : payloadOf (atoms ++ [a]) = payloadOf atoms ++ a.chars := by
  simp [payloadOf]


theorem csiInner_cases (c : Nat) (h : csiInner c = true) :
    c = 63 ∨ (7 ≤ c ∧ c ≤ 13) ∨ c = 32 ∨ c = 62 ∨ isDigit c = true ∨ c = 59 := by
  simp only [csiInner, isDigit, Bool.or_eq_true, beq_iff_eq, Bool.and_eq_true, decide_eq_true_eq] at h ⊢
  omega

/-- one inner character of a CSI body: the collector keeps describing the body read so far -/
theorem csi_inner_step (utf8 : Bool) (body : List Nat) (done : List (List Nat)) (cur : List Nat) (c : Nat)
    (hs : splitSemi (paramChars body) = done ++ [cur]) (hc : csiInner c = true) :
    ∃ done' cur', splitSemi (paramChars (body ++ [c])) = done' ++ [cur'] ∧
      send utf8 (.csi (done.map paramValue) cur (csiPrivate body)) c =
        (.csi (done'.map paramValue) cur' (csiPrivate (body ++ [c])), embeddedOne c) := by
  rcases csiInner_cases c hc with h | h | h | h | h | h
  · subst h
    refine ⟨done, cur, ?_, ?_⟩
    · rw [paramChars_snoc]; simpa [isDigit] using hs
    · rw [csi_private, csiPrivate_snoc]; simp [embeddedOne]
  · refine ⟨done, cur, ?_, ?_⟩
    · rw [paramChars_snoc]
      have : (isDigit c || c == 59) = false := by
        simp only [isDigit, Bool.or_eq_false_iff, Bool.and_eq_false_iff, decide_eq_false_iff_not, beq_eq_false_iff_ne]
        omega
      simpa [this] using hs
    · rw [csi_embedded_control _ _ _ _ _ h, csiPrivate_snoc]
      have : (c == 63) = false := by simp only [beq_eq_false_iff_ne]; omega
      simp [this, embeddedOne, h]
  · subst h
    refine ⟨done, cur, ?_, ?_⟩
    · rw [paramChars_snoc]; simpa [isDigit] using hs
    · rw [(csi_skip _ _ _ _).1, csiPrivate_snoc]; simp [embeddedOne]
  · subst h
    refine ⟨done, cur, ?_, ?_⟩
    · rw [paramChars_snoc]; simpa [isDigit] using hs
    · rw [(csi_skip _ _ _ _).2, csiPrivate_snoc]; simp [embeddedOne]
  · refine ⟨done, cur ++ [c], ?_, ?_⟩
    · rw [paramChars_snoc]
      simp only [h, Bool.true_or, if_true]
      have h59 : c ≠ 59 := by
        simp only [isDigit, Bool.and_eq_true, decide_eq_true_eq] at h; omega
      exact splitSemi_snoc_digit _ c h59 done cur hs
    · rw [csi_digit _ _ _ _ _ h, csiPrivate_snoc]
      simp only [isDigit, Bool.and_eq_true, decide_eq_true_eq] at h
      have : (c == 63) = false := by simp only [beq_eq_false_iff_ne]; omega
      have e : embeddedOne c = [] := by simp only [embeddedOne]; split <;> first | omega | rfl
      simp [this, e]
  · subst h
    refine ⟨done ++ [cur], [], ?_, ?_⟩
    · rw [paramChars_snoc]
      simp only [isDigit, beq_self_eq_true, Bool.or_true, if_true]
      rw [splitSemi_snoc_semi, hs]
    · rw [csi_semicolon, csiPrivate_snoc]
      simp [embeddedOne]


theorem not_inner_cases (c : Nat) (h : csiInner c = false) :
    c = 24 ∨ c = 26 ∨ c = 36 ∨ csiFinal c = true := by
  simp only [csiInner, csiFinal, isDigit, Bool.or_eq_false_iff, Bool.and_eq_false_iff, beq_eq_false_iff_ne,
    decide_eq_false_iff_not, Bool.and_eq_true, bne_iff_ne, ne_eq, Bool.not_eq_true'] at h ⊢
  omega

theorem oscTerm_contains_one (c : Nat) : OSC_TERMINATORS.contains [c] = (c == 7 || c == 0x9c) := by
  simp only [OSC_TERMINATORS, List.contains_cons, List.contains_nil, Bool.or_false]
  by_cases h7 : c = 7
  · subst h7; rfl
  · by_cases h9 : c = 0x9c
    · subst h9; rfl
    · have e1 : ([c] == [7]) = false := by simpa using h7
      have e2 : ([c] == [27, 92]) = false := by simp
      have e3 : ([c] == [0x9c]) = false := by simpa using h9
      have e4 : (c == 7) = false := by simpa using h7
      have e5 : (c == 0x9c) = false := by simpa using h9
      rw [e1, e2, e3, e4, e5]; rfl

theorem oscTerm_contains_esc (c : Nat) : OSC_TERMINATORS.contains (ESC ++ [c]) = (c == 92) := by
  simp only [OSC_TERMINATORS, ESC, List.contains_cons, List.contains_nil, Bool.or_false, List.cons_append, List.nil_append]
  by_cases h : c = 92
  · subst h; rfl
  · have e1 : ([27, c] == [7]) = false := by simp
    have e2 : ([27, c] == [27, 92]) = false := by simpa using h
    have e3 : ([27, c] == [0x9c]) = false := by simp
    have e4 : (c == 92) = false := by simpa using h
    rw [e1, e2, e3, e4]; rfl

/-- One more character of an incomplete unit either completes it - the recogniser is back in its
    ground state and the events are those of the unit - or leaves a longer incomplete unit. -/
theorem pending_step {utf8 : Bool} {tail : List Nat} {ev : List Call} {st : PState}
    (h : Pending utf8 tail ev st) (c : Nat) :
    ((send utf8 st c).1 = .ground ∧ Unit utf8 (tail ++ [c]) (ev ++ (send utf8 st c).2)) ∨
    Pending utf8 (tail ++ [c]) (ev ++ (send utf8 st c).2) (send utf8 st c).1 := by
  cases h with
  | esc =>
    by_cases h91 : c = 91
    · subst h91; right
      rw [(introducers utf8).1]
      have := Pending.csi (utf8 := utf8) [27, 91] [] [] [] (Or.inl rfl) (by simp) (by simp [paramChars, splitSemi])
      simpa [embedded, csiPrivate] using this
    · by_cases h93 : c = 93
      · subst h93; right
        rw [(introducers utf8).2.2.1]
        exact Pending.oscCode [27, 93] (Or.inl rfl)
      · by_cases h35 : c = 35
        · subst h35; right; exact Pending.escHash
        · by_cases h37 : c = 37
          · subst h37; right; exact Pending.escPercent
          · by_cases h40 : c = 40
            · subst h40; right; exact Pending.escCharset 40 (Or.inl rfl)
            · by_cases h41 : c = 41
              · subst h41; right; exact Pending.escCharset 41 (Or.inr rfl)
              · left
                rw [esc_final utf8 c ⟨h91, h93, h35, h37, h40, h41⟩]
                exact ⟨rfl, Unit.escFinal c ⟨h91, h93, h35, h37, h40, h41⟩⟩
  | escHash =>
    left
    rw [(esc_hash utf8 c).2]
    exact ⟨rfl, Unit.escHash c⟩
  | escPercent =>
    left
    exact ⟨rfl, Unit.escPercent c⟩
  | escCharset m hm =>
    left
    refine ⟨by simp only [send]; split <;> rfl, ?_⟩
    have := Unit.escCharset (utf8 := utf8) m c hm
    cases utf8 <;> simpa [send] using this
  | csi i body done cur hi hb hs =>
    by_cases hc : csiInner c = true
    · right
      obtain ⟨done', cur', hs', hsend⟩ := csi_inner_step utf8 body done cur c hs hc
      rw [hsend]
      have := Pending.csi (utf8 := utf8) i (body ++ [c]) done' cur' hi
        (by intro x hx; rcases List.mem_append.mp hx with h | h; exact hb x h; simp at h; subst h; exact hc) hs'
      simpa [embedded_snoc, List.append_assoc] using this
    · have hc' : csiInner c = false := by simpa using hc
      rcases not_inner_cases c hc' with h | h | h | h
      · subst h; left
        rw [(csi_abort _ _ _ _).1]
        exact ⟨rfl, Unit.csiAbort i body 24 hi hb (Or.inl rfl)⟩
      · subst h; left
        rw [(csi_abort _ _ _ _).2]
        exact ⟨rfl, Unit.csiAbort i body 26 hi hb (Or.inr rfl)⟩
      · subst h; right
        rw [(csi_dollar utf8 _ _ _ 0).1]
        simpa using Pending.csiDollar (utf8 := utf8) i body hi hb
      · left
        rw [csi_final _ _ _ _ _ h]
        refine ⟨rfl, ?_⟩
        have := Unit.csi (utf8 := utf8) i body c hi hb h
        simpa [csiParams, hs] using this
  | csiDollar i body hi hb =>
    left
    refine ⟨rfl, ?_⟩
    have := Unit.csiDollar (utf8 := utf8) i body c hi hb
    simpa [send] using this
  | oscCode _ hi =>
    by_cases hp : c = 82
    · left
      subst hp
      have : send utf8 .oscCode 82 = (.ground, []) := rfl
      rw [this]
      exact ⟨rfl, by simpa using Unit.oscPalette (utf8 := utf8) tail hi⟩
    · have h82 : (c == 82) = false := by simpa using hp
      by_cases h27 : c = 27
      · subst h27; right
        exact Pending.oscFirstEsc tail hi
      · have e27 : isStr c ESC = false := by simpa [isStr, ESC] using h27
        by_cases ht : c = 7 ∨ c = 0x9c
        · left
          have : send utf8 .oscCode c = (.ground, []) := by
            rcases ht with e | e <;> subst e <;> rfl
          rw [this]
          refine ⟨rfl, ?_⟩
          have := Unit.oscEmpty (utf8 := utf8) tail [c] hi (by rcases ht with e | e <;> subst e <;> simp [OscTerm])
          simpa using this
        · right
          have e7 : (c == 7) = false := by simp only [beq_eq_false_iff_ne]; omega
          have e9 : (c == 0x9c) = false := by simp only [beq_eq_false_iff_ne]; omega
          have : send utf8 .oscCode c = (.oscParam c [], []) := by
            simp only [send, h82, e27, oscTerm_contains_one, e7, e9, Bool.or_self, Bool.false_eq_true, if_false]
          rw [this]
          have hk : okChar c := ⟨by omega, by omega, h27⟩
          have := Pending.oscParam (utf8 := utf8) tail [c] c [] [] hi (Or.inl ⟨rfl, rfl, hk, hp⟩)
          simpa [payloadOf] using this
  | oscFirstEsc i hi =>
    by_cases h : c = 92
    · subst h; left
      have e : send utf8 .oscFirstEsc 92 = (.ground, []) := rfl
      rw [e]
      refine ⟨rfl, ?_⟩
      have := Unit.oscEmpty (utf8 := utf8) i [27, 92] hi (by simp [OscTerm])
      simpa using this
    · right
      have e : (c == 92) = false := by simpa using h
      have : send utf8 .oscFirstEsc c = (.oscParam 27 [c], []) := by
        simp only [send, oscTerm_contains_esc, e, Bool.false_eq_true, if_false]; rfl
      rw [this]
      have := Pending.oscParam (utf8 := utf8) i [27, c] 27 [c] [] hi (Or.inr ⟨c, rfl, rfl, rfl, h⟩)
      simpa [payloadOf] using this
  | oscParam i head code pfx atoms hi hh =>
    by_cases h27 : c = 27
    · subst h27; right
      exact Pending.oscParamEsc i head code pfx atoms hi hh
    · by_cases ht : c = 7 ∨ c = 0x9c
      · left
        have : send utf8 (.oscParam code (pfx ++ payloadOf atoms)) c = (.ground, oscFinish code (pfx ++ payloadOf atoms)) := by
          rcases ht with e | e <;> subst e <;> rfl
        rw [this]
        refine ⟨rfl, ?_⟩
        have := Unit.osc (utf8 := utf8) i head code pfx atoms [c] hi hh (by rcases ht with e | e <;> subst e <;> simp [OscTerm])
        simpa using this
      · right
        have hk : okChar c := ⟨by omega, by omega, h27⟩
        rw [osc_plain _ _ _ _ hk]
        have := Pending.oscParam (utf8 := utf8) i head code pfx (atoms ++ [.plain c hk]) hi hh
        simpa [payloadOf_snoc, Atom.chars, List.append_assoc] using this
  | oscParamEsc i head code pfx atoms hi hh =>
    by_cases h : c = 92
    · subst h; left
      rw [(osc_terminators _ _ _).2.2]
      refine ⟨rfl, ?_⟩
      have := Unit.osc (utf8 := utf8) i head code pfx atoms [27, 92] hi hh (by simp [OscTerm])
      simpa [List.append_assoc] using this
    · right
      rw [(osc_pair utf8 _ _ c h).2]
      have := Pending.oscParam (utf8 := utf8) i head code pfx (atoms ++ [.pair c h]) hi hh
      simpa [payloadOf_snoc, Atom.chars, List.append_assoc] using this


/-- a special character in the ground state is a C0 control (a complete unit) or starts a sequence -/
theorem ground_step (utf8 : Bool) (c : Nat) (h : isSpecial c = true) :
    ((send utf8 .ground c).1 = .ground ∧ Unit utf8 [c] (send utf8 .ground c).2) ∨
    Pending utf8 [c] (send utf8 .ground c).2 (send utf8 .ground c).1 := by
  rcases (special_iff c).mp h with e | e | e | e
  · subst e; right; rw [esc_starts]; exact Pending.esc
  · subst e; right
    rw [(introducers utf8).2.1]
    have := Pending.csi (utf8 := utf8) [0x9b] [] [] [] (Or.inr rfl) (by simp) (by simp [paramChars, splitSemi])
    simpa [embedded, csiPrivate] using this
  · subst e; right
    rw [(introducers utf8).2.2.2]
    exact Pending.oscCode [0x9d] (Or.inr rfl)
  · left
    rw [c0_ground utf8 c e]
    exact ⟨rfl, Unit.c0 c e⟩

/-- What has been fed so far is a sequence of complete units followed by an incomplete one (possibly
    nothing), the events so far are exactly theirs, in order, and the recogniser is in its ground
    state exactly when nothing is incomplete. -/
def Split (utf8 : Bool) (input : List Nat) (events : List Call) (p : Parser) : Prop :=
  ∃ (us : List (List Nat × List Call)) (tail : List Nat) (tev : List Call),
    (∀ u ∈ us, Unit utf8 u.1 u.2) ∧ input = (us.map Prod.fst).flatten ++ tail ∧
    events = (us.map Prod.snd).flatten ++ tev ∧
    ((tail = [] ∧ tev = [] ∧ p.taking = true ∧ p.fsm = .ground) ∨ (p.taking = false ∧ Pending utf8 tail tev p.fsm))

theorem pstep_useUtf8 (p : Parser) (c : Nat) : (pstep p c).1.useUtf8 = p.useUtf8 := by
  simp only [pstep]; repeat' split
  all_goals rfl

theorem split_step {utf8 : Bool} {input : List Nat} {events : List Call} {p : Parser}
    (hu : p.useUtf8 = utf8) (h : Split utf8 input events p) (c : Nat) :
    Split utf8 (input ++ [c]) (events ++ (pstep p c).2) (pstep p c).1 := by
  obtain ⟨us, tail, tev, hus, hin, hev, hst⟩ := h
  have snoc : ∀ (u : List Nat × List Call), Unit utf8 u.1 u.2 → ∀ x ∈ us ++ [u], Unit utf8 x.1 x.2 := by
    intro u hu' x hx
    rcases List.mem_append.mp hx with h1 | h1
    · exact hus x h1
    · simp only [List.mem_singleton] at h1; subst h1; exact hu'
  rcases hst with ⟨ht, hte, htk, hfs⟩ | ⟨htk, hpend⟩
  · subst ht hte
    by_cases hs : isSpecial c = true
    · have hp : pstep p c = ({ p with taking := (send utf8 .ground c).1 == .ground, fsm := (send utf8 .ground c).1 },
          (send utf8 .ground c).2) := by
        simp [pstep, htk, hs, hfs, hu]
      rw [hp]
      rcases ground_step utf8 c hs with ⟨hg, hunit⟩ | hpen
      · refine ⟨us ++ [([c], (send utf8 .ground c).2)], [], [], snoc _ hunit, ?_, ?_, Or.inl ⟨rfl, rfl, ?_, hg⟩⟩
        · simp [hin]
        · simp [hev]
        · simp [hg]
      · refine ⟨us, [c], (send utf8 .ground c).2, hus, ?_, ?_, Or.inr ⟨?_, hpen⟩⟩
        · simp [hin]
        · simp [hev]
        · have := hpen.ne_ground
          simpa using this
    · have hs' : isSpecial c = false := by simpa using hs
      have hp : pstep p c = ({ p with taking := true }, [.draw [c]]) := by
        simp [pstep, htk, hs']
      rw [hp]
      refine ⟨us ++ [([c], [.draw [c]])], [], [], snoc _ (Unit.text c hs'), ?_, ?_, Or.inl ⟨rfl, rfl, rfl, hfs⟩⟩
      · simp [hin]
      · simp [hev]
  · have hp : pstep p c = ({ p with taking := (send utf8 p.fsm c).1 == .ground, fsm := (send utf8 p.fsm c).1 },
        (send utf8 p.fsm c).2) := by
      simp [pstep, htk, hu]
    rw [hp]
    rcases pending_step hpend c with ⟨hg, hunit⟩ | hpen
    · refine ⟨us ++ [(tail ++ [c], tev ++ (send utf8 p.fsm c).2)], [], [], snoc _ hunit, ?_, ?_, Or.inl ⟨rfl, rfl, ?_, hg⟩⟩
      · simp [hin]
      · simp [hev]
      · simp [hg]
    · refine ⟨us, tail ++ [c], tev ++ (send utf8 p.fsm c).2, hus, ?_, ?_, Or.inr ⟨?_, hpen⟩⟩
      · simp [hin]
      · simp [hev]
      · have := hpen.ne_ground
        simpa using this

theorem feed_split {utf8 : Bool} (cs : List Nat) : ∀ {input : List Nat} {events : List Call} {p : Parser},
    p.useUtf8 = utf8 → Split utf8 input events p → Split utf8 (input ++ cs) (events ++ (feed p cs).2) (feed p cs).1 := by
  induction cs with
  | nil => intro input events p _ h; simpa [feed] using h
  | cons c cs ih =>
    intro input events p hu h
    have h1 := split_step hu h c
    have h2 := ih (by rw [pstep_useUtf8]; exact hu) h1
    simpa [feed, List.append_assoc] using h2

/-! #### helpers for the other direction: a unit fed in the ground state -/

theorem embedded_cons (c : Nat) (body : List Nat) : embedded (c :: body) = embeddedOne c ++ embedded body := by
  simp [embedded]

/-- the inner characters of a CSI body, fed while the collector describes `pre` -/
theorem feed_csi_body (body : List Nat) : ∀ (p : Parser) (pre : List Nat) (done : List (List Nat)) (cur : List Nat),
    p.taking = false → p.fsm = .csi (done.map paramValue) cur (csiPrivate pre) →
    splitSemi (paramChars pre) = done ++ [cur] → (∀ c ∈ body, csiInner c = true) →
    ∃ done' cur', splitSemi (paramChars (pre ++ body)) = done' ++ [cur'] ∧
      feed p body = ({ p with fsm := .csi (done'.map paramValue) cur' (csiPrivate (pre ++ body)) }, embedded body) := by
  induction body with
  | nil =>
    intro p pre done cur ht hf hs _
    refine ⟨done, cur, by simpa using hs, ?_⟩
    simp only [feed, List.append_nil, embedded, List.map_nil, List.flatten_nil]
    cases p; simp_all
  | cons c body ih =>
    intro p pre done cur ht hf hs hb
    obtain ⟨d1, c1, hs1, hsend⟩ := csi_inner_step p.useUtf8 pre done cur c hs (hb c (List.mem_cons_self ..))
    obtain ⟨d2, c2, hs2, hfeed⟩ := ih
      { p with taking := (PState.csi (d1.map paramValue) c1 (csiPrivate (pre ++ [c])) == PState.ground),
               fsm := .csi (d1.map paramValue) c1 (csiPrivate (pre ++ [c])) }
      (pre ++ [c]) d1 c1 rfl rfl hs1 (fun x hx => hb x (List.mem_cons_of_mem _ hx))
    refine ⟨d2, c2, by simpa [List.append_assoc] using hs2, ?_⟩
    rw [feed_cons_fsm p ht, hf, hsend]
    simp only [hfeed, embedded_cons, List.append_assoc, List.singleton_append]
    cases p; simp_all

theorem ground_eq (p : Parser) (hp : Ground p) : p = { taking := true, fsm := .ground, useUtf8 := p.useUtf8 } := by
  cases p; simp only [Parser.mk.injEq, and_true]; exact ⟨hp.1, hp.2⟩

/-- after a CSI introducer the collector is empty -/
theorem feed_csi_intro (p : Parser) (hp : Ground p) (i : List Nat) (hi : CsiIntro i) (rest : List Nat) :
    feed p (i ++ rest) =
      feed { taking := false, fsm := .csi [] [] false, useUtf8 := p.useUtf8 } rest := by
  rcases hi with e | e <;> subst e
  · simp only [List.cons_append, List.nil_append]
    rw [feed_cons_special p hp 27 (by decide)]
    simp only [esc_starts, List.nil_append]
    rw [feed_cons_fsm _ rfl]
    simp only [(introducers p.useUtf8).1, List.nil_append]
    rfl
  · simp only [List.cons_append, List.nil_append]
    rw [feed_cons_special p hp 0x9b (by decide)]
    simp only [(introducers p.useUtf8).2.1, List.nil_append]
    rfl

theorem feed_osc_intro (p : Parser) (hp : Ground p) (i : List Nat) (hi : OscIntro i) (rest : List Nat) :
    feed p (i ++ rest) =
      feed { taking := false, fsm := .oscCode, useUtf8 := p.useUtf8 } rest := by
  rcases hi with e | e <;> subst e
  · simp only [List.cons_append, List.nil_append]
    rw [feed_cons_special p hp 27 (by decide)]
    simp only [esc_starts, List.nil_append]
    rw [feed_cons_fsm _ rfl]
    simp only [(introducers p.useUtf8).2.2.1, List.nil_append]
    rfl
  · simp only [List.cons_append, List.nil_append]
    rw [feed_cons_special p hp 0x9d (by decide)]
    simp only [(introducers p.useUtf8).2.2.2, List.nil_append]
    rfl


/-- one more character in a non-ground state that completes the sequence -/
theorem feed_last (q : Parser) (hq : q.taking = false) (c : Nat) (ev : List Call)
    (h : send q.useUtf8 q.fsm c = (.ground, ev)) :
    feed q [c] = ({ taking := true, fsm := .ground, useUtf8 := q.useUtf8 }, ev) := by
  rw [feed_cons_fsm q hq, h]
  simp [feed]

end Grammar
end Memterm
