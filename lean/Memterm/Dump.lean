import Memterm.Utf8

/-
  Driver side: parsing the harness log (states dumped from the real crate,
  calls, unicode facts) into model values.  Not part of the verified model.
-/
namespace Memterm

structure Dump where
  columns : Nat
  lines : Nat
  cursor : Cursor
  cursorData : List Nat
  margins : Option (Nat × Nat)
  mode : List Nat
  tabstops : List Nat
  dirty : List Nat
  title : List Nat
  icon : List Nat
  g0 : Nat
  g1 : Nat
  g1Active : Bool
  savedColumns : Option Nat
  /-- newest first; each with the data string of its cursor attr -/
  savepoints : List (Cursor × List Nat × Nat × Nat × Bool × Bool × Bool)
  rowKeys : List Nat
  cells : Array (Nat × Nat × Cell)
deriving Inhabited

abbrev Rd := StateT Nat (ReaderT (Array String) (Except String))

def rdTok : Rd String := do
  let i ← get
  let toks ← read
  if h : i < toks.size then
    set (i + 1)
    return toks[i]
  else throw "unexpected end of line"

def rdNat : Rd Nat := do
  let t ← rdTok
  match t.toNat? with
  | some n => return n
  | none => throw s!"expected number, got {t}"

def rdOpt : Rd (Option Nat) := do
  let t ← rdTok
  if t == "-" then return none
  match t.toNat? with
  | some n => return some n
  | none => throw s!"expected number or -, got {t}"

def rdList : Rd (List Nat) := do
  let n ← rdNat
  let mut out : Array Nat := #[]
  for _ in [0:n] do
    out := out.push (← rdNat)
  return out.toList

def attrOfFlags (fg bg : List Nat) (f : Nat) : Attr :=
  { fg := fg, bg := bg, bold := f % 2 == 1, italics := (f / 2) % 2 == 1,
    underscore := (f / 4) % 2 == 1, strikethrough := (f / 8) % 2 == 1,
    reverse := (f / 16) % 2 == 1, blink := (f / 32) % 2 == 1 }

def rdCell : Rd Cell := do
  let data ← rdList
  let fg ← rdList
  let bg ← rdList
  let f ← rdNat
  return { data := data, attr := attrOfFlags fg bg f }

def rdCursor : Rd (Cursor × List Nat) := do
  let x ← rdNat
  let y ← rdNat
  let h ← rdNat
  let c ← rdCell
  return ({ x := x, y := y, attr := c.attr, hidden := h != 0 }, c.data)

def rdDump : Rd Dump := do
  let columns ← rdNat
  let lines ← rdNat
  let (cursor, cdata) ← rdCursor
  let hasM ← rdNat
  let mt ← rdNat
  let mb ← rdNat
  let mode ← rdList
  let tabstops ← rdList
  let dirty ← rdList
  let title ← rdList
  let icon ← rdList
  let g0 ← rdNat
  let g1 ← rdNat
  let act ← rdNat
  let hasSc ← rdNat
  let sc ← rdNat
  let nsp ← rdNat
  let mut sps : List (Cursor × List Nat × Nat × Nat × Bool × Bool × Bool) := []
  for _ in [0:nsp] do
    let (c, d) ← rdCursor
    let a ← rdNat
    let b ← rdNat
    let e ← rdNat
    let o ← rdNat
    let w ← rdNat
    sps := (c, d, a, b, e != 0, o != 0, w != 0) :: sps
  let rowKeys ← rdList
  let ncells ← rdNat
  let mut cells : Array (Nat × Nat × Cell) := Array.mkEmpty ncells
  for _ in [0:ncells] do
    let y ← rdNat
    let x ← rdNat
    let c ← rdCell
    cells := cells.push (y, x, c)
  return { columns, lines, cursor, cursorData := cdata,
           margins := if hasM != 0 then some (mt, mb) else none,
           mode, tabstops, dirty, title, icon, g0, g1, g1Active := act != 0,
           savedColumns := if hasSc != 0 then some sc else none,
           savepoints := sps, rowKeys, cells }

def rdCall : Rd Call := do
  let name ← rdTok
  match name with
  | "alignment_display" => return .alignmentDisplay
  | "define_charset" => return .defineCharset (← rdList) (← rdList)
  | "reset" => return .reset
  | "index" => return .index
  | "linefeed" => return .linefeed
  | "reverse_index" => return .reverseIndex
  | "set_tab_stop" => return .setTabStop
  | "save_cursor" => return .saveCursor
  | "restore_cursor" => return .restoreCursor
  | "shift_out" => return .shiftOut
  | "shift_in" => return .shiftIn
  | "bell" => return .bell
  | "backspace" => return .backspace
  | "tab" => return .tab
  | "cariage_return" => return .cariageReturn
  | "draw" => return .draw (← rdList)
  | "insert_characters" => return .insertCharacters (← rdOpt)
  | "cursor_up" => return .cursorUp (← rdOpt)
  | "cursor_down" => return .cursorDown (← rdOpt)
  | "cursor_forward" => return .cursorForward (← rdOpt)
  | "cursor_back" => return .cursorBack (← rdOpt)
  | "cursor_down1" => return .cursorDown1 (← rdOpt)
  | "cursor_up1" => return .cursorUp1 (← rdOpt)
  | "cursor_to_column" => return .cursorToColumn (← rdOpt)
  | "cursor_position" => return .cursorPosition (← rdOpt) (← rdOpt)
  | "erase_in_display" => return .eraseInDisplay (← rdOpt)
  | "erase_in_line" => return .eraseInLine (← rdOpt)
  | "insert_lines" => return .insertLines (← rdOpt)
  | "delete_lines" => return .deleteLines (← rdOpt)
  | "delete_characters" => return .deleteCharacters (← rdOpt)
  | "erase_characters" => return .eraseCharacters (← rdOpt)
  | "report_device_attributes" => return .reportDeviceAttributes (← rdOpt)
  | "cursor_to_line" => return .cursorToLine (← rdOpt)
  | "clear_tab_stop" => return .clearTabStop (← rdOpt)
  | "set_mode" => do
    let l ← rdList
    let p ← rdNat
    return .setMode l (p != 0)
  | "reset_mode" => do
    let l ← rdList
    let p ← rdNat
    return .resetMode l (p != 0)
  | "select_graphic_rendition" => return .sgr (← rdList)
  | "set_title" => return .setTitle (← rdList)
  | "set_icon_name" => return .setIconName (← rdList)
  | "set_margins" => return .setMargins (← rdOpt) (← rdOpt)
  | "resize" => return .resize (← rdOpt) (← rdOpt)
  | "display" => return .display
  | "clear_dirty" => return .clearDirty
  | other => throw s!"unknown call {other}"

def runRd {α} (r : Rd α) (toks : Array String) (start : Nat) : Except String α :=
  (do let (a, _) ← (r.run start).run toks; pure a)

/-- the default cell as the implementation computes it for a dumped state -/
def Dump.defaultCell (d : Dump) : Cell :=
  { data := strSpace,
    attr := { fg := strDefault, bg := strDefault, bold := false, italics := false,
              underscore := false, strikethrough := false,
              reverse := d.mode.contains Gen.DECSCNM, blink := false } }

def csOfNatD (n : Nat) : CsId := (csOfNat n).getD .lat1

/-- observation of a dumped implementation state as a model state -/
def Dump.toScreen (d : Dump) : Screen :=
  let dflt := d.defaultCell
  let grid : Array (Array Cell) := Id.run do
    let mut g : Array (Array Cell) := Array.replicate d.lines (Array.replicate d.columns dflt)
    for (y, x, c) in d.cells do
      if y < d.lines && x < d.columns then
        g := g.modify y (fun row => row.set! x c)
    return g
  { columns := d.columns, lines := d.lines, cursor := d.cursor, margins := d.margins,
    mode := fun m => d.mode.contains m,
    tabstops := fun c => d.tabstops.contains c,
    dirty := fun r => d.dirty.contains r,
    title := d.title, icon := d.icon,
    g0 := csOfNatD d.g0, g1 := csOfNatD d.g1, g1Active := d.g1Active,
    savepoints := d.savepoints.map fun (c, _, a, b, e, o, w) =>
      { cursor := c, g0 := csOfNatD a, g1 := csOfNatD b, g1Active := e, origin := o, wrap := w },
    savedColumns := d.savedColumns,
    cell := fun y x =>
      if y < d.lines && x < d.columns then (grid.getD y #[]).getD x dflt else dflt }

/-- keys stored outside the grid (never observable, must not exist) -/
def Dump.hidden (d : Dump) : List (Nat × Nat) :=
  (d.rowKeys.filter (· ≥ d.lines)).map (fun y => (y, 0)) ++
  (d.cells.toList.filterMap fun (y, x, _) =>
    if y ≥ d.lines || x ≥ d.columns then some (y, x) else none)

/-- things the model cannot represent: unknown charset arrays, cursor attr text ≠ " " -/
def Dump.unrepresentable (d : Dump) : List String :=
  (if d.g0 > 3 || d.g1 > 3 then ["charset-array-not-one-of-the-four"] else []) ++
  (if d.cursorData != strSpace then ["cursor-attr-data-not-space"] else []) ++
  (if d.savepoints.any (fun (_, cd, a, b, _, _, _) => cd != strSpace || a > 3 || b > 3)
    then ["savepoint-unrepresentable"] else [])

end Memterm
