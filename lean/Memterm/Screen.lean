import Memterm.Types
import Memterm.Generated.Tables

/-
  Executable model of `src/screen.rs` (the `ParserListener for Screen` impl,
  `resize`, `display`), on the observable grid.  Each definition follows the
  Rust function of the same name statement by statement; loops over ranges of
  distinct keys are written pointwise.  All constants come from
  `Memterm.Gen` (regenerated from the source on every run).
-/
namespace Memterm

open Gen

/-! ### helpers -/

/-- `count.map(|a| if a > 0 { a } else { 1 }).unwrap_or(1)` -/
def nz : Option Nat → Nat
  | some 0 => 1
  | some n => n
  | none => 1

def memList (n : Nat) (l : List Nat) : Bool := l.contains n

/-- `default_char()` without the text -/
def defaultAttr (s : Screen) : Attr :=
  { fg := strDefault, bg := strDefault, bold := false, italics := false,
    underscore := false, strikethrough := false, reverse := s.mode DECSCNM, blink := false }

/-- `default_char()` -/
def defaultCell (s : Screen) : Cell := { data := strSpace, attr := defaultAttr s }

/-- the cell the erase operations write: `cursor.attr.clone()` -/
def cursorCell (s : Screen) : Cell := { data := strSpace, attr := s.cursor.attr }

def topMargin (s : Screen) : Nat := match s.margins with
  | some (t, _) => t
  | none => 0

def bottomMargin (s : Screen) : Nat := match s.margins with
  | some (_, b) => b
  | none => s.lines - 1

def setCursorX (s : Screen) (x : Nat) : Screen := { s with cursor := { s.cursor with x := x } }
def setCursorY (s : Screen) (y : Nat) : Screen := { s with cursor := { s.cursor with y := y } }

def markDirty (s : Screen) (y : Nat) : Screen :=
  { s with dirty := fun d => d == y || s.dirty d }

def markDirtyRange (s : Screen) (lo hi : Nat) : Screen :=
  { s with dirty := fun d => (lo ≤ d && d < hi) || s.dirty d }

def markAllDirty (s : Screen) : Screen := markDirtyRange s 0 s.lines

/-- `ensure_hbounds` -/
def ensureHBounds (s : Screen) : Screen := setCursorX s (min s.cursor.x (s.columns - 1))

/-- `ensure_vbounds(use_margins)` -/
def ensureVBounds (s : Screen) (useMargins : Bool) : Screen :=
  let tb : Nat × Nat :=
    match s.margins with
    | some (t, b) => if useMargins || s.mode DECOM then (t, b) else (0, s.lines - 1)
    | none => (0, s.lines - 1)
  setCursorY s (min (max tb.1 s.cursor.y) tb.2)

/-! ### cursor motion -/

def cariageReturn (s : Screen) : Screen := setCursorX s 0

def cursorUp (s : Screen) (count : Option Nat) : Screen :=
  setCursorY s (max (s.cursor.y - nz count) (topMargin s))

def cursorDown (s : Screen) (count : Option Nat) : Screen :=
  setCursorY s (min (s.cursor.y + nz count) (bottomMargin s))

def cursorDown1 (s : Screen) (count : Option Nat) : Screen := cariageReturn (cursorDown s count)
def cursorUp1 (s : Screen) (count : Option Nat) : Screen := cariageReturn (cursorUp s count)

def cursorForward (s : Screen) (count : Option Nat) : Screen :=
  ensureHBounds (setCursorX s (s.cursor.x + nz count))

def cursorBack (s : Screen) (count : Option Nat) : Screen :=
  let x := if s.cursor.x == s.columns then s.cursor.x - 1 else s.cursor.x
  ensureHBounds (setCursorX s (x - nz count))

def backspace (s : Screen) : Screen := cursorBack s none

def cursorToColumn (s : Screen) (c : Option Nat) : Screen :=
  ensureHBounds (setCursorX s (nz c - 1))

def cursorPosition (s : Screen) (line column : Option Nat) : Screen :=
  let column := nz column - 1
  let line := nz line - 1
  let place (line : Nat) : Screen :=
    ensureVBounds (ensureHBounds (setCursorY (setCursorX s column) line)) false
  match s.margins with
  | some (t, b) =>
    if s.mode DECOM then
      let line := line + t
      if line < t || line > b then s else place line
    else place line
  | none => place line

def cursorToLine (s : Screen) (line : Option Nat) : Screen :=
  let y := nz line - 1
  let y := if s.mode DECOM then (match s.margins with | some (t, _) => y + t | none => y) else y
  ensureVBounds (setCursorY s y) false

/-! ### tab stops -/

def setTabStop (s : Screen) : Screen :=
  { s with tabstops := fun c => c == s.cursor.x || s.tabstops c }

def tbcStops (s : Screen) (h : Nat) : Nat → Bool :=
  match h with
  | 0 => fun c => c != s.cursor.x && s.tabstops c
  | 3 => fun _ => false
  | _ => s.tabstops

def clearTabStop (s : Screen) (how : Option Nat) : Screen :=
  { s with tabstops := tbcStops s (how.getD 0) }

/-- least `c` in `[start, start + fuel)` with `stops c` -/
def firstStopFrom (stops : Nat → Bool) : Nat → Nat → Option Nat
  | _, 0 => none
  | start, fuel + 1 => if stops start then some start else firstStopFrom stops (start + 1) fuel

/-- `tab`: the first stop to the right of the cursor in sorted order, else the last
    column; never beyond the last column (stops at or beyond the last column give the
    last column either way, so the scan stops there). -/
def tab (s : Screen) : Screen :=
  match firstStopFrom s.tabstops (s.cursor.x + 1) (s.columns - (s.cursor.x + 1)) with
  | some c => setCursorX s (min c (s.columns - 1))
  | none => setCursorX s (s.columns - 1)

/-! ### margins -/

/-- 1-based argument to a 0-based row bounded by `[0, lines - 1]`; absent = current value -/
def clampMargin (s : Screen) (inner : Nat) : Option Nat → Nat
  | none => inner
  | some v => min (v - 1) (s.lines - 1)

def setMargins (s : Screen) (top bottom : Option Nat) : Screen :=
  if top.getD 0 == 0 && bottom.isNone then { s with margins := none }
  else
    let inner : Nat × Nat := s.margins.getD (0, s.lines - 1)
    let t := clampMargin s inner.1 top
    let b := clampMargin s inner.2 bottom
    if t + 1 ≤ b then cursorPosition { s with margins := some (t, b) } none none
    else s

/-! ### scrolling -/

def blankRow (s : Screen) : Nat → Cell := fun _ => defaultCell s

/-- `index` -/
def index (s : Screen) : Screen :=
  let t := topMargin s
  let b := bottomMargin s
  if s.cursor.y == b then
    let s1 := markAllDirty s
    { s1 with cell := fun y x =>
        if t ≤ y && y < b then s.cell (y + 1) x
        else if y == b then defaultCell s
        else s.cell y x }
  else cursorDown s none

/-- `linefeed` -/
def linefeed (s : Screen) : Screen :=
  let s1 := index s
  if s1.mode LNM then cariageReturn s1 else s1

/-- `reverse_index` -/
def reverseIndex (s : Screen) : Screen :=
  let t := topMargin s
  let b := bottomMargin s
  if s.cursor.y == t then
    let s1 := markAllDirty s
    { s1 with cell := fun y x =>
        if t < y && y ≤ b then s.cell (y - 1) x
        else if y == t then defaultCell s
        else s.cell y x }
  else cursorUp s none

/-- `insert_lines` -/
def insertLines (s : Screen) (count : Option Nat) : Screen :=
  let n := nz count
  let t := topMargin s
  let b := bottomMargin s
  if t ≤ s.cursor.y && s.cursor.y ≤ b then
    let s1 := markDirtyRange s s.cursor.y s.lines
    let cell' : Nat → Nat → Cell := fun y x =>
      if s.cursor.y ≤ y && y ≤ b then
        if y < s.cursor.y + n then defaultCell s else s.cell (y - n) x
      else s.cell y x
    cariageReturn { s1 with cell := cell' }
  else s

/-- `delete_lines` -/
def deleteLines (s : Screen) (count : Option Nat) : Screen :=
  let n := nz count
  let t := topMargin s
  let b := bottomMargin s
  if t ≤ s.cursor.y && s.cursor.y ≤ b then
    let s1 := markDirtyRange s s.cursor.y s.lines
    let cell' : Nat → Nat → Cell := fun y x =>
      if s.cursor.y ≤ y && y ≤ b then
        if y + n ≤ b then s.cell (y + n) x else defaultCell s
      else s.cell y x
    cariageReturn { s1 with cell := cell' }
  else s

/-! ### character insertion / deletion / erasure -/

/-- `insert_characters` -/
def insertCharacters (s : Screen) (count : Option Nat) : Screen :=
  let n := nz count
  let s1 := markDirty s s.cursor.y
  { s1 with cell := fun y x =>
      if y == s.cursor.y && s.cursor.x ≤ x && x < s.columns then
        if x < s.cursor.x + n then defaultCell s else s.cell y (x - n)
      else s.cell y x }

/-- `delete_characters` -/
def deleteCharacters (s : Screen) (count : Option Nat) : Screen :=
  let n := nz count
  let s1 := markDirty s s.cursor.y
  { s1 with cell := fun y x =>
      if y == s.cursor.y && s.cursor.x ≤ x && x < s.columns then
        if x + n < s.columns then s.cell y (x + n) else defaultCell s
      else s.cell y x }

/-- `erase_characters` -/
def eraseCharacters (s : Screen) (count : Option Nat) : Screen :=
  let n := nz count
  let s1 := markDirty s s.cursor.y
  { s1 with cell := fun y x =>
      if y == s.cursor.y && s.cursor.x ≤ x && x < min (s.cursor.x + n) s.columns then cursorCell s
      else s.cell y x }

/-- the column interval selected by `how` in `erase_in_line` (None: unsupported selector) -/
def elRange (s : Screen) (h : Nat) : Option (Nat → Bool) :=
  match h with
  | 0 => some (fun x => s.cursor.x ≤ x && x < s.columns)
  | 1 => some (fun x => x ≤ min s.cursor.x (s.columns - 1))
  | 2 => some (fun x => x < s.columns)
  | _ => none

/-- `erase_in_line` -/
def eraseInLine (s : Screen) (how : Option Nat) : Screen :=
  let s1 := markDirty s s.cursor.y
  match elRange s (how.getD 0) with
  | none => s1
  | some p =>
    { s1 with cell := fun y x => if y == s.cursor.y && p x then cursorCell s else s.cell y x }

/-- the row interval `[lo, hi)` selected by `how` in `erase_in_display` -/
def edRows (s : Screen) (h : Nat) : Nat × Nat :=
  match h with
  | 0 => (s.cursor.y + 1, s.lines)
  | 1 => (0, s.cursor.y)
  | 2 => (0, s.lines)
  | 3 => (0, s.lines)
  | _ => (0, 0)

/-- rows `[lo, hi)` filled with the cursor's blank, marked dirty -/
def edFill (s : Screen) (lo hi : Nat) : Screen :=
  { markDirtyRange s lo hi with
    cell := fun y x => if lo ≤ y && y < hi && x < s.columns then cursorCell s else s.cell y x }

/-- `erase_in_display` -/
def eraseInDisplay (s : Screen) (how : Option Nat) : Screen :=
  let h := how.getD 0
  let s2 := edFill s (edRows s h).1 (edRows s h).2
  if h == 0 || h == 1 then eraseInLine s2 (some h) else s2

/-! ### SGR -/

def lookup (k : Nat) : List (Nat × List Nat) → Option (List Nat)
  | [] => none
  | (k', v) :: rest => if k == k' then some v else lookup k rest

/-- `{:02x}` -/
def hexDigit (n : Nat) : Nat := if n < 10 then 48 + n else 87 + n

def hexDigits : Nat → Nat → List Nat
  | 0, _ => []
  | fuel + 1, n => if n < 16 then [hexDigit n] else hexDigits fuel (n / 16) ++ [hexDigit (n % 16)]

def hex2 (n : Nat) : List Nat :=
  if n < 16 then [48, hexDigit n] else hexDigits 16 n

/-- the names `update_from_map` understands -/
def setFlag (name : List Nat) (v : Bool) (a : Attr) : Attr :=
  if name == [98, 111, 108, 100] then { a with bold := v }                                       -- bold
  else if name == [105, 116, 97, 108, 105, 99, 115] then { a with italics := v }                 -- italics
  else if name == [117, 110, 100, 101, 114, 115, 99, 111, 114, 101] then { a with underscore := v } -- underscore
  else if name == [115, 116, 114, 105, 107, 101, 116, 104, 114, 111, 117, 103, 104] then { a with strikethrough := v }
  else if name == [114, 101, 118, 101, 114, 115, 101] then { a with reverse := v }               -- reverse
  else if name == [98, 108, 105, 110, 107] then { a with blink := v }                            -- blink
  else a

def setColor (fg : Bool) (v : List Nat) (a : Attr) : Attr :=
  if fg then { a with fg := v } else { a with bg := v }

/-- what one table-driven SGR code does to the rendition -/
inductive Act
  | fg (v : List Nat)
  | bg (v : List Nat)
  | flag (name : List Nat) (v : Bool)
deriving DecidableEq, Repr

def Act.run : Act → Attr → Attr
  | .fg v, a => { a with fg := v }
  | .bg v, a => { a with bg := v }
  | .flag name v, a => setFlag name v a

/-- the chain of table tests in `select_graphic_rendition`, in source order:
    FG_ANSI, BG_ANSI, TEXT, FG_AIXTERM, BG_AIXTERM -/
def tableAct (attr : Nat) : Option Act :=
  match lookup attr FG_ANSI with
  | some v => some (.fg v)
  | none =>
  match lookup attr BG_ANSI with
  | some v => some (.bg v)
  | none =>
  match lookup attr TEXT with
  | some str => some (.flag (str.drop 1) (str.head? == some 43))
  | none =>
  match lookup attr FG_AIXTERM with
  | some v => some (.fg v)
  | none =>
  match lookup attr BG_AIXTERM with
  | some v => some (.bg v)
  | none => none

/-- the `while let Some(attr) = attrs_list.pop()` loop; `fuel` bounds the
    number of iterations by the list length. -/
def sgrLoop (dflt : Attr) : Nat → List Nat → Attr → Attr
  | 0, _, a => a
  | _, [], a => a
  | fuel + 1, attr :: rest, a =>
    if attr == 0 then sgrLoop dflt fuel rest dflt
    else match tableAct attr with
    | some act => sgrLoop dflt fuel rest (act.run a)
    | none =>
    if attr == FG_256 || attr == BG_256 then
      let isFg := attr == FG_256
      match rest with
      | [] => a
      | n :: rest2 =>
        if n == 5 then
          match rest2 with
          | [] => a
          | m :: rest3 =>
            match FG_BG_256[m]? with
            | some v => sgrLoop dflt fuel rest3 (setColor isFg v a)
            | none => sgrLoop dflt fuel rest3 a
        else if n == 2 then
          match rest2 with
          | r :: g :: b :: rest3 =>
            -- a component above 255 is not a colour: the form is ignored (its parameters are consumed)
            if r ≤ 255 ∧ g ≤ 255 ∧ b ≤ 255 then sgrLoop dflt fuel rest3 (setColor isFg (hex2 r ++ hex2 g ++ hex2 b) a)
            else sgrLoop dflt fuel rest3 a
          | _ => a
        else sgrLoop dflt fuel rest2 a
    else sgrLoop dflt fuel rest a

/-- `select_graphic_rendition` -/
def selectGraphicRendition (s : Screen) (attrs : List Nat) : Screen :=
  if attrs.isEmpty || attrs == [0] then { s with cursor := { s.cursor with attr := defaultAttr s } }
  else { s with cursor := { s.cursor with attr := sgrLoop (defaultAttr s) attrs.length attrs s.cursor.attr } }

/-! ### save / restore, charsets -/

def saveCursor (s : Screen) : Screen :=
  { s with savepoints :=
      { cursor := s.cursor, g0 := s.g0, g1 := s.g1, g1Active := s.g1Active,
        origin := s.mode DECOM, wrap := s.mode DECAWM } :: s.savepoints }

def shiftOut (s : Screen) : Screen := { s with g1Active := true }
def shiftIn (s : Screen) : Screen := { s with g1Active := false }

def csOfNat : Nat → Option CsId
  | 0 => some .lat1
  | 1 => some .vt100
  | 2 => some .ibmpc
  | 3 => some .vax42
  | _ => none

def lookupStr (k : List Nat) : List (List Nat × Nat) → Option Nat
  | [] => none
  | (k', v) :: rest => if k == k' then some v else lookupStr k rest

/-- `define_charset(code, mode)` -/
def defineCharset (s : Screen) (code mode : List Nat) : Screen :=
  match (lookupStr code MAPS).bind csOfNat with
  | some id =>
    if mode == [40] then { s with g0 := id }
    else if mode == [41] then { s with g1 := id }
    else s
  | none => s

def csTable : CsId → List Nat
  | .lat1 => LAT1_MAP
  | .vt100 => VT100_MAP
  | .ibmpc => IBMPC_MAP
  | .vax42 => VAX42_MAP

/-- the per-character table lookup at the head of `draw` -/
def translate (s : Screen) (c : Nat) : Nat :=
  if c > 255 then c
  else (csTable (if s.g1Active then s.g1 else s.g0)).getD c c

/-! ### modes (mutually dependent with resize through DECCOLM) -/

def addModes (s : Screen) (ml : List Nat) : Screen :=
  { s with mode := fun m => ml.contains m || s.mode m }

def removeModes (s : Screen) (ml : List Nat) : Screen :=
  { s with mode := fun m => !ml.contains m && s.mode m }

def setAllReverse (s : Screen) (v : Bool) : Screen :=
  { s with cell := fun y x => { s.cell y x with attr := { (s.cell y x).attr with reverse := v } } }

/-- First half of `set_mode`: the mode set is extended and, if DECSCNM is among the
    new modes, every row is marked dirty, every cell and the current rendition get
    reverse video.  (In the Rust source the reverse-video block comes after the DECCOLM
    and DECOM blocks; the blocks act on disjoint state or are idempotent with respect to
    each other, so the order is not observable - DESIGN.md section 3 - and the
    correspondence runs exercise lists containing several of these modes.) -/
def applySetModes (s : Screen) (ml : List Nat) : Screen :=
  if ml.contains DECSCNM then
    selectGraphicRendition (setAllReverse (addModes (markAllDirty s) ml) true) [7]
  else addModes s ml

def applyResetModes (s : Screen) (ml : List Nat) : Screen :=
  if ml.contains DECSCNM then
    selectGraphicRendition (setAllReverse (removeModes (markAllDirty s) ml) false) [27]
  else removeModes s ml

def homeIf (b : Bool) (s : Screen) : Screen := if b then cursorPosition s none none else s

def hiddenIf (b : Bool) (v : Bool) (s : Screen) : Screen :=
  if b then { s with cursor := { s.cursor with hidden := v } } else s

/-- `restore_cursor` needs `set_mode(&[DECOM])` / `set_mode(&[DECAWM])`, which
    never reach the DECCOLM branch unless the constants collide; this is
    `set_mode` without that branch, applied to an explicit list. -/
def setModeNoColm (s : Screen) (ml : List Nat) : Screen :=
  hiddenIf (ml.contains DECTCEM) false (homeIf (ml.contains DECOM) (applySetModes s ml))

def resetModeNoColm (s : Screen) (ml : List Nat) : Screen :=
  hiddenIf (ml.contains DECTCEM) true (homeIf (ml.contains DECOM) (applyResetModes s ml))

/-- `restore_cursor` -/
def restoreCursor (s : Screen) : Screen :=
  match s.savepoints with
  | sp :: rest =>
    let s := { s with savepoints := rest, g0 := sp.g0, g1 := sp.g1, g1Active := sp.g1Active }
    let s := if sp.origin then setModeNoColm s [DECOM] else s
    let s := if sp.wrap then setModeNoColm s [DECAWM] else s
    ensureVBounds (ensureHBounds { s with cursor := sp.cursor }) true
  | [] => cursorPosition (resetModeNoColm s [DECOM]) none none

/-- the `save_cursor; cursor_position(0, 0); delete_lines(lines - l); restore_cursor`
    block of `resize` -/
def dropRowsFromTop (s1 : Screen) (l : Nat) : Screen :=
  restoreCursor (deleteLines (cursorPosition (saveCursor s1) (some 0) (some 0)) (some (s1.lines - l)))

/-- the column-cutting loop of `resize` -/
def cutColumns (s2 : Screen) (c : Nat) : Screen :=
  { s2 with cell := fun y x => if c ≤ x && x < s2.columns then defaultCell s2 else s2.cell y x }

/-- `resize(lines, columns)` -/
def resize (s : Screen) (lines columns : Option Nat) : Screen :=
  let l := lines.getD s.lines
  let c := columns.getD s.columns
  if l == s.lines && c == s.columns then s
  else
    let s1 : Screen := { s with margins := none }
    let s2 := if l < s1.lines then dropRowsFromTop s1 l else s1
    let s3 : Screen := if c < s2.columns then cutColumns s2 c else s2
    let s4 : Screen := { s3 with lines := l, columns := c, dirty := fun d => d < l }
    ensureVBounds (ensureHBounds (setMargins s4 none none)) false

def shiftModes (modes : List Nat) (priv : Bool) : List Nat :=
  if priv then modes.map (· * 32) else modes

/-- the DECCOLM block of `set_mode` -/
def colmSet (s : Screen) : Screen :=
  cursorPosition (eraseInDisplay (resize { s with savedColumns := some s.columns } none (some 132)) (some 2)) none none

/-- the width restore of the DECCOLM block of `reset_mode` -/
def colmRestore (s : Screen) : Screen :=
  if s.columns == 132 then
    match s.savedColumns with
    | some sc => { resize s none (some sc) with savedColumns := none }
    | none => s
  else s

/-- the DECCOLM block of `reset_mode` -/
def colmReset (s : Screen) : Screen :=
  cursorPosition (eraseInDisplay (colmRestore s) (some 2)) none none

/-- `set_mode` -/
def setMode (s : Screen) (modes : List Nat) (priv : Bool) : Screen :=
  let ml := shiftModes modes priv
  let s1 := applySetModes s ml
  let s2 := if ml.contains DECCOLM then colmSet s1 else s1
  hiddenIf (ml.contains DECTCEM) false (homeIf (ml.contains DECOM) s2)

/-- `reset_mode` -/
def resetMode (s : Screen) (modes : List Nat) (priv : Bool) : Screen :=
  let ml := shiftModes modes priv
  let s1 := applyResetModes s ml
  let s2 := if ml.contains DECCOLM then colmReset s1 else s1
  hiddenIf (ml.contains DECTCEM) true (homeIf (ml.contains DECOM) s2)

/-! ### reset, alignment display, titles -/

/-- `reset` -/
def reset (s : Screen) : Screen :=
  let s1 : Screen :=
    { s with
      dirty := fun d => d < s.lines
      margins := none
      mode := fun m => DEFAULT_MODE.contains m
      title := []
      icon := []
      g1Active := false
      g0 := .lat1
      g1 := .vt100
      tabstops := fun c => 8 ≤ c && c < s.columns && c % 8 == 0
      savedColumns := none }
  let s2 : Screen :=
    { s1 with
      cell := fun _ _ => defaultCell s1
      cursor := { x := 0, y := 0, attr := defaultAttr s1, hidden := false } }
  cursorPosition s2 none none

/-- `Screen::new(columns, lines)` -/
def init (columns lines : Nat) : Screen :=
  reset
    { columns := columns, lines := lines
      cursor := { x := 0, y := 0, attr := default, hidden := false }
      margins := none, mode := fun _ => false, tabstops := fun _ => false, dirty := fun _ => false
      title := [], icon := [], g0 := .lat1, g1 := .vt100, g1Active := false
      savepoints := [], savedColumns := none
      cell := fun _ _ => default }

/-- `alignment_display` -/
def alignmentDisplay (s : Screen) : Screen :=
  let s1 := markAllDirty s
  { s1 with cell := fun y x =>
      if y < s.lines && x < s.columns then { s.cell y x with data := [69] } else s.cell y x }

def setTitle (s : Screen) (t : List Nat) : Screen := { s with title := t }
def setIconName (s : Screen) (t : List Nat) : Screen := { s with icon := t }

/-! ### draw -/

def setCell (s : Screen) (y x : Nat) (c : Cell) : Screen :=
  { s with cell := fun y' x' => if y' == y && x' == x then c else s.cell y' x' }

/-- the wrap test at the head of the loop body, for a character of width `w` that will be drawn:
    with autowrap, carriage return + linefeed; without, step back so the last column(s) are overwritten -/
def wrapStage (s : Screen) (w : Nat) : Screen :=
  if s.cursor.x == s.columns then
    if s.mode DECAWM then linefeed (cariageReturn (markDirty s s.cursor.y))
    else setCursorX s (s.cursor.x - w)
  else s

/-- insert mode: the rest of the row shifts right by the width of the character -/
def irmStage (s : Screen) (w : Nat) : Screen :=
  if s.mode IRM then insertCharacters s (some w) else s

/-- store the character (and the placeholder of a double-width one) with the cursor's
    rendition and advance the cursor -/
def putChar (s : Screen) (c w : Nat) : Screen :=
  let s1 := setCell s s.cursor.y s.cursor.x { data := [c], attr := s.cursor.attr }
  let s2 :=
    if w == 2 && s1.cursor.x + 1 < s1.columns then
      setCell s1 s1.cursor.y (s1.cursor.x + 1) { data := [], attr := s1.cursor.attr }
    else s1
  setCursorX s2 (min (s2.cursor.x + w) s2.columns)

/-- a zero-width combining mark joins the previously written cell -/
def combine (env : Env) (s : Screen) (c : Nat) : Screen :=
  if s.cursor.x > 0 then
    let old := s.cell s.cursor.y (s.cursor.x - 1)
    setCell s s.cursor.y (s.cursor.x - 1) { old with data := env.NFC old.data ++ [c] }
  else if s.cursor.y > 0 then
    let old := s.cell (s.cursor.y - 1) (s.columns - 1)
    markDirty (setCell s (s.cursor.y - 1) (s.columns - 1) { old with data := env.NFC old.data ++ [c] })
      (s.cursor.y - 1)
  else s

/-- one iteration of the per-character loop of `draw` (after translation) -/
def drawChar (env : Env) (s : Screen) (c : Nat) : Screen :=
  let w := env.W c
  if w == 1 || w == 2 then putChar (irmStage (wrapStage s w) w) c w
  else if w == 0 && env.CM c then combine env s c
  else s

/-- `draw(data)` -/
def draw (env : Env) (s : Screen) (data : List Nat) : Screen :=
  let s1 := (data.map (translate s)).foldl (drawChar env) s
  markDirty s1 s1.cursor.y

/-! ### display -/

/-- `char.chars().next().is_some_and(|c| c.width() == Some(2))` on a cell's text -/
def wideText (W : Nat → Nat) (d : List Nat) : Bool :=
  match d.head? with
  | some c => W c == 2
  | none => false

/-- the `render` closure of `display()` -/
def renderRow (env : Env) (s : Screen) (y : Nat) : Nat → Nat → Bool → List Nat
  | 0, _, _ => []
  | fuel + 1, x, skip =>
    if x < s.columns then
      if skip then renderRow env s y fuel (x + 1) false
      else
        let d := (s.cell y x).data
        d ++ renderRow env s y fuel (x + 1) (wideText env.W d)
    else []

/-- `display()` : one string per line -/
def display (env : Env) (s : Screen) : List (List Nat) :=
  (List.range s.lines).map (fun y => renderRow env s y s.columns 0 false)

end Memterm
