-- lake env lean AuditExtra.lean : axioms of the theorems outside the twenty property files
import Memterm.Props.Algebra
import Memterm.Props.SaveRestore
import Memterm.Props.Extra
#print axioms Memterm.Algebra.cuf_compose
#print axioms Memterm.Algebra.cud_compose
#print axioms Memterm.Algebra.cuu_compose
#print axioms Memterm.Algebra.cub_compose
#print axioms Memterm.Algebra.cha_absorbs
#print axioms Memterm.Algebra.cr_absorbs
#print axioms Memterm.Algebra.ech_idempotent
#print axioms Memterm.Algebra.el_idempotent
#print axioms Memterm.Algebra.so_si_laws
#print axioms Memterm.Algebra.title_icon_laws
#print axioms Memterm.Algebra.ind_ri_inverse
#print axioms Memterm.Algebra.ich_compose
#print axioms Memterm.Algebra.dch_compose
#print axioms Memterm.Algebra.ed2_idempotent
#print axioms Memterm.Algebra.cup_idempotent
#print axioms Memterm.SaveRestore.save_restore
#print axioms Memterm.SaveRestore.save_restore_id
#print axioms Memterm.Extra.reset_idempotent
#print axioms Memterm.Extra.alignment_display_spec
#print axioms Memterm.Extra.bell_da_noop
#print axioms Memterm.Extra.resize_keeps_tabstops
#print axioms Memterm.Algebra.decaln_idempotent
