#!/usr/bin/env python3
"""Regenerates /verif/MANIFEST.json from the table below (one entry per claimed property)."""
import json
import os

ROOT = os.path.dirname(os.path.dirname(os.path.abspath(__file__)))

TRUSTED = ("Trusted: Lean 4.33 kernel (axioms per theorem audited on every run: subset of propext, Classical.choice, Quot.sound; "
           "no sorry/admit/axiom/native_decide); the statements in lean/Memterm/Props/{id}.lean as the reading of the property; "
           "the tie of the hand-written model (lean/Memterm/Screen|Parser|Utf8|Step.lean) to /repo, which is checked on every run, not assumed: "
           "constants and tables are regenerated from the compiled crate, and every transition the real crate performs in the run's sessions "
           "is compared with the model's step (differential, so bounded by the generators; distribution in the evidence). "
           "Modelled, not verified: rustc, HashMap, generator-rs, encoding_rs, unicode-width/-normalization (parameters of the model).")

CLAIMS = {
    "C05": dict(
        text="Theorem C05.C05_holds: for every well-formed model state, every one of the fourteen movement operations and every parameter "
             "(absent, 0, any n), the cursor lands on the documented closed form (C05.expected, written from the property text) and nothing but the "
             "cursor position changes; C05.inv_preserved keeps it on screen; dispatch_* theorems fix final -> operation -> parameter position on the "
             "regenerated constants. The same executable predicate (propC05) is evaluated on every movement transition of the real crate "
             "(exhaustive geometry<=3x3 (quick) / <=6x6 (thorough) x region x DECOM x cursor x op x parameter set, via API and via CSI), "
             "together with one-step correspondence with the model.",
        technique="Lean 4 theorem over an executable model (closed forms + frame, by case analysis and omega) + differential tie + predicate replay on the implementation",
        design="7 (C05)"),
}

NOT_YET = "check under construction in this round; not yet claimed"


def main():
    props = [json.loads(l) for l in open(os.path.join(ROOT, "properties.jsonl"))]
    checks = []
    na = []
    for p in props:
        pid = p["id"]
        c = CLAIMS.get(pid)
        if not c:
            na.append({"property_id": pid, "reason": NOT_YET})
            continue
        checks.append({
            "property_id": pid,
            "quick_cmd": f"bin/check {pid} quick",
            "thorough_cmd": f"bin/check {pid} thorough",
            "evidence_file": f"/verif/evidence/{pid}.json",
            "replay_cmd_template": f"bin/check {pid} --replay {{path}}",
            "engine": "lean4-model+rust-harness",
            "level_claimed": {"category": "proof", "text": c["text"], "design_ref": c["design"]},
            "level_note": TRUSTED.replace("{id}", pid) + (" " + c["note"] if c.get("note") else ""),
            "technique": c["technique"],
        })
    m = {
        "version": 1,
        "setup_cmd": "cd /verif/harness && CARGO_NET_OFFLINE=true cargo build --offline && cd /verif/lean && lake build mtdriver Memterm",
        "hooks": {
            "guard": "memterm_verif",
            "enable": "no source hooks are needed (every field of Screen/Cursor/Savepoint is pub; the harness is a separate crate linking the shipping parser), so the guard is unused",
            "baseline_off_cmd": "cd /repo && cargo test --workspace --no-fail-fast --offline",
            "source_commits": [],
            "add_only": True,
        },
        "engines": [{
            "name": "lean4-model+rust-harness",
            "path": "/verif/lean, /verif/harness, /verif/bin/check",
            "serves_properties": [c["property_id"] for c in checks],
            "kind_free_text": "Lean 4 executable model + kernel-checked theorems; Rust harness running the real crate; Lean driver checking the crate's transitions against model and property predicates",
        }],
        "checks": checks,
        "notes": "See DESIGN.md. /repo carries 'fix:' commits for the defects found (known_findings.json lists them as fixed).",
    }
    if na:
        m["not_applicable"] = na
    json.dump(m, open(os.path.join(ROOT, "MANIFEST.json"), "w"), indent=1)
    print(f"{len(checks)} claimed, {len(na)} not claimed")


if __name__ == "__main__":
    main()
