#!/usr/bin/env python3
"""Regenerates /verif/MANIFEST.json from the table below (one entry per claimed property)."""
import json
import os

ROOT = os.path.dirname(os.path.dirname(os.path.abspath(__file__)))

TRUSTED = ("Trusted: Lean 4.33 kernel (axioms per theorem audited on every run: subset of propext, Classical.choice, Quot.sound; "
           "no sorry/admit/axiom/native_decide); the statements in lean/Memterm/Props/{id}.lean as the reading of the property; "
           "the tie of the hand-written model (lean/Memterm/Screen|Sparse|Parser|Utf8|Step.lean) to /repo, which is checked on every run, not assumed: "
           "constants, tables and the dispatch tables of parser_listener.rs (probed on the compiled crate) are regenerated on every run, and every transition the real crate performs in the run's sessions "
           "is compared with the model's step (differential, so bounded by the generators; distribution, the model branches compared and the raw-buffer agreement of the sparse layer are in the evidence). "
           "Modelled, not verified: rustc, HashMap, generator-rs, encoding_rs, unicode-width/-normalization (parameters of the model).")

TECH = "Lean 4 theorems over an executable model tied to the code by regenerated tables + per-run one-step correspondence; property predicate (the theorem's own definition) replayed on the implementation's transitions; a coverage-guided search (libFuzzer on the instrumented crate, seeded from the property's sessions) proposes further sessions for the correspondence - a search aid, never a verdict"

CLAIMS = {
    "C01": dict(
        text="Theorems C01.send_ok / feed_ok / feedBytes_ok (for every character or byte string and every recogniser state, every call made has numeric arguments <= 9999), "
             "bytes_never_wedge / chars_never_wedge / api_never_wedge (every state on the way is well-formed, for every chunking, both modes; display() has `lines` rows), "
             "safe_of_inv (in a well-formed state with arguments in range every +, -, +=, `as i32`, `<< 5` of screen.rs stays inside u32/i32 and every subtraction is guarded). "
             "Totality / termination of every model function is Lean's check; one character per step. On the implementation: every session of every check runs the real crate with "
             "overflow checks and debug assertions, every call under catch_unwind, the whole batch in a child process; any panic / abort is a finding with the session as replay.",
        technique=TECH + "; panic / abort observation in overflow-checked child processes", design="7 (C01), 12",
        note="Partial by nature: stack exhaustion of the 32 KiB coroutine stack, allocation failure and stdout errors are not expressible in the model; they are only observed (geometries up to 140x40 and the 132-column switch)."),
    "C02": dict(
        text="Theorems C02.chars_chunking and bytes_chunking: feeding any partition into consecutive chunks (empty ones included, cuts inside a UTF-8 character or an escape sequence, both modes) "
             "gives the same decoder state, recogniser state and listener calls as one feed of the concatenation; screen_chunking lifts it to the screen. That the real feed()s carry no other state "
             "is decided on the implementation: model-free runs feed the same stream whole, byte/char-at-a-time, randomly re-chunked and at every 2-way split and compare the complete observable state, "
             "incl. the seven captured sessions, every generated session of the property and every session the coverage-guided search proposes. The verdict of this property on the implementation rests on "
             "that relation alone (an event mismatch with the model is the recogniser's or the decoder's business - C03, C11 - unless the relation fails).",
        technique=TECH + "; model-free re-chunking runs", design="7 (C02)"),
    "C03": dict(
        text="Theorems over the defunctionalised recogniser, on the regenerated constants: text_ground, c0_ground, esc_final / esc_unknown_final / esc_hash / esc_percent / esc_charset, introducers, "
             "paramValue_spec (empty = 0, saturating at 9999 for digit runs of any length), csi_digit / csi_private / csi_embedded_control / csi_skip / csi_abort / csi_dollar / csi_final, "
             "csi_complete (for every list of digit strings and every final: exactly one dispatch with the decoded parameters, back in ground), csi_unknown_final, no_text_inside. "
             "End to end (Props/Grammar/C03.lean over Proofs/Grammar.lean): the documented grammar is written as a relation Grammar.Unit between a complete unit of input (text character, C0 control, ESC / ESC # / ESC % / "
             "ESC ( ) sequence, CSI sequence with any body and either introducer - completed, aborted by CAN/SUB or `$`+1 -, OSC string) and its listener events, with no reference to recogniser states; "
             "feed_decomposes: EVERY input string is a sequence of such units followed by an incomplete one, the recogniser's events are exactly those units' events in order, and it is in the ground state exactly when "
             "nothing is incomplete; unit_sound / units_sound / grammar_spec: conversely any reading of an input as units yields the recogniser's events; "
             "unit_mid / unit_prefix_free / reading_unique: the recogniser is never in its ground state strictly inside a unit, so no unit is a proper prefix of another and the reading is unique. "
             "Dispatch.C03.private_argument_probes: the `private` argument ED / EL / DA receive from the compiled crate is Some(true) exactly for sequences marked with `?`. Dispatch.C03.dispatch_probes: the model's csi / escape / basic dispatch agree with what the compiled crate's dispatch functions call for every probed final, parameter-list shape and private flag "
             "(regenerated and re-decided by the kernel on every run). The tie of the recogniser is the lockstep comparison of the listener calls of the shipping parser with the model's, chunk by chunk, "
             "over generated, garbled, respelled and enumerated strings.",
        technique=TECH, design="7 (C03)",
        note="`ESC ] R` (the Linux console's reset-palette sequence, which has no terminator) returns to ground at once, as in the source; the property text does not pin it down. The same special case for `p` was a defect and is repaired (079a429)."),
    "C04": dict(
        text="Theorems C04.draw_invisible, put_narrow_cell, put_wide_cell (lead + placeholder, lead only in the last column), put_cursor, wrap_on / wrap_position (exactly CR + LF, scrolling at the bottom margin), "
             "wrap_off, irm_on (= ICH by the width), combine_same_row / combine_previous_row / combine_home, draw_frame (no setting changes), draw_is_fold, for every Unicode width / combining function. "
             "sparse_draw: draw on the HashMap buffer model (entry().or_insert paths, sparse rows) observes as the dense draw. "
             "propC04 compares every draw transition of the crate with the documented rendering (cells, cursor, settings).",
        technique=TECH, design="7 (C04)",
        note="Unicode width, combining class and NFC are parameters of the model; their values are supplied per session by the real crates. NFC itself is not verified."),
    "C05": dict(
        text="Theorem C05.C05_holds: for every well-formed model state, every one of the fourteen movement operations and every parameter "
             "(absent, 0, any n), the cursor lands on the documented closed form (C05.expected, written from the property text) and nothing but the "
             "cursor position changes; C05.inv_preserved keeps it on screen; dispatch_* theorems fix final -> operation -> parameter position on the "
             "regenerated constants. The same executable predicate (propC05) is evaluated on every movement transition of the real crate "
             "(exhaustive geometry<=3x3 (quick) / <=6x6 (thorough) x region x DECOM x cursor x op x parameter set, via API and via CSI), "
             "together with one-step correspondence with the model.",
        technique=TECH, design="7 (C05)"),
    "C06": dict(
        text="Theorem C06.C06_holds: for every well-formed state and every count/argument, index/linefeed/reverse index/IL/DL/DECSTBM produce exactly the "
             "documented grid (rows of the region shifted by min(n, rows available) with cells intact, vacated rows blank, rows outside untouched), cursor and "
             "margins (C06.expect, written from the statement: guard top<=y<=bottom, acceptance iff the clamped region spans two rows, homing, CSI r clears), "
             "and nothing else changes; wrap_scrolls: a printable character drawn at the pending-wrap position on the bottom margin with DECAWM scrolls the region up by exactly one line "
             "(autowrap clause); sparse_index / sparse_reverseIndex / sparse_il / sparse_dl: the row re-keying loops on the HashMap model (any row may be absent) observe as the dense operations. "
             "propC06 and propC06wrap are evaluated on the crate's transitions.",
        technique=TECH, design="7 (C06)"),
    "C07": dict(
        text="Theorem C07.C07_holds: ED 0/1/2/3, EL 0/1/2 and ECH n blank exactly the documented region (C07.region, incl. the pending-wrap column and unsupported "
             "selectors = empty region) with spaces carrying the cursor's rendition, every other cell, the cursor and all settings unchanged; "
             "region_ignores_margins: margins/DECOM do not occur in the region; sparse_ed / sparse_el / sparse_ech: the insert loops on the HashMap model observe as the dense operations. "
             "propC07 is evaluated on the crate's transitions (the private flag the dispatch table passes is forwarded to the real Screen).",
        technique=TECH, design="7 (C07)"),
    "C09": dict(
        text="Theorems C09.init_wellformed / step_wellformed / reachable_wellformed: the invariant Inv (cursor bounds, margins, dirty rows, nothing stored outside the grid, "
             "legal saved width) holds for a new screen and is preserved by every one of the 43 operations incl. draw (any Unicode width function), resize and DECCOLM, hence for "
             "every reachable state by induction over the history; reachable_colours / step_colours: every cell, the cursor's rendition and every saved rendition have fg/bg that is a documented "
             "colour name or exactly six hexadecimal digits (tables_ok on the regenerated tables, rgb_ok for the `{:02x}` formatting of components <= 255, the only ones SGR accepts); display() has exactly `lines` rows. "
             "sparse_step_refines / sparse_reachable_wellformed: every operation on the HashMap buffer model observes as the dense operation, so every reachable buffer state observes as a well-formed screen. "
             "The executable form (Dump.illFormed, colour names written out independently of the tables) is evaluated on every state dumped from the real crate in this run.",
        technique=TECH, design="7 (C09)"),
    "C13": dict(
        text="Theorem C13.C13_holds: ICH/DCH splice exactly min(n, columns-x) cells in the cursor row (absent/0 = 1), shifted cells travel whole (text + attributes), every other row, "
             "the cursor and settings unchanged; ich_then_dch: cells pushed across the edge do not come back; nothing_hidden: nothing is stored outside the grid afterwards. "
             "sparse_ich / sparse_dch: the reverse loop of ICH and the forward loop of DCH on a row map in which any cell may be absent (loop invariants IchInv / DchInv) observe as the dense splice. "
             "propC13 is evaluated on the crate's transitions, and the dumped buffers are checked for keys outside the grid.",
        technique=TECH, design="7 (C13)"),
    "C08": dict(
        text="Theorems C08.table_eq (the five regenerated SGR tables equal the documented 46-entry table, for every code: 0..107 by kernel decision, >=108 by a key-bound lemma), "
             "palette_table (all 256 regenerated palette strings equal the xterm formula: 16 base colours, 6x6x6 cube, 24 greys; decide +kernel), loop_eq_spec / sgr_eq_spec "
             "(select_graphic_rendition is the documented left-to-right fold with the documented parameter consumption, for every parameter list; only the cursor's rendition changes), "
             "sgr_single/sgr_256/sgr_256_out_of_range/sgr_rgb (components <= 255: exactly six hexadecimal digits, rgb_six_digits)/sgr_rgb_out_of_range (a component above 255: the form is ignored, its parameters consumed)/sgr_reset, draw_uses_rendition, C08_holds. propC08 (the independent fold) is evaluated on every SGR transition of the crate.",
        technique=TECH, design="7 (C08)"),
    "C10": dict(
        text="Theorems C10.display_spec (each row is the documented rendering: left-to-right concatenation skipping the cell after a double-width character; exactly `lines` rows), blank_row, "
             "display_pure, run_strip / display_positions_irrelevant (histories differing only in display() calls end in the same state); on the HashMap buffer model, where display() really inserts "
             "the rows and cells it reads: sparse_display_renders (it returns the rendering of the observation), sparse_display_pure (no observation changes), sparse_display_positions_irrelevant "
             "(histories differing only in where display() materialised what end in the same observable state). On the implementation: every display transition must leave "
             "the complete observable state unchanged and return the model's rendering of the dumped grid, and model-free runs interpose display() at random points of generated histories.",
        technique=TECH + "; model-free runs with interposed display()", design="7 (C10)",
        note="The sparse layer's agreement with the crate's raw buffer, display()'s materialisation included, is measured on every transition and reported in the evidence."),
    "C11": dict(
        text="Proofs/Utf8Spec: a declarative specification of conforming streaming decoding (Unicode Table 3-7 as wfSeq, U+FFFD per maximal subpart, incomplete tail held: the relation Decodes bytes out pending) "
             "with decode_sound (from every reachable decoder state the output for the next bytes is a conforming decoding of pending ++ bytes), decode_complete, decode_spec (iff), decodes_unique "
             "(nothing dropped, duplicated or reordered), held_is_suffix; C11.wf_encode / encode_wf (the table's sequences are exactly the encodings of the scalar values), feedBytes_conforming. "
             "Also C11.decode_one / decode_wellformed / decode_wellformed_chunked (every scalar value's UTF-8 encoding decodes to exactly that code point, for every string and every chunking), "
             "invalid_lead, incomplete_held, maximal_subpart (one U+FFFD, the offending byte is reprocessed), dok_step (at most 3 bytes pending), eightbit, switch_to_8bit (pending tail dropped), "
             "switch_to_utf8, other_codes_ignored, plus C02.bytes_chunking. The decoder is encoding_rs's: the model is tied to it by the lockstep runs on byte sessions and by the "
             "String::from_utf8_lossy oracle of the metamorphic runs. On the implementation the question is also asked without any model: every feed of every byte session goes, next to ByteParser, through a "
             "reference streaming decoder kept by the harness (WHATWG algorithm) into the crate's own character recogniser, and the two event sequences must be equal (DECODE findings) - "
             "whatever the recogniser does with characters it does on both sides, so only the decoding can make them differ.",
        technique=TECH + "; from_utf8_lossy oracle", design="7 (C11)",
        note="The decoder itself is a dependency (encoding_rs): the theorems are about the state-machine model of it, tied by lockstep."),
    "C12": dict(
        text="Theorems C12.sm_membership / rm_membership (exactly the listed numbers, private ones as 32n), sm_other / rm_other (a list without DECSCNM/DECCOLM/DECOM/DECTCEM changes "
             "only membership - for every number), sm/rm_dectcem, sm/rm_decom (homing), sm/rm_decscnm (every cell, current and default rendition, all rows dirty), "
             "sm/rm_deccolm (132 columns / saved width back, erased with the current rendition, home), C12_holds for the executable predicate; sparse_setMode / sparse_resetMode: flipping the cells that exist in the "
             "HashMap while absent ones follow through default_char() is the dense `every cell`; sgr_reset_is_mode (what a reset inside an SGR list resets to carries the mode's reverse flag). "
             "propC12 is evaluated on every SM/RM transition of the crate, and its clause propRev (reverse flag after an SGR list whose documented outcome depends on the default rendition) on every SGR transition.",
        technique=TECH, design="7 (C12)",
        note="'Previous width' is read as the width at the last SM ?3 (the code overwrites the saved width on a repeated SM; DESIGN R8 revised)."),
    "C14": dict(
        text="Theorems C14.save_spec, restore_spec (pop; position clamped into screen/region; rendition, visibility, G0/G1/shift reinstated; DECOM/DECAWM re-enabled; everything else equal), "
             "restore_empty (home, DECOM cleared), stack_discipline (for every one of the 43 operations incl. draw, resize, DECCOLM: the stack changes only by DECSC push / DECRC pop), "
             "restore_after_save_stack, C14_holds. propC14 is evaluated on every transition of the crate (stack unchanged by other calls).",
        technique=TECH, design="7 (C14)"),
    "C15": dict(
        text="Theorems C15.reset_eq / reset_is_new_screen (after RIS every field except the saved-cursor stack equals that of a newly constructed screen of the current size, for every prior state), "
             "reset_dirty (exactly the rows of the screen are dirty), reset_forgets (whatever happened before), default_modes, dispatch_RIS, C15_holds; reset_continuation / reset_continuation_fields: for every "
             "history that does not pop below the stack a new screen starts with, the run after RIS equals the run on a new screen with the old stack underneath - every other component identical "
             "(Proofs/StackExt: each of the 43 operations commutes with extending the saved-cursor stack below, DECRC on an empty stack being the one exception, shown necessary by a witness). "
             "On the implementation: the model-free metamorphic run state(h, RIS, t) = state(new screen, t), exhaustive RIS/DECSC/DECRC/X histories, and propC15 on every reset transition.",
        technique=TECH + "; model-free metamorphic runs on the implementation", design="7 (C15)",
),
    "C16": dict(
        text="Theorems C16.resize_spec (for every well-formed state and target size: new geometry, margins cleared, exactly the new rows dirty, cell (y,x) = old cell (y+d,x) with d rows dropped "
             "from the top, blank elsewhere), resize_same (same size = identity), kept_resize (modes, tab stops, titles, charsets, stack, rendition untouched), resize_cursor (cursor inside the new bounds), "
             "resize_wellformed (nothing stored outside the new grid), shrink_then_grow (the regained area is blank), C16_holds; sparse_resize: resize on the HashMap buffer model (rows re-keyed by the DL loop, "
             "per-row removal of the cut columns) observes as the dense crop / extend. propC16 is evaluated on every resize transition of the crate and "
             "every dumped buffer is checked for keys outside the grid.",
        technique=TECH, design="7 (C16)"),
    "C17": dict(
        text="Theorems C17.step_all (every operation except clearing either marks every row whose cells it changed and keeps earlier marks, or marks every row of the new screen - incl. draw with wrap, "
             "scrolling and combining marks on the previous row, via the loop invariant GoodExcept), screen_wide_all_dirty (reset, DECALN, real resize, DECSCNM/DECCOLM in either spelling, scrolls), "
             "between_clears (lifting to any history between two clears, and dirty is always a subset of the rows), C17_holds. propC17 is evaluated on every transition of the crate; the model's dirty set "
             "is also compared exactly with the crate's.",
        technique=TECH, design="7 (C17)"),
    "C18": dict(
        text="Theorems C18.tabs_initial/tabs_after_reset (stops at 8,16,..<columns), hts/tbc_* (set algebra, other selectors no-op), ht (nearest stop strictly right, "
             "else last column, never beyond, nothing else changes) and C18_holds for the executable predicate, for every width and stop set. propC18 is evaluated on the crate's transitions.",
        technique=TECH, design="7 (C18)"),
    "C19": dict(
        text="Theorems C19.osc_title (both introducers, codes 0/1/2, every payload over plain characters and ESC x pairs, all three terminators: exactly set_icon_name / set_title with the payload, "
             "nothing drawn, back in ground), osc_terminators, osc_other_code, osc_longer_code (the code is the whole text before the first `;`: OSC 10;x, OSC 133;A have no effect), title_calls_frame, C19_holds. Tie: lockstep events over generated OSC strings with `;` `\\` `]` ESC pairs, C0 and non-ASCII "
             "payloads under arbitrary chunking; propC19 on every set_title / set_icon_name transition.",
        technique=TECH, design="7 (C19)"),
    "C20": dict(
        text="Theorems C20.lat1_eq / vt100_eq / ibmpc_eq / vax42_eq (all 4 x 256 regenerated entries equal the published tables, constructed independently: identity, Linux GRAF_MAP overrides, "
             "Python's cp437 codec + classic control glyphs with the two Linux code points, pyte's eight VAX42 overrides; decide +kernel), designators, translate_eq / translate_high, so_si, "
             "initial_charsets, define_charset_spec, utf8_ignores / eightbit_dispatches, draw_eq_spec, C20_holds. propC20 re-draws every draw transition of the crate through the Spec tables.",
        technique=TECH, design="7 (C20)"),
}

NOT_YET = "check under construction in this round; not yet claimed"


def main():
    props = [json.loads(l) for l in open(os.path.join(ROOT, "properties.jsonl"))]
    checks = []
    na = []
    for p in props:
        pid = p["id"]
        c = CLAIMS.get(pid)
        if not c:
            na.append({"property_id": pid, "reason": NOT_YET})
            continue
        checks.append({
            "property_id": pid,
            "quick_cmd": f"bin/check {pid} quick",
            "thorough_cmd": f"bin/check {pid} thorough",
            "evidence_file": f"/verif/evidence/{pid}.json",
            "replay_cmd_template": f"bin/check {pid} --replay {{path}}",
            "engine": "lean4-model+rust-harness",
            "level_claimed": {"category": "proof", "text": c["text"], "design_ref": c["design"]},
            "level_note": TRUSTED.replace("{id}", pid) + (" " + c["note"] if c.get("note") else ""),
            "technique": c["technique"],
        })
    m = {
        "version": 1,
        "setup_cmd": "cd /verif/harness && CARGO_NET_OFFLINE=true cargo build --offline && cd /verif/lean && lake build mtdriver Memterm && (cd /verif/fuzz && CARGO_NET_OFFLINE=true CARGO_TARGET_DIR=/verif/fuzz/target cargo +nightly fuzz build -s none --fuzz-dir /verif/fuzz bytes && CARGO_NET_OFFLINE=true CARGO_TARGET_DIR=/verif/fuzz/target cargo +nightly fuzz build -s none --fuzz-dir /verif/fuzz api || true)",
        "hooks": {
            "guard": "memterm_verif",
            "enable": "no source hooks are needed (every field of Screen/Cursor/Savepoint is pub; the harness is a separate crate linking the shipping parser), so the guard is unused",
            "baseline_off_cmd": "cd /repo && cargo test --workspace --no-fail-fast --offline",
            "source_commits": [],
            "add_only": True,
        },
        "engines": [{
            "name": "lean4-model+rust-harness",
            "path": "/verif/lean, /verif/harness, /verif/fuzz, /verif/bin/check",
            "serves_properties": [c["property_id"] for c in checks],
            "kind_free_text": "Lean 4 executable model + kernel-checked theorems; Rust harness running the real crate; Lean driver checking the crate's transitions against model and property predicates; libFuzzer targets (fuzz/) proposing further sessions to that check",
        }],
        "checks": checks,
        "notes": "See DESIGN.md. /repo carries 'fix:' commits for the defects found (known_findings.json lists them as fixed).",
    }
    if na:
        m["not_applicable"] = na
    json.dump(m, open(os.path.join(ROOT, "MANIFEST.json"), "w"), indent=1)
    print(f"{len(checks)} claimed, {len(na)} not claimed")


if __name__ == "__main__":
    main()
