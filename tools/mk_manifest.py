#!/usr/bin/env python3
"""Regenerates /verif/MANIFEST.json from the table below (one entry per claimed property)."""
import json
import os

ROOT = os.path.dirname(os.path.dirname(os.path.abspath(__file__)))

TRUSTED = ("Trusted: Lean 4.33 kernel (axioms per theorem audited on every run: subset of propext, Classical.choice, Quot.sound; "
           "no sorry/admit/axiom/native_decide); the statements in lean/Memterm/Props/{id}.lean as the reading of the property; "
           "the tie of the hand-written model (lean/Memterm/Screen|Parser|Utf8|Step.lean) to /repo, which is checked on every run, not assumed: "
           "constants and tables are regenerated from the compiled crate, and every transition the real crate performs in the run's sessions "
           "is compared with the model's step (differential, so bounded by the generators; distribution in the evidence). "
           "Modelled, not verified: rustc, HashMap, generator-rs, encoding_rs, unicode-width/-normalization (parameters of the model).")

TECH = "Lean 4 theorems over an executable model tied to the code by regenerated tables + per-run one-step correspondence; property predicate (the theorem's own definition) replayed on the implementation's transitions"

CLAIMS = {
    "C05": dict(
        text="Theorem C05.C05_holds: for every well-formed model state, every one of the fourteen movement operations and every parameter "
             "(absent, 0, any n), the cursor lands on the documented closed form (C05.expected, written from the property text) and nothing but the "
             "cursor position changes; C05.inv_preserved keeps it on screen; dispatch_* theorems fix final -> operation -> parameter position on the "
             "regenerated constants. The same executable predicate (propC05) is evaluated on every movement transition of the real crate "
             "(exhaustive geometry<=3x3 (quick) / <=6x6 (thorough) x region x DECOM x cursor x op x parameter set, via API and via CSI), "
             "together with one-step correspondence with the model.",
        technique=TECH, design="7 (C05)"),
    "C06": dict(
        text="Theorem C06.C06_holds: for every well-formed state and every count/argument, index/linefeed/reverse index/IL/DL/DECSTBM produce exactly the "
             "documented grid (rows of the region shifted by min(n, rows available) with cells intact, vacated rows blank, rows outside untouched), cursor and "
             "margins (C06.expect, written from the statement: guard top<=y<=bottom, acceptance iff the clamped region spans two rows, homing, CSI r clears), "
             "and nothing else changes. propC06 is evaluated on the crate's transitions.",
        technique=TECH, design="7 (C06)"),
    "C07": dict(
        text="Theorem C07.C07_holds: ED 0/1/2/3, EL 0/1/2 and ECH n blank exactly the documented region (C07.region, incl. the pending-wrap column and unsupported "
             "selectors = empty region) with spaces carrying the cursor's rendition, every other cell, the cursor and all settings unchanged; "
             "region_ignores_margins: margins/DECOM do not occur in the region. propC07 is evaluated on the crate's transitions.",
        technique=TECH, design="7 (C07)"),
    "C09": dict(
        text="Theorems C09.init_wellformed / step_wellformed / reachable_wellformed: the invariant Inv (cursor bounds, margins, dirty rows, nothing stored outside the grid, "
             "legal saved width) holds for a new screen and is preserved by every one of the 43 operations incl. draw (any Unicode width function), resize and DECCOLM, hence for "
             "every reachable state by induction over the history; display() has exactly `lines` rows. The executable form (Dump.illFormed, incl. the colour-name clause) is "
             "evaluated on every state dumped from the real crate in this run.",
        technique=TECH, design="7 (C09)",
        note="The colour clause (fg/bg is a documented name or hex string) is checked on the implementation's dumped states; its Lean proof is not yet part of Inv."),
    "C13": dict(
        text="Theorem C13.C13_holds: ICH/DCH splice exactly min(n, columns-x) cells in the cursor row (absent/0 = 1), shifted cells travel whole (text + attributes), every other row, "
             "the cursor and settings unchanged; ich_then_dch: cells pushed across the edge do not come back; nothing_hidden: nothing is stored outside the grid afterwards. "
             "propC13 is evaluated on the crate's transitions, and the dumped buffers are checked for keys outside the grid.",
        technique=TECH, design="7 (C13)"),
    "C08": dict(
        text="Theorems C08.table_eq (the five regenerated SGR tables equal the documented 46-entry table, for every code: 0..107 by kernel decision, >=108 by a key-bound lemma), "
             "palette_table (all 256 regenerated palette strings equal the xterm formula: 16 base colours, 6x6x6 cube, 24 greys; decide +kernel), loop_eq_spec / sgr_eq_spec "
             "(select_graphic_rendition is the documented left-to-right fold with the documented parameter consumption, for every parameter list; only the cursor's rendition changes), "
             "sgr_single/sgr_256/sgr_256_out_of_range/sgr_rgb/sgr_reset, draw_uses_rendition, C08_holds. propC08 (the independent fold) is evaluated on every SGR transition of the crate.",
        technique=TECH, design="7 (C08)"),
    "C12": dict(
        text="Theorems C12.sm_membership / rm_membership (exactly the listed numbers, private ones as 32n), sm_other / rm_other (a list without DECSCNM/DECCOLM/DECOM/DECTCEM changes "
             "only membership - for every number), sm/rm_dectcem, sm/rm_decom (homing), sm/rm_decscnm (every cell, current and default rendition, all rows dirty), "
             "sm/rm_deccolm (132 columns / saved width back, erased with the current rendition, home), C12_holds for the executable predicate. propC12 is evaluated on every SM/RM transition of the crate.",
        technique=TECH, design="7 (C12)",
        note="'Previous width' is read as the width at the last SM ?3 (the code overwrites the saved width on a repeated SM; DESIGN R8 revised)."),
    "C14": dict(
        text="Theorems C14.save_spec, restore_spec (pop; position clamped into screen/region; rendition, visibility, G0/G1/shift reinstated; DECOM/DECAWM re-enabled; everything else equal), "
             "restore_empty (home, DECOM cleared), stack_discipline (for every one of the 43 operations incl. draw, resize, DECCOLM: the stack changes only by DECSC push / DECRC pop), "
             "restore_after_save_stack, C14_holds. propC14 is evaluated on every transition of the crate (stack unchanged by other calls).",
        technique=TECH, design="7 (C14)"),
    "C15": dict(
        text="Theorems C15.reset_eq / reset_is_new_screen (after RIS every field except the saved-cursor stack equals that of a newly constructed screen of the current size, for every prior state), "
             "reset_dirty (exactly the rows of the screen are dirty), reset_forgets (whatever happened before), default_modes, dispatch_RIS, C15_holds. The continuation clause "
             "(same input, same state afterwards) follows in the model from reset_is_new_screen because every operation is a function of the state; on the implementation it is decided by the "
             "model-free metamorphic run state(h, RIS, t) = state(new screen, t) over generated h, t (t without DECRC), plus propC15 on every reset transition.",
        technique=TECH + "; model-free metamorphic runs on the implementation", design="7 (C15)",
        note="The relational continuation theorem modulo the saved-cursor stack (stack of the reset screen = stack of the fresh one with the old stack underneath) is not yet a Lean theorem; it is covered by the metamorphic runs."),
    "C16": dict(
        text="Theorems C16.resize_spec (for every well-formed state and target size: new geometry, margins cleared, exactly the new rows dirty, cell (y,x) = old cell (y+d,x) with d rows dropped "
             "from the top, blank elsewhere), resize_same (same size = identity), kept_resize (modes, tab stops, titles, charsets, stack, rendition untouched), resize_cursor (cursor inside the new bounds), "
             "resize_wellformed (nothing stored outside the new grid), shrink_then_grow (the regained area is blank), C16_holds. propC16 is evaluated on every resize transition of the crate and "
             "every dumped buffer is checked for keys outside the grid.",
        technique=TECH, design="7 (C16)"),
    "C18": dict(
        text="Theorems C18.tabs_initial/tabs_after_reset (stops at 8,16,..<columns), hts/tbc_* (set algebra, other selectors no-op), ht (nearest stop strictly right, "
             "else last column, never beyond, nothing else changes) and C18_holds for the executable predicate, for every width and stop set. propC18 is evaluated on the crate's transitions.",
        technique=TECH, design="7 (C18)"),
}

NOT_YET = "check under construction in this round; not yet claimed"


def main():
    props = [json.loads(l) for l in open(os.path.join(ROOT, "properties.jsonl"))]
    checks = []
    na = []
    for p in props:
        pid = p["id"]
        c = CLAIMS.get(pid)
        if not c:
            na.append({"property_id": pid, "reason": NOT_YET})
            continue
        checks.append({
            "property_id": pid,
            "quick_cmd": f"bin/check {pid} quick",
            "thorough_cmd": f"bin/check {pid} thorough",
            "evidence_file": f"/verif/evidence/{pid}.json",
            "replay_cmd_template": f"bin/check {pid} --replay {{path}}",
            "engine": "lean4-model+rust-harness",
            "level_claimed": {"category": "proof", "text": c["text"], "design_ref": c["design"]},
            "level_note": TRUSTED.replace("{id}", pid) + (" " + c["note"] if c.get("note") else ""),
            "technique": c["technique"],
        })
    m = {
        "version": 1,
        "setup_cmd": "cd /verif/harness && CARGO_NET_OFFLINE=true cargo build --offline && cd /verif/lean && lake build mtdriver Memterm",
        "hooks": {
            "guard": "memterm_verif",
            "enable": "no source hooks are needed (every field of Screen/Cursor/Savepoint is pub; the harness is a separate crate linking the shipping parser), so the guard is unused",
            "baseline_off_cmd": "cd /repo && cargo test --workspace --no-fail-fast --offline",
            "source_commits": [],
            "add_only": True,
        },
        "engines": [{
            "name": "lean4-model+rust-harness",
            "path": "/verif/lean, /verif/harness, /verif/bin/check",
            "serves_properties": [c["property_id"] for c in checks],
            "kind_free_text": "Lean 4 executable model + kernel-checked theorems; Rust harness running the real crate; Lean driver checking the crate's transitions against model and property predicates",
        }],
        "checks": checks,
        "notes": "See DESIGN.md. /repo carries 'fix:' commits for the defects found (known_findings.json lists them as fixed).",
    }
    if na:
        m["not_applicable"] = na
    json.dump(m, open(os.path.join(ROOT, "MANIFEST.json"), "w"), indent=1)
    print(f"{len(checks)} claimed, {len(na)} not claimed")


if __name__ == "__main__":
    main()
