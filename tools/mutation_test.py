#!/usr/bin/env python3
"""Mechanical mutation testing of the checks (a measurement tool, not part of any check).

  tools/mutation_test.py setup            copy /verif and a worktree of /repo into the sandbox (default /tmp/mt)
  tools/mutation_test.py run N [seed]     try mutants until N of them compile and pass the crate's own 91 tests;
                                          run the quick sessions of every property against each; append one JSON
                                          line per mutant to <sandbox>/results.jsonl
  tools/mutation_test.py report           kill rate, survivors

A mutant is one small syntactic change to the non-test code of src/*.rs (relational / arithmetic /
boolean operator, numeric literal, min<->max, a deleted `self.x(...);` statement).  It is KILLED if some
property's check reports a finding in its scope (the same `relevant()` as bin/check), or the regenerated
tables change (the table theorems are then re-decided by the kernel: `tables`), SURVIVED otherwise.
Survivors are either equivalent mutants or gaps in the generators - they are listed to be read.
"""
import importlib.machinery
import importlib.util
import json
import os
import random
import re
import shutil
import subprocess
import sys
import time

SANDBOX = os.environ.get("MT_SANDBOX", "/tmp/mt")
REPO = os.path.join(SANDBOX, "repo")
VERIF = os.path.join(SANDBOX, "verif")
PROPS = ["C%02d" % i for i in range(1, 21)]


def sh(cmd, cwd=None, timeout=None):
    e = dict(os.environ)
    e["CARGO_NET_OFFLINE"] = "true"
    p = subprocess.run(cmd, cwd=cwd, shell=isinstance(cmd, str), stdout=subprocess.PIPE, stderr=subprocess.STDOUT,
                       text=True, errors="replace", timeout=timeout, env=e)
    return p.returncode, p.stdout


def setup():
    os.makedirs(SANDBOX, exist_ok=True)
    if not os.path.exists(REPO):
        rc, out = sh(["git", "-C", "/repo", "worktree", "add", "--detach", REPO, "HEAD"])
        print(out)
    sh(["rsync", "-a", "--delete", "--exclude", ".git", "--exclude", "work", "--exclude", "replays", "/verif/", VERIF + "/"])
    ct = os.path.join(VERIF, "harness", "Cargo.toml")
    s = open(ct).read().replace('path = "/repo"', f'path = "{REPO}"')
    open(ct, "w").write(s)
    rc, out = sh(["cargo", "build", "--offline"], cwd=os.path.join(VERIF, "harness"), timeout=1800)
    print("harness build", rc, out[-300:])
    rc, out = sh(["cargo", "test", "--offline", "--lib", "--no-run"], cwd=REPO, timeout=1800)
    print("crate test build", rc, out[-200:])
    chk = load_check()
    # the sessions are a function of the seed only: generate them once with the unmutated harness
    sdir = os.path.join(SANDBOX, "sessions")
    os.makedirs(sdir, exist_ok=True)
    for p in PROPS:
        rc, out = sh([chk.HBIN, "gen", p, "quick", "1", os.path.join(sdir, p + ".sessions")], timeout=600)
        assert rc == 0, out
    rc, out = sh([chk.HBIN, "tables", os.path.join(SANDBOX, "tables.base")])
    assert rc == 0
    print("setup done")


def load_check():
    path = os.path.join(VERIF, "bin", "check")
    loader = importlib.machinery.SourceFileLoader("mtcheck", path)
    spec = importlib.util.spec_from_loader("mtcheck", loader)
    m = importlib.util.module_from_spec(spec)
    loader.exec_module(m)
    return m


# ---------------------------------------------------------------- mutants

def code_regions():
    """(file, first line, last line) of non-test code."""
    out = []
    for fn in ["screen.rs", "parser.rs", "parser_listener.rs", "byte_parser.rs", "control.rs", "modes.rs",
               "graphics.rs", "charset.rs"]:
        path = os.path.join(REPO, "src", fn)
        lines = open(path).read().split("\n")
        end = len(lines)
        for i, l in enumerate(lines):
            if re.match(r"\s*#\[cfg\(test\)\]\s*$", l) and i + 1 < len(lines) and "mod test" in lines[i + 1]:
                end = i
                break
        out.append((fn, 0, end))
    return out


OPS = [
    (r"(?<![<>=!-])<=(?!=)", ["<"]),
    (r"(?<![<>=!-])>=(?!=)", [">"]),
    (r"(?<![<>=!&|-])<(?![<=])", ["<="]),
    (r"(?<![<>=!&|-])>(?![>=])", [">="]),
    (r"==", ["!="]),
    (r"!=", ["=="]),
    (r"&&", ["||"]),
    (r"\|\|", ["&&"]),
    (r"(?<=[\w\)\]]) \+ (?=[\w\(])", [" - "]),
    (r"(?<=[\w\)\]]) - (?=[\w\(])", [" + "]),
    (r"\+= ", ["-= "]),
    (r"-= ", ["+= "]),
    (r"\.min\(", [".max("]),
    (r"\.max\(", [".min("]),
    (r"\bu32::min\(", ["u32::max("]),
    (r"\bu32::max\(", ["u32::min("]),
    (r"\bi32::min\(", ["i32::max("]),
    (r"\bi32::max\(", ["i32::min("]),
    (r"\btrue\b", ["false"]),
    (r"\bfalse\b", ["true"]),
    (r"(?<![\w.\"'x])(\d+)(?![\w.\"'])", ["+1", "-1"]),
    (r"\.saturating_sub\(", [".wrapping_add("]),
    (r"\bSome\(true\)", ["None"]),
    (r"\.is_none\(\)", [".is_some()"]),
    (r"\.is_some\(\)", [".is_none()"]),
    (r"\.is_empty\(\)", [".is_empty() == false"]),
    (r"\.rev\(\)", [""]),
    (r"\.\.=", [".."]),
]


def in_comment_or_string(line, pos):
    c = line.find("//")
    if c != -1 and pos >= c:
        return True
    # inside a string literal (rough): odd number of quotes before pos
    q = len(re.findall(r'(?<!\\)"', line[:pos]))
    return q % 2 == 1


def candidates():
    cands = []
    for fn, lo, hi in code_regions():
        path = os.path.join(REPO, "src", fn)
        lines = open(path).read().split("\n")
        in_attr_test = False
        for i in range(lo, hi):
            l = lines[i]
            st = l.strip()
            if fn == "parser.rs" and 232 <= i < 366:
                continue  # the #[cfg(test)] copy of the coroutine: not shipping code
            if st.startswith("//") or st.startswith("#[") or st.startswith("use ") or st.startswith("pub const") and "&str" in st:
                continue
            if "println!" in l or "eprintln!" in l or "expect(" in l and "format!" in l:
                continue
            generic = bool(re.search(r"\w<[\w&'\[(]|->|::<|<'", l))
            for pat, reps in OPS:
                if generic and reps in (["<="], [">="]):
                    continue
                for m in re.finditer(pat, l):
                    if in_comment_or_string(l, m.start()):
                        continue
                    for rep in reps:
                        if rep in ("+1", "-1"):
                            v = int(m.group(1))
                            nv = v + 1 if rep == "+1" else v - 1
                            if nv < 0 or v > 100000:
                                continue
                            new = l[:m.start()] + str(nv) + l[m.end():]
                            op = f"{v}->{nv}"
                        else:
                            new = l[:m.start()] + rep + l[m.end():]
                            op = f"{m.group(0).strip()}->{rep.strip()}"
                        cands.append({"file": fn, "line": i + 1, "op": op, "old": l, "new": new})
            # statement deletion
            if re.match(r"\s*self\.[\w.]+\([^;]*\);\s*(//.*)?$", l) and "let " not in l:
                cands.append({"file": fn, "line": i + 1, "op": "delete-statement", "old": l, "new": re.match(r"\s*", l).group(0) + "// (deleted)"})
    return cands


def apply(m, undo=False):
    path = os.path.join(REPO, "src", m["file"])
    lines = open(path).read().split("\n")
    i = m["line"] - 1
    want, put = (m["new"], m["old"]) if undo else (m["old"], m["new"])
    assert lines[i] == want, (lines[i], want)
    lines[i] = put
    open(path, "w").write("\n".join(lines))


def evaluate(chk, m):
    res = dict(m)
    t0 = time.time()
    rc, out = sh(["cargo", "test", "--offline", "--lib"], cwd=REPO, timeout=900)
    if "error" in out and "test result" not in out:
        res["status"] = "compile-error"
        return res
    mm = re.search(r"test result: (\w+)\. (\d+) passed; (\d+) failed", out)
    if not mm or mm.group(1) != "ok" or mm.group(2) != "91":
        res["status"] = "killed-by-crate-tests"
        return res
    rc, out = sh(["cargo", "build", "--offline"], cwd=os.path.join(VERIF, "harness"), timeout=900)
    if rc != 0:
        res["status"] = "harness-build-error"
        return res
    killed = []
    # translator
    tpath = os.path.join(SANDBOX, "tables.cur")
    rc, out = sh([chk.HBIN, "tables", tpath], timeout=60)
    if rc != 0 or open(tpath).read() != open(os.path.join(SANDBOX, "tables.base")).read():
        killed.append("tables")
    ctx = chk.Ctx("MT", "quick", 1)
    details = {}
    order = PROPS
    for p in order:
        ctx.prop = p
        f, *_ = chk.run_sessions(ctx, os.path.join(SANDBOX, "sessions", p + ".sessions"), "mt")
        rel = [x for x in f if chk.relevant(p, x) and (chk.is_concrete(x) or x["kind"] in ("CORR", "CORRD", "TIE"))]
        if rel:
            killed.append(p)
            details[p] = f"{rel[0]['kind']} {rel[0]['call']} {rel[0]['detail'][:120]}"
        if p in chk.META_PROPS:
            mo = os.path.join(ctx.wd, "meta.out")
            rc, out = sh([chk.HBIN, "meta", p, "quick", "1", mo], timeout=600)
            if rc != 0 or "METAFAIL" in open(mo).read():
                if p not in killed:
                    killed.append(p)
                details[p + "-meta"] = "metamorphic failure"
        if killed and not os.environ.get("MT_ALL"):
            break
    res["status"] = "killed" if killed else "survived"
    res["killed_by"] = killed
    res["details"] = details
    res["wall_s"] = round(time.time() - t0, 1)
    return res


def run(n, seed):
    chk = load_check()
    cands = candidates()
    random.Random(seed).shuffle(cands)
    done = set()
    rp = os.path.join(SANDBOX, "results.jsonl")
    if os.path.exists(rp):
        for l in open(rp):
            r = json.loads(l)
            done.add((r["file"], r["line"], r["op"]))
    good = 0
    for m in cands:
        if good >= n:
            break
        key = (m["file"], m["line"], m["op"])
        if key in done:
            continue
        apply(m)
        try:
            r = evaluate(chk, m)
        except Exception as e:  # keep going
            r = dict(m)
            r["status"] = "tool-error"
            r["error"] = str(e)[:300]
        finally:
            apply(m, undo=True)
        with open(rp, "a") as fh:
            fh.write(json.dumps(r) + "\n")
        if r["status"] in ("killed", "survived"):
            good += 1
        print(r["status"], m["file"], m["line"], m["op"], r.get("killed_by"), flush=True)


def report():
    rs = [json.loads(l) for l in open(os.path.join(SANDBOX, "results.jsonl"))]
    by = {}
    for r in rs:
        by[r["status"]] = by.get(r["status"], 0) + 1
    print(by)
    k = by.get("killed", 0)
    s = by.get("survived", 0)
    if k + s:
        print(f"of the {k + s} mutants that compile and pass the crate's own tests: {k} killed, {s} survived ({100.0 * k / (k + s):.1f}%)")
    for r in rs:
        if r["status"] == "survived":
            print("SURVIVED", r["file"], r["line"], r["op"], "|", r["old"].strip()[:100])


if __name__ == "__main__":
    a = sys.argv[1:]
    if not a:
        print(__doc__)
    elif a[0] == "setup":
        setup()
    elif a[0] == "run":
        run(int(a[1]), int(a[2]) if len(a) > 2 else 1)
    elif a[0] == "report":
        report()
