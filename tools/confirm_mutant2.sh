#!/bin/sh
# usage: tools/confirm_mutant2.sh <worktree> <Cxx_v>     (round-2 naming: out/Cxx_v.patch, out/Cxx_v_demo.rs)
# confirms: suite 91/0 with patch; demo fails with patch; demo passes without.
wt="$1"; n="$2"
cd "$wt" || exit 2
git checkout -q -- src
mkdir -p tests; cp out/${n}_demo.rs tests/demo_$n.rs
base=$(timeout 900 cargo test --offline --test demo_$n 2>&1 | grep -E "^test result" | head -1)
git apply out/$n.patch || { echo "apply failed"; exit 2; }
suite=$(timeout 900 cargo test --offline --lib 2>&1 | grep -E "^test result" | head -1)
withp=$(timeout 300 cargo test --offline --test demo_$n 2>&1 | grep -E "^test result|panicked|timed out" | head -2 | tr '\n' ' ')
git checkout -q -- src
rm -f parser_log.txt tests/demo_$n.rs
rmdir tests 2>/dev/null
echo "$n | suite: $suite | demo+patch: $withp | demo clean: $base"
