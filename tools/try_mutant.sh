#!/bin/sh
# usage: tools/try_mutant.sh <patch> <tier> <prop> [<prop>...]
# applies the patch to /repo, runs the checks, restores /repo.
patch="$1"; tier="$2"; shift 2
cd /repo || exit 2
git apply --check "$patch" || { echo "patch does not apply"; exit 2; }
git apply "$patch"
for p in "$@"; do
  out=$(cd /verif && bin/check "$p" "$tier" 2>&1)
  rc=$?
  echo "== $p rc=$rc"
  echo "$out" | grep -E "VIOLATION|KNOWN|^  " | cut -c1-260 | head -6
done
git checkout -- . 
cd /verif/harness && cargo build --offline >/dev/null 2>&1
