#!/bin/sh
# usage: tools/try_mutant.sh <patch> <tier> <prop> [<prop>...]
# applies the patch to /repo, runs the checks, restores /repo.
# The coverage-guided search is off here unless VERIF_NO_FUZZ is set to the empty string (so that a
# regression run measures the generators alone): VERIF_NO_FUZZ= tools/try_mutant.sh ...
VERIF_NO_FUZZ="${VERIF_NO_FUZZ-1}"; export VERIF_NO_FUZZ
patch="$1"; tier="$2"; shift 2
cd /repo || exit 2
# the evidence files in /verif must keep describing the unchanged tree
rm -rf /verif/work/evidence.keep && mkdir -p /verif/work && cp -r /verif/evidence /verif/work/evidence.keep
git apply --check "$patch" || { echo "patch does not apply"; exit 2; }
git apply "$patch"
for p in "$@"; do
  out=$(cd /verif && bin/check "$p" "$tier" 2>&1)
  rc=$?
  echo "== $p rc=$rc"
  echo "$out" | grep -E "VIOLATION|KNOWN|^  " | cut -c1-260 | head -6
done
git checkout -- . 
cd /verif/harness && cargo build --offline >/dev/null 2>&1
# the generated Lean files must describe the restored tree again
mkdir -p /verif/work && /verif/harness/target/debug/mtharness tables /verif/work/tables.txt >/dev/null 2>&1 && python3 /verif/tools/gen_tables.py /verif/work/tables.txt /verif/lean/Memterm/Generated/Tables.lean >/dev/null
rm -rf /verif/evidence && mv /verif/work/evidence.keep /verif/evidence
