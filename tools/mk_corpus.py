#!/usr/bin/env python3
"""Writes corpus/regressions.sessions: one minimal session per defect that was
found on the pinned tree and repaired by a `fix:` commit (DESIGN.md section 8).
They run first in every check; on the repaired tree they are clean, and they
fail again (PANIC / CORR / INV / PROP findings) if a defect returns."""
import sys

out = []


def s(x):
    cps = [ord(c) for c in x]
    return " ".join([str(len(cps))] + [str(c) for c in cps])


def b(x):
    return " ".join([str(len(x))] + [str(c) for c in x])


def new(name, cols, lines, kind="c"):
    out.append(f"new {cols} {lines} {kind} {name}")


def api(x):
    out.append("api " + x)


def draw(t):
    api("draw " + s(t))


def feed(t):
    out.append("feed " + s(t))


def feedb(x):
    out.append("feedb " + b(x))


def end():
    out.append("end")


ESC = "\x1b"

new("F01-ich-fresh-row", 5, 3); api("insert_characters 1"); feed(ESC + "[@"); api("display"); end()
new("F02-irm-draw-fresh-row", 5, 3); api("set_mode 1 4 0"); draw("x"); api("display"); end()
new("F03-cha-zero", 5, 3); draw("ab"); feed(ESC + "[G"); draw("cd"); api("cursor_to_column 0"); end()
new("F04-vpa-zero", 5, 3); feed("\n\n"); feed(ESC + "[d"); api("cursor_to_line 0"); end()
new("F05-motion-default-count", 5, 4); api("cursor_position 3 3")
for f in "ABCDEF":
    feed(ESC + "[" + f)
for c in ["cursor_up", "cursor_down", "cursor_forward", "cursor_back", "cursor_down1", "cursor_up1"]:
    api("cursor_position 3 3"); api(c + " 0"); api(c + " -")
end()
new("F06-il-dl-default-count", 4, 4)
for y, t in enumerate(["aaaa", "bbbb", "cccc", "dddd"]):
    api(f"cursor_position {y+1} 1"); draw(t)
api("cursor_position 2 2"); feed(ESC + "[L"); api("cursor_position 2 2"); feed(ESC + "[M")
api("insert_lines 0"); api("delete_lines 0"); api("display"); end()
new("F07-el-bad-selector", 5, 2); draw("abc"); feed(ESC + "[3K"); api("erase_in_line 9999"); api("display"); end()
new("F08-ed-absent", 5, 3); api("alignment_display"); api("cursor_position 2 2"); api("erase_in_display -"); api("display"); end()
new("F09-orphan-placeholder", 6, 2); draw("\u30b3"); feed("\r"); draw("x"); api("display"); end()
new("F10-zero-width-then-text", 6, 2); draw("a\u200bb"); draw("c\x07d"); api("display"); end()
new("F11-zero-width-at-wrap", 3, 3); draw("abc"); draw("\u200b"); draw("\x07"); draw("\u0308"); api("display")
api("set_mode 1 4 0"); api("cursor_position 1 1"); draw("\u17d8"); api("display"); end()
new("F12-combining-previous-row", 3, 3); draw("abcd"); feed("\r"); api("clear_dirty"); draw("\u0308"); api("display")
api("cursor_position 3 2"); draw("\u0301"); api("display"); end()
new("F13-dl-sparse", 4, 3); draw("Z"); feed("\r"); feed(ESC + "[M"); api("display"); end()
new("F15-el1-pending-wrap", 3, 2); draw("abc"); api("erase_in_line 1"); api("resize 2 5"); api("display"); end()
new("F16-palette", 4, 1); feed(ESC + "[38;5;196m"); draw("x"); feed(ESC + "[48;5;255m"); draw("y"); api("select_graphic_rendition 3 38 5 16"); end()
new("F17-resize-cursor", 10, 10); api("cursor_position 10 10"); api("resize 3 3"); api("display")
api("resize 6 2"); api("cursor_forward 9"); api("resize - 1"); end()
new("F19-tab-after-narrowing", 100, 2); api("cursor_position 1 91"); api("set_tab_stop"); api("resize - 80")
api("cursor_position 1 75"); api("tab"); api("tab"); end()
new("F20-ich-dch-resurrection", 5, 2); draw("abcde"); api("cursor_position 1 1"); api("insert_characters 1")
api("delete_characters 1"); api("display"); end()
new("F20b-ri-hidden-row", 3, 3)
for y, t in enumerate(["aaa", "bbb", "ccc"]):
    api(f"cursor_position {y+1} 1"); draw(t)
api("cursor_position 1 1"); api("reverse_index"); api("resize 4 3"); api("display"); end()
new("F21-shrink-dirty", 4, 6); api("alignment_display"); api("resize 2 4"); api("clear_dirty"); api("resize 1 1"); end()
new("F22-decaln-under-decscnm", 3, 2); draw("a"); api("set_mode 1 5 1"); api("alignment_display"); api("display"); end()
new("F23-decscnm-ansi-spelling", 3, 2); draw("a"); api("clear_dirty"); api("set_mode 1 160 0"); api("clear_dirty"); api("reset_mode 1 160 0"); end()
new("F24-osc-esc-backslash", 8, 2); feed(ESC + "]0;t" + ESC + "\\"); feed("x"); feed("\u009d2;u\u009c"); feed("y"); api("display"); end()
new("F25-osc-backslash-payload", 12, 2); feed(ESC + "]0;C:\\dir\x07"); feed("x"); api("display"); end()
new("F26-osc-empty-body", 8, 2); feed(ESC + "]0\x07"); feed("x"); feed(ESC + "]2;\x07"); api("display"); end()
new("F27-osc-esc-pair", 8, 2); feed(ESC + "]2;a" + ESC + "xb\x07"); feed("z"); api("display"); end()
new("F28-designators", 8, 2); out.append("utf8 0"); feed(ESC + "(0"); feed("q"); feed(ESC + ")U"); feed("\x0e\x01\x0f"); feed(ESC + "(B"); feed("q"); api("display"); end()
new("F29-esc-percent", 8, 2); feed(ESC + "%Gx"); feed(ESC + "%@y"); api("display"); end()
new("F30-param-overflow", 8, 4); feed(ESC + "[99999999999999999999;3H"); feed("x"); feed(ESC + "[00000000000000000000002;2H"); feed("y"); api("display"); end()
new("F31-byte-chunks", 12, 2, "b"); feedb(b"abc"); feedb(b"def"); feedb(b"\xe4\xb8"); feedb(b"\xad"); feedb(b"\xf0"); feedb(b"\x9f\x98"); feedb(b"\x80z"); api("display"); end()
new("F32-invalid-utf8", 12, 2, "b"); feedb(b"a\xffb"); feedb(b"\xe2\x9e"); feedb(b"\x9c"); feedb(b"\xc3"); feedb(b"("); feedb(b"\xed\xa0\x80"); feedb(b"\xf4\x90\x80\x80"); api("display"); end()
new("F34-ich-default-count", 6, 2); draw("abcdef"); api("cursor_position 1 2"); feed(ESC + "[@"); api("display"); end()
new("F35-resize-with-region", 4, 5)
for y, t in enumerate(["aaaa", "bbbb", "cccc", "dddd", "eeee"]):
    api(f"cursor_position {y+1} 1"); draw(t)
api("set_margins 2 4"); api("set_mode 1 6 1"); api("resize 3 4"); api("display"); api("resize 5 4"); api("display"); end()
new("F36-osc-terminator-first", 8, 2); feed(ESC + "]\x07x"); feed(ESC + "]" + ESC + "\\y"); feed("\u009d\u009cz"); feed(ESC + "]" + ESC + "q2;t\x07w"); api("display"); end()

open(sys.argv[1], "w").write("\n".join(out) + "\n")
