#!/usr/bin/env python3
"""fz2sess.py <corpus-dir-or-file>... <out.sessions> [idprefix]
Decode inputs of the coverage-guided search (fuzz/fuzz_targets/bytes.rs) into sessions of the harness.
The format is documented in bytes.rs; the two decoders must agree only for the search to be
efficient - the verdict is always on the session written here, executed by the harness."""
import hashlib
import os
import sys

COLS = [1, 2, 3, 4, 5, 6, 7, 8, 9, 10, 12, 17, 20, 40, 80, 132]
LINES = [1, 2, 3, 4, 5, 6, 10, 24]


def decode(data, sid):
    if len(data) < 2 or len(data) > 4096:
        return None
    cols = COLS[data[0] & 15] if data[0] < 128 else 1 + (data[0] - 128) % 40
    lines = LINES[data[1] & 7] if data[1] < 128 else 1 + (data[1] - 128) % 40
    d = data[2:]
    out = [f"new {cols} {lines} b {sid}"]
    buf = []

    def flush():
        if buf:
            out.append("feedb %d %s" % (len(buf), " ".join(str(x) for x in buf)))
            buf.clear()

    i = 0
    while i < len(d):
        b = d[i]
        if b != 0xFF:
            buf.append(b)
            i += 1
            continue
        nx = d[i + 1] if i + 1 < len(d) else None
        if nx == 0x00:
            flush()
            out.append("api display")
            i += 2
        elif nx == 0x01 and i + 3 < len(d):
            flush()
            out.append("api resize %d %d" % (1 + d[i + 2] % 40, (1 + d[i + 3] % 24) if d[i + 3] < 200 else COLS[(d[i + 3] - 200) & 15]))
            i += 4
        elif nx == 0x02:
            flush()
            i += 2
        elif nx == 0x03 and i + 2 < len(d):
            flush()
            code = "@G8x"[d[i + 2] & 3]
            out.append("charset 1 %d" % ord(code))
            i += 3
        elif nx == 0xFF:
            buf.append(0xFF)
            i += 2
        else:
            buf.append(0xFF)
            i += 1
    flush()
    out.append("api display")
    out.append("end")
    return "\n".join(out) + "\n"


def main():
    args = sys.argv[1:]
    prefix = "fz"
    if len(args) >= 3 and not os.path.exists(args[-1]) and not args[-1].endswith(".sessions"):
        prefix = args.pop()
    outp = args.pop()
    files = []
    for a in args:
        if os.path.isdir(a):
            files += [os.path.join(a, f) for f in sorted(os.listdir(a))]
        elif os.path.exists(a):
            files.append(a)
    n = 0
    seen = set()
    with open(outp, "w") as fh:
        for f in files:
            if not os.path.isfile(f):
                continue
            data = open(f, "rb").read()
            h = hashlib.sha1(data).hexdigest()[:12]
            if h in seen:
                continue
            seen.add(h)
            s = decode(data, f"{prefix}{h}")
            if s:
                fh.write(s)
                n += 1
    print(n)


if __name__ == "__main__":
    main()
