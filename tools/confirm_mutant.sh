#!/bin/sh
# usage: tools/confirm_mutant.sh <worktree> <variant a|b>
# confirms: suite 91/0 with patch; demo fails with patch; demo passes without.
wt="$1"; v="$2"
cd "$wt" || exit 2
git checkout -q -- src
mkdir -p tests; cp out/demo_$v.rs tests/demo_$v.rs
base=$(timeout 600 cargo test --offline --test demo_$v 2>&1 | grep -E "^test result" | head -1)
git apply out/$v.patch || { echo "apply failed"; exit 2; }
suite=$(timeout 600 cargo test --offline --lib 2>&1 | grep -E "^test result" | head -1)
withp=$(timeout 120 cargo test --offline --test demo_$v 2>&1 | grep -E "^test result|panicked|timed out" | head -2 | tr '\n' ' ')
git checkout -q -- src
rm -f parser_log.txt
echo "$(basename $wt)/$v | suite: $suite | demo+patch: $withp | demo clean: $base"
