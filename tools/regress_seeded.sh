#!/bin/sh
# usage: tools/regress_seeded.sh [tier]   -- every seeded change against the check of its property
tier="${1:-quick}"
for d in /verif/seeded/*/; do
  n=$(basename $d); prop=$(echo $n | cut -d- -f1)
  echo "#### $n"
  /verif/tools/try_mutant.sh $d/patch.diff $tier $prop 2>&1 | tail -4 | cut -c1-240
done
