// C20 -- candidate violations. Each test asserts what the property text requires and
// FAILS on the unmodified crate. Both have the same root cause (SO/SI are missing from
// `ALLOWED_IN_CSI`, so inside a control sequence they are taken for its final byte) and
// both are LOW confidence: pyte behaves the same way; VT100/VT220, xterm and the Linux
// console execute SO/SI wherever they arrive.

use std::sync::{Arc, Mutex};

use memterm::byte_parser::ByteParser;
use memterm::parser_listener::ParserListener;
use memterm::screen::{Charset, Screen};

/// "In 8-bit mode SO and SI select G1 and G0": an SO that arrives while a CSI sequence is
/// being collected does not select G1 (and, unlike BEL/BS/HT/LF/VT/FF/CR, it aborts the
/// sequence).
#[test]
fn c20_1_so_inside_csi_does_not_select_g1_in_8bit_mode() {
    let screen = Arc::new(Mutex::new(Screen::new(4, 1)));
    let mut p = ByteParser::new(screen.clone());
    p.select_other_charset("@"); // 8-bit mode
    p.feed(b"\x1b[1\x0emq"); // CSI 1 <SO> m, then "q"
    let mut s = screen.lock().unwrap();
    assert_eq!(s.charset, Charset::G1, "SO selects G1");
    // G1 is DEC Special Graphics: q is the horizontal line
    assert_eq!(s.display(), vec!["\u{2500}   "]);
}

/// Same for SI: G1 stays active.
#[test]
fn c20_1b_si_inside_csi_does_not_select_g0_in_8bit_mode() {
    let screen = Arc::new(Mutex::new(Screen::new(4, 1)));
    let mut p = ByteParser::new(screen.clone());
    p.select_other_charset("@");
    p.feed(b"\x0e\x1b[1\x0fmq");
    let mut s = screen.lock().unwrap();
    assert_eq!(s.charset, Charset::G0, "SI selects G0");
    assert_eq!(s.display(), vec!["q   "]);
}

/// "in UTF-8 mode shifts and designators are ignored": an SO inside a CSI sequence is not
/// ignored, it ends the sequence: SGR 1 is lost and its final byte is printed as text.
#[test]
fn c20_2_so_inside_csi_is_not_ignored_in_utf8_mode() {
    let screen = Arc::new(Mutex::new(Screen::new(4, 1)));
    let mut p = ByteParser::new(screen.clone()); // UTF-8 mode is the default
    p.feed(b"\x1b[1\x0emX");
    let mut s = screen.lock().unwrap();
    // with the shift ignored the stream is CSI 1 m X
    assert_eq!(s.display(), vec!["X   "]);
    assert!(s.buffer[&0][&0].bold);
}

/// Same root cause, escape-sequence flavour: an SO right after ESC is taken for the final
/// byte of a two-character escape sequence and dropped.
#[test]
fn c20_1c_so_after_esc_does_not_select_g1_in_8bit_mode() {
    let screen = Arc::new(Mutex::new(Screen::new(4, 1)));
    let mut p = ByteParser::new(screen.clone());
    p.select_other_charset("@");
    p.feed(b"\x1b\x0e");
    assert_eq!(screen.lock().unwrap().charset, Charset::G1, "SO selects G1");
}

/// "G1 [starts] as DEC Special Graphics (0x5f-0x7e become line-drawing symbols) ... whose
/// 4x256 entries equal the published tables": the table DEC published (VT100 User Guide
/// table 3-9, VT220 Programmer Reference table 2-4; xterm implements exactly that) changes
/// only 0x5f..=0x7e, and 0x68 is the NL symbol. The crate's table is the Linux console /
/// pyte variant: it also turns + , - . 0 into arrows and a block, and 0x68 into a shade.
/// Only a finding if "published" means DEC's table rather than pyte's.
#[test]
fn c20_3_dec_graphics_differs_from_the_dec_table_outside_0x5f_0x7e() {
    let screen = Arc::new(Mutex::new(Screen::new(6, 1)));
    let mut p = ByteParser::new(screen.clone());
    p.select_other_charset("@");
    p.feed(b"\x0e+,-.0h");
    assert_eq!(screen.lock().unwrap().display(), vec!["+,-.0\u{2424}"]);
}

/// "designating B, 0, U or V with `ESC (` / `ESC )` installs ...": not when the designator
/// follows an unfinished CSI sequence. The ESC is taken for the final byte of the CSI
/// (instead of cancelling it and starting a new sequence, as ECMA-48 / VT100 / xterm do),
/// so G0 is not designated and "(0" is printed. Different root cause from C20-1/2 (ESC,
/// not SO/SI, inside a CSI); the recogniser's treatment of an abandoned CSI may well be
/// the subject of another property.
#[test]
fn c20_4_designator_after_an_abandoned_csi_is_printed_instead_of_installed() {
    let screen = Arc::new(Mutex::new(Screen::new(4, 1)));
    let mut p = ByteParser::new(screen.clone());
    p.select_other_charset("@");
    p.feed(b"\x1b[1\x1b(0q");
    let mut s = screen.lock().unwrap();
    assert_eq!(s.g0_charset[0x71], '\u{2500}', "ESC ( 0 installs DEC graphics in G0");
    assert_eq!(s.display(), vec!["\u{2500}   "]);
}

/// The UTF-8 side of the same thing: the designator is not ignored, its bytes are printed.
#[test]
fn c20_4b_designator_after_an_abandoned_csi_is_not_ignored_in_utf8_mode() {
    let screen = Arc::new(Mutex::new(Screen::new(4, 1)));
    let mut p = ByteParser::new(screen.clone());
    p.feed(b"\x1b[1\x1b(0q");
    assert_eq!(screen.lock().unwrap().display(), vec!["q   "]);
}
