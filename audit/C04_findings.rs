// C04 findings: every test asserts what the property requires and FAILS on the
// unmodified crate.  F1 and F2 are the findings I would defend; F3..F5 only
// violate the text when it is read literally (see C04_audit.md for confidence).
use std::sync::{Arc, Mutex};

use memterm::parser::Parser;
use memterm::parser_listener::ParserListener;
use memterm::screen::{CharOpts, Screen};

fn cell(s: &Screen, y: u32, x: u32) -> CharOpts {
    s.buffer
        .get(&y)
        .and_then(|l| l.get(&x))
        .cloned()
        .unwrap_or_else(|| s.default_char())
}
fn row(s: &Screen, y: u32) -> Vec<String> {
    (0..s.columns).map(|x| cell(s, y, x).data).collect()
}

/// F1 (Screen API): autowrap with the cursor BELOW the scrolling region does not go
/// to "column 0 of the next line": the cursor jumps UP to the bottom margin and the
/// character lands in the scrolling region.
#[test]
fn f1_autowrap_below_scrolling_region_goes_to_next_line() {
    let mut s = Screen::new(5, 10);
    s.set_margins(Some(1), Some(5)); // region = rows 0..=4
    s.cursor_position(Some(8), Some(1)); // row 7 (DECOM off: allowed)
    s.draw("abcde");
    assert_eq!((s.cursor.y, s.cursor.x), (7, 5)); // pending wrap
    s.draw("f");
    assert_eq!(row(&s, 4), vec![" ", " ", " ", " ", " "], "row 4 (bottom margin) must not change");
    assert_eq!(row(&s, 8), vec!["f", " ", " ", " ", " "], "f belongs to column 0 of row 8");
    assert_eq!((s.cursor.y, s.cursor.x), (8, 1));
}

/// F1 (byte stream): the same through the parser.
#[test]
fn f1_autowrap_below_scrolling_region_parser() {
    let screen = Arc::new(Mutex::new(Screen::new(5, 10)));
    let mut p = Parser::new(screen.clone());
    p.feed("\x1b[1;5r\x1b[8;1Habcdef".to_string());
    let s = screen.lock().unwrap();
    assert_eq!((s.cursor.y, s.cursor.x), (8, 1));
    assert_eq!(cell(&s, 8, 0).data, "f");
}

/// F1 (last line): on the last line of the screen, below the region, there is no
/// next line and no bottom margin; in no reading may the text jump up into row 4.
#[test]
fn f1_autowrap_on_last_line_below_scrolling_region() {
    let screen = Arc::new(Mutex::new(Screen::new(5, 10)));
    let mut p = Parser::new(screen.clone());
    p.feed("\x1b[1;5r\x1b[10;1Habcdef".to_string());
    let s = screen.lock().unwrap();
    assert_eq!(row(&s, 4), vec![" ", " ", " ", " ", " "]);
    assert_eq!(s.cursor.y, 9);
}

/// F2: a combining mark drawn right after a double-width character is stored in
/// the PLACEHOLDER cell, not appended to the character.  (display() then drops it.)
#[test]
fn f2_combining_mark_after_wide_char_goes_to_the_wide_char() {
    let mut s = Screen::new(6, 2);
    s.draw("\u{30AB}"); // KATAKANA KA, width 2
    assert_eq!(row(&s, 0)[..2], ["\u{30AB}".to_string(), "".to_string()]);
    s.draw("\u{3099}"); // COMBINING KATAKANA-HIRAGANA VOICED SOUND MARK
    assert_eq!(cell(&s, 0, 1).data, "", "the placeholder stays empty");
    assert_eq!(cell(&s, 0, 0).data, "\u{30AB}\u{3099}");
    assert_eq!(s.display()[0], "\u{30AB}\u{3099}    ");
}

/// F3 (low confidence): a double-width character drawn in the last column
/// occupies ONE cell and advances the cursor by ONE.
#[test]
fn f3_wide_char_in_last_column_occupies_two_cells() {
    let mut s = Screen::new(4, 2);
    s.draw("abc");
    assert_eq!((s.cursor.y, s.cursor.x), (0, 3));
    s.draw("\u{30B3}");
    // wherever the crate decides to put it, it must have a lead and a placeholder
    let mut found = None;
    for y in 0..2 {
        for x in 0..4 {
            if cell(&s, y, x).data == "\u{30B3}" {
                found = Some((y, x));
            }
        }
    }
    let (y, x) = found.expect("the character was drawn");
    assert!(x + 1 < 4, "lead at column {} has no room for its placeholder", x);
    assert_eq!(cell(&s, y, x + 1).data, "");
}

/// F4 (low confidence): the mark is not "appended": the text already in the cell
/// is rewritten (NFC-composed) first, so the old text is not a prefix of the new.
#[test]
fn f4_combining_mark_is_appended_to_the_existing_text() {
    let mut s = Screen::new(4, 1);
    s.draw("e\u{0301}");
    let old = cell(&s, 0, 0).data;
    assert_eq!(old, "e\u{0301}");
    s.draw("\u{0302}");
    assert_eq!(cell(&s, 0, 0).data, format!("{}\u{0302}", old));
}

/// F5 (low confidence): with the cursor in column 0 (after CR LF) a combining mark
/// modifies the never-written last cell of the line above.
#[test]
fn f5_combining_mark_in_column_zero_changes_an_unrelated_cell() {
    let mut s = Screen::new(4, 3);
    s.draw("a");
    s.cariage_return();
    s.linefeed();
    assert_eq!((s.cursor.y, s.cursor.x), (1, 0));
    s.draw("\u{0301}");
    assert_eq!(row(&s, 0), vec!["a", " ", " ", " "]);
}
