// C08 findings: each test asserts what the property requires and FAILS on the unmodified crate.
use std::sync::{Arc, Mutex};

use memterm::parser::Parser;
use memterm::parser_listener::ParserListener;
use memterm::screen::Screen;

fn feed(cols: u32, lines: u32, input: &str) -> Arc<Mutex<Screen>> {
    let screen = Arc::new(Mutex::new(Screen::new(cols, lines)));
    {
        let mut parser = Parser::new(screen.clone());
        parser.feed(input.to_string());
    }
    screen
}

/// `38;2;r;g;b` with a component > 255 is an out-of-range extended-colour form: it must be
/// ignored (its five parameters consumed), leaving fg unchanged. The crate stores the
/// 7-digit string "1000000", which is not a colour "rrggbb".
#[test]
fn c08_truecolor_fg_component_out_of_range_is_ignored() {
    let screen = feed(10, 2, "\x1b[31m\x1b[38;2;256;0;0m");
    let s = screen.lock().unwrap();
    assert_eq!(s.cursor.attr.fg, "red", "out-of-range 38;2;256;0;0 must leave fg alone");
}

/// Same for the background and for a component at the parser's clamp (9999).
#[test]
fn c08_truecolor_bg_component_out_of_range_is_ignored() {
    let screen = feed(10, 2, "\x1b[48;2;0;9999;0m");
    let s = screen.lock().unwrap();
    assert_eq!(s.cursor.attr.bg, "default", "out-of-range 48;2;0;9999;0 must leave bg alone");
}

/// Same through the listener API directly, and the cell drawn afterwards must not carry a
/// colour outside "rrggbb".
#[test]
fn c08_truecolor_out_of_range_direct_api_cell() {
    let mut s = Screen::new(4, 1);
    s.select_graphic_rendition(&[38, 2, 0, 0, 300, 1]);
    s.draw("x");
    let cell = s.buffer[&0][&0].clone();
    assert!(cell.bold, "the code after the consumed form still applies");
    assert_eq!(cell.fg, "default", "38;2;0;0;300 is out of range and must be ignored");
}

/// The colon form of the extended colours (ITU T.416 / xterm ctlseqs: `CSI 38 : 5 : n m`,
/// `CSI 38 : 2 : : r : g : b m`) is either a colour selection or a malformed form that is ignored;
/// in neither case may cells already on screen change. The crate aborts the sequence at the first
/// `:` and prints the rest of the sequence ("5:196m") over the screen.
#[test]
fn c08_colon_form_does_not_touch_the_screen() {
    let screen = feed(10, 1, "abcdefgh\r\x1b[38:5:196m");
    let mut s = screen.lock().unwrap();
    assert_eq!(s.display(), vec!["abcdefgh  ".to_string()]);
}
