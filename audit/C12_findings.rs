// C12 findings: each test asserts what the property requires and FAILS on the unmodified crate.
// Copy to tests/ and run `cargo test --offline --test C12_findings`.
use std::collections::HashSet;
use std::sync::{Arc, Mutex};

use memterm::parser::Parser;
use memterm::parser_listener::ParserListener;
use memterm::screen::Screen;

const DECTCEM: u32 = 25 << 5;
const DECAWM: u32 = 7 << 5;

/// F1 (medium): `CSI ?3h` sent twice, then `CSI ?3l`.
/// "DECCOLM switches to 132 columns (RM restores the previous width)".
/// The second SM overwrites the remembered width with 132, so RM leaves the screen 132 wide
/// and the width the screen had before it was switched to 132 columns is lost for good.
#[test]
fn c12_f1_deccolm_set_twice_then_reset_restores_previous_width() {
    let screen = Arc::new(Mutex::new(Screen::new(80, 24)));
    let mut parser = Parser::new(screen.clone());
    parser.feed("\x1b[?3h".to_string());
    assert_eq!(screen.lock().unwrap().columns, 132);
    parser.feed("\x1b[?3h".to_string()); // e.g. an application that re-asserts the mode
    assert_eq!(screen.lock().unwrap().columns, 132);
    parser.feed("\x1b[?3l".to_string());
    assert_eq!(
        screen.lock().unwrap().columns,
        80,
        "RM ?3 must restore the width the screen had before it was switched to 132 columns"
    );
}

/// F2 (low): DEC-private mode 0 and ANSI mode 0 are one and the same record.
/// "DEC-private mode n (`?`) being distinct from ANSI mode n" / "add and remove exactly the
/// listed mode numbers": `CSI ?0h` followed by `CSI 0l` (ANSI) must not remove private mode 0.
/// The private encoding `n << 5` maps 0 to 0, so the ANSI RM removes it.
#[test]
fn c12_f2_private_mode_0_is_distinct_from_ansi_mode_0() {
    let mut screen = Screen::new(10, 3);
    let default_modes: HashSet<u32> = [DECAWM, DECTCEM].into_iter().collect();
    assert_eq!(screen.mode, default_modes);

    screen.set_mode(&[0], true); // CSI ? 0 h
    assert_ne!(screen.mode, default_modes, "private mode 0 is recorded");
    screen.reset_mode(&[0], false); // CSI 0 l  -- ANSI mode 0, a different mode
    assert_ne!(
        screen.mode, default_modes,
        "RM of ANSI mode 0 removed the record of DEC-private mode 0"
    );
}
