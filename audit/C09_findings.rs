//! C09 findings: integration tests that assert what property C09 requires and
//! FAIL on the unmodified crate.  Copy into `tests/` and run
//! `cargo test --offline --test C09_findings`.
use std::sync::{Arc, Mutex};

use memterm::parser::Parser;
use memterm::parser_listener::ParserListener;
use memterm::screen::Screen;

const NAMES: &[&str] = &[
    "default", "black", "red", "green", "brown", "blue", "magenta", "cyan", "white",
    "brightblack", "brightred", "brightgreen", "brightbrown", "brightblue", "brightmagenta",
    "brightcyan", "brightwhite",
];

/// A documented colour name (pyte `graphics.FG_ANSI`/`BG_ANSI`/`*_AIXTERM`) or a
/// hexadecimal colour string `rrggbb` (pyte `graphics.FG_BG_256`, 24-bit SGR).
fn colour_ok(c: &str) -> bool {
    NAMES.contains(&c) || (c.len() == 6 && c.chars().all(|ch| ch.is_ascii_hexdigit()))
}

/// F1a: `ESC [ 38 ; 2 ; 256 ; 0 ; 0 m X` -- a 24-bit colour component just above the
/// documented range 0..=255.  The cell `X` is reported with fg "1000000" (7 characters),
/// which is neither a colour name nor an rrggbb string.
#[test]
fn c09_f1a_truecolor_component_256_gives_malformed_fg() {
    let screen = Arc::new(Mutex::new(Screen::new(5, 2)));
    let mut parser = Parser::new(screen.clone());
    parser.feed("\x1b[38;2;256;0;0mX".to_string());
    let s = screen.lock().unwrap();
    let cell = &s.buffer[&0][&0];
    assert_eq!(cell.data, "X");
    assert!(
        colour_ok(&cell.fg),
        "cell (0,0) reports fg {:?}: not a colour name and not an rrggbb string",
        cell.fg
    );
}

/// F1b: same defect through the listener API and for the background, with the largest
/// parameter the parser can produce (9999): bg becomes "270f270f270f" (12 characters).
/// Erased cells take the cursor attributes, so the whole line reports it.
#[test]
fn c09_f1b_truecolor_component_9999_gives_malformed_bg() {
    let mut s = Screen::new(3, 1);
    s.select_graphic_rendition(&[48, 2, 9999, 9999, 9999]);
    s.erase_in_line(Some(2), None);
    for x in 0..3u32 {
        let cell = &s.buffer[&0][&x];
        assert!(
            colour_ok(&cell.bg),
            "cell (0,{}) reports bg {:?}: not a colour name and not an rrggbb string",
            x,
            cell.bg
        );
    }
}
