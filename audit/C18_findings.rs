// C18 findings: each test asserts what the property requires and FAILS on the
// unmodified crate.
//
// Both are one root cause: after a character has been written in the last column the
// crate keeps the cursor at the internal position x == columns ("pending wrap"); the
// cursor is then still *in the last column* (VT100/VT220: the cursor stays on the
// last character position until the next graphic character arrives; xterm: cur_col ==
// max_col with the do_wrap flag), and the crate itself treats it so for BS/CUB
// (cursor_back first steps back to columns-1).  HTS and TBC 0 however use the raw
// value `columns`, a column that does not exist.

use std::sync::{Arc, Mutex};

use memterm::parser::Parser;
use memterm::parser_listener::ParserListener;
use memterm::screen::Screen;

/// C18-F1: HTS at the pending-wrap position adds a stop at the non-existent column
/// `columns` instead of at the cursor column (the last column).
///
/// Input: 10x2 screen, `0123456789` (cursor now in column 10 = index 9, wrap pending),
/// `ESC H`.
/// Required: stops = {8, 9}.  Crate: stops = {8, 10}.
/// Visible consequence: widen the screen (resize, or DECCOLM on an 80-column screen)
/// and HT stops one column too far to the right.
#[test]
fn c18_f1_hts_at_pending_wrap_sets_stop_outside_the_screen() {
    let scr = Arc::new(Mutex::new(Screen::new(10, 2)));
    let mut p = Parser::new(scr.clone());
    p.feed("0123456789\x1bH".to_string());
    {
        let s = scr.lock().unwrap();
        let mut stops: Vec<u32> = s.tabstops.iter().copied().collect();
        stops.sort();
        assert!(
            stops.iter().all(|c| *c < s.columns),
            "a tab stop was set at a column that does not exist: {:?} (columns = {})",
            stops,
            s.columns
        );
        assert_eq!(stops, vec![8, 9], "HTS adds a stop at the cursor column (the last column)");
    }
}

/// The same finding, observed through HT only (no peeking at `tabstops`): 80 columns,
/// fill the first row, HTS, switch to 132 columns (DECCOLM keeps tab stops), go to
/// column 73 and press HT: the stop set "at the cursor" was in column 80 (index 79).
#[test]
fn c18_f1_hts_at_pending_wrap_seen_through_ht_after_deccolm() {
    let scr = Arc::new(Mutex::new(Screen::new(80, 24)));
    let mut p = Parser::new(scr.clone());
    let row: String = std::iter::repeat('x').take(80).collect();
    p.feed(row);
    p.feed("\x1bH".to_string());
    p.feed("\x1b[?3h".to_string());
    p.feed("\x1b[73G\t".to_string());
    let s = scr.lock().unwrap();
    assert_eq!(s.columns, 132);
    assert_eq!(s.cursor.x, 79, "the stop was set with the cursor in column 80 (index 79)");
}

/// C18-F2: TBC 0 at the pending-wrap position does not remove the stop at the cursor.
///
/// Input: 17x2 screen (default stops 8 and 16; 16 is the last column),
/// 17 characters (cursor in the last column, wrap pending), `CSI 0 g`.
/// Required: the stop at the cursor (16) is removed: stops = {8}.
/// Crate: stops = {8, 16} (it tried to remove a stop at column 17).
#[test]
fn c18_f2_tbc0_at_pending_wrap_does_not_clear_stop_at_cursor() {
    for tbc in ["\x1b[g", "\x1b[0g", "\u{9b}0g"] {
        let scr = Arc::new(Mutex::new(Screen::new(17, 2)));
        let mut p = Parser::new(scr.clone());
        p.feed("0123456789abcdefg".to_string());
        p.feed(tbc.to_string());
        let mut s = scr.lock().unwrap();
        let mut stops: Vec<u32> = s.tabstops.iter().copied().collect();
        stops.sort();
        assert_eq!(stops, vec![8], "{:?}: TBC 0 removes the stop at the cursor (last column, 16)", tbc);
        // and through HT after widening
        s.resize(None, Some(40));
        s.cursor_to_column(Some(10));
        s.tab();
        assert_eq!(s.cursor.x, 39);
    }
}
