// C15 findings: each test asserts what the property requires and FAILS on the unmodified crate.
//
// All of them are one defect seen through different histories: an ESC that arrives while the
// recogniser is inside an unfinished sequence is not "processed as a sequence introducer"
// (VT100 / VT102 / VT220 control-character tables; VT510: "ESC also cancels any escape sequence,
// control sequence or device control string in progress"), so the `ESC c` that follows is not
// executed: the terminal is NOT reset "whatever happened before", and for some histories the `c`
// is printed on the screen instead.
use std::sync::{Arc, Mutex};

use memterm::parser::Parser;
use memterm::parser_listener::ParserListener;
use memterm::screen::{CharOpts, Screen};

fn run(history: &str) -> Arc<Mutex<Screen>> {
    let screen = Arc::new(Mutex::new(Screen::new(10, 3)));
    let mut p = Parser::new(screen.clone());
    // visible state that a reset must clear
    p.feed("abc\x1b[1;31m\x1b[?25l\x1b]2;title\x07".to_string());
    p.feed(history.to_string());
    p.feed("\x1bc".to_string());
    drop(p);
    screen
}

fn assert_power_on(screen: &Arc<Mutex<Screen>>, ctx: &str) {
    let mut s = screen.lock().unwrap();
    let fresh = Screen::new(10, 3);
    assert_eq!(s.display(), vec![" ".repeat(10); 3], "grid after {}", ctx);
    assert_eq!(s.cursor.attr, CharOpts::default(), "rendition after {}", ctx);
    assert_eq!((s.cursor.x, s.cursor.y, s.cursor.hidden), (0, 0, false), "cursor after {}", ctx);
    assert_eq!(s.mode, fresh.mode, "modes after {}", ctx);
    assert_eq!(s.title, "", "title after {}", ctx);
    assert_eq!(s.dirty, (0..3).collect(), "dirty after {}", ctx);
}

/// `ESC [ 1 ;` (a control sequence that never got its final byte), then `ESC c`.
/// The crate dispatches ESC as the final byte of the CSI (unknown, dropped) and prints "c".
#[test]
fn c15_ris_after_an_abandoned_csi() {
    assert_power_on(&run("\x1b[1;"), "an abandoned CSI");
}

/// Same with the 8-bit introducer.
#[test]
fn c15_ris_after_an_abandoned_c1_csi() {
    assert_power_on(&run("\u{9b}?"), "an abandoned C1 CSI");
}

/// An operating-system command that never got its terminator, then `ESC c`.
/// The crate appends "ESC c" to the string and stays inside the OSC.
#[test]
fn c15_ris_inside_an_unterminated_osc() {
    assert_power_on(&run("\x1b]2;half a title"), "an unterminated OSC");
}

/// `ESC (` / `ESC #` / `ESC %` waiting for their one argument, then `ESC c`.
/// The crate takes ESC as the argument and prints "c".
#[test]
fn c15_ris_after_an_unfinished_designator() {
    assert_power_on(&run("\x1b("), "ESC (");
}

#[test]
fn c15_ris_after_an_unfinished_esc_hash() {
    assert_power_on(&run("\x1b#"), "ESC #");
}

#[test]
fn c15_ris_after_an_unfinished_esc_percent() {
    assert_power_on(&run("\x1b%"), "ESC %");
}

/// `CSI 1 $` skips one character, whatever it is; then `ESC c`.
#[test]
fn c15_ris_after_csi_dollar() {
    assert_power_on(&run("\x1b[1$"), "CSI 1 $");
}
