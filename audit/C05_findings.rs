// C05 findings: each test asserts what the documentation requires and FAILS on the
// unmodified crate.
//
// Both tests are one root cause (cursor_up / cursor_down always clamp against the
// scrolling-region margin, even when the cursor starts on the far side of it), seen
// from the two directions.  NOTE: the literal formula in the property text
// ("max(y-n, top margin)" / "min(y+n, bottom margin)") evaluates to exactly what the
// crate does; the tests below assert the *documented* behaviour the same sentence
// appeals to ("move the cursor exactly as documented"): VT510 CUU "If the cursor is
// already above the top margin, then the cursor stops at the top line", CUD "If the
// cursor is already below the bottom margin, then the cursor stops at the bottom
// line"; xterm CursorUp/CursorDown do the same.  At the very least a cursor-UP must
// never move the cursor DOWN and vice versa.

use std::sync::{Arc, Mutex};

use memterm::parser::Parser;
use memterm::screen::Screen;

/// C05-F1: CUU / CPL with the cursor above the top margin move the cursor DOWN to the
/// top margin.
///
/// Input: 80x24, `ESC[5;10r` (DECSTBM homes the cursor to row 1, which is above the
/// region because origin mode is off), then `ESC[A`.
/// Required: the cursor stays on the first line (it is above the top margin, so it
/// stops at the top line of the screen).
/// Crate: cursor jumps to y = 4 (the top margin), i.e. four rows DOWN.
#[test]
fn c05_f1_cuu_above_region_moves_cursor_down() {
    for seq in ["\x1b[A", "\x1b[1A", "\x1b[0A", "\u{9b}A", "\x1b[F", "\x1b[9999A"] {
        let scr = Arc::new(Mutex::new(Screen::new(80, 24)));
        let mut p = Parser::new(scr.clone());
        p.feed("\x1b[5;10r".to_string());
        {
            let s = scr.lock().unwrap();
            assert_eq!((s.cursor.x, s.cursor.y), (0, 0), "DECSTBM homes the cursor");
        }
        p.feed(seq.to_string());
        let s = scr.lock().unwrap();
        assert_eq!(
            s.cursor.y, 0,
            "{:?}: a cursor-up from row 0 (above the region 4..=9) must leave the cursor on row 0",
            seq
        );
    }

    // from row 3 (0-based 2), still above the region: CUU 1 must go to row 2 (0-based 1)
    let scr = Arc::new(Mutex::new(Screen::new(80, 24)));
    let mut p = Parser::new(scr.clone());
    p.feed("\x1b[5;10r\x1b[3;7H\x1b[A".to_string());
    let s = scr.lock().unwrap();
    assert_eq!((s.cursor.x, s.cursor.y), (6, 1));
}

/// C05-F2: CUD / CNL / VPR with the cursor below the bottom margin move the cursor UP
/// to the bottom margin.
///
/// Input: 80x24, `ESC[5;10r`, `ESC[20;1H` (row 20 is below the region; origin mode is
/// off so CUP is absolute), then `ESC[B`.
/// Required: y = 20 (0-based; one line down, limit is the bottom line of the screen).
/// Crate: y = 9 (the bottom margin), i.e. ten rows UP.
#[test]
fn c05_f2_cud_below_region_moves_cursor_up() {
    for (seq, want) in [
        ("\x1b[B", 20u32),
        ("\x1b[1B", 20),
        ("\x1b[0B", 20),
        ("\x1b[e", 20),
        ("\x1b[E", 20),
        ("\x1b[3B", 22),
        ("\x1b[9999B", 23),
    ] {
        let scr = Arc::new(Mutex::new(Screen::new(80, 24)));
        let mut p = Parser::new(scr.clone());
        p.feed("\x1b[5;10r\x1b[20;1H".to_string());
        {
            let s = scr.lock().unwrap();
            assert_eq!((s.cursor.x, s.cursor.y), (0, 19));
        }
        p.feed(seq.to_string());
        let s = scr.lock().unwrap();
        assert_eq!(
            s.cursor.y, want,
            "{:?}: a cursor-down from row 19 (below the region 4..=9) must move down, limit is the last line",
            seq
        );
    }
}
