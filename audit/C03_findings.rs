// C03 findings: every test in this file asserts what property C03 requires and FAILS on the
// unmodified crate.  Copy to tests/ and run `cargo test --offline --test C03_findings`.
//
// Module `findings`   : the property text (with ECMA-48 / VT220 / xterm as the "documented grammar")
//                       constrains the behaviour directly.
// Module `borderline` : failing as well, but whether it is a violation depends on how widely the
//                       words "documented ... subset" are read.  See C03_audit.md.
#![allow(dead_code)]
use std::sync::{Arc, Mutex};

use memterm::parser::Parser;
use memterm::parser_listener::ParserListener;

#[derive(Default)]
struct Rec {
    ev: Vec<String>,
}
impl Rec {
    fn r(&mut self, s: String) {
        self.ev.push(s);
    }
}
impl ParserListener for Rec {
    fn alignment_display(&mut self) { self.r("alignment_display".into()) }
    fn define_charset(&mut self, code: &str, mode: &str) { self.r(format!("define_charset({:?},{:?})", code, mode)) }
    fn reset(&mut self) { self.r("reset".into()) }
    fn index(&mut self) { self.r("index".into()) }
    fn linefeed(&mut self) { self.r("linefeed".into()) }
    fn reverse_index(&mut self) { self.r("reverse_index".into()) }
    fn set_tab_stop(&mut self) { self.r("set_tab_stop".into()) }
    fn save_cursor(&mut self) { self.r("save_cursor".into()) }
    fn restore_cursor(&mut self) { self.r("restore_cursor".into()) }
    fn shift_out(&mut self) { self.r("shift_out".into()) }
    fn shift_in(&mut self) { self.r("shift_in".into()) }
    fn bell(&mut self) { self.r("bell".into()) }
    fn backspace(&mut self) { self.r("backspace".into()) }
    fn tab(&mut self) { self.r("tab".into()) }
    fn cariage_return(&mut self) { self.r("cr".into()) }
    fn draw(&mut self, input: &str) { self.r(format!("draw({:?})", input)) }
    fn insert_characters(&mut self, c: Option<u32>) { self.r(format!("ich({:?})", c)) }
    fn cursor_up(&mut self, c: Option<u32>) { self.r(format!("cuu({:?})", c)) }
    fn cursor_down(&mut self, c: Option<u32>) { self.r(format!("cud({:?})", c)) }
    fn cursor_forward(&mut self, c: Option<u32>) { self.r(format!("cuf({:?})", c)) }
    fn cursor_back(&mut self, c: Option<u32>) { self.r(format!("cub({:?})", c)) }
    fn cursor_down1(&mut self, c: Option<u32>) { self.r(format!("cnl({:?})", c)) }
    fn cursor_up1(&mut self, c: Option<u32>) { self.r(format!("cpl({:?})", c)) }
    fn cursor_to_column(&mut self, c: Option<u32>) { self.r(format!("cha({:?})", c)) }
    fn cursor_position(&mut self, l: Option<u32>, c: Option<u32>) { self.r(format!("cup({:?},{:?})", l, c)) }
    fn erase_in_display(&mut self, h: Option<u32>, p: Option<bool>) { self.r(format!("ed({:?},{:?})", h, p)) }
    fn erase_in_line(&mut self, h: Option<u32>, p: Option<bool>) { self.r(format!("el({:?},{:?})", h, p)) }
    fn insert_lines(&mut self, c: Option<u32>) { self.r(format!("il({:?})", c)) }
    fn delete_lines(&mut self, c: Option<u32>) { self.r(format!("dl({:?})", c)) }
    fn delete_characters(&mut self, c: Option<u32>) { self.r(format!("dch({:?})", c)) }
    fn erase_characters(&mut self, c: Option<u32>) { self.r(format!("ech({:?})", c)) }
    fn report_device_attributes(&mut self, m: Option<u32>, p: Option<bool>) { self.r(format!("da({:?},{:?})", m, p)) }
    fn cursor_to_line(&mut self, l: Option<u32>) { self.r(format!("vpa({:?})", l)) }
    fn clear_tab_stop(&mut self, h: Option<u32>) { self.r(format!("tbc({:?})", h)) }
    fn set_mode(&mut self, m: &[u32], p: bool) { self.r(format!("sm({:?},{})", m, p)) }
    fn reset_mode(&mut self, m: &[u32], p: bool) { self.r(format!("rm({:?},{})", m, p)) }
    fn select_graphic_rendition(&mut self, m: &[u32]) { self.r(format!("sgr({:?})", m)) }
    fn set_title(&mut self, t: &str) { self.r(format!("title({:?})", t)) }
    fn set_icon_name(&mut self, t: &str) { self.r(format!("icon({:?})", t)) }
    fn set_margins(&mut self, t: Option<u32>, b: Option<u32>) { self.r(format!("stbm({:?},{:?})", t, b)) }
    fn display(&mut self) -> Vec<String> { vec![] }
}


fn events_with(input: &str, utf8: bool) -> Vec<String> {
    let rec = Arc::new(Mutex::new(Rec::default()));
    let mut p = Parser::new(rec.clone());
    p.set_use_utf8(utf8);
    p.feed(input.to_string());
    let e = rec.lock().unwrap().ev.clone();
    e
}

fn events(input: &str) -> Vec<String> {
    events_with(input, true)
}

/// Same input, one character per feed() call.
fn events_chunked(input: &str) -> Vec<String> {
    let rec = Arc::new(Mutex::new(Rec::default()));
    let mut p = Parser::new(rec.clone());
    for c in input.chars() {
        p.feed(c.to_string());
    }
    let e = rec.lock().unwrap().ev.clone();
    e
}

fn v(xs: &[&str]) -> Vec<String> {
    xs.iter().map(|s| s.to_string()).collect()
}

mod findings {
    use super::*;

    /// F1a. `ESC ] p foo BEL`: an OSC string with code `p` is not consumed up to its terminator.
    /// Property: "OSC introduced by ESC ] ... and ended by BEL, U+009C or ESC \", "no character of a
    /// control sequence is delivered as text".
    #[test]
    fn f1a_osc_code_p_is_not_consumed_to_its_terminator() {
        assert_eq!(events("\x1b]p;foo\x07X"), v(&["draw(\"X\")"]));
    }

    /// F1b. Same with code `R` (also through the 8-bit introducer and the other terminators).
    #[test]
    fn f1b_osc_code_r_is_not_consumed_to_its_terminator() {
        assert_eq!(events("\x1b]R;foo\x07X"), v(&["draw(\"X\")"]));
        assert_eq!(events("\u{9d}Rfoo\u{9c}X"), v(&["draw(\"X\")"]));
        assert_eq!(events("\x1b]Rfoo\x1b\\X"), v(&["draw(\"X\")"]));
    }

    /// F2a. `CSI ? 2 J` (DECSED): the private flag does not reach the operation.
    /// Property: events are (operation, numeric parameters, private flag, text).
    #[test]
    fn f2a_private_flag_dropped_for_erase_in_display() {
        assert_eq!(events("\x1b[?2J"), v(&["ed(Some(2),Some(true))"]));
    }

    /// F2b. `CSI ? 1 K` (DECSEL).
    #[test]
    fn f2b_private_flag_dropped_for_erase_in_line() {
        assert_eq!(events("\x1b[?1K"), v(&["el(Some(1),Some(true))"]));
    }

    /// F2c. `CSI ? 0 c` (Linux cursor shape; pyte >= 0.7: "if private is set the method does nothing").
    /// Screen::report_device_attributes documents and implements `private`, but can never receive it.
    #[test]
    fn f2c_private_flag_dropped_for_device_attributes() {
        assert_eq!(events("\x1b[?0c"), v(&["da(Some(0),Some(true))"]));
    }

    /// F3a. `CSI ! p` (DECSTR, VT220; part of `tput reset` for xterm): `!` is an intermediate byte
    /// (ECMA-48 5.4: CSI P..P I..I F, I = 02/00-02/15), the final is `p`.  The crate ends the sequence at
    /// `!` and prints `p`.
    #[test]
    fn f3a_csi_intermediate_bang_final_is_drawn() {
        assert_eq!(events("\x1b[!pX"), v(&["draw(\"X\")"]));
    }

    /// F3b. `CSI 1 " q` (DECSCA, VT220).
    #[test]
    fn f3b_csi_intermediate_quote_final_is_drawn() {
        assert_eq!(events("\x1b[1\"qX"), v(&["draw(\"X\")"]));
    }

    /// F3c. `CSI 38:2:1:2:3 m`: `:` (03/10) is a parameter byte in ECMA-48 5.4.2 (sub-parameter
    /// separator), not a final.  The crate ends the sequence at the first `:` and prints the rest.
    #[test]
    fn f3c_csi_colon_parameter_byte_ends_the_sequence() {
        let e = events("\x1b[38:2:1:2:3mX");
        assert!(
            !e.iter().any(|x| x.starts_with("draw(") && x != "draw(\"X\")"),
            "characters of the control sequence were drawn: {:?}",
            e
        );
    }

    /// F3d. `CSI = 1 c` / `CSI < 1 c`: 03/12-03/15 are (private) parameter bytes; only `?` and `>` are
    /// treated as such.
    #[test]
    fn f3d_csi_private_parameter_bytes_lt_eq_end_the_sequence() {
        assert_eq!(events("\x1b[=1cX"), v(&["draw(\"X\")"]));
        assert_eq!(events("\x1b[<1cX"), v(&["draw(\"X\")"]));
    }

    /// F4. Escape sequences with an intermediate byte that is not `#`, `%`, `(`, `)`:
    /// `ESC SP F` (S7C1T, VT220), `ESC * B` (designate G2, VT220).  ECMA-35/48: ESC I..I F.
    #[test]
    fn f4_esc_intermediate_final_is_drawn() {
        assert_eq!(events("\x1b FX"), v(&["draw(\"X\")"]));
        assert_eq!(events("\x1b*BX"), v(&["draw(\"X\")"]));
    }

    /// F5. ESC inside an unfinished sequence.  VT220 PRM table 4-1 / xterm / the vt100.net parser:
    /// ESC "terminates any escape, control or device control sequence in progress" and introduces a
    /// new one.  The crate takes ESC as the final of the running sequence and prints the new one.
    #[test]
    fn f5_esc_inside_a_sequence_does_not_restart() {
        assert_eq!(events("\x1b[1\x1b[2JX"), v(&["ed(Some(2),None)", "draw(\"X\")"]));
    }
    #[test]
    fn f5b_esc_after_esc_does_not_restart() {
        assert_eq!(events("\x1b\x1b[2JX"), v(&["ed(Some(2),None)", "draw(\"X\")"]));
    }

    /// F6. `ESC ] 2 ; a ESC ESC \`: the string is "ended by ... ESC \".  The recogniser pairs the two
    /// ESCs, misses the terminator and never returns to ground: the following text is swallowed.
    #[test]
    fn f6_osc_esc_esc_backslash_is_not_a_terminator() {
        assert_eq!(
            events("\x1b]2;a\x1b\x1b\\X"),
            v(&["title(\"a\\u{1b}\")", "draw(\"X\")"])
        );
    }

    /// F6b. Same mechanism: an ESC in the string hides a BEL / U+009C that follows it.
    #[test]
    fn f6b_osc_esc_bel_is_not_a_terminator() {
        assert_eq!(events("\x1b]2;a\x1b\x07X"), v(&["title(\"a\\u{1b}\")", "draw(\"X\")"]));
    }
    #[test]
    fn f6c_osc_esc_st_is_not_a_terminator() {
        assert_eq!(events("\x1b]2;a\x1b\u{9c}X"), v(&["title(\"a\\u{1b}\")", "draw(\"X\")"]));
    }
}

mod borderline {
    use super::*;

    /// B1. NUL / DEL inside a CSI.  VT100 UG: NUL and DEL are "ignored on input"; the crate takes them
    /// as (unknown) finals and prints the rest of the sequence.
    #[test]
    fn b1_nul_del_inside_csi_end_the_sequence() {
        assert_eq!(events("\x1b[1\x002JX"), v(&["ed(Some(12),None)", "draw(\"X\")"]));
    }
    #[test]
    fn b1b_del_inside_csi_ends_the_sequence() {
        assert_eq!(events("\x1b[1\x7f2JX"), v(&["ed(Some(12),None)", "draw(\"X\")"]));
    }

    /// B2. `ESC % @` (xterm ctlseqs / pyte: select the default 8-bit character set, i.e. leave UTF-8
    /// mode) is recognised and consumed but has no effect: SO/SI and `ESC ( 0` stay ignored.
    #[test]
    fn b2_esc_percent_at_does_not_leave_utf8_mode() {
        assert_eq!(
            events("\x1b%@\x0e\x1b(0"),
            v(&["shift_out", "define_charset(\"0\",\"(\")"])
        );
    }

    /// B3. `CSI 5 `` (HPA, ECMA-48 8.3.57; pyte: "same as CHA") is not in the dispatch table although
    /// the operation exists.
    #[test]
    fn b3_hpa_is_not_dispatched() {
        assert_eq!(events("\x1b[5`"), v(&["cha(Some(5))"]));
    }

    /// B4. A C0 control directly after ESC is swallowed as an "unknown final": `ESC LF c` neither
    /// performs the linefeed nor the reset (VT100 UG: control characters inside a sequence are
    /// executed and the sequence continues).
    #[test]
    fn b4_c0_control_after_esc_is_swallowed() {
        assert_eq!(events("\x1b\nc"), v(&["linefeed", "reset"]));
    }

    /// B5. NUL and DEL in ground state are delivered to draw().  VT100 UG / pyte control.py: NUL "does
    /// nothing", DEL "is ignored"; pyte's Stream never passes them on.
    #[test]
    fn b5_nul_and_del_are_delivered_as_text() {
        assert_eq!(events("a\x00b\x7fc"), v(&["draw(\"a\")", "draw(\"b\")", "draw(\"c\")"]));
    }
}
