// C06 findings: each test asserts what the property (read with the documented meaning of
// IND / RI: "move the active position one line down / up") requires and FAILS on the
// unmodified crate.  All three have the same root cause: `index()` / `reverse_index()`
// delegate the "away from the margin" case to `cursor_down()` / `cursor_up()`, which clamp
// the row to the bottom / top margin even when the cursor is outside the scrolling region,
// so the cursor is pulled INTO the region instead of moving by one line (or staying on the
// screen edge).
//
// BORDERLINE: the property text only says "away from the margin they only move the cursor";
// it does not spell out the destination.  See C06_audit.md.
use std::sync::{Arc, Mutex};

use memterm::parser::Parser;
use memterm::parser_listener::ParserListener;
use memterm::screen::{Margins, Screen};

/// LF on the last screen line, below the scrolling region (the classic "status line"
/// layout): nothing may scroll and the cursor has nowhere to go, so it stays on its row.
/// The crate moves the cursor UP from row 5 to the bottom margin (row 3).
#[test]
fn f1_linefeed_below_region_pulls_cursor_up_into_region() {
    for seq in ["\n", "\x0b", "\x0c", "\x1bD", "\x1bE"] {
        let screen = Arc::new(Mutex::new(Screen::new(10, 6)));
        let mut parser = Parser::new(screen.clone());
        parser.feed("\x1b[2;4r".to_string()); // region = rows 1..3
        parser.feed("\x1b[6;3Hst".to_string()); // last line of the screen, below the region
        assert_eq!(screen.lock().unwrap().margins, Some(Margins { top: 1, bottom: 3 }));
        assert_eq!(screen.lock().unwrap().cursor.y, 5);
        parser.feed(seq.to_string());
        assert_eq!(
            screen.lock().unwrap().cursor.y,
            5,
            "{:?}: index away from the bottom margin, on the last screen line",
            seq
        );
    }
}

/// IND one row below the bottom margin but not on the last line: index moves the cursor one
/// line down (4 -> 5).  The crate moves it one line UP, onto the bottom margin (row 3) --
/// and a second IND then scrolls the region although the cursor was never moved into it.
#[test]
fn f2_index_below_region_moves_cursor_up() {
    let mut s = Screen::new(10, 6);
    s.set_margins(Some(2), Some(4)); // rows 1..3
    s.cursor_position(Some(5), Some(1)); // row 4
    assert_eq!(s.cursor.y, 4);
    s.index();
    assert_eq!(s.cursor.y, 5, "index away from the margin moves the cursor one line down");
}

/// RI above the scrolling region: the cursor moves one line up, or stays on the top line of
/// the screen.  The crate moves it DOWN from row 0 to the top margin (row 2).
#[test]
fn f3_reverse_index_above_region_pulls_cursor_down_into_region() {
    let screen = Arc::new(Mutex::new(Screen::new(10, 6)));
    let mut parser = Parser::new(screen.clone());
    parser.feed("\x1b[3;5r".to_string()); // region = rows 2..4
    parser.feed("\x1b[1;1H".to_string()); // row 0, above the region
    parser.feed("\x1bM".to_string());
    assert_eq!(screen.lock().unwrap().cursor.y, 0, "RI on the top screen line above the region");

    let mut s = Screen::new(10, 6);
    s.set_margins(Some(4), Some(6)); // rows 3..5
    s.cursor_position(Some(2), Some(1)); // row 1
    s.reverse_index();
    assert_eq!(s.cursor.y, 0, "RI away from the margin moves the cursor one line up");
}

/// Autowrap on the last screen line below the region (same root cause, but here text is
/// damaged): the wrapped character must stay outside the region (a real terminal performs
/// CR + LF, the LF does nothing on the last line, so the character overwrites column 0 of
/// the same line).  The crate moves the cursor up to the bottom margin and writes the
/// character over a line INSIDE the region.
#[test]
fn f4_autowrap_below_region_writes_into_region() {
    let screen = Arc::new(Mutex::new(Screen::new(4, 6)));
    let mut parser = Parser::new(screen.clone());
    parser.feed("\x1b[3;1Hin-2".to_string()); // text on row 2 (inside the future region)
    parser.feed("\x1b[4;1Hbot!".to_string()); // row 3 = bottom margin row (set below)
    parser.feed("\x1b[2;4r".to_string()); // region rows 1..3, homes the cursor
    parser.feed("\x1b[6;1Hstat".to_string()); // fill the last line: pending wrap
    assert_eq!(screen.lock().unwrap().cursor.x, 4);
    parser.feed("X".to_string());
    let mut s = screen.lock().unwrap();
    let d = s.display();
    assert_eq!(d[3], "bot!", "the bottom-margin line is inside the region and was not addressed");
    assert_eq!(s.cursor.y, 5);
}
