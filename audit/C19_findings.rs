// C19 findings: each test asserts what property C19 requires and FAILS on the unmodified crate.
use std::sync::{Arc, Mutex};

use memterm::parser::Parser;
use memterm::parser_listener::ParserListener;
use memterm::screen::Screen;

fn run(input: &str) -> (Vec<String>, (u32, u32), String, String) {
    let screen = Arc::new(Mutex::new(Screen::new(10, 2)));
    let mut p = Parser::new(screen.clone());
    p.feed(input.to_string());
    let mut s = screen.lock().unwrap();
    (s.display(), (s.cursor.x, s.cursor.y), s.title.clone(), s.icon_name.clone())
}

fn blank() -> Vec<String> {
    vec![" ".repeat(10), " ".repeat(10)]
}

/// F1a. "OSC strings with other codes are consumed without any effect", "the payload is never
/// written to the grid and does not move the cursor".  `ESC ] p ; foo BEL`: the recogniser drops out
/// of the string right after the code character `p`; `;foo` is printed and the cursor moves.
#[test]
fn f1a_osc_code_p_payload_is_written_to_the_grid() {
    let (display, cursor, title, icon) = run("\x1b]p;foo\x07");
    assert_eq!((title.as_str(), icon.as_str()), ("", ""));
    assert_eq!(display, blank());
    assert_eq!(cursor, (0, 0));
}

/// F1b. Same for code `R`, with each terminator and the 8-bit introducer.
#[test]
fn f1b_osc_code_r_payload_is_written_to_the_grid() {
    for input in ["\x1b]R;foo\x07", "\x1b]R;foo\x1b\\", "\u{9d}R;foo\u{9c}"] {
        let (display, cursor, _, _) = run(input);
        assert_eq!(display, blank(), "{:?}", input);
        assert_eq!(cursor, (0, 0), "{:?}", input);
    }
}

/// F2. The terminator `ESC \` directly after an ESC that belongs to the payload is not seen:
/// `ESC ] 2 ; a ESC ESC \` must set the title to "a<ESC>" ("exactly the text between the first ;
/// and the terminator", "for any text"); the crate pairs the two ESCs, stays inside the string and
/// swallows everything up to the next BEL / ST.
#[test]
fn f2_esc_backslash_after_a_payload_esc_does_not_terminate() {
    let (display, cursor, title, _) = run("\x1b]2;a\x1b\x1b\\hello");
    assert_eq!(title, "a\x1b");
    assert_eq!(display[0], "hello     ");
    assert_eq!(cursor, (5, 0));
}

/// F2b. Same mechanism with the other terminators: an ESC in the payload hides a BEL / U+009C that
/// follows it (`ESC ] 2 ; a ESC BEL`).
#[test]
fn f2b_bel_or_st_after_a_payload_esc_does_not_terminate() {
    for term in ["\x07", "\u{9c}"] {
        let (display, cursor, title, _) = run(&format!("\x1b]2;a\x1b{}hello", term));
        assert_eq!(title, "a\x1b", "{:?}", term);
        assert_eq!(display[0], "hello     ", "{:?}", term);
        assert_eq!(cursor, (5, 0), "{:?}", term);
    }
}
