// C10 findings: every test asserts what the property requires and FAILS on the
// unmodified crate.
use memterm::parser_listener::ParserListener;
use memterm::screen::{CharOpts, Screen};

fn cell(s: &Screen, y: u32, x: u32) -> CharOpts {
    s.buffer
        .get(&y)
        .and_then(|l| l.get(&x))
        .cloned()
        .unwrap_or_else(|| s.default_char())
}

/// G1: display() skips whatever cell follows a double-width character, also when
/// that cell is not a placeholder but holds text of its own.
#[test]
fn g1_display_skips_a_written_cell_after_a_wide_char() {
    let mut s = Screen::new(4, 1);
    s.draw("\u{30B3}"); // cells 0 (lead) and 1 (placeholder)
    s.cursor_position(Some(1), Some(2));
    s.draw("x"); // overwrites the placeholder
    assert_eq!(cell(&s, 0, 0).data, "\u{30B3}");
    assert_eq!(cell(&s, 0, 1).data, "x");
    // concatenation of the cells' texts
    assert_eq!(s.display()[0], "\u{30B3}x  ");
}

/// G1, variant: the cell after the lead is an erased blank; the row comes out one
/// blank short.
#[test]
fn g1_display_skips_a_blank_cell_after_a_wide_char() {
    let mut s = Screen::new(4, 1);
    s.draw("\u{30B3}");
    s.cursor_position(Some(1), Some(2));
    s.erase_characters(Some(1)); // the placeholder becomes a blank " "
    assert_eq!(cell(&s, 0, 1).data, " ");
    let texts: String = (0..4).map(|x| cell(&s, 0, x).data).collect();
    assert_eq!(texts, "\u{30B3}   ");
    assert_eq!(s.display()[0], texts);
}

/// G2 (low/medium confidence): display() is not side-effect free on the public
/// state: it writes a default cell into every never-written position of `buffer`.
#[test]
fn g2_display_leaves_the_public_buffer_untouched() {
    let mut s = Screen::new(4, 2);
    s.draw("a");
    let before = s.buffer.clone();
    let _ = s.display();
    assert_eq!(s.buffer, before);
}

/// G2, variant: two runs of the same history that differ only in a display() call,
/// compared the way the crate's own unit tests read the grid
/// (`buffer.get(y).get(x).unwrap_or_default()`).
#[test]
fn g2_same_history_with_and_without_display() {
    let read = |s: &Screen| -> Vec<CharOpts> {
        (0..s.columns)
            .map(|x| s.buffer.get(&0).and_then(|l| l.get(&x)).cloned().unwrap_or_default())
            .collect()
    };
    let mut a = Screen::new(3, 1);
    a.set_mode(&[5], true); // DECSCNM
    let mut b = Screen::new(3, 1);
    b.set_mode(&[5], true);
    let _ = b.display();
    assert_eq!(read(&a), read(&b));
}
