//! C01 findings: each test asserts what property C01 requires and FAILS on the
//! unmodified crate.  Copy to `tests/` and run `cargo test --offline --test C01_findings`
//! (dev profile, i.e. overflow checks on).
//!
//! Both findings need an unusual precondition (F1: the host's stdout is not writable,
//! F2: a screen that is ~4 billion columns wide); see C01_audit.md for the discussion
//! and the (low / moderate) confidence attached to each.

use std::panic::{catch_unwind, AssertUnwindSafe};
use std::process::{Command, Stdio};
use std::sync::{Arc, Mutex};

use memterm::parser::Parser;
use memterm::parser_listener::ParserListener;
use memterm::screen::Screen;

// ---------------------------------------------------------------------------------------
// F1: the recogniser reports unknown sequences with `println!`.  `println!` panics when
// stdout cannot be written (closed pipe -> EPIPE, full disk -> ENOSPC, hung-up pty -> EIO).
// The panic happens inside the generator coroutine while the listener mutex is held, so
// the coroutine is finished and the mutex is poisoned: every later feed() and every later
// `listener.lock().unwrap()` panics too -- the emulator is wedged for good.
//
// Input: the two characters ESC Z (any unknown `ESC x`, `ESC # x` with x != 8, or a CSI
// with an unknown final character such as `ESC [ 1 y` does the same).
//
// The libtest harness captures `println!`, so the scenario runs in a child process
// (this same test binary, re-executed with --nocapture) whose fd 1 is /dev/full.
// ---------------------------------------------------------------------------------------

#[cfg(target_os = "linux")]
extern "C" {
    fn dup2(oldfd: i32, newfd: i32) -> i32;
}

#[cfg(target_os = "linux")]
fn f1_child() {
    use std::os::fd::AsRawFd;
    let full = std::fs::OpenOptions::new().write(true).open("/dev/full").unwrap();
    assert_eq!(unsafe { dup2(full.as_raw_fd(), 1) }, 1);

    let screen = Arc::new(Mutex::new(Screen::new(10, 3)));
    let mut parser = Parser::new(screen.clone());
    parser.feed("a".to_string());

    let first = catch_unwind(AssertUnwindSafe(|| parser.feed("\x1bZ".to_string())));
    eprintln!("F1_FIRST_FEED_PANICKED={}", first.is_err());

    let later = catch_unwind(AssertUnwindSafe(|| {
        parser.feed("b".to_string());
        screen.lock().unwrap().display()
    }));
    eprintln!("F1_LATER_FEED_OR_DISPLAY_PANICKED={}", later.is_err());
    if let Ok(d) = later {
        eprintln!("F1_DISPLAY_ROW0={:?}", d[0]);
    }
}

#[cfg(target_os = "linux")]
#[test]
fn f1_unknown_escape_with_unwritable_stdout() {
    if std::env::var("MEMTERM_C01_F1_CHILD").is_ok() {
        f1_child();
        return;
    }
    let out = Command::new(std::env::current_exe().unwrap())
        .args(["--exact", "f1_unknown_escape_with_unwritable_stdout", "--nocapture", "--test-threads=1"])
        .env("MEMTERM_C01_F1_CHILD", "1")
        .env("RUST_BACKTRACE", "0")
        .stdout(Stdio::null())
        .output()
        .unwrap();
    let err = String::from_utf8_lossy(&out.stderr);
    // C01: processing returns normally (no panic) ...
    assert!(
        err.contains("F1_FIRST_FEED_PANICKED=false"),
        "feed(\"\\x1bZ\") panicked when stdout is not writable; child stderr:\n{err}"
    );
    // ... afterwards display() still returns and further input is still processed.
    assert!(
        err.contains("F1_LATER_FEED_OR_DISPLAY_PANICKED=false"),
        "emulator wedged after the first panic; child stderr:\n{err}"
    );
    assert!(err.contains("F1_DISPLAY_ROW0=\"ab        \""), "child stderr:\n{err}");
}

// ---------------------------------------------------------------------------------------
// F2: "resize() to any size of at least 1x1": widening to u32::MAX columns is O(1) in
// resize() itself, but afterwards the unchecked `u32` cursor arithmetic overflows:
//   tab()                  -> cursor.x = columns - 1 = u32::MAX - 1
//   cursor_forward(Some(2))-> `self.cursor.x += 2`              -> add overflow
//   draw("a") ; cursor_forward(None) -> x == columns == u32::MAX, `x += 1` -> add overflow
//   draw("中")             -> `self.cursor.x + char_width`      -> add overflow
// Same through the parser: "\t" x 10 then CSI 2 C, where the panic is raised inside the
// coroutine with the listener locked, which additionally wedges the emulator as in F1.
// ---------------------------------------------------------------------------------------

fn wide_screen_at_last_column() -> Screen {
    let mut s = Screen::new(80, 2);
    s.resize(None, Some(u32::MAX));
    for _ in 0..10 {
        s.tab(); // 8, 16, ..., 72, then "the end of the screen"
    }
    assert_eq!(s.cursor.x, u32::MAX - 1);
    s
}

#[test]
fn f2_huge_width_cursor_forward() {
    let mut s = wide_screen_at_last_column();
    let r = catch_unwind(AssertUnwindSafe(|| s.cursor_forward(Some(2))));
    assert!(r.is_ok(), "cursor_forward(Some(2)) panicked on a u32::MAX-column screen");
    assert_eq!(s.cursor.x, u32::MAX - 1);
}

#[test]
fn f2_huge_width_pending_wrap_cursor_forward() {
    let mut s = wide_screen_at_last_column();
    s.draw("a");
    assert_eq!(s.cursor.x, u32::MAX); // pending wrap, x == columns
    let r = catch_unwind(AssertUnwindSafe(|| s.cursor_forward(None)));
    assert!(r.is_ok(), "cursor_forward(None) panicked in the pending-wrap position");
}

#[test]
fn f2_huge_width_draw_wide_char() {
    let mut s = wide_screen_at_last_column();
    let r = catch_unwind(AssertUnwindSafe(|| s.draw("中")));
    assert!(r.is_ok(), "draw of a wide character panicked in the last column");
}

#[test]
fn f2_huge_width_through_the_parser() {
    let screen = Arc::new(Mutex::new(Screen::new(80, 2)));
    screen.lock().unwrap().resize(None, Some(u32::MAX));
    let mut parser = Parser::new(screen.clone());
    let r = catch_unwind(AssertUnwindSafe(|| parser.feed(format!("{}\x1b[2C", "\t".repeat(10)))));
    assert!(r.is_ok(), "feed(HT x10, CSI 2 C) panicked");
    // further input is still processed, the listener is still usable
    let r = catch_unwind(AssertUnwindSafe(|| {
        parser.feed("\rZ".to_string());
        let s = screen.lock().unwrap();
        s.buffer[&0][&0].data.clone()
    }));
    assert_eq!(r.ok().as_deref(), Some("Z"));
}
