//! C11 finding (borderline, LOW confidence -- see C11_audit.md): copy to `tests/` and run
//! `cargo test --offline --test C11_findings`.  Fails on the unmodified crate.
//!
//! An incomplete trailing UTF-8 sequence that is being held between feeds is thrown away
//! by `select_other_charset("@")`: it is neither completed, nor reported as U+FFFD, nor
//! kept.  The property says the held sequence stays "until a later feed completes or
//! invalidates it - nothing is dropped", and "each ill-formed subsequence yields U+FFFD".

use std::sync::{Arc, Mutex};

use memterm::byte_parser::ByteParser;
use memterm::parser_listener::ParserListener;

/// Records the text handed to `draw` (no control characters are used below, so this is
/// exactly the character stream the recogniser received).
#[derive(Default)]
struct Rec {
    out: String,
}

macro_rules! ignore {
    ($($name:ident ( $($a:ident : $t:ty),* );)*) => {
        $(fn $name(&mut self, $($a: $t),*) { $(let _ = $a;)* })*
    };
}

impl ParserListener for Rec {
    ignore! {
        alignment_display(); define_charset(c: &str, m: &str);
        reset(); index(); linefeed(); reverse_index(); set_tab_stop(); save_cursor(); restore_cursor();
        shift_out(); shift_in(); bell(); backspace(); tab(); cariage_return();
        insert_characters(c: Option<u32>); cursor_up(c: Option<u32>); cursor_down(c: Option<u32>);
        cursor_forward(c: Option<u32>); cursor_back(c: Option<u32>); cursor_down1(c: Option<u32>);
        cursor_up1(c: Option<u32>); cursor_to_column(c: Option<u32>); cursor_position(l: Option<u32>, c: Option<u32>);
        erase_in_display(h: Option<u32>, p: Option<bool>); erase_in_line(h: Option<u32>, p: Option<bool>);
        insert_lines(c: Option<u32>); delete_lines(c: Option<u32>); delete_characters(c: Option<u32>);
        erase_characters(c: Option<u32>); report_device_attributes(m: Option<u32>, p: Option<bool>);
        cursor_to_line(l: Option<u32>); clear_tab_stop(h: Option<u32>); set_mode(m: &[u32], p: bool);
        reset_mode(m: &[u32], p: bool); select_graphic_rendition(m: &[u32]); set_margins(t: Option<u32>, b: Option<u32>);
        set_title(t: &str); set_icon_name(t: &str);
    }
    fn draw(&mut self, input: &str) {
        self.out.push_str(input);
    }
    fn display(&mut self) -> Vec<String> {
        vec![]
    }
}

#[test]
fn held_incomplete_sequence_is_dropped_by_switch_to_8bit() {
    let rec = Arc::new(Mutex::new(Rec::default()));
    let mut p = ByteParser::new(rec.clone());

    p.feed(&[0xE2, 0x82]); // first two bytes of U+20AC: held, nothing handed on yet
    assert_eq!(rec.lock().unwrap().out, "");

    p.select_other_charset("@");
    p.feed(b"a"); // 8-bit mode: 1:1
    p.select_other_charset("G");
    p.feed(&[0xAC, b'b']); // third byte of U+20AC, then 'b'

    let got = rec.lock().unwrap().out.clone();
    // Readings of the property that do not drop anything:
    //  (a) leaving UTF-8 mode ends the UTF-8 stream, which invalidates the held bytes:
    //      E2 82 is a maximal ill-formed subpart -> one U+FFFD; later the lone AC -> U+FFFD
    //  (b) the held bytes stay held while the parser is in 8-bit mode and the UTF-8
    //      stream "all bytes fed so far [in UTF-8 mode]" = E2 82 AC 62 decodes to "€b"
    let a = "\u{FFFD}a\u{FFFD}b";
    let b = "a\u{20AC}b";
    assert!(
        got == a || got == b,
        "bytes E2 82 vanished without a trace: got {got:?}, want {a:?} (or {b:?})"
    );
}
