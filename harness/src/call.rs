//! The operation language shared by generator, executor, log and the Lean driver.

use memterm::parser_listener::ParserListener;
use memterm::screen::Screen;

thread_local! {
    /// the `private` argument the dispatch table passed for the call being forwarded (ED, EL, DA)
    pub static PRIVATE: std::cell::Cell<Option<bool>> = std::cell::Cell::new(None);
    /// the last `private` argument any ED / EL / DA call received (for the dispatch probes)
    pub static LAST_PRIVATE: std::cell::Cell<Option<Option<bool>>> = std::cell::Cell::new(None);
}

pub type O = Option<u32>;

#[derive(Clone, Debug, PartialEq)]
pub enum Call {
    AlignmentDisplay,
    DefineCharset(String, String),
    Reset,
    Index,
    Linefeed,
    ReverseIndex,
    SetTabStop,
    SaveCursor,
    RestoreCursor,
    ShiftOut,
    ShiftIn,
    Bell,
    Backspace,
    Tab,
    CarriageReturn,
    Draw(String),
    InsertCharacters(O),
    CursorUp(O),
    CursorDown(O),
    CursorForward(O),
    CursorBack(O),
    CursorDown1(O),
    CursorUp1(O),
    CursorToColumn(O),
    CursorPosition(O, O),
    EraseInDisplay(O),
    EraseInLine(O),
    InsertLines(O),
    DeleteLines(O),
    DeleteCharacters(O),
    EraseCharacters(O),
    ReportDeviceAttributes(O),
    CursorToLine(O),
    ClearTabStop(O),
    SetMode(Vec<u32>, bool),
    ResetMode(Vec<u32>, bool),
    Sgr(Vec<u32>),
    SetTitle(String),
    SetIconName(String),
    SetMargins(O, O),
    // not listener methods:
    Resize(O, O), // (lines, columns)
    Display,
    ClearDirty,
}

fn o(x: &O) -> String {
    match x {
        Some(v) => v.to_string(),
        None => "-".to_string(),
    }
}

fn s(x: &str) -> String {
    let mut out = x.chars().count().to_string();
    for c in x.chars() {
        out.push(' ');
        out.push_str(&(c as u32).to_string());
    }
    out
}

fn l(x: &[u32]) -> String {
    let mut out = x.len().to_string();
    for c in x {
        out.push(' ');
        out.push_str(&c.to_string());
    }
    out
}

impl Call {
    pub fn name(&self) -> &'static str {
        use Call::*;
        match self {
            AlignmentDisplay => "alignment_display",
            DefineCharset(..) => "define_charset",
            Reset => "reset",
            Index => "index",
            Linefeed => "linefeed",
            ReverseIndex => "reverse_index",
            SetTabStop => "set_tab_stop",
            SaveCursor => "save_cursor",
            RestoreCursor => "restore_cursor",
            ShiftOut => "shift_out",
            ShiftIn => "shift_in",
            Bell => "bell",
            Backspace => "backspace",
            Tab => "tab",
            CarriageReturn => "cariage_return",
            Draw(..) => "draw",
            InsertCharacters(..) => "insert_characters",
            CursorUp(..) => "cursor_up",
            CursorDown(..) => "cursor_down",
            CursorForward(..) => "cursor_forward",
            CursorBack(..) => "cursor_back",
            CursorDown1(..) => "cursor_down1",
            CursorUp1(..) => "cursor_up1",
            CursorToColumn(..) => "cursor_to_column",
            CursorPosition(..) => "cursor_position",
            EraseInDisplay(..) => "erase_in_display",
            EraseInLine(..) => "erase_in_line",
            InsertLines(..) => "insert_lines",
            DeleteLines(..) => "delete_lines",
            DeleteCharacters(..) => "delete_characters",
            EraseCharacters(..) => "erase_characters",
            ReportDeviceAttributes(..) => "report_device_attributes",
            CursorToLine(..) => "cursor_to_line",
            ClearTabStop(..) => "clear_tab_stop",
            SetMode(..) => "set_mode",
            ResetMode(..) => "reset_mode",
            Sgr(..) => "select_graphic_rendition",
            SetTitle(..) => "set_title",
            SetIconName(..) => "set_icon_name",
            SetMargins(..) => "set_margins",
            Resize(..) => "resize",
            Display => "display",
            ClearDirty => "clear_dirty",
        }
    }

    /// Text form "name args…" (without the leading "C ").
    pub fn line(&self) -> String {
        use Call::*;
        let n = self.name();
        match self {
            DefineCharset(a, b) => format!("{} {} {}", n, s(a), s(b)),
            Draw(a) | SetTitle(a) | SetIconName(a) => format!("{} {}", n, s(a)),
            InsertCharacters(a) | CursorUp(a) | CursorDown(a) | CursorForward(a)
            | CursorBack(a) | CursorDown1(a) | CursorUp1(a) | CursorToColumn(a)
            | EraseInDisplay(a) | EraseInLine(a) | InsertLines(a) | DeleteLines(a)
            | DeleteCharacters(a) | EraseCharacters(a) | ReportDeviceAttributes(a)
            | CursorToLine(a) | ClearTabStop(a) => format!("{} {}", n, o(a)),
            CursorPosition(a, b) | SetMargins(a, b) | Resize(a, b) => {
                format!("{} {} {}", n, o(a), o(b))
            }
            SetMode(v, p) | ResetMode(v, p) => format!("{} {} {}", n, l(v), *p as u32),
            Sgr(v) => format!("{} {}", n, l(v)),
            _ => n.to_string(),
        }
    }

    pub fn parse(line: &str) -> Result<Call, String> {
        let t: Vec<&str> = line.split_whitespace().collect();
        if t.is_empty() {
            return Err("empty call".into());
        }
        let mut i = 1usize;
        let opt = |i: &mut usize| -> Result<O, String> {
            let v = t.get(*i).ok_or("missing arg")?;
            *i += 1;
            if *v == "-" {
                Ok(None)
            } else {
                v.parse::<u32>().map(Some).map_err(|e| e.to_string())
            }
        };
        let num = |i: &mut usize| -> Result<u32, String> {
            let v = t.get(*i).ok_or("missing arg")?;
            *i += 1;
            v.parse::<u32>().map_err(|e| e.to_string())
        };
        let st = |i: &mut usize| -> Result<String, String> {
            let n = num(i)?;
            let mut out = String::new();
            for _ in 0..n {
                let cp = num(i)?;
                out.push(char::from_u32(cp).ok_or("bad cp")?);
            }
            Ok(out)
        };
        let li = |i: &mut usize| -> Result<Vec<u32>, String> {
            let n = num(i)?;
            let mut out = vec![];
            for _ in 0..n {
                out.push(num(i)?);
            }
            Ok(out)
        };
        use Call::*;
        let c = match t[0] {
            "alignment_display" => AlignmentDisplay,
            "define_charset" => {
                let a = st(&mut i)?;
                let b = st(&mut i)?;
                DefineCharset(a, b)
            }
            "reset" => Reset,
            "index" => Index,
            "linefeed" => Linefeed,
            "reverse_index" => ReverseIndex,
            "set_tab_stop" => SetTabStop,
            "save_cursor" => SaveCursor,
            "restore_cursor" => RestoreCursor,
            "shift_out" => ShiftOut,
            "shift_in" => ShiftIn,
            "bell" => Bell,
            "backspace" => Backspace,
            "tab" => Tab,
            "cariage_return" => CarriageReturn,
            "draw" => Draw(st(&mut i)?),
            "insert_characters" => InsertCharacters(opt(&mut i)?),
            "cursor_up" => CursorUp(opt(&mut i)?),
            "cursor_down" => CursorDown(opt(&mut i)?),
            "cursor_forward" => CursorForward(opt(&mut i)?),
            "cursor_back" => CursorBack(opt(&mut i)?),
            "cursor_down1" => CursorDown1(opt(&mut i)?),
            "cursor_up1" => CursorUp1(opt(&mut i)?),
            "cursor_to_column" => CursorToColumn(opt(&mut i)?),
            "cursor_position" => {
                let a = opt(&mut i)?;
                let b = opt(&mut i)?;
                CursorPosition(a, b)
            }
            "erase_in_display" => EraseInDisplay(opt(&mut i)?),
            "erase_in_line" => EraseInLine(opt(&mut i)?),
            "insert_lines" => InsertLines(opt(&mut i)?),
            "delete_lines" => DeleteLines(opt(&mut i)?),
            "delete_characters" => DeleteCharacters(opt(&mut i)?),
            "erase_characters" => EraseCharacters(opt(&mut i)?),
            "report_device_attributes" => ReportDeviceAttributes(opt(&mut i)?),
            "cursor_to_line" => CursorToLine(opt(&mut i)?),
            "clear_tab_stop" => ClearTabStop(opt(&mut i)?),
            "set_mode" => {
                let v = li(&mut i)?;
                let p = num(&mut i)? != 0;
                SetMode(v, p)
            }
            "reset_mode" => {
                let v = li(&mut i)?;
                let p = num(&mut i)? != 0;
                ResetMode(v, p)
            }
            "select_graphic_rendition" => Sgr(li(&mut i)?),
            "set_title" => SetTitle(st(&mut i)?),
            "set_icon_name" => SetIconName(st(&mut i)?),
            "set_margins" => {
                let a = opt(&mut i)?;
                let b = opt(&mut i)?;
                SetMargins(a, b)
            }
            "resize" => {
                let a = opt(&mut i)?;
                let b = opt(&mut i)?;
                Resize(a, b)
            }
            "display" => Display,
            "clear_dirty" => ClearDirty,
            other => return Err(format!("unknown call {}", other)),
        };
        Ok(c)
    }

    /// Apply to a real screen. Returns display() lines for Display.
    pub fn apply(&self, sc: &mut Screen) -> Option<Vec<String>> {
        use Call::*;
        match self {
            AlignmentDisplay => sc.alignment_display(),
            DefineCharset(a, b) => sc.define_charset(a, b),
            Reset => sc.reset(),
            Index => sc.index(),
            Linefeed => sc.linefeed(),
            ReverseIndex => sc.reverse_index(),
            SetTabStop => sc.set_tab_stop(),
            SaveCursor => sc.save_cursor(),
            RestoreCursor => sc.restore_cursor(),
            ShiftOut => sc.shift_out(),
            ShiftIn => sc.shift_in(),
            Bell => sc.bell(),
            Backspace => sc.backspace(),
            Tab => sc.tab(),
            CarriageReturn => sc.cariage_return(),
            Draw(a) => sc.draw(a),
            InsertCharacters(a) => sc.insert_characters(*a),
            CursorUp(a) => sc.cursor_up(*a),
            CursorDown(a) => sc.cursor_down(*a),
            CursorForward(a) => sc.cursor_forward(*a),
            CursorBack(a) => sc.cursor_back(*a),
            CursorDown1(a) => sc.cursor_down1(*a),
            CursorUp1(a) => sc.cursor_up1(*a),
            CursorToColumn(a) => sc.cursor_to_column(*a),
            CursorPosition(a, b) => sc.cursor_position(*a, *b),
            EraseInDisplay(a) => sc.erase_in_display(*a, PRIVATE.with(|p| p.get())),
            EraseInLine(a) => sc.erase_in_line(*a, PRIVATE.with(|p| p.get())),
            InsertLines(a) => sc.insert_lines(*a),
            DeleteLines(a) => sc.delete_lines(*a),
            DeleteCharacters(a) => sc.delete_characters(*a),
            EraseCharacters(a) => sc.erase_characters(*a),
            ReportDeviceAttributes(a) => sc.report_device_attributes(*a, PRIVATE.with(|p| p.get())),
            CursorToLine(a) => sc.cursor_to_line(*a),
            ClearTabStop(a) => sc.clear_tab_stop(*a),
            SetMode(v, p) => sc.set_mode(v, *p),
            ResetMode(v, p) => sc.reset_mode(v, *p),
            Sgr(v) => sc.select_graphic_rendition(v),
            SetTitle(a) => sc.set_title(a),
            SetIconName(a) => sc.set_icon_name(a),
            SetMargins(a, b) => sc.set_margins(*a, *b),
            Resize(a, b) => sc.resize(*a, *b),
            Display => return Some(sc.display()),
            ClearDirty => sc.dirty.clear(),
        }
        None
    }
}
