//! Translator, first half: print the *values* of the crate's public constants
//! and tables as compiled from the current tree.

use std::fmt::Write;

use memterm::parser_listener::ParserListener;
use memterm::screen::Screen;
use memterm::{charset, control, graphics, modes};

fn cps(s: &str) -> String {
    s.chars().map(|c| (c as u32).to_string()).collect::<Vec<_>>().join(" ")
}

pub fn tables() -> String {
    let mut o = String::new();
    macro_rules! strc {
        ($($n:ident),*) => { $( writeln!(o, "str {} {}", stringify!($n), cps(control::$n)).unwrap(); )* };
    }
    strc!(
        BEL, BS, CAN, CR, ESC, FF, HT, LF, SI, SO, SUB, VT, CSI, HTS, NEL, OSC, RI, ST, ICH, CUU,
        CUD, CUF, CUB, CNL, CPL, CHA, CUP, ED, EL, IL, DL, DCH, ECH, HPR, DA, VPA, VPR, HVP, TBC,
        SM, RM, SGR, DECSTBM, DECALN, IND, DECSC, DECRC, SP, GREATER, RIS, ST_C0, ST_C1
    );
    let lst = |name: &str, v: &[&str], o: &mut String| {
        let mut parts: Vec<String> = v.iter().map(|s| cps(s).replace(' ', "+")).collect();
        if name == "SPECIAL" {
            parts.sort();
        }
        writeln!(o, "strlist {} {}", name, parts.join(" ")).unwrap();
    };
    lst("BASIC", &control::BASIC[..], &mut o);
    lst("ALLOWED_IN_CSI", &control::ALLOWED_IN_CSI[..], &mut o);
    lst("OSC_TERMINATORS", &control::OSC_TERMINATORS[..], &mut o);
    let sp: Vec<&str> = control::SPECIAL.iter().cloned().collect();
    lst("SPECIAL", &sp, &mut o);
    macro_rules! numc {
        ($m:ident, $($n:ident),*) => { $( writeln!(o, "num {} {}", stringify!($n), $m::$n).unwrap(); )* };
    }
    numc!(modes, LNM, IRM, DECTCEM, DECSCNM, DECOM, DECAWM, DECCOLM);
    numc!(graphics, FG_256, BG_256);
    let map = |name: &str, m: &std::collections::HashMap<u32, String>, o: &mut String| {
        let mut v: Vec<(&u32, &String)> = m.iter().collect();
        v.sort();
        let parts: Vec<String> =
            v.iter().map(|(k, s)| format!("{}={}", k, cps(s).replace(' ', "+"))).collect();
        writeln!(o, "map {} {}", name, parts.join(" ")).unwrap();
    };
    map("TEXT", &graphics::TEXT, &mut o);
    map("FG_ANSI", &graphics::FG_ANSI, &mut o);
    map("BG_ANSI", &graphics::BG_ANSI, &mut o);
    map("FG_AIXTERM", &graphics::FG_AIXTERM, &mut o);
    map("BG_AIXTERM", &graphics::BG_AIXTERM, &mut o);
    {
        let parts: Vec<String> =
            graphics::FG_BG_256.iter().map(|s| cps(s).replace(' ', "+")).collect();
        writeln!(o, "strlist FG_BG_256 {}", parts.join(" ")).unwrap();
    }
    let arr = |name: &str, a: &[char; 256], o: &mut String| {
        let parts: Vec<String> = a.iter().map(|c| (*c as u32).to_string()).collect();
        writeln!(o, "arr {} {}", name, parts.join(" ")).unwrap();
    };
    arr("LAT1_MAP", &charset::LAT1_MAP, &mut o);
    arr("VT100_MAP", &charset::VT100_MAP, &mut o);
    arr("IBMPC_MAP", &charset::IBMPC_MAP, &mut o);
    arr("VAX42_MAP", &charset::VAX42_MAP, &mut o);
    {
        let mut keys: Vec<&&str> = charset::MAPS.keys().collect();
        keys.sort();
        let parts: Vec<String> = keys
            .iter()
            .map(|k| format!("{}={}", cps(k).replace(' ', "+"), crate::dump::cs_id(&charset::MAPS[**k])))
            .collect();
        writeln!(o, "map MAPS {}", parts.join(" ")).unwrap();
    }
    {
        let s = Screen::new(1, 1);
        let mut m: Vec<u32> = s.mode.iter().cloned().collect();
        m.sort();
        let parts: Vec<String> = m.iter().map(|x| x.to_string()).collect();
        writeln!(o, "numlist DEFAULT_MODE {}", parts.join(" ")).unwrap();
    }
    probes(&mut o);
    o
}

/// Dispatch probes: what the crate's `csi_dispatch` / `escape_dispatch` / `basic_dispatch` (default
/// methods of `ParserListener`, src/parser_listener.rs) call for every final character, every shape
/// of parameter list and both values of the private flag - recorded by an events-only tap.
fn probes(o: &mut String) {
    use crate::tap::Tap;
    let mut tap = Tap::new(2, 2);
    tap.events_only = true;
    let mut run = |tap: &mut Tap, f: &mut dyn FnMut(&mut Tap)| -> (String, String) {
        tap.out.clear();
        crate::call::LAST_PRIVATE.with(|p| p.set(None));
        f(tap);
        let calls: Vec<String> = tap.out.iter().filter_map(|l| l.strip_prefix("E ").map(|x| x.to_string())).collect();
        let pv = match crate::call::LAST_PRIVATE.with(|p| p.get()) {
            None => "x".to_string(),
            Some(None) => "-".to_string(),
            Some(Some(b)) => (b as u32).to_string(),
        };
        (calls.join(" ; "), pv)
    };
    let mut finals: Vec<u32> = (0x20u32..=0x7e).collect();
    finals.extend([0x00, 0x07, 0x0a, 0x1b, 0x7f, 0x80, 0x9b, 0xe9, 0x4e2d]);
    let shapes: [&[u32]; 7] = [&[], &[0], &[101], &[101, 102], &[0, 0], &[101, 102, 103], &[101, 0, 103, 104]];
    for f in &finals {
        let ch = char::from_u32(*f).unwrap().to_string();
        for sh in shapes {
            for pv in [false, true] {
                let (calls, got_pv) = run(&mut tap, &mut |t: &mut Tap| t.csi_dispatch(&ch, sh, pv));
                let ps: Vec<String> = sh.iter().map(|x| x.to_string()).collect();
                writeln!(o, "probe csi {} [{}] {} => {} | {}", f, ps.join(" "), pv as u32, calls, got_pv).unwrap();
            }
        }
    }
    for f in 0u32..=0xff {
        let ch = char::from_u32(f).unwrap().to_string();
        let (calls, _) = run(&mut tap, &mut |t: &mut Tap| t.escape_dispatch(&ch));
        writeln!(o, "probe esc {} [] 0 => {} | x", f, calls).unwrap();
        let (calls, _) = run(&mut tap, &mut |t: &mut Tap| t.basic_dispatch(&ch));
        writeln!(o, "probe basic {} [] 0 => {} | x", f, calls).unwrap();
    }
}
