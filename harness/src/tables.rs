//! Translator, first half: print the *values* of the crate's public constants
//! and tables as compiled from the current tree.

use std::fmt::Write;

use memterm::screen::Screen;
use memterm::{charset, control, graphics, modes};

fn cps(s: &str) -> String {
    s.chars().map(|c| (c as u32).to_string()).collect::<Vec<_>>().join(" ")
}

pub fn tables() -> String {
    let mut o = String::new();
    macro_rules! strc {
        ($($n:ident),*) => { $( writeln!(o, "str {} {}", stringify!($n), cps(control::$n)).unwrap(); )* };
    }
    strc!(
        BEL, BS, CAN, CR, ESC, FF, HT, LF, SI, SO, SUB, VT, CSI, HTS, NEL, OSC, RI, ST, ICH, CUU,
        CUD, CUF, CUB, CNL, CPL, CHA, CUP, ED, EL, IL, DL, DCH, ECH, HPR, DA, VPA, VPR, HVP, TBC,
        SM, RM, SGR, DECSTBM, DECALN, IND, DECSC, DECRC, SP, GREATER, RIS, ST_C0, ST_C1
    );
    let lst = |name: &str, v: &[&str], o: &mut String| {
        let mut parts: Vec<String> = v.iter().map(|s| cps(s).replace(' ', "+")).collect();
        if name == "SPECIAL" {
            parts.sort();
        }
        writeln!(o, "strlist {} {}", name, parts.join(" ")).unwrap();
    };
    lst("BASIC", &control::BASIC[..], &mut o);
    lst("ALLOWED_IN_CSI", &control::ALLOWED_IN_CSI[..], &mut o);
    lst("OSC_TERMINATORS", &control::OSC_TERMINATORS[..], &mut o);
    let sp: Vec<&str> = control::SPECIAL.iter().cloned().collect();
    lst("SPECIAL", &sp, &mut o);
    macro_rules! numc {
        ($m:ident, $($n:ident),*) => { $( writeln!(o, "num {} {}", stringify!($n), $m::$n).unwrap(); )* };
    }
    numc!(modes, LNM, IRM, DECTCEM, DECSCNM, DECOM, DECAWM, DECCOLM);
    numc!(graphics, FG_256, BG_256);
    let map = |name: &str, m: &std::collections::HashMap<u32, String>, o: &mut String| {
        let mut v: Vec<(&u32, &String)> = m.iter().collect();
        v.sort();
        let parts: Vec<String> =
            v.iter().map(|(k, s)| format!("{}={}", k, cps(s).replace(' ', "+"))).collect();
        writeln!(o, "map {} {}", name, parts.join(" ")).unwrap();
    };
    map("TEXT", &graphics::TEXT, &mut o);
    map("FG_ANSI", &graphics::FG_ANSI, &mut o);
    map("BG_ANSI", &graphics::BG_ANSI, &mut o);
    map("FG_AIXTERM", &graphics::FG_AIXTERM, &mut o);
    map("BG_AIXTERM", &graphics::BG_AIXTERM, &mut o);
    {
        let parts: Vec<String> =
            graphics::FG_BG_256.iter().map(|s| cps(s).replace(' ', "+")).collect();
        writeln!(o, "strlist FG_BG_256 {}", parts.join(" ")).unwrap();
    }
    let arr = |name: &str, a: &[char; 256], o: &mut String| {
        let parts: Vec<String> = a.iter().map(|c| (*c as u32).to_string()).collect();
        writeln!(o, "arr {} {}", name, parts.join(" ")).unwrap();
    };
    arr("LAT1_MAP", &charset::LAT1_MAP, &mut o);
    arr("VT100_MAP", &charset::VT100_MAP, &mut o);
    arr("IBMPC_MAP", &charset::IBMPC_MAP, &mut o);
    arr("VAX42_MAP", &charset::VAX42_MAP, &mut o);
    {
        let mut keys: Vec<&&str> = charset::MAPS.keys().collect();
        keys.sort();
        let parts: Vec<String> = keys
            .iter()
            .map(|k| format!("{}={}", cps(k).replace(' ', "+"), crate::dump::cs_id(&charset::MAPS[**k])))
            .collect();
        writeln!(o, "map MAPS {}", parts.join(" ")).unwrap();
    }
    {
        let s = Screen::new(1, 1);
        let mut m: Vec<u32> = s.mode.iter().cloned().collect();
        m.sort();
        let parts: Vec<String> = m.iter().map(|x| x.to_string()).collect();
        writeln!(o, "numlist DEFAULT_MODE {}", parts.join(" ")).unwrap();
    }
    o
}
