//! A ParserListener that forwards every leaf call to a real Screen and logs
//! (pre-state, call, post-state | panic).  The dispatch functions are default
//! trait methods, so they run on the tap and their leaf calls are seen here.

use std::collections::BTreeSet;
use std::panic::{catch_unwind, AssertUnwindSafe};

use memterm::parser_listener::ParserListener;
use memterm::screen::Screen;
use unicode_normalization::char::is_combining_mark;
use unicode_normalization::UnicodeNormalization;
use unicode_width::UnicodeWidthChar;

use crate::call::Call;
use crate::dump::dump;

pub struct Tap {
    pub screen: Screen,
    pub out: Vec<String>,
    pub dead: bool,
    pub quiet: bool,
    last_state: String,
    seen_w: BTreeSet<u32>,
    seen_nf: BTreeSet<String>,
    pub ncalls: u64,
    pub last_display: Option<Vec<String>>,
    /// events-only sessions: record the calls, do not run a screen
    pub events_only: bool,
    /// clear the dirty set before every call (what an embedder repainting after each call does)
    pub autoclear: bool,
    /// every call received since the log was last taken (for the decoding comparison of byte sessions)
    pub calls_log: Vec<String>,
}

pub fn panic_msg(e: Box<dyn std::any::Any + Send>) -> String {
    let m = if let Some(s) = e.downcast_ref::<&str>() {
        s.to_string()
    } else if let Some(s) = e.downcast_ref::<String>() {
        s.clone()
    } else {
        "panic".to_string()
    };
    m.replace('\n', " ")
}

impl Tap {
    pub fn new(columns: u32, lines: u32) -> Tap {
        Tap {
            screen: Screen::new(columns, lines),
            out: vec![],
            dead: false,
            quiet: false,
            last_state: String::new(),
            seen_w: BTreeSet::new(),
            seen_nf: BTreeSet::new(),
            ncalls: 0,
            last_display: None,
            events_only: false,
            autoclear: false,
            calls_log: vec![],
        }
    }

    pub fn reset_log_state(&mut self) {
        self.last_state.clear();
        self.seen_w.clear();
        self.seen_nf.clear();
    }

    fn emit_state(&mut self) {
        let s = dump(&self.screen);
        if s == self.last_state {
            self.out.push("=".to_string());
        } else {
            self.out.push(s.clone());
            self.last_state = s;
        }
    }

    fn translate(&self, c: char) -> char {
        if (c as u32) < 256 {
            if self.screen.charset == memterm::screen::Charset::G1 {
                self.screen.g1_charset[c as usize]
            } else {
                self.screen.g0_charset[c as usize]
            }
        } else {
            c
        }
    }

    /// Width / combining-mark facts and NFC facts the model needs for a draw.
    fn emit_unicode_facts(&mut self, text: &str) {
        let mut marks: Vec<char> = vec![];
        let mut singles: Vec<String> = vec![];
        for c0 in text.chars() {
            for c in [c0, self.translate(c0)] {
                let cp = c as u32;
                if self.seen_w.insert(cp) {
                    let w = c.width().unwrap_or(0);
                    let cm = is_combining_mark(c);
                    self.out.push(format!("W {} {} {}", cp, w, cm as u32));
                }
            }
            let c = self.translate(c0);
            if c.width().unwrap_or(0) == 0 && is_combining_mark(c) {
                marks.push(c);
            } else {
                singles.push(c.to_string());
            }
        }
        if marks.is_empty() {
            return;
        }
        // closure of strings whose NFC the implementation may compute
        let mut set: BTreeSet<String> = BTreeSet::new();
        for row in self.screen.buffer.values() {
            for c in row.values() {
                set.insert(c.data.clone());
            }
        }
        set.insert(" ".to_string());
        set.insert(String::new());
        for s in singles {
            set.insert(s);
        }
        // The marks applied to one cell are a contiguous run of the marks of this text, in order, and every
        // application is "normalise what is there, append the mark": follow exactly those chains from every
        // text a cell can hold at that moment (a fixed closure depth missed runs of five and more marks).
        let bases: Vec<String> = set.iter().cloned().collect();
        'chains: for b in bases {
            for i in 0..marks.len() {
                let mut cur = b.clone();
                for m in &marks[i..] {
                    let mut t: String = cur.nfc().collect();
                    t.push(*m);
                    set.insert(t.clone());
                    cur = t;
                    if set.len() > 50000 {
                        break 'chains;
                    }
                }
            }
        }
        for s in set {
            let n: String = s.nfc().collect();
            if n != s && self.seen_nf.insert(s.clone()) {
                // normalisation can produce code points that were never drawn (U+F9BF -> U+6A02):
                // display() asks for the width of a cell's first character, so the model needs theirs too
                for c in n.chars() {
                    let cp = c as u32;
                    if self.seen_w.insert(cp) {
                        let w = c.width().unwrap_or(0);
                        let cm = is_combining_mark(c);
                        self.out.push(format!("W {} {} {}", cp, w, cm as u32));
                    }
                }
                let mut line = String::from("NF");
                crate::dump::push_str(&mut line, &s);
                crate::dump::push_str(&mut line, &n);
                self.out.push(line);
            }
        }
    }

    pub fn call(&mut self, c: Call) {
        if self.dead {
            return;
        }
        self.ncalls += 1;
        self.calls_log.push(c.line());
        if self.events_only {
            if !self.quiet {
                self.out.push(format!("E {}", c.line()));
            }
            return;
        }
        if self.quiet {
            let sc = &mut self.screen;
            let r = catch_unwind(AssertUnwindSafe(|| c.apply(sc)));
            if r.is_err() {
                self.dead = true;
                self.out.push("X quiet-panic".to_string());
            }
            return;
        }
        if let Call::Draw(t) = &c {
            let t = t.clone();
            self.emit_unicode_facts(&t);
        }
        if self.autoclear {
            self.screen.dirty.clear();
        }
        self.emit_state();
        self.out.push(format!("C {}", c.line()));
        let sc = &mut self.screen;
        let r = catch_unwind(AssertUnwindSafe(|| c.apply(sc)));
        match r {
            Ok(d) => {
                if let Some(d) = d {
                    let mut line = format!("DISP {}", d.len());
                    for l in &d {
                        crate::dump::push_str(&mut line, l);
                    }
                    self.out.push(line);
                    self.last_display = Some(d);
                }
                self.emit_state();
            }
            Err(e) => {
                self.dead = true;
                self.last_state.clear();
                self.out.push(format!("P {}", panic_msg(e)));
            }
        }
    }
}

impl ParserListener for Tap {
    fn alignment_display(&mut self) {
        self.call(Call::AlignmentDisplay)
    }
    fn define_charset(&mut self, code: &str, mode: &str) {
        self.call(Call::DefineCharset(code.to_string(), mode.to_string()))
    }
    fn reset(&mut self) {
        self.call(Call::Reset)
    }
    fn index(&mut self) {
        self.call(Call::Index)
    }
    fn linefeed(&mut self) {
        self.call(Call::Linefeed)
    }
    fn reverse_index(&mut self) {
        self.call(Call::ReverseIndex)
    }
    fn set_tab_stop(&mut self) {
        self.call(Call::SetTabStop)
    }
    fn save_cursor(&mut self) {
        self.call(Call::SaveCursor)
    }
    fn restore_cursor(&mut self) {
        self.call(Call::RestoreCursor)
    }
    fn shift_out(&mut self) {
        self.call(Call::ShiftOut)
    }
    fn shift_in(&mut self) {
        self.call(Call::ShiftIn)
    }
    fn bell(&mut self) {
        self.call(Call::Bell)
    }
    fn backspace(&mut self) {
        self.call(Call::Backspace)
    }
    fn tab(&mut self) {
        self.call(Call::Tab)
    }
    fn cariage_return(&mut self) {
        self.call(Call::CarriageReturn)
    }
    fn draw(&mut self, input: &str) {
        self.call(Call::Draw(input.to_string()))
    }
    fn insert_characters(&mut self, count: Option<u32>) {
        self.call(Call::InsertCharacters(count))
    }
    fn cursor_up(&mut self, count: Option<u32>) {
        self.call(Call::CursorUp(count))
    }
    fn cursor_down(&mut self, count: Option<u32>) {
        self.call(Call::CursorDown(count))
    }
    fn cursor_forward(&mut self, count: Option<u32>) {
        self.call(Call::CursorForward(count))
    }
    fn cursor_back(&mut self, count: Option<u32>) {
        self.call(Call::CursorBack(count))
    }
    fn cursor_down1(&mut self, count: Option<u32>) {
        self.call(Call::CursorDown1(count))
    }
    fn cursor_up1(&mut self, count: Option<u32>) {
        self.call(Call::CursorUp1(count))
    }
    fn cursor_to_column(&mut self, character: Option<u32>) {
        self.call(Call::CursorToColumn(character))
    }
    fn cursor_position(&mut self, line: Option<u32>, character: Option<u32>) {
        self.call(Call::CursorPosition(line, character))
    }
    fn erase_in_display(&mut self, how: Option<u32>, private: Option<bool>) {
        crate::call::PRIVATE.with(|p| p.set(private));
        crate::call::LAST_PRIVATE.with(|p| p.set(Some(private)));
        self.call(Call::EraseInDisplay(how));
        crate::call::PRIVATE.with(|p| p.set(None));
    }
    fn erase_in_line(&mut self, how: Option<u32>, private: Option<bool>) {
        crate::call::PRIVATE.with(|p| p.set(private));
        crate::call::LAST_PRIVATE.with(|p| p.set(Some(private)));
        self.call(Call::EraseInLine(how));
        crate::call::PRIVATE.with(|p| p.set(None));
    }
    fn insert_lines(&mut self, count: Option<u32>) {
        self.call(Call::InsertLines(count))
    }
    fn delete_lines(&mut self, count: Option<u32>) {
        self.call(Call::DeleteLines(count))
    }
    fn delete_characters(&mut self, count: Option<u32>) {
        self.call(Call::DeleteCharacters(count))
    }
    fn erase_characters(&mut self, count: Option<u32>) {
        self.call(Call::EraseCharacters(count))
    }
    fn report_device_attributes(&mut self, mode: Option<u32>, private: Option<bool>) {
        crate::call::PRIVATE.with(|p| p.set(private));
        crate::call::LAST_PRIVATE.with(|p| p.set(Some(private)));
        self.call(Call::ReportDeviceAttributes(mode));
        crate::call::PRIVATE.with(|p| p.set(None));
    }
    fn cursor_to_line(&mut self, line: Option<u32>) {
        self.call(Call::CursorToLine(line))
    }
    fn clear_tab_stop(&mut self, how: Option<u32>) {
        self.call(Call::ClearTabStop(how))
    }
    fn set_mode(&mut self, modes: &[u32], is_private: bool) {
        self.call(Call::SetMode(modes.to_vec(), is_private))
    }
    fn reset_mode(&mut self, modes: &[u32], is_private: bool) {
        self.call(Call::ResetMode(modes.to_vec(), is_private))
    }
    fn select_graphic_rendition(&mut self, modes: &[u32]) {
        self.call(Call::Sgr(modes.to_vec()))
    }
    fn set_title(&mut self, title: &str) {
        self.call(Call::SetTitle(title.to_string()))
    }
    fn set_icon_name(&mut self, icon_name: &str) {
        self.call(Call::SetIconName(icon_name.to_string()))
    }
    fn set_margins(&mut self, top: Option<u32>, bottom: Option<u32>) {
        self.call(Call::SetMargins(top, bottom))
    }
    fn display(&mut self) -> Vec<String> {
        self.call(Call::Display);
        self.last_display.clone().unwrap_or_default()
    }
}
