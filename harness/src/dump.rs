//! Canonical text dump of a `Screen` and field-by-field cloning.
//! Every field of Screen / Cursor / Savepoint / CharOpts is `pub`, so no
//! source hook is needed.

use std::fmt::Write;

use memterm::charset::{IBMPC_MAP, LAT1_MAP, VAX42_MAP, VT100_MAP};
use memterm::screen::{CharOpts, Charset, Cursor, Savepoint, Screen};

pub fn cs_id(a: &[char; 256]) -> u32 {
    if a == &LAT1_MAP {
        0
    } else if a == &VT100_MAP {
        1
    } else if a == &IBMPC_MAP {
        2
    } else if a == &VAX42_MAP {
        3
    } else {
        9
    }
}

pub fn push_str(out: &mut String, s: &str) {
    let n = s.chars().count();
    write!(out, " {}", n).unwrap();
    for c in s.chars() {
        write!(out, " {}", c as u32).unwrap();
    }
}

pub fn push_cell(out: &mut String, c: &CharOpts) {
    push_str(out, &c.data);
    push_str(out, &c.fg);
    push_str(out, &c.bg);
    let flags = (c.bold as u32)
        | (c.italics as u32) << 1
        | (c.underscore as u32) << 2
        | (c.strikethrough as u32) << 3
        | (c.reverse as u32) << 4
        | (c.blink as u32) << 5;
    write!(out, " {}", flags).unwrap();
}

fn push_set(out: &mut String, it: impl Iterator<Item = u32>) {
    let mut v: Vec<u32> = it.collect();
    v.sort();
    v.dedup();
    write!(out, " {}", v.len()).unwrap();
    for x in v {
        write!(out, " {}", x).unwrap();
    }
}

fn push_cursor(out: &mut String, c: &Cursor) {
    write!(out, " {} {} {}", c.x, c.y, c.hidden as u32).unwrap();
    push_cell(out, &c.attr);
}

/// One line, starting with "S".
pub fn dump(s: &Screen) -> String {
    let mut o = String::with_capacity(256);
    write!(o, "S {} {}", s.columns, s.lines).unwrap();
    push_cursor(&mut o, &s.cursor);
    match s.margins {
        Some(m) => write!(o, " 1 {} {}", m.top, m.bottom).unwrap(),
        None => write!(o, " 0 0 0").unwrap(),
    }
    push_set(&mut o, s.mode.iter().cloned());
    push_set(&mut o, s.tabstops.iter().cloned());
    push_set(&mut o, s.dirty.iter().cloned());
    push_str(&mut o, &s.title);
    push_str(&mut o, &s.icon_name);
    write!(
        o,
        " {} {} {}",
        cs_id(&s.g0_charset),
        cs_id(&s.g1_charset),
        (s.charset == Charset::G1) as u32
    )
    .unwrap();
    match s.saved_columns {
        Some(c) => write!(o, " 1 {}", c).unwrap(),
        None => write!(o, " 0 0").unwrap(),
    }
    write!(o, " {}", s.savepoints.len()).unwrap();
    for sp in &s.savepoints {
        push_cursor(&mut o, &sp.cursor);
        write!(
            o,
            " {} {} {} {} {}",
            cs_id(&sp.g0_charset),
            cs_id(&sp.g1_charset),
            (sp.charset == Charset::G1) as u32,
            sp.origin as u32,
            sp.wrap as u32
        )
        .unwrap();
    }
    // raw sparse buffer: row keys (also empty rows), then cells
    let mut rows: Vec<u32> = s.buffer.keys().cloned().collect();
    rows.sort();
    write!(o, " {}", rows.len()).unwrap();
    for y in &rows {
        write!(o, " {}", y).unwrap();
    }
    let mut ncells = 0usize;
    for y in &rows {
        ncells += s.buffer[y].len();
    }
    write!(o, " {}", ncells).unwrap();
    for y in &rows {
        let line = &s.buffer[y];
        let mut xs: Vec<u32> = line.keys().cloned().collect();
        xs.sort();
        for x in xs {
            write!(o, " {} {}", y, x).unwrap();
            push_cell(&mut o, &line[&x]);
        }
    }
    o
}

pub fn clone_cursor(c: &Cursor) -> Cursor {
    Cursor { x: c.x, y: c.y, attr: c.attr.clone(), hidden: c.hidden }
}

pub fn clone_screen(s: &Screen) -> Screen {
    let mut n = Screen::new(s.columns.max(1), s.lines.max(1));
    n.columns = s.columns;
    n.lines = s.lines;
    n.savepoints = s
        .savepoints
        .iter()
        .map(|sp| Savepoint {
            cursor: clone_cursor(&sp.cursor),
            g0_charset: sp.g0_charset,
            g1_charset: sp.g1_charset,
            charset: sp.charset,
            origin: sp.origin,
            wrap: sp.wrap,
        })
        .collect();
    n.dirty = s.dirty.clone();
    n.margins = s.margins;
    n.buffer = s.buffer.clone();
    n.mode = s.mode.clone();
    n.title = s.title.clone();
    n.icon_name = s.icon_name.clone();
    n.charset = s.charset;
    n.g0_charset = s.g0_charset;
    n.g1_charset = s.g1_charset;
    n.tabstops = s.tabstops.clone();
    n.cursor = clone_cursor(&s.cursor);
    n.saved_columns = s.saved_columns;
    n
}

/// Visible grid only (what an embedder can observe through the pub fields
/// within the grid, with absent cells read as default_char), plus the rest of
/// the observable state.  Used by the model-free metamorphic checks.
pub fn observe(s: &Screen, with_dirty: bool, with_savepoints: bool) -> String {
    let mut o = String::new();
    write!(o, "{} {}", s.columns, s.lines).unwrap();
    push_cursor(&mut o, &s.cursor);
    match s.margins {
        Some(m) => write!(o, " 1 {} {}", m.top, m.bottom).unwrap(),
        None => write!(o, " 0").unwrap(),
    }
    push_set(&mut o, s.mode.iter().cloned());
    push_set(&mut o, s.tabstops.iter().cloned());
    if with_dirty {
        push_set(&mut o, s.dirty.iter().cloned());
    }
    push_str(&mut o, &s.title);
    push_str(&mut o, &s.icon_name);
    write!(
        o,
        " {} {} {}",
        cs_id(&s.g0_charset),
        cs_id(&s.g1_charset),
        (s.charset == Charset::G1) as u32
    )
    .unwrap();
    match s.saved_columns {
        Some(c) => write!(o, " 1 {}", c).unwrap(),
        None => write!(o, " 0").unwrap(),
    }
    write!(o, " sp{}", s.savepoints.len()).unwrap();
    if with_savepoints {
        for sp in &s.savepoints {
            push_cursor(&mut o, &sp.cursor);
            write!(
                o,
                " {} {} {} {} {}",
                cs_id(&sp.g0_charset),
                cs_id(&sp.g1_charset),
                (sp.charset == Charset::G1) as u32,
                sp.origin as u32,
                sp.wrap as u32
            )
            .unwrap();
        }
    }
    let d = s.default_char();
    for y in 0..s.lines {
        let row = s.buffer.get(&y);
        for x in 0..s.columns {
            let c = row.and_then(|r| r.get(&x)).unwrap_or(&d);
            write!(o, " |").unwrap();
            push_cell(&mut o, c);
        }
    }
    o
}
