mod apifz;
mod call;
mod dump;
mod exec;
mod gen;
mod props;
mod seeds;
mod tables;
mod tap;

use std::io::Write;

fn usage() -> ! {
    eprintln!("usage: mtharness tables | gen <prop> <tier> <seed> <out> | exec <sessions> <log> | meta <prop> <tier> <seed> <out> | seeds <sessions> <outdir> [max] | apisess <dir>... <out> | metaon <prop> <sessions> <seed> <out>");
    std::process::exit(2)
}

fn main() {
    // the library println!s on unknown sequences: keep panics quiet, results go to files
    std::panic::set_hook(Box::new(|_| {}));
    let a: Vec<String> = std::env::args().collect();
    if a.len() < 2 {
        usage();
    }
    match a[1].as_str() {
        "tables" => {
            let out = tables::tables();
            if a.len() > 2 {
                std::fs::write(&a[2], out).unwrap();
            } else {
                eprint!("{}", out);
            }
        }
        "gen" => {
            if a.len() < 6 {
                usage();
            }
            let seed: u64 = a[4].parse().unwrap();
            let sessions = props::generate(&a[2], &a[3], seed);
            let mut f = std::io::BufWriter::new(std::fs::File::create(&a[5]).unwrap());
            for s in &sessions {
                f.write_all(s.text().as_bytes()).unwrap();
            }
        }
        "exec" => {
            if a.len() < 4 {
                usage();
            }
            let text = std::fs::read_to_string(&a[2]).unwrap();
            let sessions = match exec::Session::parse_all(&text) {
                Ok(s) => s,
                Err(e) => {
                    eprintln!("session parse error: {}", e);
                    std::process::exit(2);
                }
            };
            let mut f = std::io::BufWriter::new(std::fs::File::create(&a[3]).unwrap());
            let cur = format!("{}.cur", a[3]);
            for s in &sessions {
                // progress marker: if this process hangs or aborts, the orchestrator knows where
                let _ = std::fs::write(&cur, &s.id);
                for l in exec::run_session(s) {
                    f.write_all(l.as_bytes()).unwrap();
                    f.write_all(b"\n").unwrap();
                }
            }
            let _ = std::fs::remove_file(&cur);
        }
        "seeds" => {
            // seeds <sessions> <outdir> [max]: the sessions as inputs of the coverage-guided search
            if a.len() < 4 {
                usage();
            }
            let text = std::fs::read_to_string(&a[2]).unwrap();
            let sessions = exec::Session::parse_all(&text).unwrap_or_default();
            let max: usize = a.get(4).and_then(|x| x.parse().ok()).unwrap_or(usize::MAX);
            std::fs::create_dir_all(&a[3]).unwrap();
            let mut n = 0usize;
            let mut seen = std::collections::HashSet::new();
            'outer: for s in &sessions {
                for b in seeds::seeds_of(s) {
                    if !seen.insert(b.clone()) {
                        continue;
                    }
                    std::fs::write(format!("{}/s{:06}", a[3], n), &b).unwrap();
                    n += 1;
                    if n >= max {
                        break 'outer;
                    }
                }
            }
            eprintln!("{}", n);
        }
        "apiseeds" => {
            if a.len() < 4 {
                usage();
            }
            let text = std::fs::read_to_string(&a[2]).unwrap();
            let sessions = exec::Session::parse_all(&text).unwrap_or_default();
            let max: usize = a.get(4).and_then(|x| x.parse().ok()).unwrap_or(usize::MAX);
            std::fs::create_dir_all(&a[3]).unwrap();
            let mut n = 0usize;
            let mut seen = std::collections::HashSet::new();
            'outer: for s in &sessions {
                for b in seeds::api_seeds_of(s) {
                    if b.len() < 3 || b.len() > 2048 || !seen.insert(b.clone()) {
                        continue;
                    }
                    std::fs::write(format!("{}/a{:06}", a[3], n), &b).unwrap();
                    n += 1;
                    if n >= max {
                        break 'outer;
                    }
                }
            }
            eprintln!("{}", n);
        }
        "apisess" => {
            // apisess <dir-or-file>... <out.sessions>: inputs of the API target as sessions
            if a.len() < 4 {
                usage();
            }
            let outp = &a[a.len() - 1];
            let mut files: Vec<std::path::PathBuf> = vec![];
            for x in &a[2..a.len() - 1] {
                let p = std::path::Path::new(x);
                if p.is_dir() {
                    let mut v: Vec<_> = std::fs::read_dir(p).unwrap().filter_map(|e| e.ok()).map(|e| e.path()).filter(|q| q.is_file()).collect();
                    v.sort();
                    files.extend(v);
                } else if p.is_file() {
                    files.push(p.to_path_buf());
                }
            }
            let mut f = std::io::BufWriter::new(std::fs::File::create(outp).unwrap());
            let mut n = 0;
            for (k, p) in files.iter().enumerate() {
                let data = std::fs::read(p).unwrap_or_default();
                let name = p.file_name().map(|x| x.to_string_lossy().to_string()).unwrap_or_default();
                let id = format!("fa{}_{}", k, &name[..name.len().min(12)]);
                if let Some(t) = apifz::session_text(&data, &id) {
                    f.write_all(t.as_bytes()).unwrap();
                    n += 1;
                }
            }
            eprintln!("{}", n);
        }
        "metaon" => {
            // metaon <prop> <sessions> <seed> <out>: the model-free relations of C10 / C02 on given sessions
            if a.len() < 6 {
                usage();
            }
            let text = std::fs::read_to_string(&a[3]).unwrap_or_default();
            let sessions = exec::Session::parse_all(&text).unwrap_or_default();
            let seed: u64 = a[4].parse().unwrap_or(1);
            std::fs::write(&a[5], props::meta_on(&a[2], &sessions, seed)).unwrap();
        }
        "meta" => {
            if a.len() < 6 {
                usage();
            }
            let seed: u64 = a[4].parse().unwrap();
            let out = props::meta(&a[2], &a[3], seed);
            std::fs::write(&a[5], out).unwrap();
        }
        _ => usage(),
    }
}
