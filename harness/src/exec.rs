//! Session executor: runs a session (text form) against the real crate and
//! produces the transition log.

use std::panic::{catch_unwind, AssertUnwindSafe};
use std::sync::{Arc, Mutex};

use memterm::byte_parser::ByteParser;
use memterm::parser::Parser;
use memterm::screen::Screen;

use crate::call::Call;
use crate::dump::clone_screen;
use crate::tap::{panic_msg, Tap};

#[derive(Clone, Debug, PartialEq)]
pub enum Op {
    Api(Call),
    Feed(String),
    FeedB(Vec<u8>),
    Charset(String),
    Utf8(bool),
    Quiet(bool),
    /// clear the dirty set before every listener call (the embedder of C17)
    AutoClear(bool),
    Snap,
    Back,
}

#[derive(Clone, Debug)]
pub struct Session {
    pub columns: u32,
    pub lines: u32,
    pub bytes: bool,
    /// only the listener events are recorded (no screen)
    pub events_only: bool,
    pub id: String,
    pub ops: Vec<Op>,
}

fn nums(s: &str) -> String {
    let mut out = s.chars().count().to_string();
    for c in s.chars() {
        out.push(' ');
        out.push_str(&(c as u32).to_string());
    }
    out
}

impl Op {
    pub fn line(&self) -> String {
        match self {
            Op::Api(c) => format!("api {}", c.line()),
            Op::Feed(s) => format!("feed {}", nums(s)),
            Op::FeedB(b) => {
                let mut out = format!("feedb {}", b.len());
                for x in b {
                    out.push(' ');
                    out.push_str(&x.to_string());
                }
                out
            }
            Op::Charset(c) => format!("charset {}", nums(c)),
            Op::Utf8(b) => format!("utf8 {}", *b as u32),
            Op::Quiet(b) => format!("quiet {}", *b as u32),
            Op::AutoClear(b) => format!("autoclear {}", *b as u32),
            Op::Snap => "snap".to_string(),
            Op::Back => "back".to_string(),
        }
    }

    pub fn parse(line: &str) -> Result<Op, String> {
        let line = line.trim();
        let (head, rest) = match line.find(' ') {
            Some(i) => (&line[..i], line[i + 1..].trim()),
            None => (line, ""),
        };
        let parse_nums = |r: &str| -> Result<Vec<u32>, String> {
            let v: Result<Vec<u32>, _> = r.split_whitespace().map(|x| x.parse::<u32>()).collect();
            let v = v.map_err(|e| e.to_string())?;
            if v.is_empty() || v[0] as usize != v.len() - 1 {
                return Err(format!("bad length prefix in {:?}", r));
            }
            Ok(v[1..].to_vec())
        };
        let to_str = |v: Vec<u32>| -> Result<String, String> {
            v.into_iter()
                .map(|cp| char::from_u32(cp).ok_or_else(|| "bad cp".to_string()))
                .collect()
        };
        match head {
            "api" => Ok(Op::Api(Call::parse(rest)?)),
            "feed" => Ok(Op::Feed(to_str(parse_nums(rest)?)?)),
            "feedb" => Ok(Op::FeedB(parse_nums(rest)?.into_iter().map(|x| x as u8).collect())),
            "charset" => Ok(Op::Charset(to_str(parse_nums(rest)?)?)),
            "utf8" => Ok(Op::Utf8(rest.trim() == "1")),
            "quiet" => Ok(Op::Quiet(rest.trim() == "1")),
            "autoclear" => Ok(Op::AutoClear(rest.trim() == "1")),
            "snap" => Ok(Op::Snap),
            "back" => Ok(Op::Back),
            _ => Err(format!("unknown op {:?}", line)),
        }
    }
}

impl Session {
    pub fn text(&self) -> String {
        let mut out = format!(
            "new {} {} {} {}\n",
            self.columns,
            self.lines,
            match (self.bytes, self.events_only) {
                (true, false) => "b",
                (false, false) => "c",
                (true, true) => "be",
                (false, true) => "ce",
            },
            self.id
        );
        for o in &self.ops {
            out.push_str(&o.line());
            out.push('\n');
        }
        out.push_str("end\n");
        out
    }

    pub fn parse_all(text: &str) -> Result<Vec<Session>, String> {
        let mut out = vec![];
        let mut cur: Option<Session> = None;
        for (ln, line) in text.lines().enumerate() {
            let line = line.trim();
            if line.is_empty() || line.starts_with('#') {
                continue;
            }
            if let Some(rest) = line.strip_prefix("new ") {
                if let Some(s) = cur.take() {
                    out.push(s);
                }
                let t: Vec<&str> = rest.split_whitespace().collect();
                if t.len() < 3 {
                    return Err(format!("line {}: bad new", ln + 1));
                }
                cur = Some(Session {
                    columns: t[0].parse().map_err(|_| "bad cols")?,
                    lines: t[1].parse().map_err(|_| "bad lines")?,
                    bytes: t[2].starts_with('b'),
                    events_only: t[2].ends_with('e'),
                    id: t.get(3).unwrap_or(&"-").to_string(),
                    ops: vec![],
                });
            } else if line == "end" {
                if let Some(s) = cur.take() {
                    out.push(s);
                }
            } else {
                let op = Op::parse(line).map_err(|e| format!("line {}: {}", ln + 1, e))?;
                match cur.as_mut() {
                    Some(s) => s.ops.push(op),
                    None => return Err(format!("line {}: op outside session", ln + 1)),
                }
            }
        }
        if let Some(s) = cur.take() {
            out.push(s);
        }
        Ok(out)
    }
}

/// The conforming streaming UTF-8 decoder (WHATWG Encoding, the algorithm of Memterm/Utf8.lean), kept
/// by the harness as the reference the property names: "exactly the decoding ... by a conforming
/// streaming decoder".  Independent of the crate and of encoding_rs.
pub struct RefDecoder {
    needed: u32,
    seen: u32,
    cp: u32,
    lower: u8,
    upper: u8,
}

impl RefDecoder {
    pub fn new() -> RefDecoder {
        RefDecoder { needed: 0, seen: 0, cp: 0, lower: 0x80, upper: 0xBF }
    }
    pub fn feed(&mut self, bytes: &[u8], out: &mut String) {
        let mut i = 0;
        while i < bytes.len() {
            let b = bytes[i];
            if self.needed == 0 {
                match b {
                    0x00..=0x7F => out.push(b as char),
                    0xC2..=0xDF => {
                        self.needed = 1;
                        self.cp = (b & 0x1F) as u32;
                    }
                    0xE0..=0xEF => {
                        if b == 0xE0 {
                            self.lower = 0xA0;
                        }
                        if b == 0xED {
                            self.upper = 0x9F;
                        }
                        self.needed = 2;
                        self.cp = (b & 0x0F) as u32;
                    }
                    0xF0..=0xF4 => {
                        if b == 0xF0 {
                            self.lower = 0x90;
                        }
                        if b == 0xF4 {
                            self.upper = 0x8F;
                        }
                        self.needed = 3;
                        self.cp = (b & 0x07) as u32;
                    }
                    _ => out.push('\u{fffd}'),
                }
                i += 1;
                continue;
            }
            if b < self.lower || b > self.upper {
                // ill-formed: one U+FFFD for the maximal subpart, the byte is looked at again
                self.cp = 0;
                self.needed = 0;
                self.seen = 0;
                self.lower = 0x80;
                self.upper = 0xBF;
                out.push('\u{fffd}');
                continue;
            }
            self.lower = 0x80;
            self.upper = 0xBF;
            self.cp = (self.cp << 6) | (b & 0x3F) as u32;
            self.seen += 1;
            if self.seen == self.needed {
                out.push(char::from_u32(self.cp).unwrap_or('\u{fffd}'));
                self.cp = 0;
                self.needed = 0;
                self.seen = 0;
            }
            i += 1;
        }
    }
}

/// The shadow of a byte session: the crate's own character recogniser, fed with what the reference decoder
/// makes of the same bytes.  If the events of `ByteParser` differ from the shadow's, the bytes were not
/// decoded as the reference decodes them (whatever the recogniser does with characters, it does the same
/// on both sides) - that is C11's question, asked without any model.
pub struct Shadow<'a> {
    pub tap: Arc<Mutex<Tap>>,
    pub parser: Parser<'a, Tap>,
    pub dec: RefDecoder,
    pub utf8: bool,
    pub dead: bool,
}

pub enum AnyParser<'a> {
    C(Parser<'a, Tap>),
    B(ByteParser<'a, Tap>),
}

pub struct Runner<'a> {
    pub tap: Arc<Mutex<Tap>>,
    pub parser: AnyParser<'a>,
    pub snap: Option<Screen>,
    pub parser_dead: bool,
    pub shadow: Option<Shadow<'a>>,
}

fn lock(t: &Arc<Mutex<Tap>>) -> std::sync::MutexGuard<'_, Tap> {
    match t.lock() {
        Ok(g) => g,
        Err(p) => p.into_inner(),
    }
}

impl<'a> Runner<'a> {
    pub fn new(columns: u32, lines: u32, bytes: bool) -> Runner<'a> {
        let tap = Arc::new(Mutex::new(Tap::new(columns, lines)));
        let parser = if bytes {
            AnyParser::B(ByteParser::new(tap.clone()))
        } else {
            AnyParser::C(Parser::new(tap.clone()))
        };
        let shadow = if bytes {
            let st = Arc::new(Mutex::new(Tap::new(columns, lines)));
            lock(&st).events_only = true;
            lock(&st).quiet = true;
            Some(Shadow { tap: st.clone(), parser: Parser::new(st), dec: RefDecoder::new(), utf8: true, dead: false })
        } else {
            None
        };
        Runner { tap, parser, snap: None, parser_dead: false, shadow }
    }

    pub fn dead(&self) -> bool {
        self.parser_dead || lock(&self.tap).dead
    }

    /// Execute one op; log lines are appended to the tap's `out`.
    pub fn step(&mut self, op: &Op) {
        if self.dead() {
            return;
        }
        match op {
            Op::Api(c) => lock(&self.tap).call(c.clone()),
            Op::Feed(s) => {
                if let AnyParser::C(p) = &mut self.parser {
                    {
                        let mut t = lock(&self.tap);
                        let q = if t.quiet { "FQ" } else { "F" };
                        t.out.push(format!("{} {}", q, nums(s)));
                    }
                    let r = catch_unwind(AssertUnwindSafe(|| p.feed(s.clone())));
                    let mut t = lock(&self.tap);
                    match r {
                        Ok(()) => {
                            if !t.quiet {
                                t.out.push("EF".to_string())
                            }
                        }
                        Err(e) => {
                            t.out.push(format!("PF {}", panic_msg(e)));
                            self.parser_dead = true;
                        }
                    }
                }
            }
            Op::FeedB(b) => {
                if let AnyParser::B(p) = &mut self.parser {
                    {
                        let mut t = lock(&self.tap);
                        let mut l = format!("{} {}", if t.quiet { "FBQ" } else { "FB" }, b.len());
                        for x in b {
                            l.push(' ');
                            l.push_str(&x.to_string());
                        }
                        t.out.push(l);
                    }
                    lock(&self.tap).calls_log.clear();
                    let r = catch_unwind(AssertUnwindSafe(|| p.feed(b)));
                    // the same bytes through the reference decoder and the crate's character recogniser
                    if let (Ok(()), Some(sh)) = (&r, self.shadow.as_mut()) {
                        if !sh.dead {
                            let mut chars = String::new();
                            if sh.utf8 {
                                sh.dec.feed(b, &mut chars);
                            } else {
                                chars.extend(b.iter().map(|x| *x as char));
                            }
                            lock(&sh.tap).calls_log.clear();
                            let sp = &mut sh.parser;
                            let rs = catch_unwind(AssertUnwindSafe(|| sp.feed(chars)));
                            if rs.is_err() {
                                sh.dead = true;
                            } else {
                                let want = std::mem::take(&mut lock(&sh.tap).calls_log);
                                let mut t = lock(&self.tap);
                                if !t.dead && !t.quiet && t.calls_log != want {
                                    let k = t.calls_log.iter().zip(want.iter()).take_while(|(a, b)| a == b).count();
                                    let got = t.calls_log.get(k).cloned().unwrap_or_else(|| "(no further call)".into());
                                    let exp = want.get(k).cloned().unwrap_or_else(|| "(no further call)".into());
                                    t.out.push(format!("DEC {} {} | {} | {}", k, if sh.utf8 { "utf8" } else { "8bit" }, got, exp));
                                }
                            }
                        }
                    }
                    let mut t = lock(&self.tap);
                    match r {
                        Ok(()) => {
                            if !t.quiet {
                                t.out.push("EF".to_string())
                            }
                        }
                        Err(e) => {
                            t.out.push(format!("PF {}", panic_msg(e)));
                            self.parser_dead = true;
                        }
                    }
                }
            }
            Op::Charset(c) => {
                if let AnyParser::B(p) = &mut self.parser {
                    let before = lock(&self.tap).ncalls;
                    p.select_other_charset(c);
                    if let Some(sh) = self.shadow.as_mut() {
                        // the documented switch: "@" = one byte one code point (and a new decoder), "G" / "8" = UTF-8
                        match c.as_str() {
                            "@" => {
                                sh.utf8 = false;
                                sh.parser.set_use_utf8(false);
                                sh.dec = RefDecoder::new();
                            }
                            "G" | "8" => {
                                // (a sequence held while already in UTF-8 mode survives a redundant switch)
                                sh.utf8 = true;
                                sh.parser.set_use_utf8(true);
                            }
                            _ => {}
                        }
                    }
                    let mut t = lock(&self.tap);
                    if t.ncalls != before {
                        // a mode switch is not input: it must not reach the listener
                        let n = t.ncalls - before;
                        t.out.push(format!("XM {} select_other_charset", n));
                    }
                    t.out.push(format!("U {}", nums(c)));
                }
            }
            Op::Utf8(b) => {
                if let AnyParser::C(p) = &mut self.parser {
                    let before = lock(&self.tap).ncalls;
                    p.set_use_utf8(*b);
                    let mut t = lock(&self.tap);
                    if t.ncalls != before {
                        let n = t.ncalls - before;
                        t.out.push(format!("XM {} set_use_utf8", n));
                    }
                    t.out.push(format!("U8 {}", *b as u32));
                }
            }
            Op::Quiet(q) => lock(&self.tap).quiet = *q,
            Op::AutoClear(q) => lock(&self.tap).autoclear = *q,
            Op::Snap => {
                let t = lock(&self.tap);
                self.snap = Some(clone_screen(&t.screen));
            }
            Op::Back => {
                if let Some(s) = &self.snap {
                    let mut t = lock(&self.tap);
                    t.screen = clone_screen(s);
                }
            }
        }
    }
}

/// Run one session, returning its log lines.
pub fn run_session(s: &Session) -> Vec<String> {
    let mut out = vec![format!(
        "N {} {} {} {}",
        s.columns,
        s.lines,
        match (s.bytes, s.events_only) {
            (true, false) => "b",
            (false, false) => "c",
            (true, true) => "be",
            (false, true) => "ce",
        },
        s.id
    )];
    let r = catch_unwind(AssertUnwindSafe(|| {
        let mut r = Runner::new(s.columns, s.lines, s.bytes);
        if s.events_only {
            lock(&r.tap).events_only = true;
        }
        for op in &s.ops {
            r.step(op);
            if r.dead() {
                break;
            }
        }
        if s.events_only {
            let mut t = lock(&r.tap);
            return std::mem::take(&mut t.out);
        }
        // final state (so that the last post-state is always present)
        let mut t = lock(&r.tap);
        let d = crate::dump::dump(&t.screen);
        t.out.push(format!("Z {}", &d[2..]));
        std::mem::take(&mut t.out)
    }));
    match r {
        Ok(lines) => out.extend(lines),
        Err(e) => out.push(format!("PX {}", panic_msg(e))),
    }
    out
}
