//! Session executor: runs a session (text form) against the real crate and
//! produces the transition log.

use std::panic::{catch_unwind, AssertUnwindSafe};
use std::sync::{Arc, Mutex};

use memterm::byte_parser::ByteParser;
use memterm::parser::Parser;
use memterm::screen::Screen;

use crate::call::Call;
use crate::dump::clone_screen;
use crate::tap::{panic_msg, Tap};

#[derive(Clone, Debug, PartialEq)]
pub enum Op {
    Api(Call),
    Feed(String),
    FeedB(Vec<u8>),
    Charset(String),
    Utf8(bool),
    Quiet(bool),
    /// clear the dirty set before every listener call (the embedder of C17)
    AutoClear(bool),
    Snap,
    Back,
}

#[derive(Clone, Debug)]
pub struct Session {
    pub columns: u32,
    pub lines: u32,
    pub bytes: bool,
    /// only the listener events are recorded (no screen)
    pub events_only: bool,
    pub id: String,
    pub ops: Vec<Op>,
}

fn nums(s: &str) -> String {
    let mut out = s.chars().count().to_string();
    for c in s.chars() {
        out.push(' ');
        out.push_str(&(c as u32).to_string());
    }
    out
}

impl Op {
    pub fn line(&self) -> String {
        match self {
            Op::Api(c) => format!("api {}", c.line()),
            Op::Feed(s) => format!("feed {}", nums(s)),
            Op::FeedB(b) => {
                let mut out = format!("feedb {}", b.len());
                for x in b {
                    out.push(' ');
                    out.push_str(&x.to_string());
                }
                out
            }
            Op::Charset(c) => format!("charset {}", nums(c)),
            Op::Utf8(b) => format!("utf8 {}", *b as u32),
            Op::Quiet(b) => format!("quiet {}", *b as u32),
            Op::AutoClear(b) => format!("autoclear {}", *b as u32),
            Op::Snap => "snap".to_string(),
            Op::Back => "back".to_string(),
        }
    }

    pub fn parse(line: &str) -> Result<Op, String> {
        let line = line.trim();
        let (head, rest) = match line.find(' ') {
            Some(i) => (&line[..i], line[i + 1..].trim()),
            None => (line, ""),
        };
        let parse_nums = |r: &str| -> Result<Vec<u32>, String> {
            let v: Result<Vec<u32>, _> = r.split_whitespace().map(|x| x.parse::<u32>()).collect();
            let v = v.map_err(|e| e.to_string())?;
            if v.is_empty() || v[0] as usize != v.len() - 1 {
                return Err(format!("bad length prefix in {:?}", r));
            }
            Ok(v[1..].to_vec())
        };
        let to_str = |v: Vec<u32>| -> Result<String, String> {
            v.into_iter()
                .map(|cp| char::from_u32(cp).ok_or_else(|| "bad cp".to_string()))
                .collect()
        };
        match head {
            "api" => Ok(Op::Api(Call::parse(rest)?)),
            "feed" => Ok(Op::Feed(to_str(parse_nums(rest)?)?)),
            "feedb" => Ok(Op::FeedB(parse_nums(rest)?.into_iter().map(|x| x as u8).collect())),
            "charset" => Ok(Op::Charset(to_str(parse_nums(rest)?)?)),
            "utf8" => Ok(Op::Utf8(rest.trim() == "1")),
            "quiet" => Ok(Op::Quiet(rest.trim() == "1")),
            "autoclear" => Ok(Op::AutoClear(rest.trim() == "1")),
            "snap" => Ok(Op::Snap),
            "back" => Ok(Op::Back),
            _ => Err(format!("unknown op {:?}", line)),
        }
    }
}

impl Session {
    pub fn text(&self) -> String {
        let mut out = format!(
            "new {} {} {} {}\n",
            self.columns,
            self.lines,
            match (self.bytes, self.events_only) {
                (true, false) => "b",
                (false, false) => "c",
                (true, true) => "be",
                (false, true) => "ce",
            },
            self.id
        );
        for o in &self.ops {
            out.push_str(&o.line());
            out.push('\n');
        }
        out.push_str("end\n");
        out
    }

    pub fn parse_all(text: &str) -> Result<Vec<Session>, String> {
        let mut out = vec![];
        let mut cur: Option<Session> = None;
        for (ln, line) in text.lines().enumerate() {
            let line = line.trim();
            if line.is_empty() || line.starts_with('#') {
                continue;
            }
            if let Some(rest) = line.strip_prefix("new ") {
                if let Some(s) = cur.take() {
                    out.push(s);
                }
                let t: Vec<&str> = rest.split_whitespace().collect();
                if t.len() < 3 {
                    return Err(format!("line {}: bad new", ln + 1));
                }
                cur = Some(Session {
                    columns: t[0].parse().map_err(|_| "bad cols")?,
                    lines: t[1].parse().map_err(|_| "bad lines")?,
                    bytes: t[2].starts_with('b'),
                    events_only: t[2].ends_with('e'),
                    id: t.get(3).unwrap_or(&"-").to_string(),
                    ops: vec![],
                });
            } else if line == "end" {
                if let Some(s) = cur.take() {
                    out.push(s);
                }
            } else {
                let op = Op::parse(line).map_err(|e| format!("line {}: {}", ln + 1, e))?;
                match cur.as_mut() {
                    Some(s) => s.ops.push(op),
                    None => return Err(format!("line {}: op outside session", ln + 1)),
                }
            }
        }
        if let Some(s) = cur.take() {
            out.push(s);
        }
        Ok(out)
    }
}

pub enum AnyParser<'a> {
    C(Parser<'a, Tap>),
    B(ByteParser<'a, Tap>),
}

pub struct Runner<'a> {
    pub tap: Arc<Mutex<Tap>>,
    pub parser: AnyParser<'a>,
    pub snap: Option<Screen>,
    pub parser_dead: bool,
}

fn lock(t: &Arc<Mutex<Tap>>) -> std::sync::MutexGuard<'_, Tap> {
    match t.lock() {
        Ok(g) => g,
        Err(p) => p.into_inner(),
    }
}

impl<'a> Runner<'a> {
    pub fn new(columns: u32, lines: u32, bytes: bool) -> Runner<'a> {
        let tap = Arc::new(Mutex::new(Tap::new(columns, lines)));
        let parser = if bytes {
            AnyParser::B(ByteParser::new(tap.clone()))
        } else {
            AnyParser::C(Parser::new(tap.clone()))
        };
        Runner { tap, parser, snap: None, parser_dead: false }
    }

    pub fn dead(&self) -> bool {
        self.parser_dead || lock(&self.tap).dead
    }

    /// Execute one op; log lines are appended to the tap's `out`.
    pub fn step(&mut self, op: &Op) {
        if self.dead() {
            return;
        }
        match op {
            Op::Api(c) => lock(&self.tap).call(c.clone()),
            Op::Feed(s) => {
                if let AnyParser::C(p) = &mut self.parser {
                    {
                        let mut t = lock(&self.tap);
                        let q = if t.quiet { "FQ" } else { "F" };
                        t.out.push(format!("{} {}", q, nums(s)));
                    }
                    let r = catch_unwind(AssertUnwindSafe(|| p.feed(s.clone())));
                    let mut t = lock(&self.tap);
                    match r {
                        Ok(()) => {
                            if !t.quiet {
                                t.out.push("EF".to_string())
                            }
                        }
                        Err(e) => {
                            t.out.push(format!("PF {}", panic_msg(e)));
                            self.parser_dead = true;
                        }
                    }
                }
            }
            Op::FeedB(b) => {
                if let AnyParser::B(p) = &mut self.parser {
                    {
                        let mut t = lock(&self.tap);
                        let mut l = format!("{} {}", if t.quiet { "FBQ" } else { "FB" }, b.len());
                        for x in b {
                            l.push(' ');
                            l.push_str(&x.to_string());
                        }
                        t.out.push(l);
                    }
                    let r = catch_unwind(AssertUnwindSafe(|| p.feed(b)));
                    let mut t = lock(&self.tap);
                    match r {
                        Ok(()) => {
                            if !t.quiet {
                                t.out.push("EF".to_string())
                            }
                        }
                        Err(e) => {
                            t.out.push(format!("PF {}", panic_msg(e)));
                            self.parser_dead = true;
                        }
                    }
                }
            }
            Op::Charset(c) => {
                if let AnyParser::B(p) = &mut self.parser {
                    let before = lock(&self.tap).ncalls;
                    p.select_other_charset(c);
                    let mut t = lock(&self.tap);
                    if t.ncalls != before {
                        // a mode switch is not input: it must not reach the listener
                        let n = t.ncalls - before;
                        t.out.push(format!("XM {} select_other_charset", n));
                    }
                    t.out.push(format!("U {}", nums(c)));
                }
            }
            Op::Utf8(b) => {
                if let AnyParser::C(p) = &mut self.parser {
                    let before = lock(&self.tap).ncalls;
                    p.set_use_utf8(*b);
                    let mut t = lock(&self.tap);
                    if t.ncalls != before {
                        let n = t.ncalls - before;
                        t.out.push(format!("XM {} set_use_utf8", n));
                    }
                    t.out.push(format!("U8 {}", *b as u32));
                }
            }
            Op::Quiet(q) => lock(&self.tap).quiet = *q,
            Op::AutoClear(q) => lock(&self.tap).autoclear = *q,
            Op::Snap => {
                let t = lock(&self.tap);
                self.snap = Some(clone_screen(&t.screen));
            }
            Op::Back => {
                if let Some(s) = &self.snap {
                    let mut t = lock(&self.tap);
                    t.screen = clone_screen(s);
                }
            }
        }
    }
}

/// Run one session, returning its log lines.
pub fn run_session(s: &Session) -> Vec<String> {
    let mut out = vec![format!(
        "N {} {} {} {}",
        s.columns,
        s.lines,
        match (s.bytes, s.events_only) {
            (true, false) => "b",
            (false, false) => "c",
            (true, true) => "be",
            (false, true) => "ce",
        },
        s.id
    )];
    let r = catch_unwind(AssertUnwindSafe(|| {
        let mut r = Runner::new(s.columns, s.lines, s.bytes);
        if s.events_only {
            lock(&r.tap).events_only = true;
        }
        for op in &s.ops {
            r.step(op);
            if r.dead() {
                break;
            }
        }
        if s.events_only {
            let mut t = lock(&r.tap);
            return std::mem::take(&mut t.out);
        }
        // final state (so that the last post-state is always present)
        let mut t = lock(&r.tap);
        let d = crate::dump::dump(&t.screen);
        t.out.push(format!("Z {}", &d[2..]));
        std::mem::take(&mut t.out)
    }));
    match r {
        Ok(lines) => out.extend(lines),
        Err(e) => out.push(format!("PX {}", panic_msg(e))),
    }
    out
}
