//! Per-property session streams (generators + bounded-exhaustive enumerations)
//! and the model-free metamorphic checks.

use crate::call::Call;
use crate::exec::{Op, Session};
use crate::gen::{self, Rng};

fn focus_of(prop: &str) -> &'static str {
    match prop {
        "C04" => "draw",
        "C05" => "move",
        "C06" => "scroll",
        "C07" => "erase",
        "C08" => "sgr",
        "C10" => "display",
        "C12" => "mode",
        "C13" => "ichdch",
        "C14" => "save",
        "C16" => "resize",
        "C18" => "tabs",
        "C20" => "charset",
        "C15" => "misc",
        _ => "any",
    }
}

fn counts(tier: &str, quick: u32, thorough: u32) -> u32 {
    if tier == "thorough" {
        thorough
    } else {
        quick
    }
}

fn fill_markers(cols: u32, lines: u32, sparse: bool) -> Vec<Op> {
    let mut ops = vec![];
    for y in 0..lines {
        if sparse && y % 2 == 1 {
            continue;
        }
        ops.push(Op::Api(Call::CursorPosition(Some(y + 1), Some(1))));
        let t: String = (0..cols)
            .map(|x| char::from_u32('A' as u32 + ((y * cols + x) % 58)).unwrap())
            .collect();
        ops.push(Op::Api(Call::Sgr(vec![31 + (y % 6), 41 + ((y + 2) % 6)])));
        // draw char by char without wrapping at the end
        ops.push(Op::Api(Call::ResetMode(vec![7], true)));
        ops.push(Op::Api(Call::Draw(t)));
        ops.push(Op::Api(Call::SetMode(vec![7], true)));
    }
    ops.push(Op::Api(Call::Sgr(vec![0, 1, 35])));
    ops
}

fn param_set(size: u32) -> Vec<Option<u32>> {
    let mut v = vec![None, Some(0)];
    for k in 1..=(size + 2) {
        v.push(Some(k));
    }
    v.push(Some(9999));
    v
}

/// (margins, decom) variants for a geometry: None or every region, DECOM off/on.
fn regions(lines: u32) -> Vec<(Option<(u32, u32)>, bool)> {
    let mut out = vec![(None, false), (None, true)];
    for top in 0..lines {
        for bottom in (top + 1)..lines {
            out.push((Some((top, bottom)), false));
            out.push((Some((top, bottom)), true));
        }
    }
    out
}

fn region_setup(m: Option<(u32, u32)>, decom: bool) -> Vec<Op> {
    let mut v = vec![];
    if let Some((t, b)) = m {
        v.push(Op::Api(Call::SetMargins(Some(t + 1), Some(b + 1))));
    }
    if decom {
        v.push(Op::Api(Call::SetMode(vec![6], true)));
    }
    v
}

/// Ops that put the cursor at (cy, cx) (cx == cols: pending wrap) in a state
/// prepared by region_setup; None if the position is not reachable this way.
fn place(m: Option<(u32, u32)>, decom: bool, cols: u32, cy: u32, cx: u32) -> Option<Vec<Op>> {
    let mut v = vec![];
    let line = match (m, decom) {
        (Some((t, b)), true) => {
            if cy < t || cy > b {
                return None;
            }
            cy - t + 1
        }
        _ => cy + 1,
    };
    v.push(Op::Api(Call::CursorPosition(Some(line), Some(cx.min(cols - 1) + 1))));
    if cx == cols {
        v.push(Op::Api(Call::Draw("w".into())));
    }
    Some(v)
}

/// C05: exhaustive (geometry x margins x DECOM x cursor x op x parameter).
fn enum_c05(tier: &str, r: &mut Rng) -> Vec<Session> {
    let maxg = counts(tier, 3, 6);
    let keep = counts(tier, 5, 1);
    let mut out = vec![];
    let mut n = 0;
    for cols in 1..=maxg {
        for lines in 1..=maxg {
            let mut cands: Vec<Call> = vec![Call::Backspace, Call::CarriageReturn];
            for p in param_set(lines.max(cols)) {
                cands.push(Call::CursorUp(p));
                cands.push(Call::CursorDown(p));
                cands.push(Call::CursorForward(p));
                cands.push(Call::CursorBack(p));
                cands.push(Call::CursorDown1(p));
                cands.push(Call::CursorUp1(p));
                cands.push(Call::CursorToColumn(p));
                cands.push(Call::CursorToLine(p));
                for q in [None, Some(0), Some(1), Some(2), Some(cols), Some(cols + 1), Some(9999)] {
                    cands.push(Call::CursorPosition(p, q));
                    cands.push(Call::CursorPosition(q, p));
                }
            }
            for (m, decom) in regions(lines) {
                let mut ops = vec![Op::Quiet(true)];
                ops.extend(region_setup(m, decom));
                for cy in 0..lines {
                    for cx in 0..=cols {
                        if let Some(pl) = place(m, decom, cols, cy, cx) {
                            ops.extend(pl);
                            ops.push(Op::Snap);
                            ops.push(Op::Quiet(false));
                            for c in &cands {
                                if keep == 1 || r.below(keep) == 0 {
                                    push_cand(r, &mut ops, c);
                                    ops.push(Op::Back);
                                }
                            }
                            ops.push(Op::Quiet(true));
                        }
                    }
                }
                n += 1;
                out.push(Session { columns: cols, lines, bytes: false, id: format!("c05e{}", n), ops });
            }
        }
    }
    out
}

/// Push a candidate either as an API call or through its escape sequence.
fn push_cand(r: &mut Rng, ops: &mut Vec<Op>, c: &Call) {
    if r.chance(1, 3) {
        if let Some(s) = gen::render(r, c) {
            ops.push(Op::Feed(s));
            return;
        }
    }
    ops.push(Op::Api(c.clone()));
}

pub fn generate(prop: &str, tier: &str, seed: u64) -> Vec<Session> {
    let mut r = Rng::new(seed ^ (prop.bytes().fold(0u64, |a, b| a * 131 + b as u64)));
    let mut out = vec![];
    let focus = focus_of(prop);
    let nsess = counts(tier, 200, 4000);
    for i in 0..nsess {
        let mut rr = r.fork();
        let bytes = match prop {
            "C11" => true,
            _ => rr.chance(1, 4),
        };
        let via = match prop {
            "C03" | "C19" => 1,
            _ => rr.below(3),
        };
        let nops = rr.range(5, 60);
        out.push(gen::session(&mut rr, format!("{}g{}", prop, i), focus, nops, via, bytes));
    }
    match prop {
        "C05" => out.extend(enum_c05(tier, &mut r)),
        _ => {}
    }
    let _ = fill_markers;
    out
}

pub fn meta(_prop: &str, _tier: &str, _seed: u64) -> String {
    String::new()
}
